package main

import (
	"crypto/sha256"
	"encoding/hex"
	"encoding/json"
	"fmt"
	"os"
	"path/filepath"

	"golang.org/x/text/unicode/norm"
	"verif/internal/harness"
)

// refSHA256 pins the committed reference file ref/pdfjs_encodings.json (written by
// tools/extract_pdfjs_tables.py from pdf.js 2.14.305). A changed file is a harness error,
// never a verdict.
const refSHA256 = "5a9ab9f67f6b24a14f042ad4bc58eb1c5f44bd8cdf4cbf75f6760c39c902569e"

type refFile struct {
	Source     string              `json:"source"`
	Encodings  map[string][]*int   `json:"encodings"`
	GlyphNames map[string][]string `json:"glyph_names"`
}

var encNames = []string{"StandardEncoding", "MacRomanEncoding", "WinAnsiEncoding", "PDFDocEncoding", "SymbolEncoding", "ZapfDingbatsEncoding"}

func loadRef() *refFile {
	p := filepath.Join(harness.Root, "ref", "pdfjs_encodings.json")
	b, err := os.ReadFile(p)
	if err != nil {
		fmt.Fprintf(os.Stderr, "C07: cannot read reference tables: %v\n", err)
		os.Exit(2)
	}
	sum := sha256.Sum256(b)
	if hex.EncodeToString(sum[:]) != refSHA256 {
		fmt.Fprintf(os.Stderr, "C07: %s has sha256 %s, expected %s (regenerate with tools/extract_pdfjs_tables.py and update refSHA256 deliberately)\n", p, hex.EncodeToString(sum[:]), refSHA256)
		os.Exit(2)
	}
	var r refFile
	if err := json.Unmarshal(b, &r); err != nil {
		fmt.Fprintf(os.Stderr, "C07: %v\n", err)
		os.Exit(2)
	}
	for _, n := range encNames {
		if len(r.Encodings[n]) != 256 || len(r.GlyphNames[n]) != 256 {
			fmt.Fprintf(os.Stderr, "C07: reference table %s incomplete\n", n)
			os.Exit(2)
		}
	}
	return &r
}

// cellRef is what the reference demands of one (encoding, code) cell after the documented tolerances.
type cellRef struct {
	constrained bool
	alts        []string // acceptable decoded texts, already NFC
	class       string   // why the cell is (un)constrained — becomes part of the outcome class
	glyph       string
	refCP       int // raw reference code point (-1: undefined)
}

func nfc(s string) string { return norm.NFC.String(s) }

// expectCell applies exactly the tolerances of DESIGN.md C07:
//   - codes the encoding leaves undefined are unconstrained (reference glyph name "");
//     this includes the WinAnsi "bullet" fillers 7F/81/8D/8F/90/9D and PDFDocEncoding 7F/9F/AD
//     and the PDFDocEncoding control range below 0x18 other than HT/LF/CR (pdf.js' translate
//     table has 0 there = "keep the byte", ISO 32000-1 D.2 marks them undefined);
//   - reference values in the private-use area are unconstrained (Symbol's extender pieces,
//     serif/sans trademark variants, MacRoman "apple");
//   - the documented duplicates space/nbspace (WinAnsi A0, MacRoman CA) and hyphen/sfthyphen
//     (WinAnsi AD) accept either member;
//   - Adobe's own double mappings for the Symbol font (symbol.txt vs glyphlist.txt):
//     Delta 0394|2206, Omega 03A9|2126, mu 00B5|03BC;
//   - comparison after NFC on both sides.
func (r *refFile) expectCell(enc string, code int) cellRef {
	name := r.GlyphNames[enc][code]
	p := r.Encodings[enc][code]
	c := cellRef{glyph: name, refCP: -1}
	if p == nil {
		c.class = "undefined"
		return c
	}
	cp := *p
	c.refCP = cp
	switch enc {
	case "PDFDocEncoding":
		if code < 0x18 && code != 0x09 && code != 0x0A && code != 0x0D {
			c.class = "undefined-control"
			return c
		}
		if code == 0x7F || code == 0x9F || code == 0xAD {
			c.class = "undefined"
			return c
		}
	case "WinAnsiEncoding":
		if name == "bullet" && code != 0x95 {
			c.class = "undefined-bullet-filler"
			return c
		}
	}
	if cp >= 0xE000 && cp <= 0xF8FF {
		c.class = "private-use-reference"
		return c
	}
	c.constrained = true
	c.class = "defined"
	alts := []int{cp}
	switch {
	case name == "space" && code != 0x20:
		alts = []int{0x20, 0xA0}
		c.class = "defined-duplicate"
	case name == "hyphen" && code != 0x2D:
		alts = []int{0x2D, 0xAD}
		c.class = "defined-duplicate"
	case enc == "SymbolEncoding" && name == "Delta":
		alts = []int{0x0394, 0x2206}
		c.class = "defined-symbol-double"
	case enc == "SymbolEncoding" && name == "Omega":
		alts = []int{0x03A9, 0x2126}
		c.class = "defined-symbol-double"
	case enc == "SymbolEncoding" && name == "mu":
		alts = []int{0x00B5, 0x03BC}
		c.class = "defined-symbol-double"
	}
	seen := map[string]bool{}
	for _, a := range alts {
		s := nfc(string(rune(a)))
		if !seen[s] {
			seen[s] = true
			c.alts = append(c.alts, s)
		}
	}
	return c
}

func (c cellRef) accepts(got string) bool {
	for _, a := range c.alts {
		if a == got {
			return true
		}
	}
	return false
}

func quoteU(s string) string {
	out := ""
	for _, r := range s {
		out += fmt.Sprintf("U+%04X ", r)
	}
	if out == "" {
		return "(empty)"
	}
	return out[:len(out)-1]
}
