package main

import (
	"bytes"
	"compress/zlib"
	"fmt"
	"hash/adler32"
	"unicode/utf8"

	"github.com/tsawler/tabula/font"
	"verif/internal/harness"
)

// zl wraps b into a valid zlib stream made of stored (uncompressed) deflate blocks. The Flate
// decoder itself is the subject of C05; here the filter only has to be present and cheap.
func zl(b []byte) []byte {
	out := []byte{0x78, 0x01}
	rest := b
	for {
		n := len(rest)
		final := byte(1)
		if n > 65535 {
			n, final = 65535, 0
		}
		out = append(out, final, byte(n), byte(n>>8), ^byte(n), ^byte(n>>8))
		out = append(out, rest[:n]...)
		rest = rest[n:]
		if final == 1 {
			break
		}
	}
	a := adler32.Checksum(b)
	return append(out, byte(a>>24), byte(a>>16), byte(a>>8), byte(a))
}

// zlReal compresses with compress/zlib (used where a realistically compressed stream matters).
func zlReal(b []byte) []byte {
	var buf bytes.Buffer
	w := zlib.NewWriter(&buf)
	w.Write(b)
	w.Close()
	return buf.Bytes()
}

// encVia is one way of reaching an encoding table from the outside.
type encVia struct {
	name string
	// sel is how the route selects the table: "direct" (GetEncoding / Font.Encoding by name), "name"
	// (/Encoding name or /BaseEncoding in a font dictionary) or "builtin" (no /Encoding: the base
	// font's built-in encoding). It is a descriptor token of its own.
	sel string
	// spec returns the font configuration that, per ISO 32000-1 9.6.6, selects encoding enc;
	// ok=false when this route cannot express enc (e.g. /Encoding /SymbolEncoding is not a PDF name).
	spec func(enc string) (fontSpec, bool)
	run  func(fs fontSpec, enc string, code byte) (string, []byte, error)
}

var pdfNamedEncodings = map[string]bool{"WinAnsiEncoding": true, "MacRomanEncoding": true}

// builtinBase: simple Type1 fonts without /Encoding use the font's built-in encoding
// (ISO 32000-1 9.6.6.1, Table 111 "Encoding"; Annex D.1, D.5, D.6): StandardEncoding for the Latin
// standard-14 fonts, the Symbol and ZapfDingbats encodings for those two fonts.
var builtinBase = map[string]string{"StandardEncoding": "Times-Roman", "SymbolEncoding": "Symbol", "ZapfDingbatsEncoding": "ZapfDingbats"}

func specNamed(subtype string, dict bool) func(string) (fontSpec, bool) {
	return func(enc string) (fontSpec, bool) {
		if !pdfNamedEncodings[enc] {
			return fontSpec{}, false
		}
		return fontSpec{subtype: subtype, baseFont: "Helvetica", encoding: enc, encDict: dict}, true
	}
}

func specBuiltin(enc string) (fontSpec, bool) {
	b, ok := builtinBase[enc]
	if !ok {
		return fontSpec{}, false
	}
	return fontSpec{subtype: "Type1", baseFont: b}, true
}

func runFontObject(fs fontSpec, enc string, code byte) (string, []byte, error) {
	d, res := fs.objects()
	var f *font.Font
	switch fs.subtype {
	case "Type1":
		t, err := font.NewType1Font(d, res)
		if err != nil {
			return "", nil, err
		}
		f = t.Font
	case "TrueType":
		t, err := font.NewTrueTypeFont(d, res)
		if err != nil {
			return "", nil, err
		}
		f = t.Font
	case "Type0":
		t, err := font.NewType0Font(d, res)
		if err != nil {
			return "", nil, err
		}
		f = t.Font
	}
	return f.DecodeString([]byte{code}), nil, nil
}

func runExtractor(fs fontSpec, enc string, code byte) (string, []byte, error) {
	t, err := viaExtractor(fs, [][]byte{{code}})
	if err != nil {
		return "", nil, err
	}
	return t[0], nil, nil
}

func runPDF(fs fontSpec, enc string, code byte) (string, []byte, error) {
	t, data, err := viaPDF(fs, [][]byte{{code}})
	if err != nil {
		return "", data, err
	}
	return t[0], data, nil
}

var encVias = []encVia{
	{"table", "direct", nil, func(_ fontSpec, enc string, code byte) (string, []byte, error) {
		e := font.GetEncoding(enc)
		if e.Name() != enc {
			return "", nil, fmt.Errorf("GetEncoding(%q) returned %q", enc, e.Name())
		}
		s := e.DecodeString([]byte{code})
		// Decode and DecodeString must agree (0 = unmapped = dropped)
		r := e.Decode(code)
		if (r == 0 && s != "") || (r != 0 && s != string(r)) {
			return "", nil, fmt.Errorf("Decode(%02X)=U+%04X but DecodeString=%q", code, r, s)
		}
		return nfc(s), nil, nil
	}},
	{"api", "direct", nil, func(_ fontSpec, enc string, code byte) (string, []byte, error) {
		return font.DecodeWithEncoding([]byte{code}, enc), nil, nil
	}},
	{"font", "direct", nil, func(_ fontSpec, enc string, code byte) (string, []byte, error) {
		f := font.NewFont("F1", "Helvetica", "Type1")
		f.Encoding = enc
		return f.DecodeString([]byte{code}), nil, nil
	}},
	{"t1-name", "name", specNamed("Type1", false), runFontObject},
	{"t1-dict", "name", specNamed("Type1", true), runFontObject},
	{"tt-name", "name", specNamed("TrueType", false), runFontObject},
	{"tt-dict", "name", specNamed("TrueType", true), runFontObject},
	{"t1-builtin", "builtin", specBuiltin, runFontObject},
	{"ext-t1-name", "name", specNamed("Type1", false), runExtractor},
	{"ext-tt-name", "name", specNamed("TrueType", false), runExtractor},
	{"ext-t1-builtin", "builtin", specBuiltin, runExtractor},
	{"pdf-t1-name", "name", specNamed("Type1", false), runPDF},
	{"pdf-tt-dict", "name", specNamed("TrueType", true), runPDF},
	{"pdf-t1-builtin", "builtin", specBuiltin, runPDF},
}

// encodings: sub-space (1) — 6 encodings x 256 codes x every route to the table.
func encodings(e *harness.Env, ref *refFile) {
	for _, enc := range encNames {
		for code := 0; code < 256; code++ {
			cell := ref.expectCell(enc, code)
			for _, via := range encVias {
				var fs fontSpec
				if via.spec != nil {
					var ok bool
					if fs, ok = via.spec(enc); !ok {
						continue
					}
				}
				desc := D("space", "enc", "encoding", enc, "code", fmt.Sprintf("%02X", code), "via", via.name, "select", via.sel,
					"row", fmt.Sprintf("%s:%X", enc, code>>4))
				if !e.Own(desc) {
					continue
				}
				e.Begin(desc)
				var got string
				var file []byte
				var err error
				sig, det := harness.Guard(func() { got, file, err = via.run(fs, enc, byte(code)) })
				files := map[string][]byte{}
				if file != nil {
					files["input.pdf"] = file
				}
				switch {
				case sig != "":
					e.Fail(desc, sig, det, files)
					continue
				case err != nil:
					e.Fail(desc, "enc-route-error", err.Error(), files)
					continue
				case !utf8.ValidString(got):
					e.Fail(desc, "invalid-utf8", fmt.Sprintf("% x", got), files)
					continue
				case nfc(got) != got:
					e.Fail(desc, "not-nfc", quoteU(got), files)
					continue
				}
				if !cell.constrained {
					e.Pass(desc, false, "enc:unconstrained:"+cell.class)
					continue
				}
				if !cell.accepts(got) {
					s := "enc-wrong"
					if got == "" {
						s = "enc-unmapped"
					}
					e.Fail(desc, s, fmt.Sprintf("%s code %02X (glyph %q): reference %s, tabula %s", enc, code, cell.glyph, quoteAlts(cell.alts), quoteU(got)), files)
					continue
				}
				e.Pass(desc, code >= 0x80 || cell.refCP != code, "enc:"+cell.class)
			}
		}
	}
}

func quoteAlts(a []string) string {
	s := ""
	for i, x := range a {
		if i > 0 {
			s += " | "
		}
		s += quoteU(x)
	}
	return s
}
