package main

import (
	"fmt"
	"strings"

	"github.com/tsawler/tabula/core"
	"github.com/tsawler/tabula/font"
	"verif/internal/harness"
)

// The ToUnicode path has its own UTF-16BE decoder (font.decodeUTF16BE behind hexToUnicode /
// bfrange expansion), separate from DecodeUTF16BE/LE. Two sub-spaces give it the same treatment
// as the BOM decoders:
//
//	cmapScalars  every Unicode scalar value as a ToUnicode target in each of the three entry forms
//	             (bfchar, bfrange offset, bfrange array element), one 256-code-point block per program;
//	cmapAstral   the boundary code points of the surrogate arithmetic in every multi-unit mix.

// scalarBlockProgram maps the 2-byte codes 0100..01FF to the 256 code points of block b in the given form.
func scalarBlockProgram(b int, form string) ([]byte, []mapping) {
	var sb strings.Builder
	sb.WriteString("/CIDInit /ProcSet findresource begin\n12 dict begin\nbegincmap\n/CMapType 2 def\n1 begincodespacerange\n<0000> <FFFF>\nendcodespacerange\n")
	var maps []mapping
	var cps []rune
	for r := rune(b << 8); r < rune(b<<8+256); r++ {
		cps = append(cps, r)
	}
	for i, r := range cps {
		maps = append(maps, mapping{[]byte{0x01, byte(i)}, string(r)})
	}
	switch form {
	case "bfchar":
		// sections hold at most 100 entries
		for i := 0; i < 256; i += 100 {
			n := 256 - i
			if n > 100 {
				n = 100
			}
			fmt.Fprintf(&sb, "%d beginbfchar\n", n)
			for j := i; j < i+n; j++ {
				fmt.Fprintf(&sb, "<%04X> <%s>\n", 0x0100+j, hexUnits(u16(string(cps[j])), false))
			}
			sb.WriteString("endbfchar\n")
		}
	case "offset":
		// one range: only the last byte of the code and of the target runs (00..FF); for a
		// supplementary block that is the low byte of the low surrogate, the high surrogate is constant
		fmt.Fprintf(&sb, "1 beginbfrange\n<0100> <01FF> <%s>\nendbfrange\n", hexUnits(u16(string(cps[0])), false))
	case "array":
		sb.WriteString("1 beginbfrange\n<0100> <01FF> [")
		for j, r := range cps {
			if j%8 == 0 {
				sb.WriteString("\n")
			} else {
				sb.WriteString(" ")
			}
			sb.WriteString("<" + hexUnits(u16(string(r)), false) + ">")
		}
		sb.WriteString("\n]\nendbfrange\n")
	}
	sb.WriteString("endcmap\nCMapName currentdict /CMap defineresource pop\nend\nend\n")
	return []byte(sb.String()), maps
}

func cmapScalars(e *harness.Env) {
	for b := 0; b < 0x1100; b++ {
		if b >= 0xD8 && b <= 0xDF {
			continue
		}
		if !e.Thorough() && !quickBlock(b) {
			continue
		}
		for _, form := range []string{"bfchar", "offset", "array"} {
			for _, via := range []string{"cmap", "font"} {
				desc := D("space", "cmapu16", "block", fmt.Sprintf("%04X", b<<8), "form", form, "via", via)
				if !e.Own(desc) {
					continue
				}
				e.Begin(desc)
				prog, maps := scalarBlockProgram(b, form)
				var dec decoder
				var err error
				sig, det := harness.Guard(func() {
					cm, perr := font.ParseToUnicodeCMap(&core.Stream{Dict: core.Dict{}, Data: prog})
					if perr != nil {
						err = perr
						return
					}
					dec = cm.LookupString
					if via == "font" {
						f := font.NewFont("F1", "ABCDEF+Arial", "Type0")
						f.ToUnicodeCMap = cm
						dec = f.DecodeString
					}
				})
				files := map[string][]byte{"tounicode.cmap": prog}
				if sig != "" {
					e.Fail(desc, sig, det, files)
					continue
				}
				if err != nil {
					e.Fail(desc, "tounicode-rejected", err.Error(), files)
					continue
				}
				var all []byte
				wantAll := ""
				for _, m := range maps {
					var got string
					if s, d := harness.Guard(func() { got = dec(m.code) }); s != "" {
						sig, det = s, d
						break
					}
					if s, d := compareText(got, m.want, via == "font"); s != "" {
						sig, det = s, fmt.Sprintf("code <%X> (target %s): %s", m.code, quoteU(m.want), d)
						break
					}
					all = append(all, m.code...)
					wantAll += m.want
				}
				if sig == "" {
					var got string
					if s, d := harness.Guard(func() { got = dec(all) }); s != "" {
						sig, det = s, d
					} else if nfc(got) != nfc(wantAll) {
						sig, det = "tounicode-wrong", "the 256 codes decoded as one string differ from the 256 targets"
					}
				}
				if sig != "" {
					e.Fail(desc, sig, det, files)
					continue
				}
				e.Add("cmap_scalar_targets_decoded", 256)
				cls := "bmp"
				if b >= 0x100 {
					cls = "supplementary"
				}
				e.Pass(desc, true, "cmapu16:"+cls+":"+form)
			}
		}
	}
}

// astralBoundaries: first/last code points of planes 1, 2, 14, 15, 16 and a few interior ones; high
// surrogates D800, D83F, D840, DB40, DB7F, DB80, DBBF, DBC0, DBFF, low surrogates DC00 / DFFF and interior.
var astralBoundaries = []rune{0x10000, 0x103FF, 0x10400, 0x1F600, 0x1FFFF, 0x20000, 0x20BB7, 0x2FFFF, 0x30000, 0xE0001, 0xEFFFF, 0xF0000, 0xFFFFD, 0xFFFFF, 0x100000, 0x10FC00, 0x10FFFD, 0x10FFFF}

// cmapAstral: for every boundary code point, programs whose targets put it (and its neighbours inside
// the same high surrogate) into every form and multi-unit mix; observed like the main cmap sub-space.
func cmapAstral(e *harness.Env) {
	for _, cp := range astralBoundaries {
		// three consecutive code points inside one high surrogate, containing cp
		c0 := cp
		if cp&0x3FF > 0x3FD {
			c0 = cp - 2
		}
		s := func(r rune) string { return string(r) }
		targets := map[string][]string{
			"cS": {s(cp)},
			"cM": {"x" + s(cp)},
			"cQ": {"f" + s(cp) + "i"},
			"rS": {s(c0), s(c0 + 1), s(c0 + 2)},
			"rM": {"f" + s(c0), "f" + s(c0+1), "f" + s(c0+2)},
			"rQ": {s(cp) + "fi", s(cp) + "fj", s(cp) + "fk"},
			"rB": {s(cp), "x" + s(cp), "f" + s(cp) + "i"},
			"rA": {"א", s(cp) + s(cp), s(c0 + 2)},
		}
		progs := [][]string{
			{"cS", "cM", "cQ"}, // bfchar forms
			{"rS", "rM", "rQ"}, // offset forms in a section without arrays
			{"rB", "rS", "rM"}, // array + offset forms in one section
			{"rQ", "rA", "rB"}, // offset first, then arrays
		}
		for _, prog := range progs {
			for _, w := range []int{1, 2, 4} {
				entries := make([]entry, len(prog))
				for i, k := range prog {
					entries[i] = makeEntry(k, i, w, append([]string{}, targets[k]...))
				}
				for _, format := range []string{"lines", "oneline", "nospace"} {
					for _, sec := range []string{"grouped", "split"} {
						for _, via := range cmapVias {
							if !hasWidth(via.widths, w) || via.limit(e.Thorough()) > 0 {
								continue // the per-string PDF routes are exercised by the main sub-space
							}
							cmapGroup(e, prog, entries, w, format, sec, via, "astral", fmt.Sprintf("U+%X", cp))
						}
					}
				}
			}
		}
	}
}
