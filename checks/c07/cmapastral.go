package main

import (
	"fmt"
	"strings"
	"unicode/utf16"

	"github.com/tsawler/tabula/core"
	"github.com/tsawler/tabula/font"
	"verif/internal/harness"
)

// The ToUnicode path has its own UTF-16BE decoder (font.decodeUTF16BE behind hexToUnicode /
// bfrange expansion), separate from DecodeUTF16BE/LE. Two sub-spaces give it the same treatment
// as the BOM decoders:
//
//	cmapScalars  every Unicode scalar value as a ToUnicode target in each of the three entry forms
//	             (bfchar, bfrange offset, bfrange array element), one 256-code-point block per program;
//	cmapAstral   the boundary code points of the surrogate arithmetic in every multi-unit mix.

// scalarBlockProgram maps the 2-byte codes 0100..01FF to the 256 code points of block b in the given form.
func scalarBlockProgram(b int, form string) ([]byte, []mapping) {
	var sb strings.Builder
	sb.WriteString("/CIDInit /ProcSet findresource begin\n12 dict begin\nbegincmap\n/CMapType 2 def\n1 begincodespacerange\n<0000> <FFFF>\nendcodespacerange\n")
	var maps []mapping
	var cps []rune
	for r := rune(b << 8); r < rune(b<<8+256); r++ {
		cps = append(cps, r)
	}
	for i, r := range cps {
		maps = append(maps, mapping{[]byte{0x01, byte(i)}, string(r)})
	}
	switch form {
	case "bfchar":
		// sections hold at most 100 entries
		for i := 0; i < 256; i += 100 {
			n := 256 - i
			if n > 100 {
				n = 100
			}
			fmt.Fprintf(&sb, "%d beginbfchar\n", n)
			for j := i; j < i+n; j++ {
				fmt.Fprintf(&sb, "<%04X> <%s>\n", 0x0100+j, hexUnits(u16(string(cps[j])), false))
			}
			sb.WriteString("endbfchar\n")
		}
	case "offset":
		// one range: only the last byte of the code and of the target runs (00..FF); for a
		// supplementary block that is the low byte of the low surrogate, the high surrogate is constant
		fmt.Fprintf(&sb, "1 beginbfrange\n<0100> <01FF> <%s>\nendbfrange\n", hexUnits(u16(string(cps[0])), false))
	case "array":
		sb.WriteString("1 beginbfrange\n<0100> <01FF> [")
		for j, r := range cps {
			if j%8 == 0 {
				sb.WriteString("\n")
			} else {
				sb.WriteString(" ")
			}
			sb.WriteString("<" + hexUnits(u16(string(r)), false) + ">")
		}
		sb.WriteString("\n]\nendbfrange\n")
	}
	sb.WriteString("endcmap\nCMapName currentdict /CMap defineresource pop\nend\nend\n")
	return []byte(sb.String()), maps
}

func cmapScalars(e *harness.Env) {
	for b := 0; b < 0x1100; b++ {
		if b >= 0xD8 && b <= 0xDF {
			continue
		}
		if !e.Thorough() && !quickBlock(b) {
			continue
		}
		for _, form := range []string{"bfchar", "offset", "array"} {
			for _, via := range []string{"cmap", "font"} {
				desc := D("space", "cmapu16", "block", fmt.Sprintf("%04X", b<<8), "form", form, "via", via)
				if !e.Own(desc) {
					continue
				}
				e.Begin(desc)
				prog, maps := scalarBlockProgram(b, form)
				var dec decoder
				var err error
				sig, det := harness.Guard(func() {
					cm, perr := font.ParseToUnicodeCMap(&core.Stream{Dict: core.Dict{}, Data: prog})
					if perr != nil {
						err = perr
						return
					}
					dec = cm.LookupString
					if via == "font" {
						f := font.NewFont("F1", "ABCDEF+Arial", "Type0")
						f.ToUnicodeCMap = cm
						dec = f.DecodeString
					}
				})
				files := map[string][]byte{"tounicode.cmap": prog}
				if sig != "" {
					e.Fail(desc, sig, det, files)
					continue
				}
				if err != nil {
					e.Fail(desc, "tounicode-rejected", err.Error(), files)
					continue
				}
				var all []byte
				wantAll := ""
				for _, m := range maps {
					var got string
					if s, d := harness.Guard(func() { got = dec(m.code) }); s != "" {
						sig, det = s, d
						break
					}
					if s, d := compareText(got, m.want, via == "font"); s != "" {
						sig, det = s, fmt.Sprintf("code <%X> (target %s): %s", m.code, quoteU(m.want), d)
						break
					}
					all = append(all, m.code...)
					wantAll += m.want
				}
				if sig == "" {
					var got string
					if s, d := harness.Guard(func() { got = dec(all) }); s != "" {
						sig, det = s, d
					} else if nfc(got) != nfc(wantAll) {
						sig, det = "tounicode-wrong", "the 256 codes decoded as one string differ from the 256 targets"
					}
				}
				if sig != "" {
					e.Fail(desc, sig, det, files)
					continue
				}
				e.Add("cmap_scalar_targets_decoded", 256)
				cls := "bmp"
				if b >= 0x100 {
					cls = "supplementary"
				}
				e.Pass(desc, true, "cmapu16:"+cls+":"+form)
			}
		}
	}
}

// astralBoundaries: first/last code points of planes 1, 2, 14, 15, 16 and a few interior ones; high
// surrogates D800, D83F, D840, DB40, DB7F, DB80, DBBF, DBC0, DBFF, low surrogates DC00 / DFFF and interior.
var astralBoundaries = []rune{0x10000, 0x103FF, 0x10400, 0x1F600, 0x1FFFF, 0x20000, 0x20BB7, 0x2FFFF, 0x30000, 0xE0001, 0xEFFFF, 0xF0000, 0xFFFFD, 0xFFFFF, 0x100000, 0x10FC00, 0x10FFFD, 0x10FFFF}

// cmapAstral: for every boundary code point, programs whose targets put it (and its neighbours inside
// the same high surrogate) into every form and multi-unit mix; observed like the main cmap sub-space.
func cmapAstral(e *harness.Env) {
	for _, cp := range astralBoundaries {
		// three consecutive code points inside one high surrogate, containing cp
		c0 := cp
		if cp&0x3FF > 0x3FD {
			c0 = cp - 2
		}
		s := func(r rune) string { return string(r) }
		targets := map[string][]string{
			"cS": {s(cp)},
			"cM": {"x" + s(cp)},
			"cQ": {"f" + s(cp) + "i"},
			"rS": {s(c0), s(c0 + 1), s(c0 + 2)},
			"rM": {"f" + s(c0), "f" + s(c0+1), "f" + s(c0+2)},
			"rQ": {s(cp) + "fi", s(cp) + "fj", s(cp) + "fk"},
			"rB": {s(cp), "x" + s(cp), "f" + s(cp) + "i"},
			"rA": {"א", s(cp) + s(cp), s(c0 + 2)},
		}
		progs := [][]string{
			{"cS", "cM", "cQ"}, // bfchar forms
			{"rS", "rM", "rQ"}, // offset forms in a section without arrays
			{"rB", "rS", "rM"}, // array + offset forms in one section
			{"rQ", "rA", "rB"}, // offset first, then arrays
		}
		for _, prog := range progs {
			for _, w := range []int{1, 2, 4} {
				entries := make([]entry, len(prog))
				for i, k := range prog {
					entries[i] = makeEntry(k, i, w, append([]string{}, targets[k]...))
				}
				for _, format := range []string{"lines", "oneline", "nospace"} {
					for _, sec := range []string{"grouped", "split"} {
						for _, via := range cmapVias {
							if !hasWidth(via.widths, w) || via.limit(e.Thorough()) > 0 {
								continue // the per-string PDF routes are exercised by the main sub-space
							}
							cmapGroup(e, prog, entries, w, format, sec, via, "astral", fmt.Sprintf("U+%X", cp))
						}
					}
				}
			}
		}
	}
}

// cmapCarry: offset-form bfranges whose destination's last UTF-16 unit crosses a multiple of 0x100
// inside the range (..FD/..FE/..FF -> ..00), at every position of ranges of 2..4 codes, for every
// destination shape (1 unit, 2-unit string, surrogate pair, BMP + pair, 3 and 4 units).
//
// Reading that is demanded (written down because ISO 32000-1 9.10.3 only says "the last byte of the
// string shall be incremented" and calls a last byte running past 255 undefined): the increment
// carries from the low into the high byte of the LAST UTF-16 code unit. This is what the pinned
// independent reference does (pdf.js 2.14.305 CMap.mapBfRange: "nextCharCode > 0xff" bumps the
// preceding byte), what tabula itself does for one-unit destinations (integer arithmetic on
// StartUnicode), and what producers rely on (<0000> <FFFF> <0000>). Left out as undefined: a last
// unit that would leave its class — a low surrogate running past DFFF, a BMP unit running into
// D800..DFFF or past FFFF. Source codes always share all bytes but the last (Adobe TN 5014: the codes
// of a range differ only in their last byte), so a source range crossing ..FF -> ..00 is not generated.
func cmapCarry(e *harness.Env) {
	type shape struct {
		kind   string // form label (number / kind of units), reusing the kinds of the main alphabet
		prefix string // units before the last one
		pair   bool   // the last unit is a low surrogate (the unit before it is the high surrogate)
	}
	shapes := []shape{
		{"rO", "", false}, {"rL", "f", false}, {"rT", "ff", false}, {"rQ", "\U0001D400f", false},
		{"rS", "", true}, {"rM", "f", true}, {"rQ", "fi", true},
	}
	for _, sh := range shapes {
		var starts [][]uint16 // the last one or two units of the first target
		if sh.pair {
			for _, hi := range []uint16{0xD835, 0xDBFF} {
				for _, lh := range []uint16{0xDC, 0xDD, 0xDE} {
					for _, ll := range []uint16{0xFD, 0xFE, 0xFF} {
						starts = append(starts, []uint16{hi, lh<<8 | ll})
					}
				}
			}
		} else {
			for _, h := range []uint16{0x00, 0x01, 0x20, 0xFE} {
				for _, l := range []uint16{0xFD, 0xFE, 0xFF} {
					starts = append(starts, []uint16{h<<8 | l})
				}
			}
		}
		for _, st := range starts {
			for n := 2; n <= 4; n++ {
				var targets []string
				for i := 0; i < n; i++ {
					u := append(u16(sh.prefix), st...)
					u[len(u)-1] += uint16(i) // carries into the high byte of the last unit, never out of its class (see the start values)
					targets = append(targets, string(utf16Decode(u)))
				}
				crosses := st[len(st)-1]&0xFF+uint16(n-1) > 0xFF
				for _, prog := range [][]string{{sh.kind}, {"rA", sh.kind}, {sh.kind, "rB"}} {
					for _, w := range []int{1, 2} {
						entries := make([]entry, len(prog))
						for i, k := range prog {
							if k == sh.kind {
								entries[i] = makeEntry(k, i, w, append([]string{}, targets...))
							} else {
								entries[i] = buildEntry(k, i, w)
							}
						}
						for _, format := range []string{"lines", "secline"} {
							for _, via := range cmapVias {
								if !hasWidth(via.widths, w) || via.limit(e.Thorough()) > 0 {
									continue
								}
								cmapGroup(e, prog, entries, w, format, "grouped", via,
									"carry", hexUnits(append(u16(sh.prefix), st...), false), "len", n, "crosses", yn(crosses))
							}
						}
					}
				}
			}
		}
	}
}

func utf16Decode(u []uint16) []rune { return utf16.Decode(u) }
