package main

import (
	"bytes"
	"fmt"
	"os"
	"path/filepath"
	"strings"
	"unicode/utf8"

	"github.com/tsawler/tabula"
	"github.com/tsawler/tabula/core"
	"github.com/tsawler/tabula/text"
	"verif/internal/harness"
)

// fontSpec is a logical font configuration; it is rendered either into core objects (font
// constructors, text.Extractor) or into a minimal PDF file (tabula.Open).
type fontSpec struct {
	subtype   string // Type1 | TrueType | Type0
	baseFont  string
	encoding  string // "" = absent; otherwise the /Encoding name (or Identity-H for Type0)
	encDict   bool   // /Encoding << /Type /Encoding /BaseEncoding /<encoding> >>
	toUnicode []byte // nil = none
	tuFlate   bool   // ToUnicode stream is FlateDecode'd (stored deflate blocks)
	tuZlib    bool   // with tuFlate: really compressed by compress/zlib
	tuDirect  bool   // ToUnicode stream given as a direct object instead of a reference (core objects only)
}

func (fs fontSpec) deflate(b []byte) []byte {
	if fs.tuZlib {
		return zlReal(b)
	}
	return zl(b)
}

// objects renders the font dictionary as core objects and a resolver for the references used.
func (fs fontSpec) objects() (core.Dict, func(core.IndirectRef) (core.Object, error)) {
	table := map[int]core.Object{}
	d := core.Dict{"Type": core.Name("Font"), "Subtype": core.Name(fs.subtype), "BaseFont": core.Name(fs.baseFont)}
	if fs.encoding != "" {
		if fs.encDict {
			d["Encoding"] = core.Dict{"Type": core.Name("Encoding"), "BaseEncoding": core.Name(fs.encoding)}
		} else {
			d["Encoding"] = core.Name(strings.TrimPrefix(fs.encoding, "\x00empty")) // "\x00empty" stands for the empty name
		}
	}
	if fs.subtype == "Type0" {
		table[20] = core.Dict{"Type": core.Name("Font"), "Subtype": core.Name("CIDFontType2"), "BaseFont": core.Name(fs.baseFont),
			"CIDSystemInfo": core.Dict{"Registry": core.String("Adobe"), "Ordering": core.String("Identity"), "Supplement": core.Int(0)}, "DW": core.Int(1000)}
		d["DescendantFonts"] = core.Array{core.IndirectRef{Number: 20, Generation: 0}}
	}
	if fs.toUnicode != nil {
		st := &core.Stream{Dict: core.Dict{}, Data: fs.toUnicode}
		if fs.tuFlate {
			st = &core.Stream{Dict: core.Dict{"Filter": core.Name("FlateDecode")}, Data: fs.deflate(fs.toUnicode)}
		}
		st.Dict["Length"] = core.Int(len(st.Data))
		if fs.tuDirect {
			d["ToUnicode"] = st
		} else {
			table[21] = st
			d["ToUnicode"] = core.IndirectRef{Number: 21, Generation: 0}
		}
	}
	res := func(r core.IndirectRef) (core.Object, error) {
		if o, ok := table[r.Number]; ok {
			return o, nil
		}
		return nil, fmt.Errorf("object %d not found", r.Number)
	}
	return d, res
}

// viaExtractor shows each string with font F1 through text.Extractor (fonts registered from a
// resources dictionary, content stream parsed from bytes) and returns one text per string.
func viaExtractor(fs fontSpec, strs [][]byte) ([]string, error) {
	d, res := fs.objects()
	ex := text.NewExtractor()
	resources := core.Dict{"Font": core.Dict{"F1": d}}
	if err := ex.RegisterFontsFromResources(resources, res); err != nil {
		return nil, err
	}
	frags, err := ex.ExtractFromBytes(contentFor(strs, true))
	if err != nil {
		return nil, err
	}
	return fragTexts(frags, len(strs))
}

func fragTexts(frags []text.TextFragment, n int) ([]string, error) {
	if len(frags) != n {
		return nil, fmt.Errorf("%d fragments for %d shown strings", len(frags), n)
	}
	out := make([]string, n)
	for i, f := range frags {
		out[i] = f.Text
	}
	return out, nil
}

// contentFor shows every string with its own Tj at its own position (so that fragment i belongs
// to string i and position-based de-duplication cannot merge two of them).
func contentFor(strs [][]byte, withTf bool) []byte {
	var b bytes.Buffer
	b.WriteString("BT\n")
	if withTf {
		b.WriteString("/F1 10 Tf\n")
	}
	for i, s := range strs {
		fmt.Fprintf(&b, "1 0 0 1 %d %d Tm <%X> Tj\n", 20+(i%16)*30, 800-(i/16)*12, s)
	}
	b.WriteString("ET\n")
	return b.Bytes()
}

// pdfFile writes a minimal one-page PDF (classic xref table) using font fs as /F1.
func pdfFile(fs fontSpec, strs [][]byte) []byte {
	var objs [][]byte
	add := func(s []byte) int { objs = append(objs, s); return len(objs) }
	stream := func(dict string, data []byte) []byte {
		var b bytes.Buffer
		fmt.Fprintf(&b, "<< %s/Length %d >>\nstream\n", dict, len(data))
		b.Write(data)
		b.WriteString("\nendstream")
		return b.Bytes()
	}
	add([]byte("<< /Type /Catalog /Pages 2 0 R >>"))                                                                              // 1
	add([]byte("<< /Type /Pages /Kids [3 0 R] /Count 1 >>"))                                                                      // 2
	add([]byte("<< /Type /Page /Parent 2 0 R /MediaBox [0 0 612 842] /Resources << /Font << /F1 5 0 R >> >> /Contents 4 0 R >>")) // 3
	add(stream("", contentFor(strs, true)))                                                                                       // 4
	fd := fmt.Sprintf("<< /Type /Font /Subtype /%s /BaseFont /%s", fs.subtype, fs.baseFont)
	if fs.encoding != "" {
		if fs.encDict {
			fd += fmt.Sprintf(" /Encoding << /Type /Encoding /BaseEncoding /%s >>", fs.encoding)
		} else {
			fd += " /Encoding /" + strings.TrimPrefix(fs.encoding, "\x00empty")
		}
	}
	next := 6
	if fs.subtype == "Type0" {
		fd += fmt.Sprintf(" /DescendantFonts [%d 0 R]", next)
		next++
	}
	if fs.toUnicode != nil {
		fd += fmt.Sprintf(" /ToUnicode %d 0 R", next)
	}
	fd += " >>"
	add([]byte(fd)) // 5
	if fs.subtype == "Type0" {
		add([]byte(fmt.Sprintf("<< /Type /Font /Subtype /CIDFontType2 /BaseFont /%s /CIDSystemInfo << /Registry (Adobe) /Ordering (Identity) /Supplement 0 >> /DW 1000 >>", fs.baseFont)))
	}
	if fs.toUnicode != nil {
		if fs.tuFlate {
			add(stream("/Filter /FlateDecode ", fs.deflate(fs.toUnicode)))
		} else {
			add(stream("", fs.toUnicode))
		}
	}
	var b bytes.Buffer
	b.WriteString("%PDF-1.4\n%\xE2\xE3\xCF\xD3\n")
	offs := make([]int, len(objs))
	for i, o := range objs {
		offs[i] = b.Len()
		fmt.Fprintf(&b, "%d 0 obj\n", i+1)
		b.Write(o)
		b.WriteString("\nendobj\n")
	}
	xref := b.Len()
	fmt.Fprintf(&b, "xref\n0 %d\n0000000000 65535 f \n", len(objs)+1)
	for _, o := range offs {
		fmt.Fprintf(&b, "%010d 00000 n \n", o)
	}
	fmt.Fprintf(&b, "trailer\n<< /Size %d /Root 1 0 R >>\nstartxref\n%d\n%%%%EOF\n", len(objs)+1, xref)
	return b.Bytes()
}

var scratchDir string

func scratchFile() string {
	if scratchDir == "" {
		scratchDir = harness.Scratch()
	}
	return filepath.Join(scratchDir, "c07.pdf")
}

func cleanupScratch() {
	if scratchDir != "" {
		os.RemoveAll(scratchDir)
	}
}

// viaPDF runs the public API on a generated file: tabula.Open(file).Fragments().
func viaPDF(fs fontSpec, strs [][]byte) ([]string, []byte, error) {
	data := pdfFile(fs, strs)
	p := scratchFile()
	if err := os.WriteFile(p, data, 0o644); err != nil {
		return nil, data, err
	}
	frags, _, err := tabula.Open(p).Fragments()
	if err != nil {
		return nil, data, err
	}
	t, err := fragTexts(frags, len(strs))
	if err != nil {
		return t, data, err
	}
	// the assembled page text is "text the library returns" too: it must at least be valid UTF-8
	// (NFC is only demanded per decoded string, the weakest reading of the statement)
	txt, _, terr := tabula.Open(p).Text()
	if terr != nil {
		return nil, data, fmt.Errorf("Text(): %w", terr)
	}
	if !utf8.ValidString(txt) {
		return nil, data, fmt.Errorf("Text() returned invalid UTF-8: % x", txt)
	}
	return t, data, nil
}
