package main

import (
	"fmt"
	"strings"
	"unicode/utf16"
)

// ---- logical ToUnicode maps and their rendering into CMap programs ------------------------------

// Entry kinds. Every entry maps 1 (bfchar) or 3 (bfrange) consecutive source codes.
//
//	cB bfchar  -> one BMP character                       <20AC>
//	cL bfchar  -> several characters (ligature "ffi")     <006600660069>
//	cD bfchar  -> base + combining mark (not NFC)         <00650301>
//	cS bfchar  -> supplementary plane (surrogate pair)    <D835DC00>
//	rO bfrange -> offset form, BMP                        <lo> <hi> <0391>
//	rE bfrange -> offset form, source codes ..FD-..FF (last byte runs up to FF, nothing else changes)
//	rA bfrange -> array form [BMP, ligature, surrogate pair]
//	rL bfrange -> offset form whose start is a ligature   <lo> <hi> <00660069>  (last unit incremented)
//	rS bfrange -> offset form whose start is a surrogate pair <lo> <hi> <D835DC10>
//
// Targets by length in UTF-16 units: every form (bfchar, bfrange offset, bfrange array element)
// occurs with 1, 2, 3 and 4 units, and with a 3-unit target that mixes a BMP character with a
// surrogate pair:
//
//	cM bfchar  -> BMP + surrogate pair (3 units)          <0078D835DC00>
//	cQ bfchar  -> BMP + surrogate pair + BMP (4 units)    <0066D835DC000069>
//	rT bfrange -> offset form, 3-unit start "ffi"         <lo> <hi> <006600660069>
//	rM bfrange -> offset form, 3-unit start BMP + surrogate pair (the low surrogate is incremented)
//	rQ bfrange -> offset form, 4-unit start surrogate pair + "fi"
//	rB bfrange -> array form [3 units "ffi", 3 units BMP + pair, 4 units BMP + pair + BMP]
var entryKinds = []string{"cB", "cL", "cD", "cS", "cM", "cQ", "rO", "rE", "rA", "rB", "rL", "rS", "rT", "rM", "rQ"}

// isArrayKind: the bfrange entry is written in the array form.
func isArrayKind(kind string) bool { return kind == "rA" || kind == "rB" }

// hasArrayKind: the program contains an array-form entry.
func hasArrayKind(prog []string) bool {
	for _, k := range prog {
		if isArrayKind(k) {
			return true
		}
	}
	return false
}

type mapping struct {
	code []byte
	want string
}

type entry struct {
	kind  string
	lo    uint32   // first source code
	n     int      // number of source codes
	start []uint16 // bfchar target / bfrange start target (UTF-16 units)
	array [][]uint16
	maps  []mapping
}

func isRange(kind string) bool { return kind[0] == 'r' }

func u16(s string) []uint16 { return utf16.Encode([]rune(s)) }

// slot prefixes (all bytes but the last) by code width; slot 2 has the high bit set.
var slotPrefix = map[int][3]uint32{
	1: {0, 0, 0},
	2: {0x01, 0x02, 0x80},
	3: {0x0001, 0x0102, 0x80FF},
	4: {0x000001, 0x010203, 0x80FF00},
}

// low bytes by slot (kind rE uses FD, or FD-3*slot for 1-byte codes where there is no prefix to tell slots apart)
var slotLow1 = [3]uint32{0x20, 0x41, 0x91}

func codeBytes(c uint32, w int) []byte {
	b := make([]byte, w)
	for i := w - 1; i >= 0; i-- {
		b[i] = byte(c)
		c >>= 8
	}
	return b
}

func buildEntry(kind string, slot, w int) entry {
	targets := kindTargets(kind)
	// distinct targets per slot so that a lookup that lands in the wrong entry is visible: shift the last character
	if slot > 0 {
		for i, t := range targets {
			r := []rune(t)
			last := len(r) - 1
			if kind == "rE" {
				r[last] += rune(0x100 * slot) // keep the last byte of the target at FD..FF
			} else {
				r[last] += rune(0x10 * slot)
			}
			targets[i] = string(r)
		}
	}
	return makeEntry(kind, slot, w, targets)
}

func kindTargets(kind string) []string {
	switch kind {
	case "cB":
		return []string{"€"}
	case "cL":
		return []string{"ffi"}
	case "cD":
		return []string{"e\u0301"}
	case "cS":
		return []string{"\U0001D400"}
	case "rO":
		return []string{"Α", "Β", "Γ"}
	case "rE":
		return []string{"⇽", "⇾", "⇿"}
	case "rA":
		return []string{"א", "fi", "\U0001D401"}
	case "rL":
		return []string{"fi", "fj", "fk"}
	case "cM":
		return []string{"x\U0001D400"}
	case "cQ":
		return []string{"f\U0001D400i"}
	case "rT":
		return []string{"ffi", "ffj", "ffk"}
	case "rM":
		return []string{"f\U0001D410", "f\U0001D411", "f\U0001D412"}
	case "rQ":
		return []string{"\U0001D400fi", "\U0001D400fj", "\U0001D400fk"}
	case "rB":
		return []string{"ffi", "x\U0001D401", "f\U0001D402i"}
	case "rS":
		return []string{"\U0001D410", "\U0001D411", "\U0001D412"}
	}
	panic("unknown entry kind " + kind)
}

// makeEntry builds the entry of the given form (the kind decides bfchar / bfrange offset / bfrange
// array) for explicit targets. For the offset form targets[i] must be targets[0] with its last
// UTF-16 unit incremented by i.
func makeEntry(kind string, slot, w int, targets []string) entry {
	e := entry{kind: kind, n: 1}
	low := slotLow1[slot]
	if kind == "rE" {
		low = 0xFD
		if w == 1 {
			low = 0xFD - 3*uint32(slot)
		}
	}
	e.lo = slotPrefix[w][slot]<<8 | low
	if w == 1 {
		e.lo = low
	}
	e.n = len(targets)
	e.start = u16(targets[0])
	if isArrayKind(kind) {
		for _, t := range targets {
			e.array = append(e.array, u16(t))
		}
	} else if isRange(kind) {
		for i, t := range targets {
			u := u16(t)
			if len(u) != len(e.start) || u[len(u)-1] != e.start[len(u)-1]+uint16(i) {
				panic("offset-form targets are not consecutive in the last unit: " + kind)
			}
		}
	}
	for i, t := range targets {
		e.maps = append(e.maps, mapping{codeBytes(e.lo+uint32(i), w), t})
	}
	return e
}

// format policies: every one of them is the same PostScript token stream (white space between
// tokens is free, hex strings are self-delimiting, hex digits are case-insensitive).
var cmapFormats = []string{"lines", "crlf", "cr", "oneline", "secline", "nospace", "lowerhex", "indent", "dsc", "cssplit", "arrsplit", "arrnext"}

func hexUnits(u []uint16, lower bool) string {
	var b strings.Builder
	for _, x := range u {
		if lower {
			fmt.Fprintf(&b, "%04x", x)
		} else {
			fmt.Fprintf(&b, "%04X", x)
		}
	}
	return b.String()
}

func hexCode(c uint32, w int, lower bool) string {
	if lower {
		return fmt.Sprintf("%0*x", 2*w, c)
	}
	return fmt.Sprintf("%0*X", 2*w, c)
}

// renderEntry returns the lines of one entry.
func renderEntry(en entry, w int, format string) []string {
	lower := format == "lowerhex"
	sep := " "
	switch format {
	case "nospace":
		sep = ""
	case "indent":
		sep = "\t  "
	}
	src := "<" + hexCode(en.lo, w, lower) + ">"
	if !isRange(en.kind) {
		return []string{src + sep + "<" + hexUnits(en.start, lower) + ">"}
	}
	hi := "<" + hexCode(en.lo+uint32(en.n-1), w, lower) + ">"
	if !isArrayKind(en.kind) {
		return []string{src + sep + hi + sep + "<" + hexUnits(en.start, lower) + ">"}
	}
	var elems []string
	for _, a := range en.array {
		elems = append(elems, "<"+hexUnits(a, lower)+">")
	}
	switch format {
	case "arrsplit":
		out := []string{src + sep + hi + sep + "["}
		out = append(out, elems...)
		return append(out, "]")
	case "arrnext":
		return []string{src + sep + hi, "[" + strings.Join(elems, " ") + "]"}
	}
	return []string{src + sep + hi + sep + "[" + strings.Join(elems, sep) + "]"}
}

type section struct {
	rng     bool
	entries []entry
}

// sections groups the entries: "grouped" = one bfchar section then one bfrange section (what
// generators emit); "split" = one section per entry in program order.
func sections(entries []entry, mode string) []section {
	var out []section
	if mode == "split" {
		for _, en := range entries {
			out = append(out, section{isRange(en.kind), []entry{en}})
		}
		return out
	}
	var ch, rg section
	rg.rng = true
	for _, en := range entries {
		if isRange(en.kind) {
			rg.entries = append(rg.entries, en)
		} else {
			ch.entries = append(ch.entries, en)
		}
	}
	if len(ch.entries) > 0 {
		out = append(out, ch)
	}
	if len(rg.entries) > 0 {
		out = append(out, rg)
	}
	return out
}

// renderCMap renders the program. codespace=false omits the codespacerange section (used only by
// the output-invariant sub-space).
func renderCMap(entries []entry, w int, format, secMode string, codespace bool) []byte {
	var lines []string
	if format == "dsc" {
		// the DSC comment header of Adobe TN 5411 section 1.4.1 / TN 5014 example files
		lines = append(lines,
			"%!PS-Adobe-3.0 Resource-CMap",
			"%%DocumentNeededResources: ProcSet (CIDInit)",
			"%%IncludeResource: ProcSet (CIDInit)",
			"%%BeginResource: CMap (Adobe-Identity-UCS)",
			"%%Title: (Adobe-Identity-UCS Adobe Identity 0)",
			"%%Version: 1.000",
			"%%EndComments")
	}
	lines = append(lines,
		"/CIDInit /ProcSet findresource begin",
		"12 dict begin",
		"begincmap",
		"/CIDSystemInfo << /Registry (Adobe) /Ordering (UCS) /Supplement 0 >> def",
		"/CMapName /Adobe-Identity-UCS def",
		"/CMapType 2 def")
	lower := format == "lowerhex"
	if codespace {
		lo := "<" + hexCode(0, w, lower) + ">"
		hi := "<" + hexCode(uint32(uint64(1)<<(8*uint(w))-1), w, lower) + ">"
		if format == "cssplit" {
			// the same code space written as two ranges of the same width
			mid := uint32(uint64(1)<<(8*uint(w)-1) - 1)
			lines = append(lines, "2 begincodespacerange", lo+" <"+hexCode(mid, w, lower)+">", "<"+hexCode(mid+1, w, lower)+"> "+hi, "endcodespacerange")
		} else if format == "nospace" {
			lines = append(lines, "1 begincodespacerange", lo+hi, "endcodespacerange")
		} else {
			lines = append(lines, "1 begincodespacerange", lo+" "+hi, "endcodespacerange")
		}
	}
	for _, s := range sections(entries, secMode) {
		kw := "bfchar"
		if s.rng {
			kw = "bfrange"
		}
		var body []string
		for _, en := range s.entries {
			body = append(body, renderEntry(en, w, format)...)
		}
		if format == "indent" {
			for i := range body {
				body[i] = "  " + body[i]
			}
		}
		head := fmt.Sprintf("%d begin%s", len(s.entries), kw)
		tail := "end" + kw
		if format == "secline" {
			lines = append(lines, head+" "+strings.Join(body, " ")+" "+tail)
		} else {
			lines = append(lines, head)
			lines = append(lines, body...)
			lines = append(lines, tail)
		}
	}
	lines = append(lines, "endcmap", "CMapName currentdict /CMap defineresource pop", "end", "end")
	if format == "dsc" {
		lines = append(lines, "%%EndResource", "%%EOF")
	}
	eol := "\n"
	switch format {
	case "crlf":
		eol = "\r\n"
	case "cr":
		eol = "\r"
	case "oneline":
		eol = " "
	}
	return []byte(strings.Join(lines, eol) + eol)
}

// programs enumerates all sequences of 1..maxLen kinds.
func programs(maxLen int) [][]string {
	var out [][]string
	var rec func(cur []string)
	rec = func(cur []string) {
		if len(cur) > 0 {
			out = append(out, append([]string{}, cur...))
		}
		if len(cur) == maxLen {
			return
		}
		for _, k := range entryKinds {
			rec(append(cur, k))
		}
	}
	rec(nil)
	return out
}
