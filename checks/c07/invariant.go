package main

import (
	"fmt"
	"unicode/utf8"

	"github.com/tsawler/tabula/core"
	"github.com/tsawler/tabula/font"
	"github.com/tsawler/tabula/text"
	"verif/internal/harness"
)

// invConfig is one font configuration of the output-invariant sub-space. decodeAll returns the text
// tabula yields for every input string (same order).
type invConfig struct {
	name      string
	decodeAll func(strs [][]byte) ([]string, error)
}

func perString(f func([]byte) string) func([][]byte) ([]string, error) {
	return func(strs [][]byte) ([]string, error) {
		out := make([]string, len(strs))
		for i, s := range strs {
			out[i] = f(s)
		}
		return out, nil
	}
}

func fontWithCMap(prog []byte) (*font.Font, error) {
	cm, err := font.ParseToUnicodeCMap(&core.Stream{Dict: core.Dict{}, Data: prog})
	if err != nil {
		return nil, err
	}
	f := font.NewFont("F1", "Helvetica", "Type1")
	f.ToUnicodeCMap = cm
	return f, nil
}

func invConfigs() []invConfig {
	var cfgs []invConfig
	// every named encoding on a Font object, plus names GetEncoding does not know, plus no encoding at all
	for _, enc := range append(append([]string{}, encNames...), "Identity-H", "MacExpertEncoding") {
		enc := enc
		cfgs = append(cfgs, invConfig{"font:" + enc, perString(func(b []byte) string {
			f := font.NewFont("F1", "Helvetica", "Type1")
			f.Encoding = enc
			return f.DecodeString(b)
		})})
	}
	cfgs = append(cfgs, invConfig{"font:zero-value", perString(func(b []byte) string { return (&font.Font{}).DecodeString(b) })})
	// "/Encoding /" (the empty name is a valid PDF name) leaves the parsed font without an encoding name
	cfgs = append(cfgs, invConfig{"type1:empty-encoding-name", func(strs [][]byte) ([]string, error) {
		f, err := fontFromSpec(fontSpec{subtype: "Type1", baseFont: "Helvetica", encoding: "\x00empty"})
		if err != nil {
			return nil, err
		}
		return perString(f.DecodeString)(strs)
	}})
	// ToUnicode CMaps of several shapes
	type cm struct {
		name string
		prog []byte
	}
	mk := func(kinds []string, w int, codespace bool) []byte {
		en := make([]entry, len(kinds))
		for i, k := range kinds {
			en[i] = buildEntry(k, i, w)
		}
		return renderCMap(en, w, "lines", "grouped", codespace)
	}
	cms := []cm{
		{"tu:w1-char", mk([]string{"cB", "cD"}, 1, true)},
		{"tu:w1-range", mk([]string{"rO", "rE", "rA"}, 1, true)},
		{"tu:w2-range", mk([]string{"rO", "cS", "rA"}, 2, true)},
		{"tu:w1-nocodespace", mk([]string{"cB", "rO"}, 1, false)},
		{"tu:w2-nocodespace", mk([]string{"cD", "rO", "cS"}, 2, false)},
		{"tu:w2-multiunit-range", mk([]string{"rL", "rS"}, 2, true)},
		// a range that reaches into the surrogate block and one that ends at U+FFFF
		{"tu:w1-range-into-surrogates", []byte("1 begincodespacerange\n<00> <FF>\nendcodespacerange\n2 beginbfrange\n<00> <7F> <D7F0>\n<80> <FF> <FF80>\nendbfrange\n")},
		{"tu:empty", []byte("begincmap\nendcmap\n")},
	}
	for _, c := range cms {
		c := c
		cfgs = append(cfgs, invConfig{c.name, func(strs [][]byte) ([]string, error) {
			f, err := fontWithCMap(c.prog)
			if err != nil {
				return nil, err
			}
			return perString(f.DecodeString)(strs)
		}})
	}
	// through the content-stream extractor: no Tf at all, Tf naming a font that is not in the
	// resources, and a registered simple font
	cfgs = append(cfgs,
		invConfig{"extract:no-Tf", func(strs [][]byte) ([]string, error) {
			frags, err := text.NewExtractor().ExtractFromBytes(contentFor(strs, false))
			if err != nil {
				return nil, err
			}
			return fragTexts(frags, len(strs))
		}},
		invConfig{"extract:unregistered-font", func(strs [][]byte) ([]string, error) {
			frags, err := text.NewExtractor().ExtractFromBytes(contentFor(strs, true))
			if err != nil {
				return nil, err
			}
			return fragTexts(frags, len(strs))
		}},
		invConfig{"extract:type1-winansi", func(strs [][]byte) ([]string, error) {
			return viaExtractor(fontSpec{subtype: "Type1", baseFont: "Helvetica", encoding: "WinAnsiEncoding"}, strs)
		}},
		invConfig{"extract:type1-no-encoding", func(strs [][]byte) ([]string, error) {
			return viaExtractor(fontSpec{subtype: "Type1", baseFont: "Times-Roman"}, strs)
		}},
		invConfig{"extract:type0-no-tounicode", func(strs [][]byte) ([]string, error) {
			return viaExtractor(fontSpec{subtype: "Type0", baseFont: "ABCDEF+Arial", encoding: "Identity-H"}, strs)
		}},
		invConfig{"pdf:truetype-macroman", func(strs [][]byte) ([]string, error) {
			t, _, err := viaPDF(fontSpec{subtype: "TrueType", baseFont: "Arial", encoding: "MacRomanEncoding"}, strs)
			return t, err
		}},
	)
	return cfgs
}

// invariants: sub-space (4) — every byte string of length <= 2 through every configuration.
// One case per (configuration, first byte): it covers the 1-byte string and the 256 two-byte
// strings with that first byte; the case "b0=none" is the empty string.
func invariants(e *harness.Env) {
	for _, cfg := range invConfigs() {
		for b0 := -1; b0 < 256; b0++ {
			tok := "none"
			if b0 >= 0 {
				tok = fmt.Sprintf("%02X", b0)
			}
			desc := D("space", "inv", "cfg", cfg.name, "b0", tok)
			if !e.Own(desc) {
				continue
			}
			e.Begin(desc)
			var strs [][]byte
			if b0 < 0 {
				strs = [][]byte{{}}
			} else {
				strs = append(strs, []byte{byte(b0)})
				for b1 := 0; b1 < 256; b1++ {
					strs = append(strs, []byte{byte(b0), byte(b1)})
				}
			}
			var got []string
			var err error
			if sig, det := harness.Guard(func() { got, err = cfg.decodeAll(strs) }); sig != "" {
				e.Fail(desc, sig, det, nil)
				continue
			}
			if err != nil {
				e.Fail(desc, "inv-route-error", err.Error(), nil)
				continue
			}
			sig, det := "", ""
			nonEmpty := 0
			for i, g := range got {
				if g != "" {
					nonEmpty++
				}
				if !utf8.ValidString(g) {
					sig, det = "invalid-utf8", fmt.Sprintf("input <%X>: returned bytes <% X>", strs[i], g)
					break
				}
				if nfc(g) != g {
					sig, det = "not-nfc", fmt.Sprintf("input <%X>: returned %s, NFC is %s", strs[i], quoteU(g), quoteU(nfc(g)))
					break
				}
			}
			if sig != "" {
				e.Fail(desc, sig, det, nil)
				continue
			}
			e.Add("inv_byte_strings", int64(len(strs)))
			out := "inv:all-empty"
			if nonEmpty == len(got) {
				out = "inv:all-text"
			} else if nonEmpty > 0 {
				out = "inv:some-empty"
			}
			e.Pass(desc, b0 >= 0x80, out)
		}
	}
	// UTF-16 with BOM: code-unit strings that are NOT well-formed (lone surrogates, odd length) must
	// still come back as valid UTF-8 / NFC. All strings of <= 3 units over 7 units, both byte orders, +- a trailing byte.
	units := []uint16{0x0041, 0x0301, 0xD800, 0xDBFF, 0xDC00, 0xDFFF, 0xFFFF}
	f := font.NewFont("F1", "Helvetica", "Type1")
	var rec func(cur []uint16)
	rec = func(cur []uint16) {
		for _, le := range []bool{false, true} {
			for _, odd := range []bool{false, true} {
				desc := D("space", "inv", "cfg", "font:utf16-bom", "units", unitsHex(cur), "order", order(le), "odd", yn(odd))
				if !e.Own(desc) {
					continue
				}
				e.Begin(desc)
				b := []byte{0xFE, 0xFF}
				if le {
					b = []byte{0xFF, 0xFE}
				}
				for _, u := range cur {
					if le {
						b = append(b, byte(u), byte(u>>8))
					} else {
						b = append(b, byte(u>>8), byte(u))
					}
				}
				if odd {
					b = append(b, 0xD8)
				}
				var g string
				if sig, det := harness.Guard(func() { g = f.DecodeString(b) }); sig != "" {
					e.Fail(desc, sig, det, nil)
					continue
				}
				switch {
				case !utf8.ValidString(g):
					e.Fail(desc, "invalid-utf8", fmt.Sprintf("input <%X>: returned bytes <% X>", b, g), nil)
				case nfc(g) != g:
					e.Fail(desc, "not-nfc", fmt.Sprintf("input <%X>: returned %s", b, quoteU(g)), nil)
				default:
					e.Pass(desc, true, "inv:utf16-ill-formed")
				}
			}
		}
		if len(cur) == 3 {
			return
		}
		for _, u := range units {
			rec(append(append([]uint16{}, cur...), u))
		}
	}
	rec(nil)
}

func unitsHex(us []uint16) string {
	if len(us) == 0 {
		return "none"
	}
	s := ""
	for i, u := range us {
		if i > 0 {
			s += "+"
		}
		s += fmt.Sprintf("%04X", u)
	}
	return s
}
