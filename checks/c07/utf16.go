package main

import (
	"fmt"
	"unicode/utf16"
	"unicode/utf8"

	"github.com/tsawler/tabula/font"
	"verif/internal/harness"
)

// utf16Bytes encodes s as UTF-16 in the given byte order, optionally preceded by the BOM.
func utf16Bytes(s string, le, bom bool) []byte {
	units := utf16.Encode([]rune(s))
	out := make([]byte, 0, 2*len(units)+2)
	put := func(u uint16) {
		if le {
			out = append(out, byte(u), byte(u>>8))
		} else {
			out = append(out, byte(u>>8), byte(u))
		}
	}
	if bom {
		put(0xFEFF)
	}
	for _, u := range units {
		put(u)
	}
	return out
}

// utf16APIs: the two places where tabula decodes UTF-16 text.
//
//	font: Font.DecodeString on a font without ToUnicode — the BOM-sniffing step every shown string
//	      goes through (priority 2 of the documented decode order); promises NFC.
//	func: font.DecodeUTF16BE / DecodeUTF16LE on the BOM-less payload; compared after NFC.
var utf16APIs = []string{"font", "func"}

func decodeUTF16Via(api string, f *font.Font, s string, le bool) string {
	if api == "font" {
		return f.DecodeString(utf16Bytes(s, le, true))
	}
	if le {
		return font.DecodeUTF16LE(utf16Bytes(s, le, false))
	}
	return font.DecodeUTF16BE(utf16Bytes(s, le, false))
}

func checkUTF16(api string, f *font.Font, s string, le bool) (sig, detail string) {
	var got string
	if sg, d := harness.Guard(func() { got = decodeUTF16Via(api, f, s, le) }); sg != "" {
		return sg, d
	}
	want := nfc(s)
	if api == "func" {
		got = nfc(got)
	}
	if got == want {
		return "", ""
	}
	d := fmt.Sprintf("input %s: want %s, got %s", quoteU(s), quoteU(want), quoteU(got))
	switch {
	case !utf8.ValidString(got):
		return "invalid-utf8", d
	case nfc(got) == want:
		return "utf16-not-nfc", d
	}
	return "utf16-wrong", d
}

func isScalar(r rune) bool { return r >= 0 && r <= 0x10FFFF && !(r >= 0xD800 && r <= 0xDFFF) }

// quickBlock: the boundary subset of 256-code-point blocks used by the quick tier: the whole BMP,
// the first and last block of every supplementary plane, and every 16th block in between.
func quickBlock(b int) bool {
	if b < 0x100 {
		return true
	}
	lo := b & 0xFF
	return lo == 0 || lo == 0xFF || lo%16 == 1 || b == 0x1D1 || b == 0x1F6 || b == 0x2F8 || b == 0x110 || b == 0x1D4
}

var boundaryAlphabet = []rune{0x0041, 0x0301, 0x0327, 0x0344, 0x1100, 0x1161, 0xD7FF, 0xE000, 0xFFFD, 0xFFFF, 0x10000, 0x10FFFF}

// utf16s: sub-space (3).
func utf16s(e *harness.Env) {
	f := font.NewFont("F1", "Helvetica", "Type1")
	for b := 0; b < 0x1100; b++ {
		if b >= 0xD8 && b <= 0xDF {
			continue // surrogate code points are not scalar values
		}
		if !e.Thorough() && !quickBlock(b) {
			continue
		}
		for _, le := range []bool{false, true} {
			for _, api := range utf16APIs {
				desc := D("space", "utf16", "block", fmt.Sprintf("%04X", b<<8), "order", order(le), "api", api)
				if !e.Own(desc) {
					continue
				}
				e.Begin(desc)
				var sig, det string
				var whole []rune
				n := int64(0)
				for r := rune(b << 8); r < rune(b<<8+256); r++ {
					if !isScalar(r) {
						continue
					}
					n++
					whole = append(whole, r)
					// each scalar value on its own, and after a base letter (so that combining marks compose)
					if sig, det = checkUTF16(api, f, string(r), le); sig != "" {
						break
					}
					if sig, det = checkUTF16(api, f, "e"+string(r), le); sig != "" {
						break
					}
				}
				if sig == "" {
					sig, det = checkUTF16(api, f, string(whole), le) // the block as one string
				}
				if sig != "" {
					e.Fail(desc, sig, det, nil)
					continue
				}
				e.Add("utf16_scalar_values_decoded", n)
				cls := "bmp"
				if b >= 0x100 {
					cls = "supplementary"
				}
				e.Pass(desc, b > 0, "utf16:"+cls+":"+order(le)+":"+api)
			}
		}
	}
	// all pairs (quick) / pairs and triples (thorough) over the boundary alphabet
	maxLen := 2
	if e.Thorough() {
		maxLen = 3
	}
	var rec func(cur []rune)
	rec = func(cur []rune) {
		if len(cur) >= 2 {
			for _, le := range []bool{false, true} {
				for _, api := range utf16APIs {
					desc := D("space", "utf16", "seq", runesHex(cur), "order", order(le), "api", api)
					if !e.Own(desc) {
						continue
					}
					e.Begin(desc)
					if sig, det := checkUTF16(api, f, string(cur), le); sig != "" {
						e.Fail(desc, sig, det, nil)
						continue
					}
					out := "utf16:seq:stable"
					if nfc(string(cur)) != string(cur) {
						out = "utf16:seq:normalized"
					}
					e.Pass(desc, true, out)
				}
			}
		}
		if len(cur) == maxLen {
			return
		}
		for _, r := range boundaryAlphabet {
			rec(append(append([]rune{}, cur...), r))
		}
	}
	rec(nil)
}

func order(le bool) string {
	if le {
		return "LE"
	}
	return "BE"
}

func runesHex(rs []rune) string {
	s := ""
	for i, r := range rs {
		if i > 0 {
			s += "+"
		}
		s += fmt.Sprintf("%04X", r)
	}
	return s
}
