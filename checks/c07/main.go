// C07 — Character codes decode to the Unicode the font specifies.
//
// Bounded-exhaustive enumeration of four sub-spaces against independent references:
//
//	(1) enc        6 named encodings x 256 codes x every route to the table, against the tables of
//	               pdf.js 2.14.305 (ref/pdfjs_encodings.json) under the tolerances of DESIGN.md;
//	(2) cmap       every ToUnicode CMap program with <= 3 entries over 9 entry kinds x code width 1..4
//	               x formatting policy x sectioning, observed per entry and as a whole, through the
//	               CMap API and through the font objects; plus ToUnicode-over-encoding precedence;
//	(2b) cmapu16   every Unicode scalar value as a ToUnicode target in each entry form (bfchar, bfrange
//	               offset, bfrange array element), and the boundary code points of the surrogate
//	               arithmetic in every multi-unit mix — the CMap path has its own UTF-16 decoder;
//	(3) utf16      every Unicode scalar value (and all pairs/triples over a boundary alphabet) as
//	               UTF-16BE/LE with BOM through Font.DecodeString, and without BOM through
//	               DecodeUTF16BE/LE; expected = NFC of the input;
//	(4) invariant  every byte string of length <= 2 through every font configuration (and with no
//	               font at all): the text returned is valid UTF-8 and NFC-stable.
package main

import (
	"verif/internal/harness"
)

func main() { harness.Main("C07", "exploration", run) }

func run(e *harness.Env) {
	defer cleanupScratch()
	e.Rule = "full product per sub-space: (1) encoding x code x route; (2) CMap program (sequence of <=3 entries over 9 kinds) x code width x formatting x sectioning x observed entry x route, " +
		"plus precedence configurations; (3) 256-code-point blocks of Unicode scalar values x byte order x API, pairs/triples over a 12-value boundary alphabet; " +
		"(4) font configuration x first byte (each case covers the 256 second bytes). distinct = distinct case descriptors; non-trivial = not an identity mapping of an ASCII code / not the empty string"
	e.Assumptions = []string{
		"pdf.js 2.14.305 encoding tables and glyph lists (ref/pdfjs_encodings.json, sha256-pinned) are a correct rendering of ISO 32000-1 Annex D and the Adobe glyph lists",
		"golang.org/x/text/unicode/norm implements NFC (UAX #15); unicode/utf8 and unicode/utf16 are correct",
		"the CMap programs written by the check follow Adobe TN 5014/5411 (ToUnicode) syntax; compress/zlib is a conforming Flate encoder",
	}
	ref := loadRef()
	encodings(e, ref)
	cmaps(e)
	cmapAstral(e)
	cmapCarry(e)
	cmapScalars(e)
	precedence(e)
	utf16s(e)
	invariants(e)
}
