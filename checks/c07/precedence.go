package main

import (
	"fmt"
	"strings"

	"verif/internal/harness"
)

// precedence: a font that carries BOTH an encoding and a ToUnicode CMap. Every code the CMap maps
// must decode to the CMap's text, whatever the encoding would have said (ISO 32000-1 9.10.2).
// Codes the CMap does not map are not constrained here (the statement only fixes the precedence).
//
// product: font type x encoding form x ToUnicode reference form x filter x CMap program x route.
func precedence(e *harness.Env) {
	type encForm struct {
		name string
		enc  string
		dict bool
	}
	encForms := []encForm{{"winansi", "WinAnsiEncoding", false}, {"macroman", "MacRomanEncoding", false}, {"dict-winansi", "WinAnsiEncoding", true}, {"absent", "", false}}
	// programs: codes whose encoding-derived text differs from the ToUnicode text
	type prog struct {
		name    string
		entries []entry
	}
	mkChar := func(code uint32, target string) entry {
		return entry{kind: "cB", lo: code, n: 1, start: u16(target), maps: []mapping{{[]byte{byte(code)}, target}}}
	}
	rng := entry{kind: "rO", lo: 0x41, n: 3, start: u16("Ω")}
	for i, t := range []string{"Ω", "Ϊ", "Ϋ"} {
		rng.maps = append(rng.maps, mapping{[]byte{byte(0x41 + i)}, t})
	}
	progs := []prog{
		{"char41", []entry{mkChar(0x41, "Ω")}},
		{"char80", []entry{mkChar(0x80, "Ж")}},
		{"charE9-decomposed", []entry{mkChar(0xE9, "é")}},
		{"charFE-FF", []entry{mkChar(0xFE, "x"), mkChar(0xFF, "y")}}, // the two codes FE FF in a row look like a UTF-16 BOM
		{"range41", []entry{rng}},
	}
	routes := []string{"object", "extractor", "pdf"}
	for _, subtype := range []string{"Type1", "TrueType"} {
		for _, ef := range encForms {
			for _, direct := range []bool{false, true} {
				for _, flate := range []bool{false, true} {
					for _, p := range progs {
						for _, route := range routes {
							if route == "pdf" && direct {
								continue // a stream is always an indirect object in a file
							}
							desc := D("space", "prec", "font", subtype, "encoding", ef.name, "turef", map[bool]string{false: "indirect", true: "direct"}[direct],
								"filter", map[bool]string{false: "none", true: "flate"}[flate], "prog", p.name, "route", route)
							if !e.Own(desc) {
								continue
							}
							e.Begin(desc)
							data := renderCMap(p.entries, 1, "lines", "grouped", true)
							fs := fontSpec{subtype: subtype, baseFont: "Helvetica", encoding: ef.enc, encDict: ef.dict, toUnicode: data, tuFlate: flate, tuDirect: direct}
							fs.tuZlib = flate // a really compressed stream here
							var codes [][]byte
							var wants []string
							var all []byte
							wantAll := ""
							for _, en := range p.entries {
								for _, m := range en.maps {
									codes = append(codes, m.code)
									wants = append(wants, nfc(m.want))
									all = append(all, m.code...)
									wantAll += m.want
								}
							}
							codes = append(codes, all)
							wants = append(wants, nfc(wantAll))
							var got []string
							var file []byte
							var err error
							sig, det := harness.Guard(func() {
								switch route {
								case "object":
									f, ferr := fontFromSpec(fs)
									if ferr != nil {
										err = ferr
										return
									}
									for _, c := range codes {
										got = append(got, f.DecodeString(c))
									}
								case "extractor":
									got, err = viaExtractor(fs, codes)
								case "pdf":
									got, file, err = viaPDF(fs, codes)
								}
							})
							files := map[string][]byte{"tounicode.cmap": data}
							if file != nil {
								files["input.pdf"] = file
							}
							if sig != "" {
								e.Fail(desc, sig, det, files)
								continue
							}
							if err != nil {
								e.Fail(desc, "prec-route-error", err.Error(), files)
								continue
							}
							bad := ""
							for i := range codes {
								if got[i] != wants[i] {
									bad = fmt.Sprintf("codes <%X>: ToUnicode says %s, got %s", codes[i], quoteU(wants[i]), quoteU(got[i]))
									break
								}
							}
							if bad != "" {
								s := "tounicode-not-preferred"
								if strings.Contains(bad, "U+FFFD") {
									s = "tounicode-fffd"
								}
								e.Fail(desc, s, bad+"\n"+string(data), files)
								continue
							}
							e.Pass(desc, true, "prec:"+route)
						}
					}
				}
			}
		}
	}
}
