package main

import (
	"fmt"
	"strings"
)

// D builds the canonical "k=v k=v" descriptor. Same format as harness.D, but without building a
// strings.Replacer per value (harness.clean does, which dominates the run time of cheap cases).
// Values of this check never contain white space; it is replaced defensively all the same.
func D(kv ...interface{}) string {
	var b strings.Builder
	for i := 0; i+1 < len(kv); i += 2 {
		if i > 0 {
			b.WriteByte(' ')
		}
		b.WriteString(toS(kv[i]))
		b.WriteByte('=')
		v := toS(kv[i+1])
		if v == "" {
			v = "-"
		}
		if strings.ContainsAny(v, " \n\r\t") {
			v = strings.NewReplacer(" ", "_", "\n", "\\n", "\r", "\\r", "\t", "\\t").Replace(v)
		}
		b.WriteString(v)
	}
	return b.String()
}

func toS(x interface{}) string {
	switch v := x.(type) {
	case string:
		return v
	case int:
		return fmt.Sprintf("%d", v)
	}
	return fmt.Sprint(x)
}
