package main

import (
	"fmt"
	"strings"
	"unicode/utf8"

	"github.com/tsawler/tabula/core"
	"github.com/tsawler/tabula/font"
	"verif/internal/harness"
)

// decoder is "bytes of character codes -> text" as offered by one route.
type decoder func([]byte) string

// cmapVia is one way of handing a ToUnicode program to tabula.
type cmapVia struct {
	name           string
	widths         []int
	exact          bool // the route promises NFC (Font.DecodeString); the bare CMap API is compared after NFC
	open           func(prog []byte) (decoder, error)
	maxLen         int // longest program sent through this route (0 = no limit); quick tier / thorough tier
	maxLenThorough int
}

const routeErrorMark = "\uFFFF\uFFFEroute-error: "

// openPDF: the public API on a generated file, one file per decoded string.
func openPDF(fs fontSpec) func([]byte) (decoder, error) {
	return func(prog []byte) (decoder, error) {
		fs := fs
		fs.toUnicode = prog
		return func(b []byte) string {
			t, _, err := viaPDF(fs, [][]byte{b})
			if err != nil {
				return routeErrorMark + err.Error()
			}
			return t[0]
		}, nil
	}
}

func fontFromSpec(fs fontSpec) (*font.Font, error) {
	d, res := fs.objects()
	switch fs.subtype {
	case "Type1":
		t, err := font.NewType1Font(d, res)
		if err != nil {
			return nil, err
		}
		return t.Font, nil
	case "TrueType":
		t, err := font.NewTrueTypeFont(d, res)
		if err != nil {
			return nil, err
		}
		return t.Font, nil
	case "Type0":
		t, err := font.NewType0Font(d, res)
		if err != nil {
			return nil, err
		}
		return t.Font, nil
	}
	return nil, fmt.Errorf("unknown subtype %q", fs.subtype)
}

func openFontSpec(fs fontSpec) func([]byte) (decoder, error) {
	return func(prog []byte) (decoder, error) {
		fs := fs
		fs.toUnicode = prog
		f, err := fontFromSpec(fs)
		if err != nil {
			return nil, err
		}
		if f.ToUnicodeCMap == nil {
			return nil, fmt.Errorf("font object has no ToUnicode CMap although the dictionary carries one")
		}
		return f.DecodeString, nil
	}
}

var cmapVias = []cmapVia{
	{"cmap", []int{1, 2, 3, 4}, false, func(prog []byte) (decoder, error) {
		cm, err := font.ParseToUnicodeCMap(&core.Stream{Dict: core.Dict{"Length": core.Int(len(prog))}, Data: prog})
		if err != nil {
			return nil, err
		}
		return cm.LookupString, nil
	}, 0, 0},
	{"font", []int{1, 2, 3, 4}, true, func(prog []byte) (decoder, error) {
		cm, err := font.ParseToUnicodeCMap(&core.Stream{Dict: core.Dict{"Filter": core.Name("FlateDecode")}, Data: zl(prog)})
		if err != nil {
			return nil, err
		}
		f := font.NewFont("F1", "Helvetica", "Type1")
		f.ToUnicodeCMap = cm
		return f.DecodeString, nil
	}, 0, 0},
	{"type1", []int{1}, true, openFontSpec(fontSpec{subtype: "Type1", baseFont: "Helvetica", encoding: "WinAnsiEncoding"}), 0, 0},
	{"truetype", []int{1}, true, openFontSpec(fontSpec{subtype: "TrueType", baseFont: "ABCDEF+Arial", encoding: "MacRomanEncoding", tuFlate: true}), 0, 0},
	{"type0", []int{2}, true, openFontSpec(fontSpec{subtype: "Type0", baseFont: "ABCDEF+Arial", encoding: "Identity-H", tuFlate: true}), 0, 0},
	{"pdf-type1", []int{1}, true, openPDF(fontSpec{subtype: "Type1", baseFont: "Helvetica", encoding: "WinAnsiEncoding", tuFlate: true, tuZlib: true}), 1, 2},
	{"pdf-type0", []int{2}, true, openPDF(fontSpec{subtype: "Type0", baseFont: "ABCDEF+Arial", encoding: "Identity-H"}), 1, 2},
}

func (v cmapVia) limit(thorough bool) int {
	if thorough {
		return v.maxLenThorough
	}
	return v.maxLen
}

func hasWidth(ws []int, w int) bool {
	for _, x := range ws {
		if x == w {
			return true
		}
	}
	return false
}

// compare classifies one observation. want is the specified text.
func compareText(got, want string, exact bool) (sig, detail string) {
	if strings.HasPrefix(got, routeErrorMark) {
		return "tounicode-route-error", strings.TrimPrefix(got, routeErrorMark)
	}
	if !utf8.ValidString(got) {
		return "invalid-utf8", fmt.Sprintf("got bytes % x", got)
	}
	if exact && got == nfc(want) {
		return "", ""
	}
	if !exact && nfc(got) == nfc(want) {
		return "", ""
	}
	d := fmt.Sprintf("want %s, got %s", quoteU(nfc(want)), quoteU(got))
	switch {
	case nfc(got) == nfc(want):
		return "tounicode-not-nfc", d
	case strings.ContainsRune(got, 0xFFFD) && !strings.ContainsRune(want, 0xFFFD):
		return "tounicode-fffd", d
	}
	return "tounicode-wrong", d
}

// cmaps: sub-space (2).
func cmaps(e *harness.Env) {
	progs := programs(3)
	for _, prog := range progs {
		for w := 1; w <= 4; w++ {
			entries := make([]entry, len(prog))
			for i, k := range prog {
				entries[i] = buildEntry(k, i, w)
			}
			for _, format := range cmapFormats {
				if (format == "arrsplit" || format == "arrnext") && !hasArrayKind(prog) {
					continue // identical to "lines"
				}
				for _, sec := range []string{"grouped", "split"} {
					if sec == "split" && len(prog) == 1 {
						continue // identical to "grouped"
					}
					if !e.Thorough() && len(prog) == 3 {
						// quick: three-entry programs only in the plain and the two most compact layouts, 1- and 2-byte codes
						if w > 2 || sec != "grouped" || !(format == "lines" || format == "oneline" || format == "secline" || format == "arrsplit") {
							continue
						}
					}
					for _, via := range cmapVias {
						if !hasWidth(via.widths, w) {
							continue
						}
						if lim := via.limit(e.Thorough()); lim > 0 && len(prog) > lim {
							continue
						}
						cmapGroup(e, prog, entries, w, format, sec, via)
					}
				}
			}
		}
	}
}

func cmapGroup(e *harness.Env, prog []string, entries []entry, w int, format, sec string, via cmapVia, extra ...interface{}) {
	var dec decoder
	var openErr error
	var opened bool
	var data []byte
	open := func() {
		if opened {
			return
		}
		opened = true
		data = renderCMap(entries, w, format, sec, true)
		sig, det := harness.Guard(func() { dec, openErr = via.open(data) })
		if sig != "" {
			openErr = fmt.Errorf("%s\n%s", sig, det)
		}
	}
	// which sections hold an array-form entry
	arrIn := func(i int) bool {
		if sec == "split" {
			return isArrayKind(entries[i].kind)
		}
		if !isRange(entries[i].kind) {
			return false
		}
		return hasArrayKind(prog)
	}
	base := []interface{}{"space", "cmap"}
	base = append(base, extra...) // e.g. the boundary code point of the astral programs
	base = append(base, "prog", strings.Join(prog, "."), "width", w, "fmt", format, "sec", sec, "via", via.name)
	for i := 0; i <= len(entries); i++ {
		var desc string
		if i < len(entries) {
			desc = D(append(append([]interface{}{}, base...), "entry", i, "kind", entries[i].kind, "arrsec", yn(arrIn(i)))...)
		} else {
			desc = D(append(append([]interface{}{}, base...), "entry", "all", "kind", "all", "arrsec", yn(hasArrayKind(prog)))...)
		}
		if !e.Own(desc) {
			continue
		}
		e.Begin(desc)
		open()
		files := map[string][]byte{"tounicode.cmap": data}
		if openErr != nil {
			e.Fail(desc, "tounicode-rejected", openErr.Error(), files)
			continue
		}
		nontrivial := !(len(prog) == 1 && prog[0] == "cB" && format == "lines")
		if i < len(entries) {
			if arrIn(i) && !isArrayKind(entries[i].kind) {
				// coverage: an offset-form entry observed inside a begin/endbfrange block that also holds an array entry
				e.Add("cmap_offset_entry_in_array_section_"+entries[i].kind, 1)
			}
			var sig, det string
			for _, m := range entries[i].maps {
				var got string
				if s, d := harness.Guard(func() { got = dec(m.code) }); s != "" {
					sig, det = s, d
					break
				}
				if s, d := compareText(got, m.want, via.exact); s != "" {
					sig, det = s, fmt.Sprintf("code <%X>: %s", m.code, d)
					break
				}
			}
			if sig != "" {
				e.Fail(desc, sig, det+"\n"+string(data), files)
				continue
			}
			e.Pass(desc, nontrivial, "cmap:"+entries[i].kind)
			continue
		}
		// the whole string: decoding the concatenation of all mapped codes = concatenation of the parts
		var all []byte
		var parts strings.Builder
		var gotAll string
		sig, det := harness.Guard(func() {
			for _, en := range entries {
				for _, m := range en.maps {
					all = append(all, m.code...)
					parts.WriteString(dec(m.code))
				}
			}
			gotAll = dec(all)
		})
		if sig != "" {
			e.Fail(desc, sig, det, files)
			continue
		}
		if nfc(gotAll) != nfc(parts.String()) {
			e.Fail(desc, "tounicode-concat", fmt.Sprintf("codes <%X>: whole %s, parts %s\n%s", all, quoteU(gotAll), quoteU(parts.String()), data), files)
			continue
		}
		if !utf8.ValidString(gotAll) {
			e.Fail(desc, "invalid-utf8", fmt.Sprintf("% x", gotAll), files)
			continue
		}
		e.Pass(desc, nontrivial, "cmap:whole")
	}
}

func yn(b bool) string {
	if b {
		return "y"
	}
	return "n"
}
