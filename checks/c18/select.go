package main

// Sub-space "select": part selection and call sequences on ONE reader.
//
// The format readers can be asked for a selection of parts (xlsx ExtractOptions.Sheets, pptx
// ExtractOptions.SlideNumbers: TextWithOptions, MarkdownWithOptions, MarkdownWithRAGOptions) and can
// be called any number of times. Enumerated: every non-empty sequence of distinct part indices
// (all subsets in all orders: prefix, non-prefix, ascending, descending) x every selecting call x
// every declared order x a few package variants. Oracle:
//  (1) the selecting call returns exactly the tokens of the selected parts, each once, in the order
//      of the selection (the declared order of the same parts is accepted as well: the option comment
//      does not define the order);
//  (2) every unrestricted accessor called AFTERWARDS on the same reader (names, part i, Text,
//      Markdown, Document) still satisfies the C18 oracle (declared order, every part once) and is
//      byte-identical to the same call on a fresh reader.
// EPUB readers have no selection: every accessor is used as the first call instead.

import (
	"fmt"
	"os"
	"path/filepath"
	"strings"

	"github.com/tsawler/tabula/epubdoc"
	"github.com/tsawler/tabula/pptx"
	"github.com/tsawler/tabula/rag"
	"github.com/tsawler/tabula/xlsx"
	"verif/internal/harness"
)

// view is what the sequence oracle needs from a format reader.
type view struct {
	close  func()
	names  func() []string // nil when the format has no part names
	parts  func() []string // text of part i for every i the reader reports
	text   func() (string, error)
	md     func() (string, error)
	pages  func() ([]string, error)               // Document().Pages[i].ExtractText()
	first  map[string]func() (string, error)      // epub: accessors usable as the first call
	selAPI map[string]func([]int) (string, error) // selecting calls
}

func openView(format, file string) (*view, error) {
	switch format {
	case "xlsx":
		r, err := xlsx.Open(file)
		if err != nil {
			return nil, err
		}
		return &view{
			close: func() { r.Close() },
			names: r.SheetNames,
			parts: func() []string {
				var out []string
				for i := 0; i < r.SheetCount(); i++ {
					sh, _ := r.Sheet(i)
					var t strings.Builder
					for _, row := range sh.Rows {
						for _, c := range row {
							t.WriteString(c.Value + "\n")
						}
					}
					out = append(out, t.String())
				}
				return out
			},
			text: r.Text, md: r.Markdown,
			pages: func() ([]string, error) {
				d, err := r.Document()
				if err != nil {
					return nil, err
				}
				var out []string
				for _, p := range d.Pages {
					out = append(out, p.ExtractText())
				}
				return out, nil
			},
			selAPI: map[string]func([]int) (string, error){
				"TextWithOptions":     func(s []int) (string, error) { return r.TextWithOptions(xlsx.ExtractOptions{Sheets: s}) },
				"MarkdownWithOptions": func(s []int) (string, error) { return r.MarkdownWithOptions(xlsx.ExtractOptions{Sheets: s}) },
				"MarkdownWithRAGOptions": func(s []int) (string, error) {
					return r.MarkdownWithRAGOptions(xlsx.ExtractOptions{Sheets: s}, rag.MarkdownOptions{})
				},
			},
		}, nil
	case "pptx":
		r, err := pptx.Open(file)
		if err != nil {
			return nil, err
		}
		return &view{
			close: func() { r.Close() },
			parts: func() []string {
				var out []string
				for i := 0; i < r.SlideCount(); i++ {
					sl, _ := r.Slide(i)
					t := sl.Title + "\n"
					for _, c := range sl.Content {
						t += c.Text + "\n"
					}
					out = append(out, t+sl.Notes+"\n")
				}
				return out
			},
			text: r.Text, md: r.Markdown,
			pages: func() ([]string, error) {
				d, err := r.Document()
				if err != nil {
					return nil, err
				}
				var out []string
				for _, p := range d.Pages {
					out = append(out, p.ExtractText())
				}
				return out, nil
			},
			selAPI: map[string]func([]int) (string, error){
				"TextWithOptions": func(s []int) (string, error) {
					return r.TextWithOptions(pptx.ExtractOptions{SlideNumbers: s, IncludeTitles: true, IncludeNotes: true})
				},
				"MarkdownWithOptions": func(s []int) (string, error) {
					return r.MarkdownWithOptions(pptx.ExtractOptions{SlideNumbers: s, IncludeTitles: true, IncludeNotes: true})
				},
				"MarkdownWithRAGOptions": func(s []int) (string, error) {
					return r.MarkdownWithRAGOptions(pptx.ExtractOptions{SlideNumbers: s, IncludeTitles: true}, rag.MarkdownOptions{})
				},
			},
		}, nil
	}
	r, err := epubdoc.Open(file)
	if err != nil {
		return nil, err
	}
	v := &view{
		close: func() { r.Close() },
		parts: func() []string {
			var out []string
			for _, c := range r.Chapters() {
				out = append(out, string(c.Content))
			}
			return out
		},
		text: r.Text, md: r.Markdown,
		pages: func() ([]string, error) {
			d, err := r.Document()
			if err != nil {
				return nil, err
			}
			var out []string
			for _, p := range d.Pages {
				out = append(out, p.ExtractText())
			}
			return out, nil
		},
	}
	v.first = map[string]func() (string, error){
		"Text": r.Text, "Markdown": r.Markdown,
		"Document":        func() (string, error) { _, err := r.Document(); return "", err },
		"Chapters":        func() (string, error) { r.Chapters(); return "", nil },
		"TableOfContents": func() (string, error) { r.TableOfContents(); return "", nil },
		"TextNavExcluded": func() (string, error) { return r.TextWithOptions(epubdoc.ExtractOptions{NavigationExclusion: 1}) },
	}
	return v, nil
}

// snapshot calls every unrestricted accessor once.
type snapshot struct {
	names, parts, pages []string
	text, md            string
}

func (v *view) snapshot() (snapshot, error) {
	var s snapshot
	var err error
	if v.names != nil {
		s.names = v.names()
	}
	s.parts = v.parts()
	if s.text, err = v.text(); err != nil {
		return s, err
	}
	if s.md, err = v.md(); err != nil {
		return s, err
	}
	s.pages, err = v.pages()
	return s, err
}

func (a snapshot) diff(b snapshot) []string {
	var d []string
	j := func(x []string) string { return strings.Join(x, "\x00") }
	if j(a.names) != j(b.names) {
		d = append(d, fmt.Sprintf("names %q, fresh reader %q", a.names, b.names))
	}
	if j(a.parts) != j(b.parts) {
		d = append(d, fmt.Sprintf("part(i) tokens %s, fresh reader %s", pageToks(a.parts), pageToks(b.parts)))
	}
	if a.text != b.text {
		d = append(d, fmt.Sprintf("Text() tokens %s, fresh reader %s", show(tokensIn(a.text)), show(tokensIn(b.text))))
	}
	if a.md != b.md {
		d = append(d, fmt.Sprintf("Markdown() tokens %s, fresh reader %s", show(tokensIn(a.md)), show(tokensIn(b.md))))
	}
	if j(a.pages) != j(b.pages) {
		d = append(d, fmt.Sprintf("Document().Pages tokens %s, fresh reader %s", pageToks(a.pages), pageToks(b.pages)))
	}
	return d
}

func pageToks(pages []string) string {
	var p []string
	for _, x := range pages {
		p = append(p, show(tokensIn(x)))
	}
	return strings.Join(p, "")
}

// sequences returns every non-empty sequence of distinct indices < n, shortest first, lexicographic.
func sequences(n int) [][]int {
	var out [][]int
	for l := 1; l <= n; l++ {
		var rec func(cur []int, used int)
		rec = func(cur []int, used int) {
			if len(cur) == l {
				out = append(out, append([]int{}, cur...))
				return
			}
			for i := 0; i < n; i++ {
				if used&(1<<i) == 0 {
					rec(append(cur, i), used|1<<i)
				}
			}
		}
		rec(nil, 0)
	}
	return out
}

func selectionSpace(e *harness.Env, dir string) {
	n := 3
	if e.Thorough() {
		n = 4
	}
	pm := perms(n)
	type variant struct{ name, dim, val string }
	vars := []variant{{"base", "", ""}, {"absent-mid", "absent", "mid"}, {"blank-first", "blank", "first"}, {"notes", "companion", "all-but-last"}}
	for _, format := range []string{"xlsx", "pptx", "epub3"} {
		ds := dimsFor(format)
		for _, vr := range vars {
			v := variants(ds, 0)[0]
			if vr.dim != "" {
				v[vr.dim] = vr.val
			}
			for di, decl := range pm {
				// file-name order and ZIP order differ from the declared order and from each other
				name, zp := pm[(di+1)%len(pm)], pm[len(pm)-1-di]
				s := &spec{format: format, n: n, decl: decl, name: name, zip: zp, v: v}
				nparts := len(s.expected())
				var calls []string // "api|sel"
				if format == "epub3" {
					for _, a := range []string{"Chapters", "Document", "Markdown", "TableOfContents", "Text", "TextNavExcluded"} {
						calls = append(calls, a+"|-")
					}
				} else {
					for _, a := range []string{"MarkdownWithOptions", "MarkdownWithRAGOptions", "TextWithOptions"} {
						for _, sq := range sequences(nparts) {
							calls = append(calls, a+"|"+strings.Trim(strings.ReplaceAll(fmt.Sprint(sq), " ", ","), "[]"))
						}
					}
				}
				for _, call := range calls {
					api, selStr, _ := strings.Cut(call, "|")
					desc := harness.D("space", "select", "fmt", format, "n", n, "decl", pstr(decl), "variant", vr.name, "api", api, "sel", selStr)
					if !e.Own(desc) {
						continue
					}
					var sel []int
					if selStr != "-" {
						for _, x := range strings.Split(selStr, ",") {
							var k int
							fmt.Sscan(x, &k)
							sel = append(sel, k)
						}
					}
					runSelection(e, dir, desc, s, api, sel)
				}
			}
		}
	}
}

func runSelection(e *harness.Env, dir, desc string, s *spec, api string, sel []int) {
	var b built
	switch s.format {
	case "xlsx":
		b = buildXLSX(s)
	case "pptx":
		b = buildPPTX(s)
	default:
		b = buildEPUB(s)
	}
	files := map[string][]byte{"input" + b.ext: b.data}
	if ref, err := refRead(s.format, b.data); err != nil || !equal(ref, b.expect) {
		e.Fail(desc, "harness:generator-reference-mismatch", fmt.Sprintf("reference reader: %s err=%v; case parameters: %s", show(ref), err, show(b.expect)), files)
		return
	}
	file := filepath.Join(dir, "sel"+b.ext)
	if err := os.WriteFile(file, b.data, 0o644); err != nil {
		panic(err)
	}
	e.Begin(desc)
	var sig, detail string
	gs, gd := harness.Guard(func() {
		fresh, err := openView(s.format, file)
		if err != nil {
			sig, detail = "error-on-valid-package", err.Error()
			return
		}
		base, err := fresh.snapshot()
		fresh.close()
		if err != nil {
			sig, detail = "error-on-valid-package", err.Error()
			return
		}
		v, err := openView(s.format, file)
		if err != nil {
			sig, detail = "error-on-valid-package", err.Error()
			return
		}
		defer v.close()
		// (1) the first call
		if sel != nil {
			out, err := v.selAPI[api](sel)
			if err != nil {
				sig, detail = "selection-error", fmt.Sprintf("%s(%v): %v", api, sel, err)
				return
			}
			var want, wantDeclared []int
			for _, i := range sel {
				if b.expect[i] >= 0 {
					want = append(want, b.expect[i])
				}
			}
			for i := range b.expect {
				for _, x := range sel {
					if x == i && b.expect[i] >= 0 {
						wantDeclared = append(wantDeclared, b.expect[i])
					}
				}
			}
			if got := tokensIn(out); !equal(got, want) && !equal(got, wantDeclared) {
				sig = "selection-wrong-parts"
				detail = fmt.Sprintf("%s(selection %v) shows %s, want %s (parts of the package in declared order: %s)", api, sel, show(got), show(want), show(b.expect))
				return
			}
		} else if _, err := v.first[api](); err != nil {
			sig, detail = "error-on-valid-package", fmt.Sprintf("%s: %v", api, err)
			return
		}
		// (2) every unrestricted accessor afterwards, on the same reader
		after, err := v.snapshot()
		if err != nil {
			sig, detail = "error-after-first-call", err.Error()
			return
		}
		j := &judge{expect: b.expect}
		j.paged("part(i)", after.parts)
		j.flow("Text", after.text)
		j.flow("Markdown", after.md)
		j.paged("Document.Pages", after.pages)
		if after.names != nil && strings.Join(after.names, "|") != strings.Join(b.names, "|") {
			j.flag("wrong-order", "names", fmt.Sprintf("%q, want %q", after.names, b.names))
		}
		d := after.diff(base)
		switch {
		case len(d) > 0:
			sig = "reader-state-changed-by-call"
			detail = fmt.Sprintf("after %s(%v) on the same reader:\n%s\n%s", api, sel, strings.Join(d, "\n"), strings.Join(j.notes, "\n"))
		case j.class != "": // same as a fresh reader, but a fresh reader is wrong as well
			sig, detail = j.class, strings.Join(j.notes, "\n")
		}
	})
	switch {
	case gs != "":
		e.Fail(desc, gs, gd, files)
	case sig != "":
		e.Fail(desc, sig, detail, files)
	default:
		kind := "first-call"
		if sel != nil {
			kind = fmt.Sprintf("select%d", len(sel))
		}
		e.Pass(desc, true, fmt.Sprintf("select:%s:%s:%s", s.format, api, kind))
	}
}
