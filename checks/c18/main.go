// C18 — Multi-part documents are read in their declared order.
//
// Bounded-exhaustive enumeration of XLSX / PPTX / EPUB 2 / EPUB 3 packages with N parts (3 quick,
// 4 thorough): ALL permutations of declared order x ALL permutations of part file-name order x ALL
// permutations of ZIP member order (relative to the "creation" order that relationship ids,
// manifest ids, relationship/manifest element order, sheet ids and sheet names follow), multiplied
// by packaging deviations (part path style, Target spelling, optional parts missing, unreferenced
// decoy parts, a declared part whose file is absent, order of the relationship / manifest
// elements, part members before or after the infrastructure members).
//
// Oracle (the writers' logical input): every part carries a unique token; PageCount = number of
// declared and readable parts; page i (Document().Pages[i], sheet i, slide i, chapter i) holds the
// token of the i-th declared readable part and no other token; Text()/ToMarkdown() show the tokens
// in declared order, each in one contiguous run; the decoy token never appears.
package main

import (
	"fmt"
	"os"
	"path"
	"path/filepath"
	"sort"
	"strings"
	"time"

	"github.com/tsawler/tabula"
	"github.com/tsawler/tabula/epubdoc"
	"github.com/tsawler/tabula/pptx"
	"github.com/tsawler/tabula/xlsx"
	"verif/internal/gen/epubw"
	"verif/internal/gen/pptxw"
	"verif/internal/gen/zipw"
	"verif/internal/harness"
)

func main() { harness.Main("C18", "exploration", run) }

// ---- permutations ---------------------------------------------------------------------------------

func perms(n int) [][]int {
	var out [][]int
	var rec func(cur []int, used int)
	rec = func(cur []int, used int) {
		if len(cur) == n {
			out = append(out, append([]int{}, cur...))
			return
		}
		for i := 0; i < n; i++ {
			if used&(1<<i) == 0 {
				rec(append(cur, i), used|1<<i)
			}
		}
	}
	rec(nil, 0)
	return out
}

func pstr(p []int) string {
	var b strings.Builder
	for _, x := range p {
		fmt.Fprint(&b, x)
	}
	return b.String()
}

func inverse(p []int) []int {
	q := make([]int, len(p))
	for i, x := range p {
		q[x] = i
	}
	return q
}

func equal(a, b []int) bool {
	if len(a) != len(b) {
		return false
	}
	for i := range a {
		if a[i] != b[i] {
			return false
		}
	}
	return true
}

// ---- variant dimensions ---------------------------------------------------------------------------

type dim struct {
	name string
	vals []string // vals[0] is the plain default
}

func dimsFor(format string) []dim {
	// addressing classes of a relationship Target: relative (default ...), "../"-relative (updir), package-absolute inside
	// the default folder (dimension target=abs), package-absolute OUTSIDE it (absoutside), names that need percent-encoding:
	// space (pct), a literal '%' + two hex digits (pct25), a non-ASCII letter (utf8pct) — OPC keeps the escapes in the ZIP item name
	ooxmlPaths := []string{"default", "twodigit", "nested", "renamed", "otherdir", "pct", "pct25", "utf8pct", "plus", "updir", "absoutside"}
	decoys := []string{"none", "first", "mid", "last", "first+link", "mid+link", "last+link"}
	absent := []string{"none", "first", "mid", "last"}
	// manifest hrefs are relative IRI references (no package-absolute class): relative, nested, "../"-relative, and names that
	// need percent-encoding: space (pct), '+' (plus / pctplus), a literal '%' + two hex digits (pct25), a non-ASCII letter (utf8)
	epubPaths := []string{"default", "twodigit", "nested", "renamed", "rootopf", "deepopf", "pct", "pct25", "plus", "pctplus", "utf8", "updir"}
	place := dim{"place", []string{"after", "before"}}            // part members after / before the infrastructure members
	relorder := dim{"relorder", []string{"creation", "reversed"}} // order of <Relationship> / manifest <item> elements
	// one declared part lacks the optional companion part that every other part has (pptx: notes slide + slide .rels;
	// xlsx: comments part + sheet .rels; epub: per-chapter stylesheet resource)
	companion := dim{"companion", []string{"none", "all-but-first", "all-but-mid", "all-but-last"}}
	// one declared part is readable but empty (blank sheet, slide without text, chapter with an empty body)
	blank := dim{"blank", []string{"none", "first", "mid", "last"}}
	// the dimensions listed last are enumerated first (path and decoy deviations before the cosmetic ones)
	switch format {
	case "xlsx":
		return []dim{place, relorder, {"target", []string{"rel", "abs"}}, {"opt", []string{"all", "no-sst", "no-styles", "no-docprops"}},
			{"absent", absent}, blank, companion, {"decoy", decoys}, {"path", ooxmlPaths}}
	case "pptx":
		return []dim{place, relorder, {"target", []string{"rel", "abs"}}, {"opt", []string{"all", "no-docprops", "no-theme", "no-sliderels", "notes"}},
			{"absent", absent}, blank, companion, {"decoy", decoys}, {"path", ooxmlPaths}}
	case "epub2":
		return []dim{place, relorder, {"opt", []string{"all", "no-nav", "both-nav"}}, {"absent", absent}, blank, companion, {"decoy", decoys}, {"path", epubPaths}}
	case "epub3":
		return []dim{place, relorder, {"opt", []string{"all", "no-nav", "both-nav", "nav-in-spine"}}, {"absent", absent}, blank, companion, {"decoy", decoys}, {"path", epubPaths}}
	}
	panic("format")
}

// variants enumerates every assignment with at most bound non-default values (deterministic order).
func variants(ds []dim, bound int) []map[string]string {
	var out []map[string]string
	cur := make([]int, len(ds))
	var rec func(i, devs int)
	rec = func(i, devs int) {
		if i == len(ds) {
			m := map[string]string{}
			for j, d := range ds {
				m[d.name] = d.vals[cur[j]]
			}
			out = append(out, m)
			return
		}
		for v := range ds[i].vals {
			nd := devs
			if v != 0 {
				nd++
			}
			if nd > bound {
				break
			}
			cur[i] = v
			rec(i+1, nd)
		}
		cur[i] = 0
	}
	rec(0, 0)
	return out
}

// ---- the case -------------------------------------------------------------------------------------

type spec struct {
	format          string
	n               int
	decl, name, zip []int             // decl[i]=part at declared position i; name[k]=file rank of part k; zip[j]=part at ZIP position j
	v               map[string]string // variant values
}

const decoyTok = "ZQX"

func tok(k int) string {
	if k < 0 {
		return decoyTok
	}
	return "ZQ" + string(rune('A'+k))
}

// expectation: tokens (part numbers) per page in declared order; -1 = a page without any token.
type built struct {
	data   []byte
	ext    string
	expect []int
	names  []string // xlsx: expected sheet names; epub: expected chapter member names
	notes  []bool   // pptx: per expected slide, whether it has speaker notes
}

// slotNumber maps the file rank of a part (or the decoy, rank<0) to the number used in its file name.
func (s *spec) slotNumber(rank int) int {
	base := 1
	if s.v["path"] == "twodigit" {
		base = 8 // 8, 9, 10, 11: lexical order of the names differs from numeric order
	}
	d := -1
	switch strings.TrimSuffix(s.v["decoy"], "+link") {
	case "first":
		d = 0
	case "mid":
		d = 1
	case "last":
		d = s.n
	}
	if rank < 0 {
		return d + base
	}
	if d >= 0 && rank >= d {
		rank++
	}
	return rank + base
}

// partOrder returns the ZIP order as indices into (declared parts..., decoy).
func (s *spec) partOrder() []int {
	inv := inverse(s.decl)
	var po []int
	for _, k := range s.zip {
		po = append(po, inv[k])
	}
	pos := -1
	switch strings.TrimSuffix(s.v["decoy"], "+link") {
	case "first":
		pos = 0
	case "mid":
		pos = 1
	case "last":
		pos = s.n
	}
	if pos >= 0 {
		po = append(po[:pos], append([]int{s.n}, po[pos:]...)...)
	}
	return po
}

// relOrder returns the order of relationship / manifest elements as indices into the declared list.
func (s *spec) relOrder() []int {
	inv := inverse(s.decl)
	var ro []int
	for k := 0; k < s.n; k++ {
		ro = append(ro, inv[k])
	}
	if s.v["relorder"] == "reversed" {
		for i, j := 0, len(ro)-1; i < j; i, j = i+1, j-1 {
			ro[i], ro[j] = ro[j], ro[i]
		}
	}
	return ro
}

func (s *spec) absentPos() int {
	switch s.v["absent"] {
	case "first":
		return 0
	case "mid":
		return 1
	case "last":
		return s.n - 1
	}
	return -1
}

func (s *spec) posOf(val string) int {
	switch strings.TrimPrefix(val, "all-but-") {
	case "first":
		return 0
	case "mid":
		return 1
	case "last":
		return s.n - 1
	}
	return -1
}

// isBlank: the part at declared position i is readable but carries no text (and no companion).
func (s *spec) isBlank(i int) bool { return i == s.posOf(s.v["blank"]) }

// hasCompanion: the part at declared position i has the optional companion part.
func (s *spec) hasCompanion(i int) bool {
	return s.v["companion"] != "none" && i != s.posOf(s.v["companion"]) && !s.isBlank(i)
}

func (s *spec) expected() []int {
	var e []int
	for i, k := range s.decl {
		switch {
		case i == s.absentPos():
		case s.isBlank(i):
			e = append(e, -1) // a page of its own, without any token
		default:
			e = append(e, k)
		}
	}
	return e
}

func ooxmlPath(format, style string, num int) string {
	dir, stem := "xl/worksheets", "sheet"
	if format == "pptx" {
		dir, stem = "ppt/slides", "slide"
	}
	top := strings.SplitN(dir, "/", 2)[0]
	switch style {
	case "nested":
		return fmt.Sprintf("%s/sub/%s%d.xml", dir, stem, num)
	case "renamed":
		return fmt.Sprintf("%s/part_%c.xml", dir, 'z'-byte(num)) // names without the conventional stem or number
	case "otherdir":
		return fmt.Sprintf("%s/content/%s%d.xml", top, stem, num)
	case "pct":
		return fmt.Sprintf("%s/%s%%20%d.xml", dir, stem, num) // OPC: the ZIP item name keeps the escape
	case "pct25":
		return fmt.Sprintf("%s/%s%%2541-%d.xml", dir, stem, num) // stands for "sheet%41-1.xml"; decoding it (once or twice) is wrong
	case "utf8pct":
		return fmt.Sprintf("%s/caf%%C3%%A9%d.xml", dir, num)
	case "plus":
		return fmt.Sprintf("%s/%s+%d.xml", dir, stem, num)
	case "updir", "absoutside":
		return fmt.Sprintf("%s%d/%s.xml", stem, num, stem) // outside xl/ resp. ppt/: Target "../sheet1/sheet.xml"
	}
	return fmt.Sprintf("%s/%s%d.xml", dir, stem, num)
}

func buildXLSX(s *spec) built {
	b := xbook{AbsTargets: s.v["target"] == "abs", PartsFirst: s.v["place"] == "before",
		NoSST: s.v["opt"] == "no-sst", NoStyles: s.v["opt"] == "no-styles", NoDocProps: s.v["opt"] == "no-docprops"}
	// shared string table: index order differs from every other order (descending part number, decoy first)
	b.SSTSize = s.n + 1
	b.SSTOf = func(i int) string {
		if i == 0 {
			return "Head " + decoyTok
		}
		return "Head " + tok(s.n-i)
	}
	var names []string
	for i, k := range s.decl {
		sh := xsheet{Name: fmt.Sprintf("Tab %c", 'A'+k), SheetID: k + 1, RID: fmt.Sprintf("rId%d", k+1),
			Path: ooxmlPath("xlsx", s.v["path"], s.slotNumber(s.name[k])), Head: "Head " + tok(k), Body: "Body " + tok(k), SST: s.n - k,
			Absent: i == s.absentPos(), Blank: s.isBlank(i)}
		if s.v["path"] == "absoutside" {
			sh.Target = "/" + sh.Path
		}
		if s.hasCompanion(i) {
			sh.Comment = "Note " + tok(k)
		}
		b.Sheets = append(b.Sheets, sh)
		if !sh.Absent {
			names = append(names, sh.Name)
		}
	}
	if s.v["decoy"] != "none" {
		b.Decoys = []xsheet{{Name: "Decoy", SheetID: 77, RID: "rId77", Path: ooxmlPath("xlsx", s.v["path"], s.slotNumber(-1)),
			Head: "Head " + decoyTok, Body: "Body " + decoyTok, SST: 0, Linked: strings.HasSuffix(s.v["decoy"], "+link")}}
	}
	b.RelOrder = s.relOrder()
	b.PartOrder = s.partOrder()
	ms := b.members()
	var paths, present []string
	for _, sh := range b.Sheets {
		paths = append(paths, sh.Path)
		if !sh.Absent { // a dangling reference has no "wrong resolution": what a reader tries for it is not constrained
			present = append(present, sh.Path)
		}
	}
	for _, name := range shadowNames(ms, paths, ooxmlShadows("xl", present, s.v["target"] == "abs")) {
		ms = append(ms, zipw.M(name, b.sheetXML(xsheet{Head: "Head " + decoyTok, Body: "Body " + decoyTok, SST: 0})))
	}
	return built{data: pack(ms, "xl/workbook.xml"), ext: ".xlsx", expect: s.expected(), names: names}
}

func buildPPTX(s *spec) built {
	d := pptxw.Deck{Title: "C18 deck", Author: "verif", PartsFirst: s.v["place"] == "before",
		OmitDocProps: s.v["opt"] == "no-docprops", OmitTheme: s.v["opt"] == "no-theme", OmitSlideRels: s.v["opt"] == "no-sliderels"}
	if s.v["target"] == "abs" {
		d.TargetStyle = pptxw.TargetAbsolute
	}
	mk := func(k int, rank int, rid string) pptxw.Slide {
		sl := pptxw.Slide{Path: ooxmlPath("pptx", s.v["path"], s.slotNumber(rank)), RID: rid,
			Title: "Head " + tok(k), Paras: []pptxw.Para{{Text: "Body " + tok(k)}}}
		if s.v["opt"] == "notes" {
			sl.Notes = "Note " + tok(k)
		}
		return sl
	}
	var notes []bool
	for i, k := range s.decl {
		sl := mk(k, s.name[k], fmt.Sprintf("rId%d", 11+k))
		sl.SlideID = 256 + k // creation order: a moved slide keeps its id
		if s.v["path"] == "absoutside" {
			sl.Target = "/" + sl.Path
		}
		sl.Absent = i == s.absentPos()
		switch {
		case s.isBlank(i):
			sl.Title, sl.Paras, sl.Notes = "", nil, ""
		case s.hasCompanion(i):
			sl.Notes = "Note " + tok(k)
		case s.v["companion"] != "none":
			sl.NoRels = true // the one slide without notes has no .rels part either
		}
		d.Slides = append(d.Slides, sl)
		if !sl.Absent {
			notes = append(notes, sl.Notes != "")
		}
	}
	if s.v["decoy"] != "none" {
		sl := mk(-1, -1, "rId77")
		sl.SlideID = 999
		sl.Related = strings.HasSuffix(s.v["decoy"], "+link")
		d.Decoys = []pptxw.Slide{sl}
	}
	d.RelOrder = s.relOrder()
	d.PartOrder = s.partOrder()
	ms := d.Members()
	var paths, present []string
	for _, sl := range d.Slides {
		paths = append(paths, sl.Path)
		if !sl.Absent {
			present = append(present, sl.Path)
		}
	}
	for _, name := range shadowNames(ms, paths, ooxmlShadows("ppt", present, s.v["target"] == "abs")) {
		ms = append(ms, zipw.M(name, pptxw.SlideXML(pptxw.Slide{Title: "Head " + decoyTok, Paras: []pptxw.Para{{Text: "Body " + decoyTok}}})))
	}
	return built{data: pack(ms, "ppt/presentation.xml"), ext: ".pptx", expect: s.expected(), notes: notes}
}

func epubHref(style string, num int) (opf, href string) {
	opf = "OEBPS/content.opf"
	switch style {
	case "nested":
		href = fmt.Sprintf("text/ch%d.xhtml", num)
	case "renamed":
		href = fmt.Sprintf("part_%c.html", 'z'-byte(num))
	case "rootopf":
		opf, href = "content.opf", fmt.Sprintf("ch%d.xhtml", num)
	case "deepopf":
		opf, href = "a/b/c/pkg.opf", fmt.Sprintf("x/ch%d.xhtml", num)
	case "pct":
		href = fmt.Sprintf("ch%%20%d.xhtml", num) // member "ch 1.xhtml"
	case "pct25":
		href = fmt.Sprintf("part%%2541-%d.xhtml", num) // member "part%41-1.xhtml" (decoded exactly once)
	case "plus":
		href = fmt.Sprintf("ch+%d.xhtml", num) // '+' is a literal plus in a path
	case "pctplus":
		href = fmt.Sprintf("ch%%2B%d.xhtml", num) // member "ch+1.xhtml"
	case "utf8":
		href = fmt.Sprintf("caf%%C3%%A9%d.xhtml", num) // member "café1.xhtml"
	case "updir":
		opf, href = "OEBPS/pkg/content.opf", fmt.Sprintf("../text/ch%d.xhtml", num) // member "OEBPS/text/ch1.xhtml"
	default:
		href = fmt.Sprintf("ch%d.xhtml", num)
	}
	return
}

func buildEPUB(s *spec) built {
	b := epubw.Book{Version: 3, Title: "C18 book", Author: "verif", PartsFirst: s.v["place"] == "before",
		OmitNav: s.v["opt"] == "no-nav", BothNav: s.v["opt"] == "both-nav", NavInSpine: s.v["opt"] == "nav-in-spine"}
	if s.format == "epub2" {
		b.Version = 2
	}
	mk := func(k, rank int, id string) epubw.Chapter {
		opf, href := epubHref(s.v["path"], s.slotNumber(rank))
		b.OPFPath = opf
		return epubw.Chapter{ID: id, Href: href, Title: "Head " + tok(k), Body: "<p>Body " + tok(k) + "</p>", NavLabel: fmt.Sprintf("Entry %d", k+1)}
	}
	var names []string
	for i, k := range s.decl {
		c := mk(k, s.name[k], fmt.Sprintf("item-%c", 'a'+k))
		c.Absent = i == s.absentPos()
		if s.isBlank(i) {
			c.Title, c.Body = "", ""
		}
		if s.hasCompanion(i) {
			css := fmt.Sprintf("style-%c.css", 'a'+k) // next to the chapter file
			c.Head = `<link rel="stylesheet" type="text/css" href="` + css + `"/>`
			b.Resources = append(b.Resources, epubw.Resource{ID: fmt.Sprintf("css-%c", 'a'+k), Href: path.Join(path.Dir(c.Href), css), MediaType: "text/css", Data: "p { margin: 0 }"})
		}
		b.Chapters = append(b.Chapters, c)
		if !c.Absent {
			names = append(names, epubw.Resolve(b.OPFPath, c.Href))
		}
	}
	if s.v["decoy"] != "none" {
		c := mk(-1, -1, "item-decoy")
		c.InManifest = strings.HasSuffix(s.v["decoy"], "+link")
		b.Decoys = []epubw.Chapter{c}
	}
	b.ManifestOrder = s.relOrder()
	b.NavOrder = s.relOrder() // the TOC lists the chapters in creation order (or its reverse), not in reading order
	b.PartOrder = s.partOrder()
	exp := s.expected()
	if b.NavInSpine {
		exp = append([]int{-1}, exp...)
		names = append([]string{epubw.Resolve(b.OPFPath, "nav.xhtml")}, names...)
	}
	ms := b.Members()
	var hrefs, right []string
	for _, c := range b.Chapters {
		if !c.Absent {
			hrefs = append(hrefs, c.Href)
		}
		right = append(right, epubw.Resolve(b.OPFPath, c.Href))
	}
	for _, name := range shadowNames(ms, right, epubShadows(b.OPFPath, hrefs)) {
		ms = append(ms, zipw.M(name, epubw.ChapterXHTML(epubw.Chapter{Title: "Head " + decoyTok, Body: "<p>Body " + decoyTok + "</p>"})))
	}
	return built{data: pack(ms, b.OPFPath), ext: ".epub", expect: exp, names: names}
}

// pack serializes the members. Only the members that carry tokens (the parts) and the main part are
// deflated; the boilerplate members are stored, which is equally valid ZIP and keeps the cost of
// one case (dominated by deflate set-up) low enough for the 4-part product.
func pack(ms []zipw.Member, mainPart string) []byte {
	for i := range ms {
		if ms[i].Name != mainPart && !strings.Contains(string(ms[i].Data), "ZQ") {
			ms[i].Store = true
		}
	}
	return zipw.Zip(ms)
}

// ---- shadow decoys: members at the locations a WRONG resolution of the declared references would produce --------------
//
// They are not referenced from anywhere, carry the decoy token and are present in every package (default style
// included), so that a reader that resolves a reference wrongly shows foreign text instead of merely losing a part.

// pctDecodeOnce decodes %XX escapes once (nothing else).
func pctDecodeOnce(s string) string { return epubw.PctDecode(s) }

// ooxmlShadows: wrong resolutions of relationship Targets of the parts (ZIP names) below the main part's folder top.
func ooxmlShadows(top string, parts []string, absTargets bool) []string {
	var out []string
	for _, p := range parts {
		if strings.HasPrefix(p, top+"/") {
			out = append(out, strings.TrimPrefix(p, top+"/")) // resolved against the package root instead of the source part
			if absTargets {
				out = append(out, top+"/"+p) // package-absolute target re-rooted below the folder of the source part
			}
		} else {
			out = append(out, top+"/"+p) // "../" dropped, or an absolute target outside the folder re-rooted below it
		}
		if d := pctDecodeOnce(p); d != p { // OPC: the escapes are part of the ZIP item name, decoding is wrong
			out = append(out, d)
			if dd := pctDecodeOnce(d); dd != d {
				out = append(out, dd)
			}
		}
		if strings.Contains(p, "+") {
			out = append(out, strings.ReplaceAll(p, "+", " ")) // form-decoding
		}
	}
	return out
}

// epubShadows: wrong resolutions of manifest hrefs (as written) relative to the OPF.
func epubShadows(opf string, hrefs []string) []string {
	dir := path.Dir(opf)
	var out []string
	for _, h := range hrefs {
		right := epubw.Resolve(opf, h)
		out = append(out,
			epubw.Resolve("x.opf", h),           // resolved against the container root instead of the OPF
			path.Join(dir, h),                   // not percent-decoded
			pctDecodeOnce(right),                // decoded twice
			strings.ReplaceAll(right, "+", " "), // form-decoding of a literal plus
			path.Join(dir, strings.ReplaceAll(pctDecodeOnce(h), "../", "")), // "../" dropped
		)
	}
	return out
}

// shadowNames filters the candidates: no duplicates, nothing that is a real member of the package.
func shadowNames(ms []zipw.Member, right []string, cands []string) []string {
	have := map[string]bool{}
	for _, m := range ms {
		have[m.Name] = true
	}
	for _, r := range right { // the correct location of a declared part stays free even when the part is absent
		have[r] = true
	}
	var out []string
	for _, c := range cands {
		if c == "" || have[c] || strings.HasPrefix(c, "../") {
			continue
		}
		have[c] = true
		out = append(out, c)
	}
	return out
}

// ---- observation ----------------------------------------------------------------------------------

// tokensIn returns the part numbers of the tokens in s in order of occurrence, consecutive repeats
// collapsed; the decoy is reported as -2.
func tokensIn(s string) []int {
	var out []int
	for i := 0; i+2 < len(s); i++ {
		if s[i] == 'Z' && s[i+1] == 'Q' && s[i+2] >= 'A' && s[i+2] <= 'Z' {
			k := int(s[i+2] - 'A')
			if s[i+2] == 'X' {
				k = -2
			}
			if len(out) == 0 || out[len(out)-1] != k {
				out = append(out, k)
			}
		}
	}
	return out
}

var classRank = map[string]int{"decoy-part-included": 6, "part-lost": 5, "wrong-order": 4, "text-in-wrong-page": 3, "pagecount-mismatch": 2, "href-not-resolved": 1}

type judge struct {
	expect []int
	class  string
	notes  []string
}

func (j *judge) flag(class, api, msg string) {
	if classRank[class] > classRank[j.class] {
		j.class = class
	}
	j.notes = append(j.notes, fmt.Sprintf("[%s] %s: %s", class, api, msg))
}

func (j *judge) expTokens() []int {
	var e []int
	for _, k := range j.expect {
		if k >= 0 {
			e = append(e, k)
		}
	}
	return e
}

func sameSet(a, b []int) bool {
	x, y := append([]int{}, a...), append([]int{}, b...)
	sort.Ints(x)
	sort.Ints(y)
	return equal(x, y)
}

func contains(a []int, v int) bool {
	for _, x := range a {
		if x == v {
			return true
		}
	}
	return false
}

func show(seq []int) string {
	var p []string
	for _, k := range seq {
		switch {
		case k == -2:
			p = append(p, "DECOY")
		case k == -1:
			p = append(p, "-")
		default:
			p = append(p, tok(k))
		}
	}
	return "[" + strings.Join(p, " ") + "]"
}

// compareSeq classifies an observed token sequence against the expected one.
func (j *judge) compareSeq(api string, got []int) {
	want := j.expTokens()
	if equal(got, want) {
		return
	}
	msg := fmt.Sprintf("tokens %s, want %s", show(got), show(want))
	switch {
	case contains(got, -2):
		j.flag("decoy-part-included", api, msg)
	case func() bool {
		for _, k := range want {
			if !contains(got, k) {
				return true
			}
		}
		return false
	}():
		j.flag("part-lost", api, msg)
	case sameSet(got, want):
		j.flag("wrong-order", api, msg)
	default:
		j.flag("text-in-wrong-page", api, msg)
	}
}

// flow checks a whole-document rendering.
func (j *judge) flow(api, text string) { j.compareSeq(api, tokensIn(text)) }

// paged checks a per-part rendering.
func (j *judge) paged(api string, pages []string) {
	var seq []int
	multi := false
	for i, p := range pages {
		t := tokensIn(p)
		if len(t) > 1 {
			multi = true
			j.flag("text-in-wrong-page", api, fmt.Sprintf("page %d holds tokens %s", i+1, show(t)))
		}
		if len(t) == 0 {
			seq = append(seq, -1)
		} else {
			seq = append(seq, t...)
		}
	}
	if contains(seq, -2) {
		j.flag("decoy-part-included", api, fmt.Sprintf("pages %s, want %s", show(seq), show(j.expect)))
		return
	}
	if equal(seq, j.expect) && !multi {
		return
	}
	// strip token-free pages for the order comparison, then account for the page count
	var toks []int
	for _, k := range seq {
		if k >= 0 {
			toks = append(toks, k)
		}
	}
	before := len(j.notes)
	j.compareSeq(api, toks)
	switch {
	case len(pages) != len(j.expect):
		j.flag("pagecount-mismatch", api, fmt.Sprintf("%d pages %s, want %d %s", len(pages), show(seq), len(j.expect), show(j.expect)))
	case len(j.notes) == before && !multi:
		// same tokens in the same order, but a token-free page (nav document) sits at another position
		j.flag("wrong-order", api, fmt.Sprintf("pages %s, want %s", show(seq), show(j.expect)))
	}
}

func (j *judge) count(api string, n int) {
	if n != len(j.expect) {
		j.flag("pagecount-mismatch", api, fmt.Sprintf("%d, want %d", n, len(j.expect)))
	}
}

// observe runs every observation point of the property on the file and judges it.
// openErr is the first error of an entry point (any later call would fail the same way).
func observe(s *spec, b built, file string) (j *judge, openErr error) {
	j = &judge{expect: b.expect}
	ex := tabula.Open(file)
	defer ex.Close()
	n, err := ex.PageCount()
	if err != nil {
		return j, fmt.Errorf("tabula.Open.PageCount: %w", err)
	}
	j.count("PageCount", n)
	text, _, err := ex.Text()
	if err != nil {
		return j, fmt.Errorf("tabula.Open.Text: %w", err)
	}
	j.flow("Text", text)
	md, _, err := ex.ToMarkdown()
	if err != nil {
		return j, fmt.Errorf("tabula.Open.ToMarkdown: %w", err)
	}
	j.flow("ToMarkdown", md)
	doc, _, err := ex.Document()
	if err != nil {
		return j, fmt.Errorf("tabula.Open.Document: %w", err)
	}
	var pages []string
	for _, p := range doc.Pages {
		pages = append(pages, p.ExtractText())
	}
	j.paged("Document.Pages", pages)

	switch s.format {
	case "xlsx":
		r, err := xlsx.Open(file)
		if err != nil {
			return j, fmt.Errorf("xlsx.Open: %w", err)
		}
		defer r.Close()
		if got := r.SheetNames(); strings.Join(got, "|") != strings.Join(b.names, "|") {
			have := map[string]bool{}
			for _, g := range got {
				have[g] = true
			}
			class := "wrong-order"
			if len(got) > len(b.names) {
				class = "decoy-part-included"
			}
			for _, w := range b.names {
				if !have[w] {
					class = "part-lost"
				}
			}
			j.flag(class, "xlsx.SheetNames", fmt.Sprintf("%q, want %q", got, b.names))
		}
		var sheets []string
		for i := 0; i < r.SheetCount(); i++ {
			sh, _ := r.Sheet(i)
			var t strings.Builder
			for _, row := range sh.Rows {
				for _, c := range row {
					t.WriteString(c.Value + "\n")
				}
			}
			sheets = append(sheets, t.String())
		}
		j.paged("xlsx.Sheet(i)", sheets)
	case "pptx":
		r, err := pptx.Open(file)
		if err != nil {
			return j, fmt.Errorf("pptx.Open: %w", err)
		}
		defer r.Close()
		var slides []string
		for i := 0; i < r.SlideCount(); i++ {
			sl, _ := r.Slide(i)
			var t strings.Builder
			t.WriteString(sl.Title + "\n")
			for _, c := range sl.Content {
				t.WriteString(c.Text + "\n")
			}
			t.WriteString(sl.Notes + "\n")
			slides = append(slides, t.String())
			if r.SlideCount() == len(b.notes) && b.notes[i] && !strings.Contains(sl.Notes, "Note ZQ") {
				j.flag("part-lost", "pptx.Slide(i).Notes", fmt.Sprintf("slide %d has no notes", i+1))
			}
			if r.SlideCount() == len(b.notes) && !b.notes[i] && sl.Notes != "" {
				j.flag("text-in-wrong-page", "pptx.Slide(i).Notes", fmt.Sprintf("slide %d has no notes slide but reports notes %q", i+1, sl.Notes))
			}
		}
		j.paged("pptx.Slide(i)", slides)
	default:
		r, err := epubdoc.Open(file)
		if err != nil {
			return j, fmt.Errorf("epubdoc.Open: %w", err)
		}
		defer r.Close()
		var chs, hrefs []string
		for _, c := range r.Chapters() {
			chs = append(chs, string(c.Content))
			hrefs = append(hrefs, c.Href)
		}
		j.paged("epubdoc.Chapters()", chs)
		if j.class == "" && strings.Join(hrefs, "|") != strings.Join(b.names, "|") {
			j.flag("href-not-resolved", "epubdoc.Chapters().Href", fmt.Sprintf("%q, want %q", hrefs, b.names))
		}
	}
	return j, nil
}

// ---- enumeration ----------------------------------------------------------------------------------

func run(e *harness.Env) {
	e.Rule = "per format (xlsx, pptx, epub2, epub3): every triple (declared order, file-name order, ZIP member order) of permutations of N parts " +
		"(N=3: 216 triples, N=4: 13824) x packaging variants = every assignment of {part path style, Target spelling, optional parts, decoy part, absent declared part, " +
		"every package also holds unreferenced shadow members (decoy token) at the locations wrong resolutions of its references would produce; one blank part (every position), one part without the optional companion part the others have (every position), " +
		"relationship/manifest element order, members before/after infrastructure} with at most B non-default values " +
		"(quick: N=3,B=1; thorough: N=3,B=2 and N=4,B=1 restricted to path/decoy/companion/blank/absent). plus sub-space select: every sequence of distinct part indices x every selecting reader call (xlsx Sheets, pptx SlideNumbers) x every declared order x 4 package variants, followed by every unrestricted accessor on the same reader (epub: every accessor as first call). distinct = distinct descriptors; non-trivial = any permutation differs from creation order or any variant value is non-default"
	e.Assumptions = []string{
		"archive/zip writes the members in the order given (Go standard library)",
		"the writers pptxw / epubw / the private XLSX writer emit packages that are valid for OPC / ECMA-376 / EPUB OCF+OPF (structure reviewed against the specifications; the logical input is the oracle)",
		"a declared part whose file is absent makes the package defective: refusing the file is accepted, opening it must skip exactly that part; no shadow member is planted for a dangling reference (what a lenient reader tries for it is not constrained by the statement)",
	}
	dir := harness.Scratch()
	defer os.RemoveAll(dir)

	// passes: (parts, max deviations, only variants with exactly that many deviations?) in order of cost
	type pass struct{ n, minDev, maxDev int }
	passes := []pass{{3, 0, 1}}
	if e.Thorough() {
		passes = []pass{{3, 0, 2}, {4, 0, 0}, {4, 1, 1}}
		e.SetBudget(13 * time.Minute)
	}
	e.Note("bound", "quick: 3 parts, <=1 non-default variant value; thorough: 3 parts <=2, 4 parts <=1 (4 parts: path, decoy, companion, blank, absent deviations only)")
	selectionSpace(e, dir) // part selections and call sequences on one reader (select.go)
	formats := []string{"xlsx", "pptx", "epub2", "epub3"}
	for _, ps := range passes {
		pm := perms(ps.n)
		pstrs := make([]string, len(pm))
		invs := make([][]int, len(pm))
		for i, p := range pm {
			pstrs[i], invs[i] = pstr(p), inverse(p)
		}
		// formats are interleaved variant by variant, so that a time cap cuts all formats evenly
		vlists := map[string][]map[string]string{}
		maxLen := 0
		for _, format := range formats {
			vlists[format] = variants(dimsFor(format), ps.maxDev)
			if len(vlists[format]) > maxLen {
				maxLen = len(vlists[format])
			}
		}
		for vi := 0; vi < maxLen; vi++ {
			for _, format := range formats {
				if vi >= len(vlists[format]) {
					continue
				}
				ds := dimsFor(format)
				v := vlists[format][vi]
				var vd []interface{}
				devs := 0
				var devNames []string
				for _, d := range ds {
					vd = append(vd, d.name, v[d.name])
					if v[d.name] != d.vals[0] {
						devs++
						devNames = append(devNames, d.name)
					}
				}
				if devs < ps.minDev {
					continue
				}
				// 4 parts: the deviations that do not interact with the number or position of parts (member placement,
				// relationship element order, Target spelling, package-wide optional parts) stay at 3 parts, where
				// they are enumerated alone and in every pair
				if ps.n == 4 && devs == 1 && (devNames[0] == "place" || devNames[0] == "relorder" || devNames[0] == "target" || devNames[0] == "opt") {
					continue
				}
				if e.TimeUp() {
					e.Incomplete(fmt.Sprintf("time budget reached in pass parts=%d deviations<=%d", ps.n, ps.maxDev))
					return
				}
				vdesc := harness.D(vd...)
				kind := "base"
				if devs > 0 {
					kind = strings.Join(devNames, "+")
				}
				id := make([]int, ps.n)
				for i := range id {
					id[i] = i
				}
				// descriptors are assembled from precomputed pieces (the enumeration itself must stay cheap:
				// every worker and every replay walks all of it)
				head := harness.D("fmt", format, "n", ps.n)
				tail := " " + vdesc
				hasDecoy := " hasdecoy=" + fmt.Sprint(v["decoy"] != "none") +
					" hascompanion=" + fmt.Sprint(v["companion"] != "none" || v["opt"] == "notes")
				rel := func(a, decl []int) string {
					if equal(a, decl) {
						return "declared"
					}
					return "other"
				}
				for di, decl := range pm {
					creation := " creationorder=" + rel(id, decl)
					for ni, name := range pm {
						nameorder := " nameorder=" + rel(invs[ni], decl) // parts sorted by file rank vs declared order
						mid := head + " decl=" + pstrs[di] + " name=" + pstrs[ni] + " zip="
						for zi, zp := range pm {
							desc := mid + pstrs[zi] + tail + nameorder + " ziporder=" + rel(zp, decl) + creation + hasDecoy
							if !e.Own(desc) {
								continue
							}
							s := &spec{format: format, n: ps.n, decl: decl, name: name, zip: zp, v: v}
							nontrivial := devs > 0 || !equal(decl, id) || !equal(name, id) || !equal(zp, id)
							runCase(e, dir, desc, s, kind, nontrivial)
						}
					}
				}
			}
		}
	}
}

func runCase(e *harness.Env, dir, desc string, s *spec, kind string, nontrivial bool) {
	var b built
	switch s.format {
	case "xlsx":
		b = buildXLSX(s)
	case "pptx":
		b = buildPPTX(s)
	default:
		b = buildEPUB(s)
	}
	if ref, err := refRead(s.format, b.data); err != nil || !equal(ref, b.expect) {
		// the two derivations of the oracle disagree: a defect of the check, never of tabula
		e.Fail(desc, "harness:generator-reference-mismatch", fmt.Sprintf("reference reader: %s err=%v; case parameters: %s", show(ref), err, show(b.expect)), map[string][]byte{"input" + b.ext: b.data})
		return
	}
	file := filepath.Join(dir, "case"+b.ext)
	if err := os.WriteFile(file, b.data, 0o644); err != nil {
		panic(err)
	}
	e.Add("packages_validated_by_reference_reader", 1)
	e.Begin(desc)
	var j *judge
	var openErr error
	sig, det := harness.Guard(func() { j, openErr = observe(s, b, file) })
	files := map[string][]byte{"input" + b.ext: b.data}
	if dbg := os.Getenv("C18_DEBUG"); dbg != "" { // development aid: one line per failing case
		if f, err := os.OpenFile(dbg, os.O_APPEND|os.O_CREATE|os.O_WRONLY, 0o644); err == nil {
			cl, first := sig, det
			if sig == "" && openErr != nil {
				cl, first = "error", openErr.Error()
			} else if sig == "" && j != nil {
				cl, first = j.class, strings.Join(j.notes, " ; ")
			}
			if cl != "" {
				fmt.Fprintf(f, "%s\t%s\t%s\n", cl, desc, first)
			}
			f.Close()
		}
	}
	switch {
	case sig != "":
		e.Fail(desc, sig, det, files)
	case openErr != nil && s.v["absent"] != "none":
		e.Pass(desc, true, s.format+":"+kind+":refused")
	case openErr != nil:
		e.Fail(desc, "error-on-valid-package", openErr.Error()+"\nexpected pages "+show(b.expect), files)
	case j.class != "":
		e.Fail(desc, j.class, strings.Join(j.notes, "\n"), files)
	default:
		e.Pass(desc, nontrivial, fmt.Sprintf("%s:%s:pages=%d", s.format, kind, len(b.expect)))
	}
}
