package main

// Minimal SpreadsheetML workbook writer, private to C18 (the shared xlsxw belongs to another check).
// Logical input: sheets in DECLARED order; packaging (part paths, relationship ids and element
// order, Target spelling, ZIP order, optional parts, unreferenced decoy parts) is explicit.

import (
	"fmt"
	"path"
	"strings"

	"verif/internal/gen/pptxw"
	"verif/internal/gen/zipw"
)

type xsheet struct {
	Name    string // sheet name in workbook.xml
	SheetID int
	RID     string
	Path    string // ZIP member name
	Target  string // overrides the Target written to workbook.xml.rels
	Head    string // A1 (shared string when the table exists, else inline)
	Body    string // A2 (always an inline string)
	SST     int    // index of Head in the shared string table
	Blank   bool   // empty <sheetData/>
	Comment string // optional companion part: xl/comments<SheetID>.xml + the sheet's .rels part
	Absent  bool   // declared + related, file not written
	Linked  bool   // decoys: has a <Relationship> although no <sheet> refers to it
}

type xbook struct {
	Sheets     []xsheet // declared order
	Decoys     []xsheet
	RelOrder   []int // order of the sheet <Relationship> elements (indices into Sheets)
	AbsTargets bool  // Target="/xl/worksheets/sheet1.xml"
	PartOrder  []int // ZIP order over Sheets followed by Decoys
	PartsFirst bool  // sheet members before the infrastructure members
	NoSST      bool  // no xl/sharedStrings.xml (all strings inline)
	NoStyles   bool  // no xl/styles.xml
	NoDocProps bool  // no docProps/*
	SSTSize    int   // size of the shared string table
	SSTOf      func(i int) string
}

const xhdr = `<?xml version="1.0" encoding="UTF-8" standalone="yes"?>` + "\n"
const xrelT = "http://schemas.openxmlformats.org/officeDocument/2006/relationships/"

func (b *xbook) target(s xsheet) string {
	if s.Target != "" {
		return s.Target
	}
	if b.AbsTargets {
		return "/" + s.Path
	}
	return pptxw.RelTo("xl", s.Path)
}

func (b *xbook) sheetXML(s xsheet) string {
	var w strings.Builder
	w.WriteString(xhdr)
	w.WriteString(`<worksheet xmlns="http://schemas.openxmlformats.org/spreadsheetml/2006/main" xmlns:r="http://schemas.openxmlformats.org/officeDocument/2006/relationships">`)
	if s.Blank {
		w.WriteString(`<dimension ref="A1"/><sheetData/></worksheet>`)
		return w.String()
	}
	w.WriteString(`<dimension ref="A1:A2"/><sheetData>`)
	if b.NoSST {
		fmt.Fprintf(&w, `<row r="1"><c r="A1" t="inlineStr"><is><t>%s</t></is></c></row>`, pptxw.Esc(s.Head))
	} else {
		fmt.Fprintf(&w, `<row r="1"><c r="A1" t="s"><v>%d</v></c></row>`, s.SST)
	}
	fmt.Fprintf(&w, `<row r="2"><c r="A2" t="inlineStr"><is><t>%s</t></is></c></row>`, pptxw.Esc(s.Body))
	w.WriteString(`</sheetData></worksheet>`)
	return w.String()
}

func (b *xbook) members() []zipw.Member {
	all := append(append([]xsheet{}, b.Sheets...), b.Decoys...)
	var wb strings.Builder
	wb.WriteString(xhdr)
	wb.WriteString(`<workbook xmlns="http://schemas.openxmlformats.org/spreadsheetml/2006/main" xmlns:r="http://schemas.openxmlformats.org/officeDocument/2006/relationships"><sheets>`)
	for _, s := range b.Sheets {
		fmt.Fprintf(&wb, `<sheet name="%s" sheetId="%d" r:id="%s"/>`, pptxw.Esc(s.Name), s.SheetID, s.RID)
	}
	wb.WriteString(`</sheets></workbook>`)

	var rels strings.Builder
	rels.WriteString(xhdr)
	rels.WriteString(`<Relationships xmlns="http://schemas.openxmlformats.org/package/2006/relationships">`)
	order := b.RelOrder
	if order == nil {
		for i := range b.Sheets {
			order = append(order, i)
		}
	}
	for _, i := range order {
		fmt.Fprintf(&rels, `<Relationship Id="%s" Type="%sworksheet" Target="%s"/>`, b.Sheets[i].RID, xrelT, pptxw.Esc(b.target(b.Sheets[i])))
	}
	for _, s := range b.Decoys {
		if s.Linked {
			fmt.Fprintf(&rels, `<Relationship Id="%s" Type="%sworksheet" Target="%s"/>`, s.RID, xrelT, pptxw.Esc(b.target(s)))
		}
	}
	if !b.NoSST {
		fmt.Fprintf(&rels, `<Relationship Id="rId901" Type="%ssharedStrings" Target="sharedStrings.xml"/>`, xrelT)
	}
	if !b.NoStyles {
		fmt.Fprintf(&rels, `<Relationship Id="rId902" Type="%sstyles" Target="styles.xml"/>`, xrelT)
	}
	rels.WriteString(`</Relationships>`)

	var ct strings.Builder
	ct.WriteString(xhdr)
	ct.WriteString(`<Types xmlns="http://schemas.openxmlformats.org/package/2006/content-types"><Default Extension="rels" ContentType="application/vnd.openxmlformats-package.relationships+xml"/><Default Extension="xml" ContentType="application/xml"/>`)
	ct.WriteString(`<Override PartName="/xl/workbook.xml" ContentType="application/vnd.openxmlformats-officedocument.spreadsheetml.sheet.main+xml"/>`)
	for _, s := range all {
		if !s.Absent {
			fmt.Fprintf(&ct, `<Override PartName="/%s" ContentType="application/vnd.openxmlformats-officedocument.spreadsheetml.worksheet+xml"/>`, pptxw.Esc(s.Path))
		}
	}
	if !b.NoSST {
		ct.WriteString(`<Override PartName="/xl/sharedStrings.xml" ContentType="application/vnd.openxmlformats-officedocument.spreadsheetml.sharedStrings+xml"/>`)
	}
	if !b.NoStyles {
		ct.WriteString(`<Override PartName="/xl/styles.xml" ContentType="application/vnd.openxmlformats-officedocument.spreadsheetml.styles+xml"/>`)
	}
	if !b.NoDocProps {
		ct.WriteString(`<Override PartName="/docProps/core.xml" ContentType="application/vnd.openxmlformats-package.core-properties+xml"/><Override PartName="/docProps/app.xml" ContentType="application/vnd.openxmlformats-officedocument.extended-properties+xml"/>`)
	}
	for _, s := range all {
		if s.Comment != "" && !s.Absent {
			fmt.Fprintf(&ct, `<Override PartName="/xl/comments%d.xml" ContentType="application/vnd.openxmlformats-officedocument.spreadsheetml.comments+xml"/>`, s.SheetID)
		}
	}
	ct.WriteString(`</Types>`)

	var root strings.Builder
	root.WriteString(xhdr)
	fmt.Fprintf(&root, `<Relationships xmlns="http://schemas.openxmlformats.org/package/2006/relationships"><Relationship Id="rId1" Type="%sofficeDocument" Target="xl/workbook.xml"/>`, xrelT)
	if !b.NoDocProps {
		root.WriteString(`<Relationship Id="rId2" Type="http://schemas.openxmlformats.org/package/2006/relationships/metadata/core-properties" Target="docProps/core.xml"/>`)
		fmt.Fprintf(&root, `<Relationship Id="rId3" Type="%sextended-properties" Target="docProps/app.xml"/>`, xrelT)
	}
	root.WriteString(`</Relationships>`)

	infra := []zipw.Member{
		zipw.M("[Content_Types].xml", ct.String()),
		zipw.M("_rels/.rels", root.String()),
		zipw.M("xl/workbook.xml", wb.String()),
		zipw.M("xl/_rels/workbook.xml.rels", rels.String()),
	}
	if !b.NoSST {
		var sst strings.Builder
		sst.WriteString(xhdr)
		fmt.Fprintf(&sst, `<sst xmlns="http://schemas.openxmlformats.org/spreadsheetml/2006/main" count="%d" uniqueCount="%d">`, b.SSTSize, b.SSTSize)
		for i := 0; i < b.SSTSize; i++ {
			fmt.Fprintf(&sst, `<si><t>%s</t></si>`, pptxw.Esc(b.SSTOf(i)))
		}
		sst.WriteString(`</sst>`)
		infra = append(infra, zipw.M("xl/sharedStrings.xml", sst.String()))
	}
	if !b.NoStyles {
		infra = append(infra, zipw.M("xl/styles.xml", xhdr+`<styleSheet xmlns="http://schemas.openxmlformats.org/spreadsheetml/2006/main"><fonts count="1"><font><sz val="11"/><name val="Calibri"/></font></fonts><fills count="1"><fill><patternFill patternType="none"/></fill></fills><borders count="1"><border/></borders><cellStyleXfs count="1"><xf numFmtId="0" fontId="0" fillId="0" borderId="0"/></cellStyleXfs><cellXfs count="1"><xf numFmtId="0" fontId="0" fillId="0" borderId="0" xfId="0"/></cellXfs></styleSheet>`))
	}
	if !b.NoDocProps {
		infra = append(infra,
			zipw.M("docProps/core.xml", xhdr+`<cp:coreProperties xmlns:cp="http://schemas.openxmlformats.org/package/2006/metadata/core-properties" xmlns:dc="http://purl.org/dc/elements/1.1/"><dc:title>C18 workbook</dc:title><dc:creator>verif</dc:creator></cp:coreProperties>`),
			zipw.M("docProps/app.xml", xhdr+`<Properties xmlns="http://schemas.openxmlformats.org/officeDocument/2006/extended-properties"><Application>verif-c18</Application></Properties>`))
	}
	po := b.PartOrder
	if po == nil {
		for i := range all {
			po = append(po, i)
		}
	}
	var parts []zipw.Member
	for _, i := range po {
		if all[i].Absent {
			continue
		}
		parts = append(parts, zipw.M(all[i].Path, b.sheetXML(all[i])))
		if c := all[i]; c.Comment != "" {
			cp := fmt.Sprintf("xl/comments%d.xml", c.SheetID)
			parts = append(parts,
				zipw.M(path.Join(path.Dir(c.Path), "_rels", path.Base(c.Path)+".rels"), xhdr+fmt.Sprintf(`<Relationships xmlns="http://schemas.openxmlformats.org/package/2006/relationships"><Relationship Id="rId1" Type="%scomments" Target="%s"/></Relationships>`, xrelT, pptxw.Esc(pptxw.RelTo(path.Dir(c.Path), cp)))),
				zipw.M(cp, xhdr+fmt.Sprintf(`<comments xmlns="http://schemas.openxmlformats.org/spreadsheetml/2006/main"><authors><author>verif</author></authors><commentList><comment ref="A1" authorId="0"><text><t>%s</t></text></comment></commentList></comments>`, pptxw.Esc(c.Comment))))
		}
	}
	if b.PartsFirst {
		return append(parts, infra...)
	}
	return append(infra, parts...)
}
