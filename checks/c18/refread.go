package main

// refRead is the boring reference reader: it resolves the declared part order of a package the way
// the specifications say (ECMA-376 part 2 relationships; EPUB OCF container -> OPF manifest ->
// spine) with nothing but archive/zip, encoding/xml, net/url and path from the standard library, and returns the tokens
// of the declared, present parts in order. The check uses it to validate every generated package
// against the expectation derived from the case parameters (two independent derivations of the
// oracle must agree before tabula is asked), so a generator slip cannot turn into a false alarm.

import (
	"archive/zip"
	"bytes"
	"encoding/xml"
	"fmt"
	"io"
	"net/url"
	"path"
	"strings"
)

type refRel struct {
	ID     string `xml:"Id,attr"`
	Type   string `xml:"Type,attr"`
	Target string `xml:"Target,attr"`
}

func zipMap(data []byte) (map[string][]byte, error) {
	zr, err := zip.NewReader(bytes.NewReader(data), int64(len(data)))
	if err != nil {
		return nil, err
	}
	m := map[string][]byte{}
	for _, f := range zr.File {
		rc, err := f.Open()
		if err != nil {
			return nil, err
		}
		b, _ := io.ReadAll(rc)
		rc.Close()
		if _, dup := m[f.Name]; dup {
			return nil, fmt.Errorf("duplicate member %q", f.Name)
		}
		m[f.Name] = b
	}
	return m, nil
}

// opcResolve resolves a relationship Target against the source part name.
func opcResolve(source, target string) string {
	if strings.HasPrefix(target, "/") {
		return strings.TrimPrefix(path.Clean(target), "/")
	}
	return path.Clean(path.Join(path.Dir(source), target))
}

// refRead returns, per declared and present part, the token numbers found in it (-1: none).
func refRead(format string, data []byte) ([]int, error) {
	files, err := zipMap(data)
	if err != nil {
		return nil, err
	}
	var out []int
	add := func(member string) {
		b, ok := files[member]
		if !ok {
			return // declared but absent: not readable
		}
		t := tokensIn(string(b))
		if len(t) == 0 {
			out = append(out, -1)
		} else {
			out = append(out, t...)
		}
	}
	switch format {
	case "xlsx", "pptx":
		main := "xl/workbook.xml"
		if format == "pptx" {
			main = "ppt/presentation.xml"
		}
		if _, ok := files["[Content_Types].xml"]; !ok {
			return nil, fmt.Errorf("no [Content_Types].xml")
		}
		var rels struct {
			R []refRel `xml:"Relationship"`
		}
		if err := xml.Unmarshal(files[path.Join(path.Dir(main), "_rels", path.Base(main)+".rels")], &rels); err != nil {
			return nil, err
		}
		byID := map[string]refRel{}
		for _, r := range rels.R {
			if _, dup := byID[r.ID]; dup {
				return nil, fmt.Errorf("duplicate relationship id %s", r.ID)
			}
			byID[r.ID] = r
		}
		// declared order: r:id attributes of sheets/sheet resp. sldIdLst/sldId in document order
		dec := xml.NewDecoder(bytes.NewReader(files[main]))
		want := map[string]string{"xlsx": "sheet", "pptx": "sldId"}[format]
		for {
			tk, err := dec.Token()
			if err == io.EOF {
				break
			}
			if err != nil {
				return nil, err
			}
			se, ok := tk.(xml.StartElement)
			if !ok || se.Name.Local != want {
				continue
			}
			for _, a := range se.Attr {
				if a.Name.Local == "id" && a.Name.Space == "http://schemas.openxmlformats.org/officeDocument/2006/relationships" {
					r, ok := byID[a.Value]
					if !ok {
						return nil, fmt.Errorf("dangling r:id %s", a.Value)
					}
					add(opcResolve(main, r.Target))
				}
			}
		}
	default:
		var c struct {
			Root []struct {
				Path string `xml:"full-path,attr"`
			} `xml:"rootfiles>rootfile"`
		}
		if err := xml.Unmarshal(files["META-INF/container.xml"], &c); err != nil || len(c.Root) == 0 {
			return nil, fmt.Errorf("container.xml: %v", err)
		}
		opf := c.Root[0].Path
		var pkg struct {
			Items []struct {
				ID   string `xml:"id,attr"`
				Href string `xml:"href,attr"`
			} `xml:"manifest>item"`
			Refs []struct {
				IDRef string `xml:"idref,attr"`
			} `xml:"spine>itemref"`
		}
		if err := xml.Unmarshal(files[opf], &pkg); err != nil {
			return nil, err
		}
		href := map[string]string{}
		for _, it := range pkg.Items {
			href[it.ID] = it.Href
		}
		for _, r := range pkg.Refs {
			h, ok := href[r.IDRef]
			if !ok {
				return nil, fmt.Errorf("dangling idref %s", r.IDRef)
			}
			// RFC 3986: decode %XX per segment, merge with the base path, remove dot segments
			dec, err := url.PathUnescape(h) // '+' stays a plus; only %XX is decoded
			if err != nil {
				return nil, err
			}
			add(path.Clean(path.Join(path.Dir(opf), dec)))
		}
	}
	return out, nil
}
