package main

import (
	"fmt"
	"os"
	"reflect"
)

// selfTest pins the behaviour of the harness' RFC-4180 reader on fixed vectors (well-formed and malformed) so that
// a change to dsv.go cannot silently turn the oracle into one that accepts everything. A failure is a harness error.
func selfTest() {
	type tc struct {
		in    string
		delim rune
		want  [][]string
		bad   bool
	}
	for _, c := range []tc{
		{"a,b\nc,d\n", ',', [][]string{{"a", "b"}, {"c", "d"}}, false},
		{"a,b\r\nc,d", ',', [][]string{{"a", "b"}, {"c", "d"}}, false},
		{"\"a\r\nb\",\"x\"\"y\"\n", ',', [][]string{{"a\r\nb", `x"y`}}, false},
		{"\"a\rb\",\"\",\n", ',', [][]string{{"a\rb", "", ""}}, false},
		{"a\t\"b\tc\"\n", '\t', [][]string{{"a", "b\tc"}}, false},
		{"a,b\t\n", '\t', [][]string{{"a,b", ""}}, false},
		{" a , b \n", ',', [][]string{{" a ", " b "}}, false},
		{"a\x00b,\xf0\x9f\x99\x82\n", ',', [][]string{{"a\x00b", "🙂"}}, false},
		{"a§\"b§c\"\n", '§', [][]string{{"a", "b§c"}}, false},
		{"", ',', nil, false},
		{"a\"b,c\n", ',', nil, true},   // bare quote
		{"\"a\"b,c\n", ',', nil, true}, // text after closing quote
		{"\"abc\n", ',', nil, true},    // unterminated
		{"a\rb,c\n", ',', nil, true},   // bare CR outside quotes
	} {
		got, err := parseDSV(c.in, c.delim)
		if c.bad != (err != nil) || (!c.bad && !reflect.DeepEqual(got, c.want)) {
			fmt.Fprintf(os.Stderr, "HARNESS-ERROR C14: RFC-4180 reader self-test failed on %q: got %q, %v\n", c.in, got, err)
			os.Exit(2)
		}
	}
	if l, ok := decodeListCell("[a, b,]"); !ok || !reflect.DeepEqual(l, []string{"a", " b", ""}) {
		fmt.Fprintf(os.Stderr, "HARNESS-ERROR C14: list cell reader self-test failed: %q\n", l)
		os.Exit(2)
	}
}
