package main

import (
	"fmt"
	"os"
	"path/filepath"
	"strings"

	"github.com/tsawler/tabula/rag"
	"verif/internal/harness"
)

// ---- file space: the file-writing entry points, in sequences on ONE path ----------------------------------------
// "Every export ... parses back to one record per chunk" applied to the file API: after every export onto a path —
// fresh, over a shorter earlier export, over a longer earlier export, over another format — the file read back must
// parse to exactly the chunks of the LAST export. Entry points: Exporter.ExportToFile, ChunkCollection.ExportToFile
// and BatchExporter.ExportToFiles (whose file of batch 0 is the same path as the single-file exports, so that the
// entry points overwrite each other's files). Only the files of the last export's own batches are judged; numbered
// files left over from an earlier export with more batches are not part of the last export.

type fileJob struct {
	tok    string
	chunks func() []*rag.Chunk
	cfg    rag.ExportConfig
	entry  string // exporter | collection | batch1 | batch2
}

func fileJobs() []fileJob {
	mk := func(names ...string) func() []*rag.Chunk {
		return func() []*rag.Chunk {
			cs := make([]*rag.Chunk, len(names))
			for i, n := range names {
				s := ""
				if n == "big4k" {
					s = bigText()
				} else {
					s = byName(n)
				}
				st := uniform(s)
				if strings.Contains(s, ",") { // keep the known lossy list cells (finding C14-F1) out of this space
					st[fPathElem], st[fChildID], st[fElemType], st[fSectionTitle] = "p", "c", "e", "s"
				}
				cs[i] = mkChunk(st, (i+len(names))%nProfiles, i)
			}
			return cs
		}
	}
	colls := []struct {
		name string
		f    func() []*rag.Chunk
	}{
		{"plain", mk("plain")},
		{"lf+comma", mk("lf", "comma")},
		{"quote+crlf+empty", mk("quote", "crlf", "empty")},
		{"none", mk()},
		{"big4k", mk("big4k")},
		{"tab+emoji", mk("tab", "emoji")},
	}
	jsonPretty := rag.DefaultExportConfig()
	jsonPretty.Format = rag.ExportFormatJSON
	jsonPretty.PrettyPrint = true
	jsonCompact := jsonPretty
	jsonCompact.PrettyPrint = false
	csvNoHdr := rag.CSVExportConfig()
	csvNoHdr.IncludeHeader = false
	slim := rag.JSONLExportConfig()
	slim.IncludeText = false
	slim.MetadataFields = []string{}
	cfgs := []struct {
		name string
		cfg  rag.ExportConfig
	}{{"jsonl", rag.JSONLExportConfig()}, {"json-pretty", jsonPretty}, {"json", jsonCompact}, {"csv", rag.CSVExportConfig()},
		{"csv-nohdr", csvNoHdr}, {"tsv", rag.TSVExportConfig()}, {"jsonl-slim", slim}}
	var out []fileJob
	for _, c := range colls {
		for _, cf := range cfgs {
			for _, en := range []string{"exporter", "collection", "batch1", "batch2"} {
				out = append(out, fileJob{c.name + "/" + cf.name + "/" + en, c.f, cf.cfg, en})
			}
		}
	}
	return out
}

// runFileJob performs one export onto dir/out-0 (pattern dir/out-%d for the batch entry point) and judges the files.
func runFileJob(dir string, j fileJob, step int) verdict {
	chunks := j.chunks()
	path := filepath.Join(dir, "out-0")
	pattern := filepath.Join(dir, "out-%d")
	var err error
	size := 0
	sig, det := harness.Guard(func() {
		switch j.entry {
		case "exporter":
			err = rag.NewExporterWithConfig(j.cfg).ExportToFile(chunks, path)
		case "collection":
			err = rag.NewChunkCollection(chunks).ExportToFile(path, j.cfg)
		case "batch1", "batch2":
			size = 1
			if j.entry == "batch2" {
				size = 2
			}
			err = rag.NewBatchExporterWithConfig(size, j.cfg).ExportToFiles(chunks, pattern)
		}
	})
	if sig != "" {
		return verdict{sig: sig, detail: det}
	}
	if err != nil {
		return bad("export-error", "step %d (%s): %v", step, j.tok, err)
	}
	if size == 0 {
		b, err := os.ReadFile(path)
		if err != nil {
			return bad("file-missing", "step %d (%s): %v", step, j.tok, err)
		}
		v := judgeExport(j.cfg, string(b), chunks)
		if v.sig != "" {
			v.sig = "file:" + v.sig
			v.detail = fmt.Sprintf("step %d (%s), file read back (%d bytes): %s", step, j.tok, len(b), v.detail)
		}
		return v
	}
	for k := 0; k*size < len(chunks); k++ {
		end := (k + 1) * size
		if end > len(chunks) {
			end = len(chunks)
		}
		b, err := os.ReadFile(fmt.Sprintf(pattern, k))
		if err != nil {
			return bad("file-missing", "step %d (%s): batch file %d: %v", step, j.tok, k, err)
		}
		if v := judgeExport(j.cfg, string(b), chunks[k*size:end]); v.sig != "" {
			v.sig = "file:" + v.sig
			v.detail = fmt.Sprintf("step %d (%s), batch file %d read back (%d bytes): %s", step, j.tok, k, len(b), v.detail)
			return v
		}
	}
	return verdict{outcome: "ok"}
}

func fileSpace(e *harness.Env) {
	jobs := fileJobs()
	e.Note("file_jobs", fmt.Sprint(len(jobs)))
	root := ""
	defer func() {
		if root != "" {
			os.RemoveAll(root)
		}
	}()
	nCase := 0
	runSeq := func(desc string, seq []fileJob) {
		if root == "" {
			root = harness.Scratch()
		}
		nCase++
		dir := filepath.Join(root, fmt.Sprint(nCase))
		if err := os.MkdirAll(dir, 0o755); err != nil {
			fmt.Fprintf(os.Stderr, "HARNESS-ERROR C14: %v\n", err)
			os.Exit(2)
		}
		defer os.RemoveAll(dir)
		sizes := make([]string, 0, len(seq))
		for i, j := range seq {
			v := runFileJob(dir, j, i+1)
			if v.sig != "" {
				e.Fail(desc, v.sig, v.detail, nil)
				return
			}
			st, err := os.Stat(filepath.Join(dir, "out-0"))
			if err == nil {
				sizes = append(sizes, fmt.Sprint(st.Size()))
			}
		}
		// outcome: how the length of out-0 developed over the sequence
		oc := "file:fresh"
		var prev int64 = -1
		for _, s := range sizes {
			var n int64
			fmt.Sscan(s, &n)
			if prev >= 0 {
				switch {
				case n < prev:
					oc += ">shorter"
				case n > prev:
					oc += ">longer"
				default:
					oc += ">same-length"
				}
			}
			prev = n
		}
		e.Pass(desc, true, oc)
	}
	for _, a := range jobs {
		for _, b := range jobs {
			desc := "space=file " + harness.D("step1", a.tok, "step2", b.tok, "step3", "-")
			if !e.Own(desc) {
				continue
			}
			runSeq(desc, []fileJob{a, b})
		}
	}
	if e.Thorough() {
		var half []fileJob
		for _, j := range jobs {
			if strings.HasPrefix(j.tok, "plain/") || strings.HasPrefix(j.tok, "lf+comma/") || strings.HasPrefix(j.tok, "quote+crlf+empty/") {
				half = append(half, j)
			}
		}
		for _, a := range half {
			for _, b := range half {
				for _, c := range half {
					desc := "space=file " + harness.D("step1", a.tok, "step2", b.tok, "step3", c.tok)
					if !e.Own(desc) {
						continue
					}
					runSeq(desc, []fileJob{a, b, c})
				}
			}
		}
	}
}
