package main

import (
	"fmt"
	"strings"
	"unicode/utf8"
)

// parseDSV is the harness' own reader of delimiter-separated values in the RFC 4180 sense,
// generalised only in the two ways every mainstream CSV reader generalises it: the field
// delimiter is a parameter (',' for CSV, '\t' for the quoted-TSV dialect tabula writes) and a
// record may end with LF as well as CRLF. Everything else is strict:
//
//	field   = quoted / plain
//	quoted  = '"' *( any byte except '"'  /  '""' ) '"'      must be followed by delimiter, EOL or EOF
//	plain   = *( any byte except delimiter, '"', CR, LF )
//	record  = field *( delimiter field ) ( CRLF / LF / EOF )
//
// Bytes inside a quoted field are preserved exactly (CR, LF, CRLF, NUL, ...). A '"' inside a
// plain field, text after a closing quote, a CR that is not part of CRLF outside quotes and an
// unterminated quoted field are malformed. Nothing is trimmed, no line is skipped.
func parseDSV(s string, delim rune) (recs [][]string, err error) {
	var db [4]byte
	d := string(db[:utf8.EncodeRune(db[:], delim)])
	i, n := 0, len(s)
	var rec []string
	line := 1
	for i < n {
		// one field
		var field string
		if s[i] == '"' {
			var b strings.Builder
			i++
			closed := false
			for i < n {
				c := s[i]
				if c == '"' {
					if i+1 < n && s[i+1] == '"' {
						b.WriteByte('"')
						i += 2
						continue
					}
					i++
					closed = true
					break
				}
				if c == '\n' {
					line++
				}
				b.WriteByte(c)
				i++
			}
			if !closed {
				return recs, fmt.Errorf("record %d: unterminated quoted field", len(recs)+1)
			}
			field = b.String()
			if i < n && !strings.HasPrefix(s[i:], d) && s[i] != '\n' && !strings.HasPrefix(s[i:], "\r\n") {
				return recs, fmt.Errorf("record %d field %d: text after closing quote (byte %d, line %d)", len(recs)+1, len(rec)+1, i, line)
			}
		} else {
			st := i
			for i < n && !strings.HasPrefix(s[i:], d) && s[i] != '\n' {
				if s[i] == '"' {
					return recs, fmt.Errorf("record %d field %d: bare quote in unquoted field (byte %d, line %d)", len(recs)+1, len(rec)+1, i, line)
				}
				if s[i] == '\r' {
					if i+1 < n && s[i+1] == '\n' {
						break
					}
					return recs, fmt.Errorf("record %d field %d: bare CR outside quotes (byte %d, line %d)", len(recs)+1, len(rec)+1, i, line)
				}
				i++
			}
			field = s[st:i]
		}
		rec = append(rec, field)
		switch {
		case i >= n:
			recs = append(recs, rec)
			rec = nil
		case strings.HasPrefix(s[i:], d):
			i += len(d)
			if i >= n { // delimiter then EOF: a final empty field
				rec = append(rec, "")
				recs = append(recs, rec)
				rec = nil
			}
		case s[i] == '\n':
			i++
			line++
			recs = append(recs, rec)
			rec = nil
		default: // CRLF
			i += 2
			line++
			recs = append(recs, rec)
			rec = nil
		}
	}
	return recs, nil
}
