// C14 — Chunk exports parse back to the same chunks; filters are pure selections.
//
// Bounded-exhaustive enumeration of chunk collections over an alphabet of adversarial strings x every export
// configuration, run through the real rag exporters and read back with encoding/json (stream decoder) and the
// harness' own RFC-4180 reader (cross-checked with encoding/csv); filters are compared with a reference
// comprehension. See DESIGN.md section 2, C14.
package main

import (
	"fmt"
	"reflect"
	"strings"

	"github.com/tsawler/tabula/rag"
	"verif/internal/harness"
)

func main() { harness.Main("C14", "exploration", run) }

func run(e *harness.Env) {
	e.Rule = "full product per sub-space: (export) chunk collections [empty; 1 chunk with one string slot of {id,text,doc title,section title,path element,parent id,child id,element type} ranging over the string alphabet; " +
		"all tuples of <=2 chunks over the 30-string alphabet (thorough: also all triples over the 16 core strings) whose string slots all carry string s_i, metadata profile full/min/partial by position; all (id,text) pairs] x " +
		"{JSONL,JSON,CSV,TSV} x CSV delimiter{comma,semicolon,pipe,tab,non-ASCII} x Flatten x MetadataFields{nil,[],VectorDB list,custom with unknown name} x IncludeMetadata x IncludeText x header x pretty x column names x IncludeEmbeddings, plus ToJSON/ToJSONL/ToCSV/ToTSV; " +
		"(batch) collections of 0..3 chunks x batch size {1,2,n,n+1,0,-1} x 6 configurations; (stream) WriteChunk/Close per format; " +
		"(vdb) PrepareForVectorDB/Pinecone/Chroma/Weaviate x embedding layouts {full,nil,short,long,holes} x class names; " +
		"(file) every ordered pair (thorough: also every ordered triple over half of the jobs) of export jobs [6 collections x 7 configurations x entry point {Exporter.ExportToFile, ChunkCollection.ExportToFile, BatchExporter.ExportToFiles size 1 and 2}] written one after the other onto ONE path in a private temp dir, the file(s) read back after every step; " +
		"(filter) collections of <=3 (quick) / <=4 (thorough) chunks over 8 chunk kinds x every FilterBy*/Search/Filter predicate with boundary arguments, and every two-filter chain on collections of <=2 (quick) / <=3 (thorough) chunks. " +
		"(sibling) every ordered pair of the predicates applied to the SAME source collection of <=2 (quick) / <=3 (thorough) chunks, thorough also every ordered triple of 21 family-covering predicates: all results judged only after all calls, again after exporting a sibling, after filtering the result further and after Search on the source, and through ToJSONL/ToJSON of the result. " +
		"distinct = distinct case descriptors; non-trivial = anything but a single plain chunk / the identity filter"
	e.Assumptions = []string{
		"encoding/json's decoder is a conforming JSON parser; encoding/csv is a conforming reader when no CR is involved",
		"the harness' RFC-4180 reader (checks/c14/dsv.go): quoted fields with \"\" escapes, delimiter parameter, LF or CRLF record ends, everything else strict",
		"a value that is absent from a record stands for the zero value (omitempty reading) or for a field the configuration does not select",
		"TSV is judged as the quoted dialect tabula writes (encoding/csv with Comma=TAB), not as IANA text/tab-separated-values",
	}
	selfTest()
	exportSpace(e)
	batchSpace(e)
	streamSpace(e)
	vdbSpace(e)
	fileSpace(e)
	filterSpace(e)
	siblingSpace(e)
}

// ---- export configurations ------------------------------------------------------------------------

type xcfg struct {
	tok    string
	family string // json | dsv
	cfg    rag.ExportConfig
}

func yn(b bool) string {
	if b {
		return "y"
	}
	return "n"
}

var fieldLists = []struct {
	name string
	l    []string
}{
	{"nil", nil},
	{"none", []string{}},
	{"vdb", rag.VectorDBExportConfig().MetadataFields},
	{"custom", []string{"nope", "level", "parent_id", "child_ids", "document_title", "word_count"}},
}

func exportConfigs() []xcfg {
	var out []xcfg
	bools := []bool{false, true}
	for _, f := range []rag.ExportFormat{rag.ExportFormatJSONL, rag.ExportFormatJSON, rag.ExportFormatCSV, rag.ExportFormatTSV} {
		dsv := f == rag.ExportFormatCSV || f == rag.ExportFormatTSV
		for _, flat := range bools {
			for _, fl := range fieldLists {
				for _, incMeta := range []bool{true, false} {
					for _, incText := range []bool{true, false} {
						for _, third := range []bool{true, false} { // header (dsv) / pretty (json); first value is the format's default-ish
							for _, names := range []string{"def", "vdb"} {
								for _, emb := range bools {
									if !dsv && (names != "def" || emb) {
										continue // column names and the embeddings column only exist in CSV/TSV
									}
									c := rag.DefaultExportConfig()
									c.Format = f
									c.FlattenMetadata = flat
									c.MetadataFields = fl.l
									c.IncludeMetadata = incMeta
									c.IncludeText = incText
									c.IncludeEmbeddings = emb
									if names == "vdb" {
										c.ChunkIDColumnName, c.TextColumnName = "id", "content"
									}
									fam := "json"
									hdr, pretty := "-", "-"
									if dsv {
										fam = "dsv"
										c.IncludeHeader = third
										hdr = yn(third)
										if f == rag.ExportFormatTSV {
											c.CSVDelimiter = '\t'
										}
									} else {
										c.PrettyPrint = !third
										pretty = yn(!third)
									}
									tok := harness.D("family", fam, "fmt", f.String(), "flat", yn(flat), "fields", fl.name, "meta", yn(incMeta),
										"text", yn(incText), "hdr", hdr, "pretty", pretty, "names", names, "emb", yn(emb))
									out = append(out, xcfg{tok, fam, c})
								}
							}
						}
					}
				}
			}
		}
	}
	// custom delimiters for the CSV format (documented knob CSVDelimiter), header on/off
	for _, d := range []struct {
		name string
		r    rune
	}{{"semicolon", ';'}, {"pipe", '|'}, {"tab", '\t'}, {"nonascii", '§'}} {
		for _, hdr := range []bool{true, false} {
			c := rag.CSVExportConfig()
			c.CSVDelimiter = d.r
			c.IncludeHeader = hdr
			out = append(out, xcfg{harness.D("family", "dsv", "fmt", "csv", "delim", d.name, "hdr", yn(hdr)), "dsv", c})
		}
	}
	return out
}

// ---- collections -----------------------------------------------------------------------------------

type coll struct {
	tok        string
	nontrivial bool
	build      func() []*rag.Chunk
}

func plainStr() [nFields]string { return uniform(coreAlpha[0].s) }

func exportCollections(e *harness.Env) []coll {
	al := alphabet(e.Thorough())
	var out []coll
	out = append(out, coll{"coll=empty n=0 listcomma=n", true, func() []*rag.Chunk { return []*rag.Chunk{} }})
	// (S1) one slot at a time
	for f := 0; f < nFields; f++ {
		for _, a := range al {
			f, a := f, a
			lc := (f == fPathElem || f == fChildID || f == fElemType || f == fSectionTitle) && strings.Contains(a.s, ",")
			out = append(out, coll{harness.D("coll", "slot", "n", 1, "slot", fieldNames[f], "s", a.name, "listcomma", yn(lc)), a.name != "plain",
				func() []*rag.Chunk {
					st := plainStr()
					st[fID] = "chunk-0"
					st[f] = a.s
					return []*rag.Chunk{mkChunk(st, profFull, 0)}
				}})
		}
	}
	// (S2) tuples of uniform chunks
	maxN := 2
	if e.Thorough() {
		maxN = 3
	}
	full := al
	for n := 1; n <= maxN; n++ {
		al := full
		if n == 3 {
			al = coreAlpha // triples over the 16 DESIGN.md strings, singles and pairs over all 30
		}
		total := 1
		for i := 0; i < n; i++ {
			total *= len(al)
		}
		for t := 0; t < total; t++ {
			idxs := make([]int, n)
			x := t
			for i := n - 1; i >= 0; i-- {
				idxs[i] = x % len(al)
				x /= len(al)
			}
			profs := make([]int, n)
			names := make([]string, n)
			lc := false
			for i, k := range idxs {
				profs[i] = (i + k) % nProfiles
				if n == 1 {
					profs[i] = profFull
				}
				names[i] = al[k].name + "/" + profNames[profs[i]]
				if profs[i] != profMin && strings.Contains(al[k].s, ",") {
					lc = true
				}
			}
			idxs2, profs2 := idxs, profs
			out = append(out, coll{harness.D("coll", "tuple", "n", n, "chunks", strings.Join(names, "+"), "listcomma", yn(lc)), true,
				func() []*rag.Chunk {
					cs := make([]*rag.Chunk, len(idxs2))
					for i, k := range idxs2 {
						cs[i] = mkChunk(uniform(al[k].s), profs2[i], i)
					}
					return cs
				}})
		}
	}
	// (S2b) one uniform chunk under the two sparse profiles
	for _, a := range al {
		for _, p := range []int{profMin, profPartial} {
			a, p := a, p
			lc := p == profPartial && strings.Contains(a.s, ",")
			out = append(out, coll{harness.D("coll", "tuple", "n", 1, "chunks", a.name+"/"+profNames[p], "listcomma", yn(lc)), true,
				func() []*rag.Chunk { return []*rag.Chunk{mkChunk(uniform(a.s), p, 0)} }})
		}
	}
	// (S3) id x text pairs
	pa := coreAlpha
	if e.Thorough() {
		pa = al
	}
	for _, a := range pa {
		for _, b := range pa {
			a, b := a, b
			out = append(out, coll{harness.D("coll", "pair", "n", 1, "id", a.name, "textv", b.name, "listcomma", "n"), true,
				func() []*rag.Chunk {
					st := plainStr()
					st[fID], st[fText] = a.s, b.s
					return []*rag.Chunk{mkChunk(st, profFull, 0)}
				}})
		}
	}
	return out
}

func fail(e *harness.Env, desc string, v verdict, out string) {
	files := map[string][]byte{}
	if out != "" {
		if len(out) > 1<<16 {
			out = out[:1<<16]
		}
		files["export.out"] = []byte(out)
	}
	e.Fail(desc, v.sig, v.detail, files)
}

// runExport: one export through Exporter.Export, judged; includes repeatability and "chunks untouched".
func runExport(e *harness.Env, desc string, nontrivial bool, cfg rag.ExportConfig, chunks []*rag.Chunk, export func() (string, error)) {
	pristine := cloneChunks(chunks)
	var out, out2 string
	var err, err2 error
	sig, det := harness.Guard(func() {
		out, err = export()
		out2, err2 = export()
	})
	if sig != "" {
		e.Fail(desc, sig, det, nil)
		return
	}
	if err != nil || err2 != nil {
		e.Fail(desc, "export-error", fmt.Sprintf("export of a valid collection with a valid configuration failed: %v / %v", err, err2), nil)
		return
	}
	if out != out2 {
		fail(e, desc, bad("export-not-repeatable", "two exports of the same collection differ:\n%s\n---\n%s", q(out), q(out2)), out)
		return
	}
	if !reflect.DeepEqual(pristine, chunks) {
		fail(e, desc, bad("export-mutated-chunks", "chunks changed during export"), out)
		return
	}
	v := judgeExport(cfg, out, chunks)
	if v.sig != "" {
		fail(e, desc, v, out)
		return
	}
	e.Pass(desc, nontrivial, v.outcome)
}

func exportSpace(e *harness.Env) {
	cfgs := exportConfigs()
	colls := exportCollections(e)
	e.Note("export_configurations", fmt.Sprint(len(cfgs)+4))
	e.Note("export_collections", fmt.Sprint(len(colls)))
	e.Note("string_alphabet", fmt.Sprint(len(alphabet(e.Thorough()))))
	// the documented configuration behind each convenience method
	jsonCfg := rag.DefaultExportConfig()
	jsonCfg.Format = rag.ExportFormatJSON
	jsonCfg.PrettyPrint = true
	conv := []struct {
		name string
		cfg  rag.ExportConfig
		call func(cc *rag.ChunkCollection) (string, error)
	}{
		{"ToJSONL", rag.JSONLExportConfig(), (*rag.ChunkCollection).ToJSONL},
		{"ToJSON", jsonCfg, (*rag.ChunkCollection).ToJSON},
		{"ToCSV", rag.CSVExportConfig(), (*rag.ChunkCollection).ToCSV},
		{"ToTSV", rag.TSVExportConfig(), (*rag.ChunkCollection).ToTSV},
	}
	for _, cl := range colls {
		var chunks []*rag.Chunk
		get := func() []*rag.Chunk {
			if chunks == nil {
				chunks = cl.build()
			}
			return chunks
		}
		for _, xc := range cfgs {
			desc := "space=export " + cl.tok + " via=exporter " + xc.tok
			if !e.Own(desc) {
				continue
			}
			cs := get()
			cfg := xc.cfg
			runExport(e, desc, cl.nontrivial, cfg, cs, func() (string, error) { return rag.NewExporterWithConfig(cfg).ExportToString(cs) })
		}
		for _, cv := range conv {
			fam := "json"
			if cv.cfg.Format == rag.ExportFormatCSV || cv.cfg.Format == rag.ExportFormatTSV {
				fam = "dsv"
			}
			desc := "space=export " + cl.tok + " via=" + cv.name + " family=" + fam
			if !e.Own(desc) {
				continue
			}
			cs := get()
			call := cv.call
			runExport(e, desc, cl.nontrivial, cv.cfg, cs, func() (string, error) { return call(rag.NewChunkCollection(cs)) })
		}
	}
}
