package main

import (
	"bytes"
	"encoding/csv"
	"encoding/json"
	"fmt"
	"io"
	"reflect"
	"sort"
	"strconv"
	"strings"

	"github.com/tsawler/tabula/rag"
)

// verdict of one judged export: sig == "" means the property held; outcome is the class.
type verdict struct {
	sig, detail, outcome string
}

func bad(sig, f string, a ...interface{}) verdict { return verdict{sig: sig, detail: fmt.Sprintf(f, a...)} }

func q(s string) string {
	if len(s) > 60 {
		return strconv.Quote(s[:60]) + fmt.Sprintf("…(%d bytes)", len(s))
	}
	return strconv.Quote(s)
}

func ql(l []string) string {
	var p []string
	for _, x := range l {
		p = append(p, q(x))
		if len(p) == 3 {
			p = append(p, fmt.Sprintf("…(%d elements)", len(l)))
			break
		}
	}
	return "[" + strings.Join(p, " ") + "]"
}

// ---- JSON side --------------------------------------------------------------------------------

// decodeStream reads every top-level JSON value with the encoding/json stream decoder.
func decodeStream(out string) ([]interface{}, error) {
	dec := json.NewDecoder(strings.NewReader(out))
	dec.UseNumber()
	var vals []interface{}
	for {
		var v interface{}
		err := dec.Decode(&v)
		if err == io.EOF {
			return vals, nil
		}
		if err != nil {
			return vals, err
		}
		vals = append(vals, v)
	}
}

// cmpJSON compares a decoded JSON value with a reference value.
func cmpJSON(got interface{}, want val) string {
	switch want.k {
	case 's':
		s, ok := got.(string)
		if !ok || s != want.s {
			return fmt.Sprintf("got %s, want string %s", jv(got), q(want.s))
		}
	case 'i':
		n, ok := got.(json.Number)
		if !ok {
			return fmt.Sprintf("got %s, want number %d", jv(got), want.i)
		}
		x, err := n.Int64()
		if err != nil || x != int64(want.i) {
			return fmt.Sprintf("got %s, want %d", n, want.i)
		}
	case 'b':
		b, ok := got.(bool)
		if !ok || b != want.b {
			return fmt.Sprintf("got %s, want %v", jv(got), want.b)
		}
	case 'l':
		a, ok := got.([]interface{})
		if !ok {
			if got == nil && len(want.l) == 0 {
				return ""
			}
			return fmt.Sprintf("got %s, want list %q", jv(got), want.l)
		}
		if len(a) != len(want.l) {
			return fmt.Sprintf("got %s, want list %q", jv(got), want.l)
		}
		for i := range a {
			s, ok := a[i].(string)
			if !ok || s != want.l[i] {
				return fmt.Sprintf("element %d: got %s, want %q", i, jv(a[i]), want.l[i])
			}
		}
	}
	return ""
}

func jv(v interface{}) string {
	b, _ := json.Marshal(v)
	return q(string(b))
}

// top-level keys of an exported record -> metadata field they carry
var topKeys = map[string]string{"document_title": "document_title", "page_start": "page_start", "page_end": "page_end",
	"chunk_index": "chunk_index", "section_title": "section_title", "section_path": "section_path",
	"has_table": "has_table", "has_list": "has_list", "has_image": "has_image"}

func sortedKeys(m map[string]interface{}) []string {
	ks := make([]string, 0, len(m))
	for k := range m {
		ks = append(ks, k)
	}
	sort.Strings(ks)
	return ks
}

// judgeJSONRecord: one decoded record against one chunk.
// Reading of "parses back with the same id, text and metadata values": every value present must equal the
// chunk's; a value may be absent only if it is the zero value (absent == zero, the usual omitempty reading)
// or if the configuration does not select it.
func judgeJSONRecord(cfg rag.ExportConfig, v interface{}, c *rag.Chunk, i int) verdict {
	o, ok := v.(map[string]interface{})
	if !ok {
		return bad("json-record-not-object", "record %d is %s", i, jv(v))
	}
	for _, k := range sortedKeys(o) {
		x := o[k]
		switch k {
		case "id":
			if s, ok := x.(string); !ok || s != c.ID {
				return bad("json-id-mismatch", "record %d: id %s, want %s", i, jv(x), q(c.ID))
			}
		case "text":
			if !cfg.IncludeText {
				return bad("json-text-exported-though-excluded", "record %d has text", i)
			}
			if s, ok := x.(string); !ok || s != c.Text {
				return bad("json-text-mismatch", "record %d: text %s, want %s", i, jv(x), q(c.Text))
			}
		case "metadata":
			mo, ok := x.(map[string]interface{})
			if !ok {
				return bad("json-metadata-not-object", "record %d: metadata is %s", i, jv(x))
			}
			for _, mk := range sortedKeys(mo) {
				want, known := refMeta(c, mk)
				if !known {
					return bad("json-unknown-metadata-key", "record %d: metadata key %q", i, mk)
				}
				if d := cmpJSON(mo[mk], want); d != "" {
					return bad("json-metadata-mismatch", "record %d: metadata.%s: %s", i, mk, d)
				}
			}
		default:
			mk, ok := topKeys[k]
			if !ok {
				return bad("json-unknown-key", "record %d: key %q", i, k)
			}
			want, _ := refMeta(c, mk)
			if d := cmpJSON(x, want); d != "" {
				return bad("json-metadata-mismatch", "record %d: %s: %s", i, k, d)
			}
		}
	}
	// absences
	if _, ok := o["id"]; !ok && c.ID != "" {
		return bad("json-id-missing", "record %d: no id, want %s", i, q(c.ID))
	}
	if _, ok := o["text"]; !ok && cfg.IncludeText && c.Text != "" {
		return bad("json-text-missing", "record %d: no text, want %s", i, q(c.Text))
	}
	for k, mk := range topKeys {
		want, _ := refMeta(c, mk)
		if _, ok := o[k]; !ok && !want.zero() {
			return bad("json-metadata-missing", "record %d: top-level %s absent, chunk has a non-zero value", i, k)
		}
	}
	mo, _ := o["metadata"].(map[string]interface{})
	for _, mk := range metaKeys {
		want, _ := refMeta(c, mk)
		if _, ok := mo[mk]; !ok && selected(cfg, mk) && !want.zero() {
			return bad("json-metadata-missing", "record %d: metadata.%s absent, selected and non-zero in the chunk", i, mk)
		}
	}
	return verdict{}
}

// judgeJSON judges a JSON / JSON Lines export of chunks. lines: the output is promised to be one value per line.
func judgeJSON(cfg rag.ExportConfig, array bool, lines bool, out string, chunks []*rag.Chunk) verdict {
	vals, err := decodeStream(out)
	if err != nil {
		return bad("json-malformed", "encoding/json: %v", err)
	}
	var recs []interface{}
	if array {
		if len(vals) != 1 {
			return bad("json-not-single-value", "%d top-level values, want one array", len(vals))
		}
		a, ok := vals[0].([]interface{})
		if !ok {
			return bad("json-not-array", "top-level value is %s", jv(vals[0]))
		}
		recs = a
	} else {
		recs = vals
	}
	if len(recs) != len(chunks) {
		return bad("json-record-count", "%d records for %d chunks", len(recs), len(chunks))
	}
	for i := range recs {
		if v := judgeJSONRecord(cfg, recs[i], chunks[i], i); v.sig != "" {
			return v
		}
	}
	if lines {
		// JSON Lines proper: every line is one JSON value, n lines
		ls := strings.Split(out, "\n")
		if len(ls) > 0 && ls[len(ls)-1] == "" {
			ls = ls[:len(ls)-1]
		}
		if len(ls) != len(chunks) {
			return bad("jsonl-line-count", "%d lines for %d chunks", len(ls), len(chunks))
		}
		for i, l := range ls {
			var v interface{}
			if err := json.Unmarshal([]byte(l), &v); err != nil {
				return bad("jsonl-line-not-json", "line %d: %v", i+1, err)
			}
		}
	}
	oc := "jsonl"
	if array {
		oc = "json-array"
	}
	if strings.Contains(out, `\`) {
		oc += "+escapes"
	}
	if cfg.PrettyPrint {
		oc += "+pretty"
	}
	if len(chunks) == 0 {
		oc += "+empty"
	}
	return verdict{outcome: oc}
}

// ---- delimiter-separated side -------------------------------------------------------------------

var standardCols = []string{"chunk_index", "document_title", "page_start", "page_end", "section_title", "has_table", "has_list", "has_image"}

// decodeListCell is the most charitable reader of the bracketed list rendering "[a,b,c]".
func decodeListCell(cell string) ([]string, bool) {
	if !strings.HasPrefix(cell, "[") || !strings.HasSuffix(cell, "]") || len(cell) < 2 {
		return nil, false
	}
	return strings.Split(cell[1:len(cell)-1], ","), true
}

func cmpCell(cell string, want val) (string, bool) { // (detail, isListProblem)
	switch want.k {
	case 's':
		if cell != want.s {
			return fmt.Sprintf("cell %s, want %s", q(cell), q(want.s)), false
		}
	case 'i':
		if cell != strconv.Itoa(want.i) {
			return fmt.Sprintf("cell %s, want %d", q(cell), want.i), false
		}
	case 'b':
		if cell != strconv.FormatBool(want.b) {
			return fmt.Sprintf("cell %s, want %v", q(cell), want.b), false
		}
	case 'l':
		l, ok := decodeListCell(cell)
		if !ok || !reflect.DeepEqual(l, want.l) {
			return fmt.Sprintf("cell %s reads back as %s, want %s", q(cell), ql(l), ql(want.l)), true
		}
	}
	return "", false
}

// parseBoth parses out with the harness' RFC-4180 reader and, when no CR occurs in the output (encoding/csv
// rewrites CRLF inside quoted fields and drops a trailing CR), cross-checks with encoding/csv.
func parseBoth(out string, delim rune) ([][]string, verdict) {
	recs, err := parseDSV(out, delim)
	if err != nil {
		return nil, bad("dsv-malformed", "RFC-4180 reader (delimiter %q): %v", delim, err)
	}
	if !strings.Contains(out, "\r") {
		r := csv.NewReader(strings.NewReader(out))
		r.Comma = delim
		r.FieldsPerRecord = -1
		std, err := r.ReadAll()
		if err != nil {
			return nil, bad("dsv-rejected-by-encoding-csv", "encoding/csv (Comma %q): %v", delim, err)
		}
		if len(std) != len(recs) {
			return nil, bad("dsv-readers-disagree", "encoding/csv reads %d records, RFC-4180 reader %d", len(std), len(recs))
		}
		for i := range std {
			if !reflect.DeepEqual(std[i], recs[i]) {
				return nil, bad("dsv-readers-disagree", "record %d: encoding/csv %q, RFC-4180 reader %q", i, std[i], recs[i])
			}
		}
	}
	return recs, verdict{}
}

// judgeDSV judges a CSV/TSV export. cols is the column list to use when the export has no header row
// (taken from the header of the same export with IncludeHeader=true); nil when the header is in the output.
func judgeDSV(cfg rag.ExportConfig, out string, chunks []*rag.Chunk, cols []string) verdict {
	recs, v := parseBoth(out, cfg.CSVDelimiter)
	if v.sig != "" {
		return v
	}
	want := len(chunks)
	if cfg.IncludeHeader {
		want++
	}
	if len(recs) != want {
		return bad("dsv-record-count", "%d records (header=%v) for %d chunks", len(recs), cfg.IncludeHeader, len(chunks))
	}
	rows := recs
	if cfg.IncludeHeader {
		cols, rows = recs[0], recs[1:]
	}
	// header discipline
	idx := map[string]int{}
	for i, c := range cols {
		if _, dup := idx[c]; dup {
			return bad("dsv-duplicate-column", "column %q twice in %q", c, cols)
		}
		idx[c] = i
	}
	if len(cols) == 0 || cols[0] != cfg.ChunkIDColumnName {
		return bad("dsv-id-column-not-first", "columns %q", cols)
	}
	if _, ok := idx[cfg.TextColumnName]; ok != cfg.IncludeText {
		return bad("dsv-text-column", "IncludeText=%v but columns %q", cfg.IncludeText, cols)
	}
	var metaCols []string
	for _, c := range cols {
		if strings.HasPrefix(c, "meta_") {
			metaCols = append(metaCols, c)
		}
	}
	if !sort.StringsAreSorted(metaCols) {
		return bad("dsv-columns-unsorted", "metadata columns are not in sorted order: %q", metaCols)
	}
	for _, sc := range standardCols {
		if _, ok := idx[sc]; !ok {
			return bad("dsv-standard-column-missing", "no column %q in %q", sc, cols)
		}
	}
	for i, r := range rows {
		if len(r) != len(cols) {
			return bad("dsv-ragged", "row %d has %d fields, header has %d", i, len(r), len(cols))
		}
	}
	var listProblem *verdict
	for i, r := range rows {
		c := chunks[i]
		if r[0] != c.ID {
			return bad("dsv-id-mismatch", "row %d: id %s, want %s", i, q(r[0]), q(c.ID))
		}
		if cfg.IncludeText && r[idx[cfg.TextColumnName]] != c.Text {
			return bad("dsv-text-mismatch", "row %d: text %s, want %s", i, q(r[idx[cfg.TextColumnName]]), q(c.Text))
		}
		for _, sc := range standardCols {
			w, _ := refMeta(c, sc)
			if d, _ := cmpCell(r[idx[sc]], w); d != "" {
				return bad("dsv-metadata-mismatch", "row %d column %s: %s", i, sc, d)
			}
		}
		for _, mc := range metaCols {
			key := strings.TrimPrefix(mc, "meta_")
			w, known := refMeta(c, key)
			if !known {
				return bad("dsv-unknown-metadata-column", "column %q", mc)
			}
			cell := r[idx[mc]]
			if cell == "" && (w.zero() || !selected(cfg, key)) {
				continue // absent value: zero in the chunk or not selected
			}
			if d, isList := cmpCell(cell, w); d != "" {
				if isList && !strings.HasPrefix(cell, "[") {
					isList = false
				}
				if isList {
					if listProblem == nil {
						x := bad("dsv-list-cell-not-recoverable", "row %d column %s: %s", i, mc, d)
						listProblem = &x
					}
					continue
				}
				return bad("dsv-metadata-mismatch", "row %d column %s: %s", i, mc, d)
			}
		}
		for _, key := range metaKeys {
			w, _ := refMeta(c, key)
			if !selected(cfg, key) || w.zero() {
				continue
			}
			if contains(standardCols, key) {
				continue
			}
			if _, ok := idx["meta_"+key]; !ok {
				return bad("dsv-metadata-missing", "row %d: %s is selected and non-zero in the chunk but there is no column meta_%s in %q", i, key, key, cols)
			}
		}
	}
	if listProblem != nil {
		return *listProblem
	}
	oc := "dsv"
	if cfg.CSVDelimiter == '\t' {
		oc = "tsv"
	} else if cfg.CSVDelimiter == ',' {
		oc = "csv"
	}
	if strings.Contains(out, `"`) {
		oc += "+quoted"
	}
	if strings.Count(out, "\n") > len(recs) {
		oc += "+multiline"
	}
	if !cfg.IncludeHeader {
		oc += "+nohdr"
	}
	if len(chunks) == 0 {
		oc += "+empty"
	}
	return verdict{outcome: oc}
}

func contains(l []string, s string) bool {
	for _, x := range l {
		if x == s {
			return true
		}
	}
	return false
}

// exportString runs one export through Exporter.Export into a buffer.
func exportString(cfg rag.ExportConfig, chunks []*rag.Chunk) (string, error) {
	var buf bytes.Buffer
	err := rag.NewExporterWithConfig(cfg).Export(chunks, &buf)
	return buf.String(), err
}

// judgeExport dispatches on the format of cfg. For header-less CSV/TSV the column list is learnt from the same
// export with a header (the header-less rows must then agree with it position by position).
func judgeExport(cfg rag.ExportConfig, out string, chunks []*rag.Chunk) verdict {
	switch cfg.Format {
	case rag.ExportFormatJSON:
		return judgeJSON(cfg, true, false, out, chunks)
	case rag.ExportFormatJSONL:
		return judgeJSON(cfg, false, !cfg.PrettyPrint, out, chunks)
	case rag.ExportFormatCSV, rag.ExportFormatTSV:
		var cols []string
		if !cfg.IncludeHeader {
			h := cfg
			h.IncludeHeader = true
			hout, err := exportString(h, chunks)
			if err != nil {
				return bad("export-error", "header-on twin of the export: %v", err)
			}
			hrecs, err := parseDSV(hout, cfg.CSVDelimiter)
			if err != nil || len(hrecs) == 0 {
				return bad("dsv-malformed", "header-on twin of the export: %v", err)
			}
			cols = hrecs[0]
		}
		return judgeDSV(cfg, out, chunks, cols)
	}
	return bad("unknown-format", "%v", cfg.Format)
}
