package main

import (
	"bytes"
	"encoding/json"
	"errors"
	"fmt"
	"strings"

	"github.com/tsawler/tabula/rag"
	"verif/internal/harness"
)

// small alphabet for the spaces whose subject is not the quoting itself
var smallAlpha = []string{"plain", "comma", "lf", "quote", "crlf", "empty"}

func byName(name string) string {
	for _, a := range coreAlpha {
		if a.name == name {
			return a.s
		}
	}
	panic("no such string " + name)
}

// smallCollections: every tuple of 0..maxN uniform chunks over smallAlpha.
func smallCollections(maxN int) []coll {
	var out []coll
	for n := 0; n <= maxN; n++ {
		total := 1
		for i := 0; i < n; i++ {
			total *= len(smallAlpha)
		}
		for t := 0; t < total; t++ {
			idxs := make([]int, n)
			x := t
			for i := n - 1; i >= 0; i-- {
				idxs[i] = x % len(smallAlpha)
				x /= len(smallAlpha)
			}
			names := make([]string, n)
			profs := make([]int, n)
			lc := false
			for i, k := range idxs {
				profs[i] = (i + k) % nProfiles
				names[i] = smallAlpha[k] + "/" + profNames[profs[i]]
				if profs[i] != profMin && smallAlpha[k] == "comma" {
					lc = true
				}
			}
			tok := harness.D("n", n, "chunks", strings.Join(names, "+"), "listcomma", yn(lc))
			out = append(out, coll{tok, n != 1 || idxs[0] != 0, func() []*rag.Chunk {
				cs := make([]*rag.Chunk, n)
				for i, k := range idxs {
					st := uniform(byName(smallAlpha[k]))
					cs[i] = mkChunk(st, profs[i], i)
				}
				return cs
			}})
		}
	}
	return out
}

// alphaSingles: one uniform full-profile chunk per alphabet string.
func alphaSingles() []coll {
	var out []coll
	for _, a := range alphabet(true) {
		a := a
		out = append(out, coll{harness.D("n", 1, "chunks", a.name+"/full-single", "listcomma", yn(strings.Contains(a.s, ","))), true,
			func() []*rag.Chunk { return []*rag.Chunk{mkChunk(uniform(a.s), profFull, 0)} }})
	}
	return out
}

// ---- batches ---------------------------------------------------------------------------------------------

var errTooMany = errors.New("verif: too many batches (loop does not advance)")

func batchSpace(e *harness.Env) {
	jsonPretty := rag.DefaultExportConfig()
	jsonPretty.Format = rag.ExportFormatJSON
	jsonPretty.PrettyPrint = true
	jsonCompact := jsonPretty
	jsonCompact.PrettyPrint = false
	csvNoHdr := rag.CSVExportConfig()
	csvNoHdr.IncludeHeader = false
	cfgs := []struct {
		name, family string
		cfg          rag.ExportConfig
		plainCtor    bool
	}{
		{"default", "json", rag.DefaultExportConfig(), true},
		{"jsonl", "json", rag.JSONLExportConfig(), false},
		{"json-pretty", "json", jsonPretty, false},
		{"json", "json", jsonCompact, false},
		{"csv", "dsv", rag.CSVExportConfig(), false},
		{"csv-nohdr", "dsv", csvNoHdr, false},
		{"tsv", "dsv", rag.TSVExportConfig(), false},
	}
	for _, cl := range smallCollections(3) {
		var chunks []*rag.Chunk
		n := 0
		fmt.Sscanf(cl.tok, "n=%d", &n)
		sizes := []struct {
			label string
			v     int
		}{{"1", 1}, {"2", 2}, {"n", n}, {"n+1", n + 1}, {"0", 0}, {"-1", -1}}
		for _, c := range cfgs {
			for _, sz := range sizes {
				desc := "space=batch " + cl.tok + " " + harness.D("family", c.family, "cfg", c.name, "bs", sz.label, "bsval", sz.v)
				if !e.Own(desc) {
					continue
				}
				if chunks == nil {
					chunks = cl.build()
				}
				e.Begin(desc)
				var be *rag.BatchExporter
				if c.plainCtor {
					be = rag.NewBatchExporter(sz.v)
				} else {
					be = rag.NewBatchExporterWithConfig(sz.v, c.cfg)
				}
				var got []rag.ExportBatch
				var err error
				sig, det := harness.Guard(func() {
					err = be.Export(chunks, func(b rag.ExportBatch) error {
						if len(got) > len(chunks)+2 {
							return errTooMany
						}
						got = append(got, b)
						return nil
					})
				})
				if sig != "" {
					e.Fail(desc, sig, det, nil)
					continue
				}
				v := judgeBatches(c.cfg, sz.v, chunks, got, err)
				if v.sig != "" {
					e.Fail(desc, v.sig, v.detail, nil)
					continue
				}
				e.Pass(desc, true, v.outcome)
			}
		}
	}
}

func judgeBatches(cfg rag.ExportConfig, size int, chunks []*rag.Chunk, got []rag.ExportBatch, err error) verdict {
	n := len(chunks)
	if errors.Is(err, errTooMany) || len(got) > n+2 {
		return bad("batch-loop-not-advancing", "callback called more than %d times for %d chunks", n+2, n)
	}
	if err != nil {
		if size <= 0 {
			return verdict{outcome: "batch:nonpositive-size-refused"}
		}
		return bad("batch-export-error", "batch size %d, %d chunks: %v", size, n, err)
	}
	next := 0
	for j, b := range got {
		if b.BatchNumber != j {
			return bad("batch-number", "batch %d has BatchNumber %d", j, b.BatchNumber)
		}
		if b.StartIndex != next {
			return bad("batch-not-contiguous", "batch %d starts at %d, previous batch ended at %d (%d chunks, size %d)", j, b.StartIndex, next, n, size)
		}
		if b.EndIndex <= b.StartIndex || b.EndIndex > n {
			return bad("batch-bounds", "batch %d covers [%d,%d) of %d chunks", j, b.StartIndex, b.EndIndex, n)
		}
		if b.ChunkCount != b.EndIndex-b.StartIndex {
			return bad("batch-count-field", "batch %d: ChunkCount %d for [%d,%d)", j, b.ChunkCount, b.StartIndex, b.EndIndex)
		}
		if size > 0 && b.ChunkCount > size {
			return bad("batch-too-large", "batch %d holds %d chunks, batch size %d", j, b.ChunkCount, size)
		}
		if size > 0 && b.ChunkCount < size && b.EndIndex != n {
			return bad("batch-short", "batch %d holds %d chunks but is not the last one (batch size %d)", j, b.ChunkCount, size)
		}
		if v := judgeExport(cfg, b.Data, chunks[b.StartIndex:b.EndIndex]); v.sig != "" {
			v.detail = fmt.Sprintf("batch %d [%d,%d): %s", j, b.StartIndex, b.EndIndex, v.detail)
			return v
		}
		next = b.EndIndex
	}
	if next != n {
		return bad("batch-chunks-dropped", "batches cover [0,%d) of %d chunks (batch size %d, %d batches)", next, n, size, len(got))
	}
	oc := fmt.Sprintf("batch:%d-batches", len(got))
	if size <= 0 {
		oc += "(nonpositive-size)"
	}
	return verdict{outcome: oc}
}

// ---- streaming -------------------------------------------------------------------------------------------

func streamSpace(e *harness.Env) {
	jsonCfg := rag.DefaultExportConfig()
	jsonCfg.Format = rag.ExportFormatJSON
	vdbPretty := rag.VectorDBExportConfig()
	vdbPretty.PrettyPrint = true
	noText := rag.JSONLExportConfig()
	noText.IncludeText = false
	noText.MetadataFields = []string{}
	cfgs := []struct {
		name, family string
		cfg          rag.ExportConfig
		plainCtor    bool
	}{
		{"default", "json", rag.DefaultExportConfig(), true},
		{"jsonl", "json", rag.JSONLExportConfig(), false},
		{"json", "json", jsonCfg, false},
		{"vdb-pretty", "json", vdbPretty, false},
		{"notext", "json", noText, false},
		{"csv", "dsv", rag.CSVExportConfig(), false},
		{"tsv", "dsv", rag.TSVExportConfig(), false},
	}
	for _, cl := range smallCollections(3) {
		var chunks []*rag.Chunk
		for _, c := range cfgs {
			desc := "space=stream " + cl.tok + " " + harness.D("family", c.family, "cfg", c.name)
			if !e.Own(desc) {
				continue
			}
			if chunks == nil {
				chunks = cl.build()
			}
			var buf bytes.Buffer
			var errs []error
			var closeErr error
			sig, det := harness.Guard(func() {
				var se *rag.StreamExporter
				if c.plainCtor {
					se = rag.NewStreamExporter(&buf)
				} else {
					se = rag.NewStreamExporterWithConfig(&buf, c.cfg)
				}
				for i, ch := range chunks {
					if err := se.WriteChunk(ch, i); err != nil {
						errs = append(errs, err)
					}
				}
				closeErr = se.Close()
			})
			if sig != "" {
				e.Fail(desc, sig, det, nil)
				continue
			}
			out := buf.String()
			if c.family == "dsv" && len(errs) == len(chunks) && out == "" {
				// documented refusal: streaming CSV/TSV is not supported, nothing is written
				e.Pass(desc, true, "stream:dsv-refused")
				continue
			}
			if len(errs) > 0 || closeErr != nil {
				fail(e, desc, bad("stream-error", "WriteChunk errors %v, Close error %v", errs, closeErr), out)
				continue
			}
			var v verdict
			if c.family == "dsv" {
				v = judgeExport(c.cfg, out, chunks)
			} else {
				// the stream of a JSON-format exporter is documented to be JSON Lines as well
				scfg := c.cfg
				scfg.PrettyPrint = false
				v = judgeJSON(scfg, false, true, out, chunks)
			}
			if v.sig != "" {
				fail(e, desc, v, out)
				continue
			}
			e.Pass(desc, true, "stream:"+v.outcome)
		}
	}
}

// ---- vector-database record formats ----------------------------------------------------------------------

func vec(i int) []float64 { return []float64{float64(i) + 0.5, -2.5e-7, 1e21, 0} }

var embLayouts = []string{"full", "nil", "short", "long", "holes"}

func mkEmb(layout string, n int) [][]float64 {
	var out [][]float64
	switch layout {
	case "nil":
		return nil
	case "full", "holes":
		for i := 0; i < n; i++ {
			out = append(out, vec(i))
		}
		if layout == "holes" && n > 0 {
			out[0] = []float64{}
		}
		if out == nil {
			out = [][]float64{}
		}
	case "short":
		for i := 0; i < n-1; i++ {
			out = append(out, vec(i))
		}
	case "long":
		for i := 0; i < n+1; i++ {
			out = append(out, vec(i))
		}
	}
	return out
}

func cmpVec(got interface{}, want []float64) string {
	a, ok := got.([]interface{})
	if !ok || len(a) != len(want) {
		return fmt.Sprintf("got %s, want %v", jv(got), want)
	}
	for i := range a {
		n, ok := a[i].(json.Number)
		if !ok {
			return fmt.Sprintf("element %d is %s", i, jv(a[i]))
		}
		f, err := n.Float64()
		if err != nil || f != want[i] {
			return fmt.Sprintf("element %d: got %s, want %v", i, n, want[i])
		}
	}
	return ""
}

// judgeProps compares a decoded JSON object of record properties with the chunk. keys maps an exported key to the
// chunk field it carries ("text" = the chunk text, otherwise a metadata field name). Every key present must carry
// the chunk's value; a key may be absent only if the chunk's value is zero. must lists keys that are the
// payload of the format and must always be present.
func judgeProps(what string, o map[string]interface{}, keys map[string]string, must []string, c *rag.Chunk) verdict {
	ref := func(field string) val {
		if field == "text" {
			return val{k: 's', s: c.Text}
		}
		v, _ := refMeta(c, field)
		return v
	}
	for _, k := range sortedKeys(o) {
		f, ok := keys[k]
		if !ok {
			return bad("vdb-unknown-key", "%s: key %q", what, k)
		}
		if d := cmpJSON(o[k], ref(f)); d != "" {
			sig := "vdb-metadata-mismatch"
			if f == "text" {
				sig = "vdb-text-mismatch"
			}
			return bad(sig, "%s.%s: %s", what, k, d)
		}
	}
	for _, k := range must {
		if _, ok := o[k]; !ok {
			return bad("vdb-value-missing", "%s: no %q", what, k)
		}
	}
	return verdict{}
}

func asObj(v interface{}) map[string]interface{} {
	o, _ := v.(map[string]interface{})
	return o
}

var (
	pineconeKeys = map[string]string{"text": "text", "document_title": "document_title", "page_start": "page_start", "section_title": "section_title",
		"chunk_index": "chunk_index", "section_path": "section_path", "element_types": "element_types", "page_end": "page_end"}
	weaviateKeys = map[string]string{"content": "text", "documentTitle": "document_title", "pageStart": "page_start", "sectionTitle": "section_title",
		"chunkIndex": "chunk_index", "pageEnd": "page_end", "sectionPath": "section_path"}
)

func judgePinecone(out string, chunks []*rag.Chunk, emb [][]float64) verdict {
	vals, err := decodeStream(out)
	if err != nil || len(vals) != 1 {
		return bad("vdb-malformed", "encoding/json: %v (%d values)", err, len(vals))
	}
	top := asObj(vals[0])
	recs, ok := top["vectors"].([]interface{})
	if top == nil || !ok || len(top) != 1 {
		return bad("vdb-shape", "want {\"vectors\":[...]}, got %s", jv(vals[0]))
	}
	// a Pinecone vector needs values: chunks without an embedding are (documentedly) skipped
	var want []int
	for i := range chunks {
		if i < len(emb) && len(emb[i]) > 0 {
			want = append(want, i)
		}
	}
	if len(recs) != len(want) {
		return bad("vdb-record-count", "%d records for %d chunks with an embedding", len(recs), len(want))
	}
	for j, r := range recs {
		o := asObj(r)
		c := chunks[want[j]]
		for _, k := range sortedKeys(o) {
			if k != "id" && k != "values" && k != "metadata" {
				return bad("vdb-unknown-key", "record %d: key %q", j, k)
			}
		}
		if id, ok := o["id"].(string); !ok || id != c.ID {
			return bad("vdb-id-mismatch", "record %d: id %s, want %s", j, jv(o["id"]), q(c.ID))
		}
		if d := cmpVec(o["values"], emb[want[j]]); d != "" {
			return bad("vdb-vector-mismatch", "record %d: values: %s", j, d)
		}
		if v := judgeProps(fmt.Sprintf("record %d metadata", j), asObj(o["metadata"]), pineconeKeys, []string{"text"}, c); v.sig != "" {
			return v
		}
	}
	return verdict{outcome: fmt.Sprintf("pinecone:%d-of-%d", len(recs), len(chunks))}
}

func judgeChroma(out string, chunks []*rag.Chunk, emb [][]float64) verdict {
	vals, err := decodeStream(out)
	if err != nil || len(vals) != 1 {
		return bad("vdb-malformed", "encoding/json: %v (%d values)", err, len(vals))
	}
	top := asObj(vals[0])
	for _, k := range sortedKeys(top) {
		if k != "ids" && k != "documents" && k != "embeddings" && k != "metadatas" {
			return bad("vdb-unknown-key", "key %q", k)
		}
	}
	ids, ok1 := top["ids"].([]interface{})
	docs, ok2 := top["documents"].([]interface{})
	if !ok1 || !ok2 {
		return bad("vdb-shape", "ids/documents are not arrays: %s", jv(vals[0]))
	}
	n := len(chunks)
	if len(ids) != n || len(docs) != n {
		return bad("vdb-record-count", "%d ids, %d documents for %d chunks", len(ids), len(docs), n)
	}
	metas, hasMeta := top["metadatas"].([]interface{})
	if hasMeta && len(metas) != n {
		return bad("vdb-record-count", "%d metadatas for %d chunks", len(metas), n)
	}
	for i, c := range chunks {
		if s, ok := ids[i].(string); !ok || s != c.ID {
			return bad("vdb-id-mismatch", "ids[%d] = %s, want %s", i, jv(ids[i]), q(c.ID))
		}
		if s, ok := docs[i].(string); !ok || s != c.Text {
			return bad("vdb-text-mismatch", "documents[%d] = %s, want %s", i, jv(docs[i]), q(c.Text))
		}
		if hasMeta {
			if v := judgeProps(fmt.Sprintf("metadatas[%d]", i), asObj(metas[i]), pineconeKeys, nil, c); v.sig != "" {
				return v
			}
		}
	}
	if !hasMeta {
		for i, c := range chunks {
			for _, f := range []string{"document_title", "section_title", "page_start"} {
				if w, _ := refMeta(c, f); !w.zero() {
					return bad("vdb-value-missing", "no metadatas although chunk %d has %s", i, f)
				}
			}
		}
	}
	// embeddings are passed through as given
	if ev, ok := top["embeddings"]; ok {
		a, ok := ev.([]interface{})
		if !ok || len(a) != len(emb) {
			return bad("vdb-vector-mismatch", "embeddings: %s for %d given vectors", jv(ev), len(emb))
		}
		for i := range a {
			if d := cmpVec(a[i], emb[i]); d != "" {
				return bad("vdb-vector-mismatch", "embeddings[%d]: %s", i, d)
			}
		}
	} else if len(emb) > 0 {
		return bad("vdb-value-missing", "no embeddings although %d were given", len(emb))
	}
	oc := "chroma"
	if len(emb) > 0 {
		oc += "+embeddings"
	}
	return verdict{outcome: oc}
}

func judgeWeaviate(out string, chunks []*rag.Chunk, emb [][]float64, class string) verdict {
	vals, err := decodeStream(out)
	if err != nil {
		return bad("vdb-malformed", "encoding/json: %v", err)
	}
	if len(vals) != len(chunks) {
		return bad("vdb-record-count", "%d objects for %d chunks", len(vals), len(chunks))
	}
	if strings.Count(out, "\n") != len(chunks) {
		return bad("jsonl-line-count", "%d line ends for %d chunks", strings.Count(out, "\n"), len(chunks))
	}
	vecs := 0
	for i, r := range vals {
		o := asObj(r)
		c := chunks[i]
		for _, k := range sortedKeys(o) {
			if k != "class" && k != "id" && k != "properties" && k != "vector" {
				return bad("vdb-unknown-key", "object %d: key %q", i, k)
			}
		}
		if s, ok := o["class"].(string); !ok || s != class {
			return bad("vdb-class-mismatch", "object %d: class %s, want %s", i, jv(o["class"]), q(class))
		}
		if idv, ok := o["id"]; ok {
			if s, ok := idv.(string); !ok || s != c.ID {
				return bad("vdb-id-mismatch", "object %d: id %s, want %s", i, jv(idv), q(c.ID))
			}
		} else if c.ID != "" {
			return bad("vdb-value-missing", "object %d: no id, want %s", i, q(c.ID))
		}
		if v := judgeProps(fmt.Sprintf("object %d properties", i), asObj(o["properties"]), weaviateKeys, []string{"content"}, c); v.sig != "" {
			return v
		}
		wantVec := i < len(emb) && len(emb[i]) > 0
		if vv, ok := o["vector"]; ok {
			if !wantVec {
				return bad("vdb-vector-mismatch", "object %d has vector %s, none was given", i, jv(vv))
			}
			if d := cmpVec(vv, emb[i]); d != "" {
				return bad("vdb-vector-mismatch", "object %d: vector: %s", i, d)
			}
			vecs++
		} else if wantVec {
			return bad("vdb-value-missing", "object %d: vector missing", i)
		}
	}
	return verdict{outcome: fmt.Sprintf("weaviate:%d-vectors-of-%d", vecs, len(chunks))}
}

func judgePrepared(recs []rag.EmbeddingRecord, chunks []*rag.Chunk) verdict {
	if len(recs) != len(chunks) {
		return bad("vdb-record-count", "%d records for %d chunks", len(recs), len(chunks))
	}
	b, err := json.Marshal(recs)
	if err != nil {
		return bad("vdb-malformed", "records do not marshal: %v", err)
	}
	vals, err := decodeStream(string(b))
	if err != nil || len(vals) != 1 {
		return bad("vdb-malformed", "encoding/json: %v", err)
	}
	a, _ := vals[0].([]interface{})
	if len(a) != len(chunks) {
		return bad("vdb-record-count", "%d marshalled records for %d chunks", len(a), len(chunks))
	}
	for i, c := range chunks {
		if recs[i].ID != c.ID {
			return bad("vdb-id-mismatch", "record %d: ID %s, want %s", i, q(recs[i].ID), q(c.ID))
		}
		if recs[i].Text != c.Text {
			return bad("vdb-text-mismatch", "record %d: Text %s, want %s", i, q(recs[i].Text), q(c.Text))
		}
		o := asObj(a[i])
		if s, ok := o["id"].(string); !ok || s != c.ID {
			return bad("vdb-id-mismatch", "record %d: id %s, want %s", i, jv(o["id"]), q(c.ID))
		}
		if s, ok := o["text"].(string); !ok || s != c.Text {
			return bad("vdb-text-mismatch", "record %d: text %s, want %s", i, jv(o["text"]), q(c.Text))
		}
		if v := judgeProps(fmt.Sprintf("record %d metadata", i), asObj(o["metadata"]), pineconeKeys, nil, c); v.sig != "" {
			return v
		}
		for _, f := range rag.VectorDBExportConfig().MetadataFields {
			w, _ := refMeta(c, f)
			if _, ok := asObj(o["metadata"])[f]; !ok && !w.zero() {
				return bad("vdb-value-missing", "record %d: metadata.%s absent, non-zero in the chunk", i, f)
			}
		}
	}
	return verdict{outcome: "prepared-records"}
}

func vdbSpace(e *harness.Env) {
	classes := []struct{ name, s string }{{"plain", "Chunk"}, {"quote", byName("quote")}, {"empty", ""}}
	for _, cl := range append(smallCollections(3), alphaSingles()...) {
		var chunks []*rag.Chunk
		get := func() []*rag.Chunk {
			if chunks == nil {
				chunks = cl.build()
			}
			return chunks
		}
		ee := rag.NewEmbeddingExporter()
		desc := "space=vdb " + cl.tok + " target=prepare"
		if e.Own(desc) {
			cs := get()
			var recs []rag.EmbeddingRecord
			sig, det := harness.Guard(func() { recs = ee.PrepareForVectorDB(cs) })
			if sig != "" {
				e.Fail(desc, sig, det, nil)
			} else if v := judgePrepared(recs, cs); v.sig != "" {
				e.Fail(desc, v.sig, v.detail, nil)
			} else {
				e.Pass(desc, true, v.outcome)
			}
		}
		for _, lay := range embLayouts {
			for _, target := range []string{"pinecone", "chroma", "weaviate"} {
				cls := classes[:1]
				if target == "weaviate" {
					cls = classes
				}
				for _, class := range cls {
					desc := "space=vdb " + cl.tok + " " + harness.D("target", target, "emb", lay, "class", class.name)
					if !e.Own(desc) {
						continue
					}
					cs := get()
					emb := mkEmb(lay, len(cs))
					var buf bytes.Buffer
					var err error
					sig, det := harness.Guard(func() {
						switch target {
						case "pinecone":
							err = ee.ExportForPinecone(cs, emb, &buf)
						case "chroma":
							err = ee.ExportForChroma(cs, emb, &buf)
						case "weaviate":
							err = ee.ExportForWeaviate(cs, emb, class.s, &buf)
						}
					})
					if sig != "" {
						e.Fail(desc, sig, det, nil)
						continue
					}
					out := buf.String()
					if err != nil {
						fail(e, desc, bad("export-error", "%s export failed: %v", target, err), out)
						continue
					}
					var v verdict
					switch target {
					case "pinecone":
						v = judgePinecone(out, cs, emb)
					case "chroma":
						v = judgeChroma(out, cs, emb)
					case "weaviate":
						v = judgeWeaviate(out, cs, emb, class.s)
					}
					if v.sig != "" {
						fail(e, desc, v, out)
						continue
					}
					e.Pass(desc, true, v.outcome)
				}
			}
		}
	}
}
