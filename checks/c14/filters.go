package main

import (
	"fmt"
	"math"
	"reflect"
	"strings"
	"unicode"

	"github.com/tsawler/tabula/rag"
	"verif/internal/harness"
)

// ---- chunk kinds for the filter space ----------------------------------------------------------------------
// Each kind differs from the others in at least one attribute a filter looks at.

type fkind struct {
	name string
	mk   func() *rag.Chunk
}

var fkinds = []fkind{
	{"A", func() *rag.Chunk { // pages 1-1, section Intro, paragraph, 10 tokens
		return &rag.Chunk{ID: "A", Text: "Hello World", Metadata: rag.ChunkMetadata{PageStart: 1, PageEnd: 1, SectionTitle: "Intro",
			SectionPath: []string{"Intro"}, ElementTypes: []string{"paragraph"}, EstimatedTokens: 10}}
	}},
	{"B", func() *rag.Chunk { // pages 2-4, nested section, table+list, 0 tokens
		return &rag.Chunk{ID: "B", Text: "a,b\thello\r\nWORLD \"q\"", Metadata: rag.ChunkMetadata{PageStart: 2, PageEnd: 4, SectionTitle: "Methods, Results",
			SectionPath: []string{"Intro", "Methods, Results"}, ElementTypes: []string{"Table", "list"}, HasTable: true, HasList: true, EstimatedTokens: 0}}
	}},
	{"C", func() *rag.Chunk { // no pages, no section, image, 11 tokens
		return &rag.Chunk{ID: "C", Text: "", Metadata: rag.ChunkMetadata{ElementTypes: nil, HasImage: true, EstimatedTokens: 11}}
	}},
	{"D", func() *rag.Chunk { // pages 4-5, section only in the path, 9 tokens, emoji/NUL text
		return &rag.Chunk{ID: "D", Text: "🙂 wor\x00ld hello", Metadata: rag.ChunkMetadata{PageStart: 4, PageEnd: 5, SectionTitle: "",
			SectionPath: []string{"Intro", "", "Deep"}, ElementTypes: []string{"paragraph", "TABLE"}, HasTable: true, EstimatedTokens: 9}}
	}},
	{"E", func() *rag.Chunk { // pages 5-5, title differs from the last path element, flags contradict element types
		return &rag.Chunk{ID: "E", Text: "HELLO", Metadata: rag.ChunkMetadata{PageStart: 5, PageEnd: 5, SectionTitle: "intro",
			SectionPath: []string{"Deep"}, ElementTypes: []string{"image"}, HasList: true, HasImage: true, EstimatedTokens: 10}}
	}},
	{"F", func() *rag.Chunk { // same attributes as A (a duplicate value, different object)
		return &rag.Chunk{ID: "A", Text: "Hello World", Metadata: rag.ChunkMetadata{PageStart: 1, PageEnd: 1, SectionTitle: "Intro",
			SectionPath: []string{"Intro"}, ElementTypes: []string{"paragraph"}, EstimatedTokens: 10}}
	}},
	{"G", func() *rag.Chunk { // wide page span, huge token count
		return &rag.Chunk{ID: "G", Text: "x ÉCOLE ÜBER ПРИВЕТ ΑΘΗΝΑ STRAẞE", Metadata: rag.ChunkMetadata{PageStart: 1, PageEnd: 9, SectionTitle: "Deep",
			ElementTypes: []string{""}, EstimatedTokens: math.MaxInt32}}
	}},
	{"H", func() *rag.Chunk { // smallest positive token estimate, page 0 (a negative count is not a valid chunk: exports omit non-positive counts)
		return &rag.Chunk{ID: "", Text: "o w école über Привет αθηνα straße", Metadata: rag.ChunkMetadata{PageStart: 0, PageEnd: 0, SectionTitle: "Methods",
			SectionPath: []string{"Methods, Results"}, ElementTypes: []string{"list", "list"}, EstimatedTokens: 1}}
	}},
}

// ---- predicates: the tabula call and the reference predicate written from the documented meaning ------------

type pred struct {
	name  string
	apply func(cc *rag.ChunkCollection) *rag.ChunkCollection
	ref   func(c *rag.Chunk) bool
	ident bool // accepts everything in the kinds above
}

// lower: the case-insensitive reading the library documents for Search (strings.ToLower on both sides), written per rune.
// The strings of this space only contain letters whose upper/lower forms are a one-to-one pair under every common
// definition of case-insensitivity (ASCII, Latin-1 É/é Ü/ü, Cyrillic, Greek without final sigma, ẞ/ß whose two forms
// differ in byte length); İ/ı are left out because unicode.ToLower and simple case folding disagree on them.
func lower(s string) string {
	return strings.Map(unicode.ToLower, s)
}

func containsFold(text, kw string) bool {
	t, k := lower(text), lower(kw)
	if len(k) == 0 {
		return true
	}
	for i := 0; i+len(k) <= len(t); i++ {
		if t[i:i+len(k)] == k {
			return true
		}
	}
	return false
}

func predicates() []pred {
	var ps []pred
	add := func(name string, apply func(cc *rag.ChunkCollection) *rag.ChunkCollection, ref func(c *rag.Chunk) bool) {
		ps = append(ps, pred{name: name, apply: apply, ref: ref})
	}
	// FilterBySection: "chunks in a specific section" — the section is the chunk's own title or one of its ancestors (path)
	for _, s := range []string{"Intro", "intro", "Deep", "Methods, Results", "Methods", "", "Nowhere"} {
		s := s
		add("section:"+s, func(cc *rag.ChunkCollection) *rag.ChunkCollection { return cc.FilterBySection(s) },
			func(c *rag.Chunk) bool {
				if c.Metadata.SectionTitle == s {
					return true
				}
				for _, p := range c.Metadata.SectionPath {
					if p == s {
						return true
					}
				}
				return false
			})
	}
	// FilterByPage: "chunks on a specific page" — the chunk spans pages PageStart..PageEnd
	for _, p := range []int{-1, 0, 1, 2, 3, 4, 5, 6, 9, 10} {
		p := p
		add(fmt.Sprintf("page:%d", p), func(cc *rag.ChunkCollection) *rag.ChunkCollection { return cc.FilterByPage(p) },
			func(c *rag.Chunk) bool { return c.Metadata.PageStart <= p && p <= c.Metadata.PageEnd })
	}
	// FilterByPageRange: "chunks within a page range" — read (as the library's own test does) as: the chunk's page
	// span and the range start..end have a page in common. Only well-formed ranges (start <= end) are enumerated.
	for _, r := range [][2]int{{1, 1}, {1, 10}, {2, 3}, {3, 3}, {4, 4}, {5, 9}, {6, 8}, {0, 0}, {-3, 0}, {10, 12}, {2, 5}} {
		r := r
		add(fmt.Sprintf("pages:%d..%d", r[0], r[1]), func(cc *rag.ChunkCollection) *rag.ChunkCollection { return cc.FilterByPageRange(r[0], r[1]) },
			func(c *rag.Chunk) bool {
				for p := r[0]; p <= r[1]; p++ {
					if c.Metadata.PageStart <= p && p <= c.Metadata.PageEnd {
						return true
					}
				}
				return false
			})
	}
	// FilterByElementType: "chunks containing a specific element type" (names compared case-insensitively, as the
	// library's documentation of ContainsElementType's test states)
	for _, t := range []string{"paragraph", "table", "TABLE", "list", "image", "", "tab", "tables"} {
		t := t
		add("etype:"+t, func(cc *rag.ChunkCollection) *rag.ChunkCollection { return cc.FilterByElementType(t) },
			func(c *rag.Chunk) bool {
				for _, et := range c.Metadata.ElementTypes {
					if lower(et) == lower(t) {
						return true
					}
				}
				return false
			})
	}
	add("tables", (*rag.ChunkCollection).FilterWithTables, func(c *rag.Chunk) bool { return c.Metadata.HasTable })
	add("lists", (*rag.ChunkCollection).FilterWithLists, func(c *rag.Chunk) bool { return c.Metadata.HasList })
	add("images", (*rag.ChunkCollection).FilterWithImages, func(c *rag.Chunk) bool { return c.Metadata.HasImage })
	for _, n := range []int{math.MinInt32, -1, 0, 1, 2, 9, 10, 11, math.MaxInt32, math.MaxInt64} {
		n := n
		add(fmt.Sprintf("mintok:%d", n), func(cc *rag.ChunkCollection) *rag.ChunkCollection { return cc.FilterByMinTokens(n) },
			func(c *rag.Chunk) bool { return c.Metadata.EstimatedTokens >= n })
		add(fmt.Sprintf("maxtok:%d", n), func(cc *rag.ChunkCollection) *rag.ChunkCollection { return cc.FilterByMaxTokens(n) },
			func(c *rag.Chunk) bool { return c.Metadata.EstimatedTokens <= n })
	}
	// Search: "chunks containing a keyword (case-insensitive)"
	for _, k := range []string{"hello", "HELLO", "World", "o w", "", "\x00", "🙂", ",", "\r\n", "\"q\"", "hello world!", "x", "zzz",
		"école", "ÉCOLE", "über", "привет", "ПРИВЕТ", "αθηνα", "ΑΘΗΝΑ", "straße", "STRAẞE"} {
		k := k
		add("search:"+k, func(cc *rag.ChunkCollection) *rag.ChunkCollection { return cc.Search(k) },
			func(c *rag.Chunk) bool { return containsFold(c.Text, k) })
	}
	// Filter with caller predicates
	custom := []struct {
		name string
		p    func(c *rag.Chunk) bool
	}{
		{"true", func(c *rag.Chunk) bool { return true }},
		{"false", func(c *rag.Chunk) bool { return false }},
		{"idA", func(c *rag.Chunk) bool { return c.ID == "A" }},
		{"notidA", func(c *rag.Chunk) bool { return c.ID != "A" }},
		{"emptytext", func(c *rag.Chunk) bool { return c.Text == "" }},
	}
	for _, cu := range custom {
		cu := cu
		add("custom:"+cu.name, func(cc *rag.ChunkCollection) *rag.ChunkCollection { return cc.Filter(cu.p) }, cu.p)
	}
	return ps
}

func idsOf(cs []*rag.Chunk, kinds map[*rag.Chunk]string) string {
	var s []string
	for _, c := range cs {
		k, ok := kinds[c]
		if !ok {
			k = fmt.Sprintf("?%p", c)
		}
		s = append(s, k)
	}
	return "[" + strings.Join(s, " ") + "]"
}

func samePtrs(a, b []*rag.Chunk) bool {
	if len(a) != len(b) {
		return false
	}
	for i := range a {
		if a[i] != b[i] {
			return false
		}
	}
	return true
}

func filterSpace(e *harness.Env) {
	ps := predicates()
	// single filters on collections of <= maxN chunks, two-filter chains on collections of <= maxChain chunks
	maxN, maxChain := 3, 2
	if e.Thorough() {
		maxN, maxChain = 4, 3
	}
	e.Note("filter_predicates", fmt.Sprint(len(ps)))
	f1tok := make([]string, len(ps))
	f2tok := make([]string, len(ps))
	for i, p := range ps {
		f1tok[i] = " f1=" + descTok(p.name)
		f2tok[i] = " f2=" + descTok(p.name)
	}
	K := len(fkinds)
	for n := 0; n <= maxN; n++ {
		total := 1
		for i := 0; i < n; i++ {
			total *= K
		}
		for t := 0; t < total; t++ {
			idxs := make([]int, n)
			x := t
			names := make([]byte, n)
			for i := n - 1; i >= 0; i-- {
				idxs[i] = x % K
				x /= K
				names[i] = fkinds[idxs[i]].name[0]
			}
			ctok := "space=filter n=" + fmt.Sprint(n) + " chunks=" + string(names)
			if n == 0 {
				ctok += "-"
			}
			var base []*rag.Chunk // built lazily
			build := func() {
				base = make([]*rag.Chunk, n)
				for i, k := range idxs {
					base[i] = fkinds[k].mk()
				}
			}
			// one case = one filter or one two-filter chain on a fresh collection
			for i1 := range ps {
				for i2 := -1; i2 < len(ps); i2++ {
					if i2 >= 0 && n > maxChain {
						break
					}
					var desc string
					if i2 >= 0 {
						desc = ctok + f1tok[i1] + f2tok[i2]
					} else {
						desc = ctok + f1tok[i1] + " f2=-"
					}
					if !e.Own(desc) {
						continue
					}
					if base == nil {
						build()
					}
					judgeFilter(e, desc, base, ps[i1], i2, ps)
				}
			}
		}
	}
}

func fkindName(c *rag.Chunk) string {
	if c.ID == "" {
		return "H"
	}
	return c.ID
}

func descTok(s string) string { return harness.D("k", s)[2:] }

func judgeFilter(e *harness.Env, desc string, base []*rag.Chunk, p1 pred, i2 int, ps []pred) {
	kinds := map[*rag.Chunk]string{} // filled only when a failure has to be described
	in := append([]*rag.Chunk(nil), base...) // the slice handed to tabula
	var pristine []*rag.Chunk
	if i2 < 0 { // content comparison once per filter; chains re-use the same filters
		pristine = cloneChunks(base)
	}
	cc := rag.NewChunkCollection(in)
	var r1, r2 *rag.ChunkCollection
	sig, det := harness.Guard(func() {
		r1 = p1.apply(cc)
		if i2 >= 0 {
			r2 = ps[i2].apply(r1)
		}
	})
	if sig != "" {
		e.Fail(desc, sig, det, nil)
		return
	}
	// reference comprehensions
	var want1, want2 []*rag.Chunk
	for _, c := range base {
		if p1.ref(c) {
			want1 = append(want1, c)
			if i2 >= 0 && ps[i2].ref(c) {
				want2 = append(want2, c)
			}
		}
	}
	ok := samePtrs(cc.Chunks, base) && samePtrs(in, base) && r1 != nil && samePtrs(r1.Chunks, want1) && r1.Count() == len(want1) &&
		(i2 < 0 || (r2 != nil && samePtrs(r2.Chunks, want2))) && (pristine == nil || reflect.DeepEqual(pristine, base))
	if !ok {
		for i, c := range base {
			kinds[c] = fmt.Sprintf("%s%d", fkindName(c), i)
		}
	}
	if r1 == nil || (i2 >= 0 && r2 == nil) {
		e.Fail(desc, "filter-nil-collection", "filter returned a nil collection", nil)
		return
	}
	// the chain's second filter must not disturb the first result, nor either of them the input
	if !samePtrs(cc.Chunks, base) || !samePtrs(in, base) {
		e.Fail(desc, "filter-mutated-input", fmt.Sprintf("input collection after filtering: %s, before: %s", idsOf(cc.Chunks, kinds), idsOf(base, kinds)), nil)
		return
	}
	if pristine != nil && !reflect.DeepEqual(pristine, base) {
		e.Fail(desc, "filter-mutated-chunks", "chunk contents changed during filtering", nil)
		return
	}
	if !samePtrs(r1.Chunks, want1) {
		e.Fail(desc, "filter-wrong-selection", fmt.Sprintf("%s on %s: got %s, want %s", p1.name, idsOf(base, kinds), idsOf(r1.Chunks, kinds), idsOf(want1, kinds)), nil)
		return
	}
	if r1.Count() != len(want1) {
		e.Fail(desc, "filter-count", fmt.Sprintf("Count()=%d, want %d", r1.Count(), len(want1)), nil)
		return
	}
	if i2 >= 0 && !samePtrs(r2.Chunks, want2) {
		e.Fail(desc, "filter-wrong-selection", fmt.Sprintf("%s then %s on %s: got %s, want %s", p1.name, ps[i2].name, idsOf(base, kinds), idsOf(r2.Chunks, kinds), idsOf(want2, kinds)), nil)
		return
	}
	final := want1
	if i2 >= 0 {
		final = want2
	}
	oc := "filter:some"
	switch {
	case len(base) == 0:
		oc = "filter:empty-input"
	case len(final) == 0:
		oc = "filter:none"
	case len(final) == len(base):
		oc = "filter:all"
	}
	if i2 >= 0 {
		oc += "+chain"
	}
	e.Pass(desc, !(p1.name == "custom:true" && i2 < 0), oc)
}

// ---- sibling space: filter results are values -----------------------------------------------------------------
// "Filtering a collection returns exactly the chunks satisfying the predicate" has to stay true of a result for as long
// as the caller holds it: several filters / searches are applied to the SAME source collection (r1 := cc.P1();
// r2 := cc.P2(); [r3 := cc.P3()]) and only then is every result judged against its reference comprehension; r1 is
// judged again after r2 has been exported, after r1 itself has been filtered further, and after a Search on the
// source; finally the exports of r1 are judged against the reference selection.

// a family-covering subset of the predicates for the triple product
var triplePreds = []string{"section:Intro", "section:", "page:1", "page:4", "pages:2..5", "pages:1..10", "etype:paragraph", "etype:table",
	"tables", "lists", "images", "mintok:10", "maxtok:9", "mintok:-2147483648", "search:hello", "search:", "search:zzz", "search:привет",
	"custom:true", "custom:false", "custom:idA"}

func refSelect(base []*rag.Chunk, ps ...pred) []*rag.Chunk {
	var out []*rag.Chunk
next:
	for _, c := range base {
		for _, p := range ps {
			if !p.ref(c) {
				continue next
			}
		}
		out = append(out, c)
	}
	return out
}

func siblingSpace(e *harness.Env) {
	ps := predicates()
	byName := map[string]int{}
	tok := make([]string, len(ps))
	for i, p := range ps {
		byName[p.name] = i
		tok[i] = descTok(p.name)
	}
	var tri []int
	for _, n := range triplePreds {
		i, ok := byName[n]
		if !ok {
			panic("c14: no predicate " + n)
		}
		tri = append(tri, i)
	}
	maxPair, maxTriple := 2, -1
	if e.Thorough() {
		maxPair, maxTriple = 3, 3
	}
	e.Note("sibling_triple_predicates", fmt.Sprint(len(tri)))
	K := len(fkinds)
	for n := 0; n <= maxPair; n++ {
		total := 1
		for i := 0; i < n; i++ {
			total *= K
		}
		for t := 0; t < total; t++ {
			idxs := make([]int, n)
			names := make([]byte, n)
			x := t
			for i := n - 1; i >= 0; i-- {
				idxs[i] = x % K
				x /= K
				names[i] = fkinds[idxs[i]].name[0]
			}
			ctok := "space=sibling n=" + fmt.Sprint(n) + " chunks=" + string(names)
			if n == 0 {
				ctok += "-"
			}
			var base []*rag.Chunk
			get := func() []*rag.Chunk {
				if base == nil {
					base = make([]*rag.Chunk, n)
					for i, k := range idxs {
						base[i] = fkinds[k].mk()
					}
				}
				return base
			}
			for i1 := range ps {
				for i2 := range ps {
					desc := ctok + " f1=" + tok[i1] + " f2=" + tok[i2] + " f3=-"
					if !e.Own(desc) {
						continue
					}
					judgeSiblings(e, desc, get(), []pred{ps[i1], ps[i2]})
				}
			}
			if n <= maxTriple {
				for _, i1 := range tri {
					for _, i2 := range tri {
						for _, i3 := range tri {
							desc := ctok + " f1=" + tok[i1] + " f2=" + tok[i2] + " f3=" + tok[i3]
							if !e.Own(desc) {
								continue
							}
							judgeSiblings(e, desc, get(), []pred{ps[i1], ps[i2], ps[i3]})
						}
					}
				}
			}
		}
	}
}

func judgeSiblings(e *harness.Env, desc string, base []*rag.Chunk, sp []pred) {
	in := append([]*rag.Chunk(nil), base...)
	cc := rag.NewChunkCollection(in)
	want := make([][]*rag.Chunk, len(sp))
	res := make([]*rag.ChunkCollection, len(sp))
	fresh := make([]bool, len(sp)) // result was right when it was returned
	jsonCfg := rag.DefaultExportConfig()
	jsonCfg.Format = rag.ExportFormatJSON
	jsonCfg.PrettyPrint = true

	describe := func(cs []*rag.Chunk) string {
		kinds := map[*rag.Chunk]string{}
		for i, c := range base {
			kinds[c] = fmt.Sprintf("%s%d", fkindName(c), i)
		}
		return idsOf(cs, kinds)
	}
	// check every result obtained so far; stage names the calls made since the results were obtained
	check := func(stage string, upto int) bool {
		if !samePtrs(cc.Chunks, base) || !samePtrs(in, base) {
			e.Fail(desc, "filter-mutated-input", fmt.Sprintf("%s: source collection is now %s, was %s", stage, describe(cc.Chunks), describe(base)), nil)
			return false
		}
		for k := 0; k <= upto; k++ {
			if res[k] == nil {
				e.Fail(desc, "filter-nil-collection", fmt.Sprintf("%s: result %d is nil", stage, k+1), nil)
				return false
			}
			if !samePtrs(res[k].Chunks, want[k]) || res[k].Count() != len(want[k]) {
				sig := "filter-wrong-selection"
				if fresh[k] {
					sig = "filter-result-changed-by-later-call"
				}
				e.Fail(desc, sig, fmt.Sprintf("%s: result %d (%s on %s) is %s, want %s", stage, k+1, sp[k].name, describe(base), describe(res[k].Chunks), describe(want[k])), nil)
				return false
			}
		}
		return true
	}
	var r11, srch *rag.ChunkCollection
	var out2, outL, outJ string
	var err2, errL, errJ error
	stage := 0
	ok := true
	sig, det := harness.Guard(func() {
		for k := range sp {
			want[k] = refSelect(base, sp[k])
			res[k] = sp[k].apply(cc)
			if res[k] != nil && samePtrs(res[k].Chunks, want[k]) {
				fresh[k] = true
			}
		}
		last := len(sp) - 1
		if ok = check("after all filters on the source", last); !ok {
			return
		}
		stage = 1
		out2, err2 = res[1].ToJSONL()
		if ok = check("after exporting result 2", last); !ok {
			return
		}
		stage = 2
		r11 = sp[1].apply(res[0])
		if ok = check("after filtering result 1 further", last); !ok {
			return
		}
		stage = 3
		srch = cc.Search("hello")
		if ok = check("after Search on the source", last); !ok {
			return
		}
		outL, errL = res[0].ToJSONL()
		outJ, errJ = res[0].ToJSON()
	})
	_ = stage
	if sig != "" {
		e.Fail(desc, sig, det, nil)
		return
	}
	if !ok {
		return
	}
	want11 := refSelect(base, sp[0], sp[1])
	if r11 == nil || !samePtrs(r11.Chunks, want11) {
		e.Fail(desc, "filter-wrong-selection", fmt.Sprintf("%s applied to result 1 (%s): got %v, want %s", sp[1].name, sp[0].name, r11 != nil && true, describe(want11)), nil)
		return
	}
	wantS := refSelect(base, pred{ref: func(c *rag.Chunk) bool { return containsFold(c.Text, "hello") }})
	if srch == nil || !samePtrs(srch.Chunks, wantS) {
		e.Fail(desc, "filter-wrong-selection", fmt.Sprintf("Search(hello) on the source after other filters: want %s", describe(wantS)), nil)
		return
	}
	if err2 != nil || errL != nil || errJ != nil {
		e.Fail(desc, "export-error", fmt.Sprintf("export of a filter result failed: %v %v %v", err2, errL, errJ), nil)
		return
	}
	for _, x := range []struct {
		cfg rag.ExportConfig
		out string
		cs  []*rag.Chunk
		nm  string
	}{{rag.JSONLExportConfig(), out2, want[1], "ToJSONL of result 2"}, {rag.JSONLExportConfig(), outL, want[0], "ToJSONL of result 1"}, {jsonCfg, outJ, want[0], "ToJSON of result 1"}} {
		if v := judgeExport(x.cfg, x.out, x.cs); v.sig != "" {
			v.detail = x.nm + " (" + describe(x.cs) + "): " + v.detail
			fail(e, desc, verdict{sig: "filter-export:" + v.sig, detail: v.detail}, x.out)
			return
		}
	}
	oc := fmt.Sprintf("siblings:%d", len(sp))
	switch {
	case len(base) == 0:
		oc += ":empty-input"
	case len(want[0]) == 0 && len(want[1]) == 0:
		oc += ":both-none"
	case samePtrs(want[0], want[1]):
		oc += ":same-selection"
	case len(want[0]) >= len(want[1]):
		oc += ":later-fits-earlier"
	default:
		oc += ":later-larger"
	}
	e.Pass(desc, true, oc)
}
