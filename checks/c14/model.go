package main

import (
	"strings"

	"github.com/tsawler/tabula/rag"
)

// ---- adversarial string alphabet -----------------------------------------------------------------

type astr struct {
	name string
	s    string
}

func bigText() string {
	// 4 KB with every delimiter class inside, deterministic
	var b strings.Builder
	unit := "lorem, ipsum\t\"dolor\" sit\r\namet; 🙂 {\"k\":[1,2]} =x\n"
	for b.Len() < 4096 {
		b.WriteString(unit)
	}
	return b.String()
}

// core: the 14 strings of DESIGN.md C14 (+ the plain default, index 0)
var coreAlpha = []astr{
	{"plain", "Hello World"},
	{"comma", "a,b"},
	{"tab", "a\tb"},
	{"quote", `say "hi"`},
	{"cr", "a\rb"},
	{"lf", "a\nb"},
	{"crlf", "a\r\nb"},
	{"nul", "a\x00b"},
	{"emoji", "héllo 🙂 日本"},
	{"jsonobj", `{"a":1}`},
	{"jsonarr", `[x,y]`},
	{"eq", "=1+2"},
	{"empty", ""},
	{"lsp", " lead"},
	{"tsp", "trail "},
	{"big4k", bigText()},
}

// extra: further members of the same classes that stress the quoting rules of the writers
var extraAlpha = []astr{
	{"endcr", "ends with CR\r"},
	{"endlf", "ends with LF\n"},
	{"onlyquote", `"`},
	{"startquote", `"x`},
	{"quotecomma", `a","b`},
	{"backslash", `a\"b\\`},
	{"bsdot", `\.`},
	{"html", "<b>&amp;</b>"},
	{"ls2028", "a\u2028b\u2029c"},
	{"ctl", "a\x01\x1f\x7fb"},
	{"bracket", "c]"},
	{"bom", "\ufeffx"},
	{"nbsp", "\u00a0x"},
	{"semi", "a;b|c"},
}

func alphabet(thorough bool) []astr {
	a := append([]astr{}, coreAlpha...)
	a = append(a, extraAlpha...)
	return a
}

// ---- chunk construction --------------------------------------------------------------------------

// string-valued slots of a chunk
const (
	fID = iota
	fText
	fDocTitle
	fSectionTitle
	fPathElem
	fParentID
	fChildID
	fElemType
	nFields
)

var fieldNames = [nFields]string{"id", "text", "doctitle", "sectitle", "pathelem", "parentid", "childid", "elemtype"}

// numeric / boolean metadata profiles
const (
	profFull    = iota // every metadata field non-zero
	profMin            // every optional metadata field zero
	profPartial        // a different subset set (so that column sets differ between chunks)
	nProfiles
)

var profNames = [nProfiles]string{"full", "min", "partial"}

// mkChunk builds one chunk. str[f] is the value of string slot f; pos is its index in the collection.
func mkChunk(str [nFields]string, prof, pos int) *rag.Chunk {
	c := &rag.Chunk{ID: str[fID], Text: str[fText]}
	m := &c.Metadata
	m.ChunkIndex = pos
	switch prof {
	case profFull:
		m.DocumentTitle = str[fDocTitle]
		m.SectionTitle = str[fSectionTitle]
		m.SectionPath = []string{"Chapter 1", str[fPathElem], str[fSectionTitle]}
		m.HeadingLevel = 2
		m.PageStart, m.PageEnd = pos+1, pos+2
		m.TotalChunks = 7
		m.Level = rag.ChunkLevelParagraph
		m.ParentID = str[fParentID]
		m.ChildIDs = []string{str[fChildID], "kid-2"}
		m.ElementTypes = []string{"paragraph", str[fElemType]}
		m.HasTable, m.HasList, m.HasImage = true, pos%2 == 0, true
		m.CharCount, m.WordCount, m.EstimatedTokens = 11+pos, 2, 3
	case profMin:
		m.Level = rag.ChunkLevelDocument
		// strings other than id/text are not representable with all-zero metadata; keep the
		// title (the most common field) so that the adversarial string is still exported
		m.DocumentTitle = str[fDocTitle]
	case profPartial:
		m.ChunkIndex = pos + 10 // the stored index need not be the position in the exported slice
		m.SectionTitle = str[fSectionTitle]
		m.SectionPath = []string{str[fPathElem]}
		m.PageStart, m.PageEnd = 3, 3
		m.Level = rag.ChunkLevelSection
		m.ChildIDs = []string{str[fChildID]}
		m.HasList = true
		m.WordCount = 5
	}
	return c
}

func uniform(s string) [nFields]string {
	var a [nFields]string
	for i := range a {
		a[i] = s
	}
	return a
}

func cloneChunk(c *rag.Chunk) *rag.Chunk {
	d := *c
	d.Metadata.SectionPath = append([]string(nil), c.Metadata.SectionPath...)
	d.Metadata.ChildIDs = append([]string(nil), c.Metadata.ChildIDs...)
	d.Metadata.ElementTypes = append([]string(nil), c.Metadata.ElementTypes...)
	return &d
}

func cloneChunks(cs []*rag.Chunk) []*rag.Chunk {
	out := make([]*rag.Chunk, len(cs))
	for i, c := range cs {
		out[i] = cloneChunk(c)
	}
	return out
}

// hasListComma: some list-valued metadata field has an element containing ',' (descriptor token; the
// bracketed list rendering of the delimiter-separated formats has no escaping for it).
func hasListComma(cs []*rag.Chunk) bool {
	for _, c := range cs {
		for _, l := range [][]string{c.Metadata.SectionPath, c.Metadata.ChildIDs, c.Metadata.ElementTypes} {
			for _, x := range l {
				if strings.Contains(x, ",") {
					return true
				}
			}
		}
	}
	return false
}

// ---- reference view of a chunk's metadata ----------------------------------------------------------

type val struct {
	k byte // 's' string, 'i' int, 'b' bool, 'l' list of strings
	s string
	i int
	b bool
	l []string
}

func (v val) zero() bool {
	switch v.k {
	case 's':
		return v.s == ""
	case 'i':
		return v.i == 0
	case 'b':
		return !v.b
	}
	return len(v.l) == 0
}

// the metadata fields of a chunk under the names the export uses (json tags of rag.ChunkMetadata)
var metaKeys = []string{"document_title", "section_path", "section_title", "heading_level", "page_start", "page_end",
	"chunk_index", "total_chunks", "level", "parent_id", "child_ids", "element_types", "has_table", "has_list",
	"has_image", "char_count", "word_count", "estimated_tokens"}

func refMeta(c *rag.Chunk, key string) (val, bool) {
	m := c.Metadata
	switch key {
	case "document_title":
		return val{k: 's', s: m.DocumentTitle}, true
	case "section_path":
		return val{k: 'l', l: m.SectionPath}, true
	case "section_title":
		return val{k: 's', s: m.SectionTitle}, true
	case "heading_level":
		return val{k: 'i', i: m.HeadingLevel}, true
	case "page_start":
		return val{k: 'i', i: m.PageStart}, true
	case "page_end":
		return val{k: 'i', i: m.PageEnd}, true
	case "chunk_index":
		return val{k: 'i', i: m.ChunkIndex}, true
	case "total_chunks":
		return val{k: 'i', i: m.TotalChunks}, true
	case "level":
		return val{k: 's', s: levelName(m.Level)}, true
	case "parent_id":
		return val{k: 's', s: m.ParentID}, true
	case "child_ids":
		return val{k: 'l', l: m.ChildIDs}, true
	case "element_types":
		return val{k: 'l', l: m.ElementTypes}, true
	case "has_table":
		return val{k: 'b', b: m.HasTable}, true
	case "has_list":
		return val{k: 'b', b: m.HasList}, true
	case "has_image":
		return val{k: 'b', b: m.HasImage}, true
	case "char_count":
		return val{k: 'i', i: m.CharCount}, true
	case "word_count":
		return val{k: 'i', i: m.WordCount}, true
	case "estimated_tokens":
		return val{k: 'i', i: m.EstimatedTokens}, true
	}
	return val{}, false
}

func levelName(l rag.ChunkLevel) string {
	switch l {
	case rag.ChunkLevelDocument:
		return "document"
	case rag.ChunkLevelSection:
		return "section"
	case rag.ChunkLevelParagraph:
		return "paragraph"
	case rag.ChunkLevelSentence:
		return "sentence"
	}
	return "unknown"
}

// selected reports whether the configuration asks for metadata field key to be exported inside
// the metadata container (JSON "metadata" object / meta_ columns).
func selected(cfg rag.ExportConfig, key string) bool {
	if !cfg.IncludeMetadata {
		return false
	}
	if cfg.MetadataFields == nil {
		return true
	}
	for _, f := range cfg.MetadataFields {
		if f == key {
			return true
		}
	}
	return false
}
