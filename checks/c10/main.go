// C10 — Page selection and option chaining are algebraic; handles are released.
// (A) every page selection spelling (sequences, ranges, two-call chains) x option sets x terminal
//
//	operations on a 4-page PDF, against set semantics over the logical document;
//
// (B) explicit-state BFS over sequences of builder / non-terminal / terminal / Close operations on a
//
//	shared base extractor and a derived one: results, independence of the base, file-descriptor
//	accounting after every step, idempotent Close;
//
// (C) failing terminals (out-of-range page, damaged file, missing file) release their handle.
package main

import (
	"fmt"
	"os"
	"path/filepath"
	"sort"
	"strings"

	"github.com/tsawler/tabula"
	"github.com/tsawler/tabula/model"
	"verif/internal/gen/pdfw"
	"verif/internal/gen/samples"
	"verif/internal/harness"
)

func main() { harness.Main("C10", "model_checking", run) }

const nPages = 4

var pageLines [nPages][]string

func buildDoc() pdfw.Doc {
	var d pdfw.Doc
	d.Name = "four"
	pageLines = [nPages][]string{} // rebuilt on every call
	// pages differ in their dominant font size and in where a larger title line sits, so that anything the
	// layout analysis carries over from one page of a selection to the next changes the later page's structure
	sizes := [nPages][]float64{
		{20, 20, 20, 20, 20, 20}, // page 1: six lines of 20 pt
		{15, 10, 10, 10},         // page 2: a 15 pt title over 10 pt body
		{12, 12, 12},             // page 3: uniform 12 pt
		{9, 9, 14, 9, 9},         // page 4: 9 pt body with a 14 pt line in the middle
	}
	for p := 0; p < nPages; p++ {
		var pg pdfw.Page
		y := 720.0
		for l, size := range sizes[p] {
			// every page numbers its fonts by first use (Layout.PerPageFonts): /F1 is WinAnsi Helvetica on odd
			// pages and a MacRoman TrueType font on even pages, and the accented token tells them apart
			txt := fmt.Sprintf("pg%dln%d alpha%d%d bravo%d%d charlie%d%d caf\u00e9%d%d", p+1, l+1, p+1, l, p+1, l, p+1, l, p+1, l)
			if size >= 14 && size < 20 {
				txt = fmt.Sprintf("pg%dln%d title%d%d", p+1, l+1, p+1, l)
			}
			pageLines[p] = append(pageLines[p], txt)
			kind := pdfw.Type1WinAnsi
			if (p+l)%2 == 1 {
				kind = pdfw.TrueTypeMacRoman
			}
			pg.Lines = append(pg.Lines, pdfw.Line{Font: kind, Text: txt, X: 72, Y: y, Size: size})
			y -= size * 1.25
			if size >= 14 && size < 20 {
				y -= 10
			}
		}
		d.Pages = append(d.Pages, pg)
	}
	return d
}

func tokensOf(pages []int) []string {
	var t []string
	for _, p := range pages {
		for _, l := range pageLines[p-1] {
			t = append(t, strings.Fields(l)...)
		}
	}
	return t
}

// fdCount counts this process' open descriptors that refer to path.
func fdCount(path string) int {
	ents, err := os.ReadDir("/proc/self/fd")
	if err != nil {
		return -1
	}
	n := 0
	for _, en := range ents {
		if l, err := os.Readlink("/proc/self/fd/" + en.Name()); err == nil && l == path {
			n++
		}
	}
	return n
}

type selCall struct {
	kind string // pages | range
	args []int
}

func (s selCall) String() string {
	if s.kind == "range" {
		return fmt.Sprintf("Range(%d,%d)", s.args[0], s.args[1])
	}
	return "Pages" + strings.ReplaceAll(fmt.Sprint(s.args), " ", ",")
}

func (s selCall) expand() []int {
	if s.kind == "range" {
		var o []int
		for i := s.args[0]; i <= s.args[1]; i++ {
			o = append(o, i)
		}
		return o
	}
	return s.args
}

func (s selCall) apply(e *tabula.Extractor) *tabula.Extractor {
	if s.kind == "range" {
		return e.PageRange(s.args[0], s.args[1])
	}
	return e.Pages(s.args...)
}

type optSet int

func (o optSet) String() string {
	names := []string{"xh", "xf", "join", "col", "lay"}
	var s []string
	for i, n := range names {
		if o&(1<<i) != 0 {
			s = append(s, n)
		}
	}
	if len(s) == 0 {
		return "none"
	}
	return strings.Join(s, "+")
}

func (o optSet) apply(e *tabula.Extractor, rev bool) *tabula.Extractor {
	fs := []func(*tabula.Extractor) *tabula.Extractor{
		(*tabula.Extractor).ExcludeHeaders, (*tabula.Extractor).ExcludeFooters, (*tabula.Extractor).JoinParagraphs,
		(*tabula.Extractor).ByColumn, (*tabula.Extractor).PreserveLayout}
	idx := []int{0, 1, 2, 3, 4}
	if rev {
		idx = []int{4, 3, 2, 1, 0}
	}
	for _, i := range idx {
		if o&(1<<i) != 0 {
			e = fs[i](e)
		}
	}
	return e
}

// expected resolves the accumulated selection: (pages ascending unique, outOfRange, all)
func expected(calls []selCall) (pages []int, oor bool, all bool) {
	var acc []int
	for _, c := range calls {
		acc = append(acc, c.expand()...)
	}
	if len(acc) == 0 {
		return []int{1, 2, 3, 4}, false, true
	}
	seen := map[int]bool{}
	for _, p := range acc {
		if p < 1 || p > nPages {
			oor = true
		}
		if !seen[p] {
			seen[p] = true
			pages = append(pages, p)
		}
	}
	sort.Ints(pages)
	return pages, oor, false
}

func run(e *harness.Env) {
	e.Rule = "(A) selections: all Pages(seq) with |seq|<=3 over 0..5, all PageRange(a,b) a,b in 0..5, all two-call chains of (Pages(|seq|<=2) | PageRange) x (Pages(|seq|<=1) | PageRange), " +
		"x option sets (all 32 for ranges and short sequences, default otherwise) x terminals {Text, Fragments, Document, Chunks}; (B) BFS over operation sequences (depth 4 quick / 5 thorough) " +
		"over {derive Pages(2)/ByColumn/ExcludeHeaders, PageCount, IsMultiColumn, Text, Chunks, Close} on base and derived extractor, state = (exists, kind, model handle ownership, open descriptors); " +
		"(C) failing terminals; (F) on a document with mixed page layouts (single / two columns / single): probe sequences {PageCount, IsMultiColumn} before and after a derivation x 6 derivations x {Text, ToMarkdown, Chunks, Document} against the same call on a never-probed base. distinct = descriptors; non-trivial = everything except the unrestricted default selection"
	e.Assumptions = []string{"internal/gen/pdfw 4-page document (3 text lines per page, distinct tokens)", "/proc/self/fd lists the process' descriptors"}
	dir := harness.Scratch()
	defer os.RemoveAll(dir)
	path := filepath.Join(dir, "four.pdf")
	built := pdfw.Write(buildDoc(), pdfw.Layout{PerPageFonts: true})
	if err := os.WriteFile(path, built.Bytes, 0o644); err != nil {
		panic(err)
	}
	docBaselinePath = path
	partA(e, path)
	// the same document with a different physical shape per page: pages 2 and 4 have two content streams, pages 1
	// and 3 one, nothing is compressed - state a reader keeps per page (buffers, caches) meets pages of both kinds
	mixed := filepath.Join(dir, "four-mixed.pdf")
	if err := os.WriteFile(mixed, pdfw.Write(buildDoc(), pdfw.Layout{PerPageFonts: true, Split: 2, SplitPages: map[int]bool{1: true, 3: true}}).Bytes, 0o644); err != nil {
		panic(err)
	}
	docBaselinePath, docTag = mixed, "mixed"
	docBaseline = map[int]string{}
	partA(e, mixed)
	docBaselinePath, docTag = path, ""
	docBaseline = map[int]string{}
	partB(e, path)
	partC(e, dir, path, built.Bytes)
	partD(e, path)
	partE(e, dir)
	partF(e, dir)
}

// partF: non-terminal probes (PageCount, IsMultiColumn) never change what a later terminal operation returns,
// on the probed extractor or on extractors derived from it. The document mixes page layouts (single column /
// two columns / single column), so anything a probe remembers about one page is wrong for another. The oracle
// is differential: the same derivation and terminal on a fresh base that was never probed.
func partF(e *harness.Env, dir string) {
	var d pdfw.Doc
	d.Name = "cols"
	for p := 1; p <= 3; p++ {
		var pg pdfw.Page
		y := 720.0
		for l := 1; l <= 24; l++ {
			if p == 2 {
				pg.Lines = append(pg.Lines,
					pdfw.Line{Font: pdfw.Type1WinAnsi, Text: fmt.Sprintf("left%02d column line of the story", l), X: 72, Y: y, Size: 10},
					pdfw.Line{Font: pdfw.Type1WinAnsi, Text: fmt.Sprintf("right%02d column line of the story", l), X: 330, Y: y, Size: 10})
			} else {
				pg.Lines = append(pg.Lines, pdfw.Line{Font: pdfw.Type1WinAnsi, X: 72, Y: y, Size: 10,
					Text: fmt.Sprintf("p%dline%02d runs across the whole width of the page from the left margin to the right one", p, l)})
			}
			y -= 14
		}
		d.Pages = append(d.Pages, pg)
	}
	path := filepath.Join(dir, "cols.pdf")
	if err := os.WriteFile(path, pdfw.Write(d, pdfw.Layout{}).Bytes, 0o644); err != nil {
		panic(err)
	}
	probe := func(x *tabula.Extractor, name string) {
		switch name {
		case "PC":
			_, _ = x.PageCount()
		case "MC":
			_, _ = x.IsMultiColumn()
		}
	}
	derive := func(x *tabula.Extractor, name string) *tabula.Extractor {
		switch name {
		case "Pages(2)":
			return x.Pages(2)
		case "Pages(1,2)":
			return x.Pages(1, 2)
		case "Pages(2,3)":
			return x.Pages(2, 3)
		case "PageRange(1,3)":
			return x.PageRange(1, 3)
		case "Pages(3)":
			return x.Pages(3)
		}
		return x
	}
	terminal := func(x *tabula.Extractor, name string) string {
		switch name {
		case "Text":
			t, _, err := x.Text()
			return fmt.Sprintf("%q %v", t, err)
		case "ToMarkdown":
			t, _, err := x.ToMarkdown()
			return fmt.Sprintf("%q %v", t, err)
		case "Chunks":
			c, _, err := x.Chunks()
			if err != nil {
				return "error: " + err.Error()
			}
			var b strings.Builder
			for _, ch := range c.Chunks {
				fmt.Fprintf(&b, "[%d-%d %q]", ch.Metadata.PageStart, ch.Metadata.PageEnd, ch.Text)
			}
			return b.String()
		case "Document":
			doc, _, err := x.Document()
			if err != nil {
				return "error: " + err.Error()
			}
			var b strings.Builder
			for _, pg := range doc.Pages {
				fmt.Fprintf(&b, "{%d %s}", pg.Number, renderPage(pg))
			}
			return b.String()
		}
		return ""
	}
	// vacuity guard: the middle page must really be read column by column by a fresh extractor
	if t2, _, err := tabula.Open(path).Pages(2).Text(); err == nil {
		l, r := strings.Index(t2, "left24"), strings.Index(t2, "right01")
		if l >= 0 && r >= 0 && l < r {
			e.Note("partF_two_column_page", "read column by column by a fresh extractor (left24 before right01)")
		} else {
			e.Note("partF_two_column_page", "NOT read column by column by a fresh extractor: part F cannot see layout-dependent state")
		}
	}
	befores := [][]string{{}, {"PC"}, {"MC"}, {"PC", "MC"}, {"MC", "PC"}, {"MC", "MC"}}
	afters := [][]string{{}, {"PC"}, {"MC"}}
	for _, bf := range befores {
		for _, dv := range []string{"-", "Pages(2)", "Pages(1,2)", "Pages(2,3)", "PageRange(1,3)", "Pages(3)"} {
			for _, af := range afters {
				for _, term := range []string{"Text", "ToMarkdown", "Chunks", "Document"} {
					desc := harness.D("part", "F", "before", strings.Join(bf, "+"), "derive", dv, "after", strings.Join(af, "+"), "term", term)
					if !e.Own(desc) {
						continue
					}
					e.Begin(desc)
					var want, got string
					psig, pdet := harness.Guard(func() {
						fresh := tabula.Open(path)
						want = terminal(derive(fresh, dv), term)
						fresh.Close()
						base := tabula.Open(path)
						for _, b := range bf {
							probe(base, b)
						}
						dx := derive(base, dv)
						for _, a := range af {
							probe(dx, a)
						}
						got = terminal(dx, term)
						dx.Close()
						base.Close()
					})
					switch {
					case psig != "":
						e.Fail(desc, psig, pdet, nil)
					case got != want:
						e.Fail(desc, "probe-changes-later-result", fmt.Sprintf("after probes %v on the base and %v on the derived extractor %s, %s differs from the same call on a base that was never probed:\nprobed: %s\nfresh:  %s", bf, af, dv, term, clip(got), clip(want)), nil)
					case fdCount(path) != 0:
						e.Fail(desc, "handle-left-open-after-close", fmt.Sprintf("%d descriptors open", fdCount(path)), nil)
					default:
						e.Pass(desc, len(bf)+len(af) > 0, "probes-transparent:"+term)
					}
				}
			}
		}
	}
}

// partE: every format releases its handle after every terminal operation, successful or failed
// (valid sample of each format, its first half, and its bytes under every other extension).
func partE(e *harness.Env, dir string) {
	exts := []string{".pdf", ".docx", ".odt", ".xlsx", ".pptx", ".epub", ".html"}
	for _, smp := range samples.Named() {
		for _, variant := range []string{"valid", "truncated", "other-extension"} {
			names := []string{smp.Name}
			if variant == "other-extension" {
				names = nil
				for _, x := range exts {
					if !strings.HasSuffix(smp.Name, x) {
						names = append(names, strings.TrimSuffix(smp.Name, filepath.Ext(smp.Name))+"_as"+x)
					}
				}
			}
			for _, name := range names {
				data := smp.Data
				if variant == "truncated" {
					data = data[:len(data)/2]
				}
				file := filepath.Join(dir, "e_"+variant+"_"+name)
				for _, term := range []string{"Text", "ToMarkdown", "Document", "Chunks", "PageCount+Close", "derive+Text"} {
					desc := harness.D("part", "E", "sample", smp.Name, "variant", variant, "as", name, "op", term)
					if !e.Own(desc) {
						continue
					}
					e.Begin(desc)
					if err := os.WriteFile(file, data, 0o644); err != nil {
						panic(err)
					}
					outcome := "ok"
					sig, det := harness.Guard(func() {
						ext := tabula.Open(file)
						var err error
						switch term {
						case "Text":
							_, _, err = ext.Text()
						case "ToMarkdown":
							_, _, err = ext.ToMarkdown()
						case "Document":
							_, _, err = ext.Document()
						case "Chunks":
							_, _, err = ext.Chunks()
						case "PageCount+Close":
							_, err = ext.PageCount()
							ext.Close()
							ext.Close()
						case "derive+Text":
							defer ext.Close()
							_, _ = ext.PageCount()
							_, _, err = ext.ExcludeHeadersAndFooters().Text()
						}
						if err != nil {
							outcome = "error"
						}
					})
					if sig == "" {
						if n := fdCount(file); n != 0 {
							sig, det = "handle-left-open-after-terminal:"+filepath.Ext(smp.Name), fmt.Sprintf("%d descriptors of %s still open after %s (%s)", n, name, term, outcome)
						}
					}
					if strings.HasPrefix(sig, "panic@") {
						// crashes on damaged input are C02's subject; here only the handle matters
						if n := fdCount(file); n == 0 {
							sig = ""
							outcome = "panic(C02)"
						}
					}
					os.Remove(file)
					if sig != "" {
						e.Fail(desc, sig, det, nil)
						continue
					}
					e.Pass(desc, true, "formats:"+variant+":"+filepath.Ext(smp.Name)+":"+outcome)
				}
			}
		}
	}
}

// partD: two extractors derived from the same configured base are independent of each other and of the base.
func partD(e *harness.Env, path string) {
	var bases [][]int
	bases = append(bases, nil)
	for a := 1; a <= nPages; a++ {
		bases = append(bases, []int{a})
		for b := 1; b <= nPages; b++ {
			bases = append(bases, []int{a, b})
			for c := 1; c <= nPages; c++ {
				bases = append(bases, []int{a, b, c})
			}
		}
	}
	for _, bsel := range bases {
		for _, spell := range []string{"one-call", "chained"} {
			if spell == "chained" && len(bsel) < 2 {
				continue
			}
			for x := 1; x <= nPages; x++ {
				for y := 1; y <= nPages; y++ {
					desc := harness.D("part", "D", "base", strings.ReplaceAll(fmt.Sprint(bsel), " ", ","), "spell", spell, "d1", x, "d2", y)
					if !e.Own(desc) {
						continue
					}
					e.Begin(desc)
					var sig, det string
					psig, pdet := harness.Guard(func() {
						base := tabula.Open(path)
						if spell == "one-call" {
							if len(bsel) > 0 {
								base = base.Pages(bsel...)
							}
						} else {
							for _, p := range bsel {
								base = base.Pages(p)
							}
						}
						d1 := base.Pages(x)
						d2 := base.Pages(y)
						exp := func(extra ...int) []int {
							pg, _, _ := expected([]selCall{{"pages", append(append([]int{}, bsel...), extra...)}})
							return pg
						}
						if sg, dt := checkTerminal(d1, "Text", exp(x), false, true); sg != "" {
							sig, det = "sibling-derivation-interferes:"+sg, "d1 (derived before d2): "+dt
							return
						}
						if sg, dt := checkTerminal(d2, "Text", exp(y), false, true); sg != "" {
							sig, det = "sibling-derivation-interferes:"+sg, "d2: "+dt
							return
						}
						if sg, dt := checkTerminal(base, "Fragments", exp(), false, true); sg != "" {
							sig, det = "base-changed-by-derived:"+sg, "base after deriving twice: "+dt
							return
						}
					})
					if psig != "" {
						sig, det = psig, pdet
					}
					if sig != "" {
						e.Fail(desc, sig, det, nil)
						continue
					}
					e.Pass(desc, true, fmt.Sprintf("siblings:base=%d", len(bsel)))
				}
			}
		}
	}
}

// ---------------------------------------------------------------------------------------------

func seqs(maxLen int) [][]int {
	var out [][]int
	var rec func(cur []int)
	rec = func(cur []int) {
		if len(cur) > 0 {
			out = append(out, append([]int{}, cur...))
		}
		if len(cur) == maxLen {
			return
		}
		for v := 0; v <= 5; v++ {
			rec(append(cur, v))
		}
	}
	rec(nil)
	return out
}

func ranges() []selCall {
	var out []selCall
	for a := 0; a <= 5; a++ {
		for b := 0; b <= 5; b++ {
			out = append(out, selCall{"range", []int{a, b}})
		}
	}
	return out
}

func partA(e *harness.Env, path string) {
	type sel struct {
		calls    []selCall
		fullOpts bool
	}
	var sels []sel
	sels = append(sels, sel{nil, true})
	sels = append(sels, sel{[]selCall{{"pages", nil}}, true}) // Pages() without arguments
	for _, s := range seqs(3) {
		sels = append(sels, sel{[]selCall{{"pages", s}}, len(s) <= 1})
	}
	for _, r := range ranges() {
		sels = append(sels, sel{[]selCall{r}, true})
	}
	var firsts, seconds []selCall
	for _, s := range seqs(2) {
		firsts = append(firsts, selCall{"pages", s})
	}
	firsts = append(firsts, ranges()...)
	for _, s := range seqs(1) {
		seconds = append(seconds, selCall{"pages", s})
	}
	seconds = append(seconds, ranges()...)
	for _, a := range firsts {
		for _, b := range seconds {
			sels = append(sels, sel{[]selCall{a, b}, false})
		}
	}
	terminals := []string{"Text", "Fragments", "Document", "Chunks"}
	for _, s := range sels {
		var names []string
		for _, c := range s.calls {
			names = append(names, c.String())
		}
		selName := strings.Join(names, ".")
		if selName == "" {
			selName = "none"
		}
		nOpts := 1
		if s.fullOpts {
			nOpts = 32
		}
		for o := 0; o < nOpts; o++ {
			for _, term := range terminals {
				for _, order := range []string{"sel-first", "opts-first"} {
					if o == 0 && order == "opts-first" {
						continue
					}
					desc := harness.D("part", "A", "sel", selName, "opts", optSet(o), "order", order, "op", term)
					if docTag != "" {
						desc += " doc=" + docTag
					}
					if !e.Own(desc) {
						continue
					}
					e.Begin(desc)
					ext := tabula.Open(path)
					if order == "opts-first" {
						ext = optSet(o).apply(ext, true)
					}
					for _, c := range s.calls {
						ext = c.apply(ext)
					}
					if order == "sel-first" {
						ext = optSet(o).apply(ext, false)
					}
					pages, oor, all := expected(s.calls)
					var sig, det string
					psig, pdet := harness.Guard(func() { sig, det = checkTerminal(ext, term, pages, oor, true) })
					if psig != "" {
						sig, det = psig, pdet
					}
					if sig == "" {
						if n := fdCount(path); n != 0 {
							sig, det = "handle-left-open-after-terminal", fmt.Sprintf("%d descriptors of the file still open after %s", n, term)
						}
					}
					ext.Close()
					if sig != "" {
						e.Fail(desc, sig, det, nil)
						continue
					}
					out := fmt.Sprintf("%s:pages=%d", term, len(pages))
					if oor {
						out = term + ":out-of-range-error"
					} else if all {
						out = term + ":all"
					}
					e.Pass(desc, len(s.calls) > 0 || o != 0, out)
				}
			}
		}
	}
}

// checkTerminal runs one terminal operation and compares with the expected page set.
func checkTerminal(ext *tabula.Extractor, term string, pages []int, oor bool, strict bool) (sig, detail string) {
	var want []string
	if !oor {
		want = tokensOf(pages)
	}
	inSel := map[int]bool{}
	for _, p := range pages {
		inSel[p] = true
	}
	pageOfToken := func(tok string) int {
		if len(tok) > 2 && tok[0] == 'p' && tok[1] == 'g' {
			return int(tok[2] - '0')
		}
		if len(tok) > 2 {
			// alphaPL, bravoPL ... : the page digit is the one before the last
			c := tok[len(tok)-2]
			if c >= '1' && c <= '9' {
				return int(c - '0')
			}
		}
		return 0
	}
	switch term {
	case "Text":
		txt, _, err := ext.Text()
		if oor {
			if err == nil {
				return "out-of-range-accepted", fmt.Sprintf("Text() succeeded: %q", clip(txt))
			}
			return "", ""
		}
		if err != nil {
			return "terminal-error", "Text(): " + err.Error()
		}
		got := strings.Fields(txt)
		if strings.Join(got, " ") != strings.Join(want, " ") {
			return "text-not-selected-pages", fmt.Sprintf("pages %v\nwant %q\ngot  %q", pages, clip(strings.Join(want, " ")), clip(strings.Join(got, " ")))
		}
	case "Fragments":
		frs, _, err := ext.Fragments()
		if oor {
			if err == nil {
				return "out-of-range-accepted", "Fragments() succeeded"
			}
			return "", ""
		}
		if err != nil {
			return "terminal-error", "Fragments(): " + err.Error()
		}
		var got []string
		for _, f := range frs {
			got = append(got, strings.Fields(f.Text)...)
		}
		if strings.Join(got, " ") != strings.Join(want, " ") {
			return "fragments-not-selected-pages", fmt.Sprintf("pages %v\nwant %q\ngot  %q", pages, clip(strings.Join(want, " ")), clip(strings.Join(got, " ")))
		}
	case "Document":
		doc, _, err := ext.Document()
		if err == nil && !oor && docBaselinePath != "" {
			for i, pg := range doc.Pages {
				if i < len(pages) {
					if got, want := renderPage(pg), pageStructure(pages[i]); got != want {
						return "document-page-depends-on-selection", fmt.Sprintf("selection %v: the entry of source page %d differs from Pages(%d).Document():\nin selection: %s\nalone:        %s", pages, pages[i], pages[i], clip(got), clip(want))
					}
				}
			}
		}
		if oor {
			if err == nil {
				return "out-of-range-accepted", "Document() succeeded"
			}
			return "", ""
		}
		if err != nil {
			return "terminal-error", "Document(): " + err.Error()
		}
		if len(doc.Pages) != len(pages) {
			return "document-page-count", fmt.Sprintf("Document() has %d pages, selection %v", len(doc.Pages), pages)
		}
		for _, t := range doc.TableOfContents() {
			if !inSel[t.Page] {
				return "toc-page-not-in-selection", fmt.Sprintf("Document().TableOfContents() lists %q on page %d, selection %v", t.Text, t.Page, pages)
			}
			for _, tok := range strings.Fields(t.Text) {
				if p := pageOfToken(tok); p != 0 && p != t.Page {
					return "toc-page-wrong", fmt.Sprintf("Document().TableOfContents() lists %q on page %d; it stands on page %d (selection %v)", t.Text, t.Page, p, pages)
				}
			}
		}
		for i, pg := range doc.Pages {
			if pg.Number != pages[i] {
				return "document-page-number", fmt.Sprintf("Document().Pages[%d].Number=%d, true source page %d (selection %v)", i, pg.Number, pages[i], pages)
			}
			for _, el := range pg.Elements {
				for _, tok := range strings.Fields(fmt.Sprint(elText(el))) {
					if p := pageOfToken(tok); p != 0 && p != pages[i] {
						return "document-foreign-text", fmt.Sprintf("page entry %d (source page %d) contains token %q of page %d", i, pages[i], tok, p)
					}
				}
			}
		}
	case "Chunks":
		col, _, err := ext.Chunks()
		if oor {
			if err == nil {
				return "out-of-range-accepted", "Chunks() succeeded"
			}
			return "", ""
		}
		if err != nil {
			return "terminal-error", "Chunks(): " + err.Error()
		}
		for ci, ch := range col.Chunks {
			ps, pe := ch.Metadata.PageStart, ch.Metadata.PageEnd
			if ps > pe || !inSel[ps] || !inSel[pe] {
				return "chunk-page-range-not-in-selection", fmt.Sprintf("chunk %d reports pages %d-%d, selection %v", ci, ps, pe, pages)
			}
			for _, tok := range strings.Fields(ch.Text) {
				if p := pageOfToken(tok); p != 0 && (p < ps || p > pe) {
					return "chunk-page-metadata-wrong", fmt.Sprintf("chunk %d reports pages %d-%d but holds token %q of page %d (selection %v)", ci, ps, pe, tok, p, pages)
				}
			}
		}
		if len(pages) > 0 && len(col.Chunks) == 0 {
			return "chunks-empty", fmt.Sprintf("no chunks for selection %v", pages)
		}
	}
	return "", ""
}

// per-page structure baseline: Pages(p).Document() rendered as element kinds + texts
var docTag string // non-empty while part A runs on a variant of the document

var (
	docBaselinePath string
	docBaseline     = map[int]string{}
)

func renderPage(pg *model.Page) string {
	var b strings.Builder
	for _, el := range pg.Elements {
		fmt.Fprintf(&b, "[%v:%s]", el.Type(), elText(el))
	}
	return b.String()
}

func pageStructure(p int) string {
	if s, ok := docBaseline[p]; ok {
		return s
	}
	doc, _, err := tabula.Open(docBaselinePath).Pages(p).Document()
	s := "error"
	if err == nil && len(doc.Pages) == 1 {
		s = renderPage(doc.Pages[0])
	}
	docBaseline[p] = s
	return s
}

func elText(el interface{}) string {
	type texter interface{ GetText() string }
	if t, ok := el.(texter); ok {
		return t.GetText()
	}
	return fmt.Sprintf("%+v", el)
}

func clip(s string) string {
	if len(s) > 300 {
		return s[:300] + "…"
	}
	return s
}

// ---------------------------------------------------------------------------------------------

type slot struct {
	ext    *tabula.Extractor
	kind   string // base | pages2 | bycol | xh
	holds  bool   // model: performed a non-terminal opening operation since its last terminal/Close
	closed int
}

type bop struct {
	name   string
	target int // 0 base, 1 derived
}

func (b bop) String() string { return fmt.Sprintf("%s@%d", b.name, b.target) }

func partB(e *harness.Env, path string) {
	depth := 4
	if e.Thorough() {
		depth = 5
	}
	var ops []bop
	for _, n := range []string{"derivePages2", "deriveByColumn", "deriveExcludeHeaders"} {
		ops = append(ops, bop{n, 0})
	}
	for t := 0; t < 2; t++ {
		for _, n := range []string{"PageCount", "IsMultiColumn", "Text", "Chunks", "Close"} {
			ops = append(ops, bop{n, t})
		}
	}
	states := map[string]bool{}
	var walk func(prefix []bop)
	walk = func(prefix []bop) {
		if len(prefix) > 0 {
			var names []string
			for _, o := range prefix {
				names = append(names, o.String())
			}
			desc := harness.D("part", "B", "seq", strings.Join(names, ","))
			if e.Own(desc) {
				e.Begin(desc)
				var sig, det, key string
				psig, pdet := harness.Guard(func() { sig, det, key = runSeq(path, prefix) })
				if psig != "" {
					sig, det = psig, pdet
				}
				e.Add("transitions", int64(len(prefix)))
				e.Add("traces_validated_against_impl", 1)
				if !states[key] {
					states[key] = true
					e.Add("states", 1)
				}
				if sig != "" {
					e.Fail(desc, sig, det, nil)
				} else {
					e.Pass(desc, true, "seq-len="+fmt.Sprint(len(prefix))+":"+key)
				}
			}
		}
		if len(prefix) == depth {
			return
		}
		hasDerived := false
		for _, o := range prefix {
			if strings.HasPrefix(o.name, "derive") {
				hasDerived = true
			}
		}
		for _, o := range ops {
			if o.target == 1 && !hasDerived {
				continue
			}
			walk(append(append([]bop{}, prefix...), o))
		}
	}
	walk(nil)
}

// runSeq executes one operation sequence on a fresh base, checking after every step.
func runSeq(path string, seq []bop) (sig, detail, key string) {
	slots := []*slot{{ext: tabula.Open(path), kind: "base"}, nil}
	defer func() {
		for _, s := range slots {
			if s != nil {
				s.ext.Close()
			}
		}
	}()
	for i, o := range seq {
		step := fmt.Sprintf("step %d %s", i+1, o)
		var s *slot
		if strings.HasPrefix(o.name, "derive") {
			b := slots[0]
			var d *tabula.Extractor
			kind := ""
			switch o.name {
			case "derivePages2":
				d, kind = b.ext.Pages(2), "pages2"
			case "deriveByColumn":
				d, kind = b.ext.ByColumn(), "bycol"
			case "deriveExcludeHeaders":
				d, kind = b.ext.ExcludeHeaders(), "xh"
			}
			if slots[1] != nil {
				slots[1].ext.Close() // the replaced derived extractor is released first
			}
			slots[1] = &slot{ext: d, kind: kind}
		} else {
			s = slots[o.target]
			pages := []int{1, 2, 3, 4}
			if s.kind == "pages2" {
				pages = []int{2}
			}
			switch o.name {
			case "PageCount":
				n, err := s.ext.PageCount()
				if err != nil || n != nPages {
					return "pagecount-wrong-after-history", fmt.Sprintf("%s: PageCount()=%d err=%v", step, n, err), ""
				}
				s.holds = true
			case "IsMultiColumn":
				if _, err := s.ext.IsMultiColumn(); err != nil {
					return "ismulticolumn-error-after-history", fmt.Sprintf("%s: %v", step, err), ""
				}
				s.holds = true
			case "Text", "Chunks":
				if sg, dt := checkTerminal(s.ext, o.name, pages, false, true); sg != "" {
					return sg + "-after-history", step + ": " + dt, ""
				}
				s.holds = false
			case "Close":
				s.ext.Close() // must not panic; the error value of a repeated Close is not judged
				s.holds = false
				s.closed++
			}
		}
		// descriptor accounting: never more descriptors than extractors that legitimately hold one
		allowed := 0
		for _, x := range slots {
			if x != nil && x.holds {
				allowed++
			}
		}
		if n := fdCount(path); n > allowed {
			return "handle-leak", fmt.Sprintf("%s: %d descriptors open, at most %d extractor(s) may hold one", step, n, allowed), ""
		}
	}
	// final: the base must still behave like a fresh base, then everything closes to zero descriptors
	if sg, dt := checkTerminal(slots[0].ext, "Text", []int{1, 2, 3, 4}, false, true); sg != "" {
		return "base-changed-by-derived:" + sg, "after the sequence, base.Text(): " + dt, ""
	}
	var ks []string
	for _, x := range slots {
		if x == nil {
			ks = append(ks, "-")
			continue
		}
		ks = append(ks, fmt.Sprintf("%s/holds=%v/closed=%d", x.kind, x.holds, min(x.closed, 2)))
	}
	for _, x := range slots {
		if x != nil {
			x.ext.Close()
			x.ext.Close()
		}
	}
	if n := fdCount(path); n != 0 {
		return "handle-left-open-after-close", fmt.Sprintf("%d descriptors open after closing every extractor twice", n), ""
	}
	return "", "", strings.Join(ks, "|")
}

// ---------------------------------------------------------------------------------------------

func partC(e *harness.Env, dir, good string, goodBytes []byte) {
	// a damaged file: page 2's content stream is cut inside a string
	dmg := append([]byte{}, goodBytes...)
	if i := strings.Index(string(dmg), "pg2ln1"); i > 0 {
		copy(dmg[i-1:], []byte("\\((((((")) // unbalanced parentheses inside the content stream
	}
	bad := filepath.Join(dir, "damaged.pdf")
	os.WriteFile(bad, dmg, 0o644)
	trunc := filepath.Join(dir, "truncated.pdf")
	os.WriteFile(trunc, goodBytes[:len(goodBytes)/2], 0o644)
	missing := filepath.Join(dir, "missing.pdf")
	type fc struct{ name, path string }
	for _, f := range []fc{{"damaged", bad}, {"truncated", trunc}, {"missing", missing}, {"good-out-of-range", good}} {
		for _, term := range []string{"Text", "Fragments", "Document", "Chunks", "ToMarkdown", "Lines", "Paragraphs", "PageCount+Close"} {
			desc := harness.D("part", "C", "file", f.name, "op", term)
			if !e.Own(desc) {
				continue
			}
			e.Begin(desc)
			var outcome string
			sig, det := harness.Guard(func() {
				ext := tabula.Open(f.path)
				if f.name == "good-out-of-range" {
					ext = ext.Pages(2, 9)
				}
				var err error
				switch term {
				case "Text":
					_, _, err = ext.Text()
				case "Fragments":
					_, _, err = ext.Fragments()
				case "Document":
					_, _, err = ext.Document()
				case "Chunks":
					_, _, err = ext.Chunks()
				case "ToMarkdown":
					_, _, err = ext.ToMarkdown()
				case "Lines":
					_, err = ext.Lines()
				case "Paragraphs":
					_, err = ext.Paragraphs()
				case "PageCount+Close":
					_, err = ext.PageCount()
					ext.Close()
					ext.Close()
				}
				outcome = "ok"
				if err != nil {
					outcome = "error"
				}
			})
			if sig == "" {
				if n := fdCount(f.path); n != 0 {
					sig, det = "handle-left-open-after-failed-terminal", fmt.Sprintf("%d descriptors of %s still open after %s (%s)", n, f.name, term, outcome)
				}
			}
			if sig != "" {
				e.Fail(desc, sig, det, nil)
				continue
			}
			e.Pass(desc, true, "failing:"+f.name+":"+outcome)
		}
	}
}
