package main

// Inventory order: every format of the admission space carries XML inventories that the detector
// and the readers consult — ODF META-INF/manifest.xml, OOXML [Content_Types].xml and _rels/.rels,
// EPUB META-INF/container.xml and the OPF manifest. Sibling order and attribute order carry no
// meaning in them (exception: the FIRST rootfile of container.xml is the default rendition, so
// rootfiles are not reordered, only their attributes). The "inventory" packaging rewrites the
// inventories of a valid package without changing what they say:
//
//	inv    the deciding entry (ODF "/" file-entry; Override of the main part; officeDocument
//	       Relationship; manifest item of the first chapter) asis / first / middle / last
//	attrs  attribute order of every inventory element asis / reversed
//
// and the verdicts must not move. It is applied where the inventory is what decides: the
// mimetype-less ODT (manifest), OOXML packages with foreign marker members (_rels/.rels), and —
// in the DRM space — the spine lookup through the OPF manifest.

import (
	"fmt"
	"regexp"
	"strings"

	"verif/internal/gen/pptxw"
	"verif/internal/gen/zipw"
	"verif/internal/harness"
)

type inventory struct {
	member   string
	elem     *regexp.Regexp // one self-closing inventory element
	deciding func(el string) bool
	fixed    bool // sibling order is meaningful: attributes only
}

var attrRe = regexp.MustCompile(`([\w:.\-]+)="([^"]*)"`)
var elemNameRe = regexp.MustCompile(`^<([\w:.\-]+)`)

func reverseAttrs(el string) string {
	name := elemNameRe.FindStringSubmatch(el)
	attrs := attrRe.FindAllString(el, -1)
	if name == nil || len(attrs) == 0 {
		panic("c20: inventory element without attributes: " + el)
	}
	var b strings.Builder
	b.WriteString("<" + name[1])
	for i := len(attrs) - 1; i >= 0; i-- {
		b.WriteString(" " + attrs[i])
	}
	b.WriteString("/>")
	return b.String()
}

// rewriteInventory moves the deciding element and/or reverses the attribute order of every element.
func rewriteInventory(xmlStr string, inv inventory, pos string, swap bool) string {
	locs := inv.elem.FindAllStringIndex(xmlStr, -1)
	if len(locs) == 0 {
		panic("c20: no inventory elements in " + inv.member)
	}
	var els []string
	for i, l := range locs {
		if i > 0 && strings.TrimSpace(xmlStr[locs[i-1][1]:l[0]]) != "" {
			panic("c20: inventory elements of " + inv.member + " are not adjacent siblings")
		}
		els = append(els, xmlStr[l[0]:l[1]])
	}
	if pos == "reversed" && !inv.fixed {
		for i, j := 0, len(els)-1; i < j; i, j = i+1, j-1 {
			els[i], els[j] = els[j], els[i]
		}
	} else if pos != "asis" && !inv.fixed {
		k := -1
		for i, el := range els {
			if inv.deciding(el) {
				if k >= 0 {
					panic("c20: two deciding entries in " + inv.member)
				}
				k = i
			}
		}
		if k < 0 || len(els) < 3 {
			panic(fmt.Sprintf("c20: %s: deciding entry %d of %d entries", inv.member, k, len(els)))
		}
		d := els[k]
		rest := append(append([]string{}, els[:k]...), els[k+1:]...)
		at := map[string]int{"first": 0, "middle": len(rest) / 2, "last": len(rest)}[pos]
		els = append(append(append([]string{}, rest[:at]...), d), rest[at:]...)
	}
	if swap {
		for i := range els {
			els[i] = reverseAttrs(els[i])
		}
	}
	return xmlStr[:locs[0][0]] + strings.Join(els, "") + xmlStr[locs[len(locs)-1][1]:]
}

func has(sub string) func(string) bool {
	return func(el string) bool { return strings.Contains(el, sub) }
}

func inventoriesOf(d *doc) []inventory {
	switch d.kind {
	case "odt":
		return []inventory{{member: "META-INF/manifest.xml", elem: regexp.MustCompile(`<manifest:file-entry\s[^>]*/>`), deciding: has(`manifest:full-path="/"`)}}
	case "docx", "xlsx", "pptx":
		main := map[string]string{"docx": "word/document.xml", "xlsx": "xl/workbook.xml", "pptx": "ppt/presentation.xml"}[d.kind]
		return []inventory{
			{member: "[Content_Types].xml", elem: regexp.MustCompile(`<(?:Default|Override)\s[^>]*/>`), deciding: has(`PartName="/` + main + `"`)},
			{member: "_rels/.rels", elem: regexp.MustCompile(`<Relationship\s[^>]*/>`), deciding: has(`/officeDocument"`)},
		}
	case "epub":
		return []inventory{
			{member: "META-INF/container.xml", elem: regexp.MustCompile(`<rootfile\s[^>]*/>`), fixed: true},
			{member: "OEBPS/content.opf", elem: regexp.MustCompile(`<item\s[^>]*/>`), deciding: has(`id="c1"`)},
		}
	}
	return nil
}

func withInventory(d *doc, ms []zipw.Member, pos string, swap bool) []zipw.Member {
	out := append([]zipw.Member(nil), ms...)
	for _, inv := range inventoriesOf(d) {
		k := idx(out, inv.member)[0]
		out[k].Data = []byte(rewriteInventory(string(out[k].Data), inv, pos, swap))
	}
	return out
}

// addPart adds a part to an OPC package: member, content-type Override, package relationship.
func addPart(ms []zipw.Member, name, data, ctype, relType, relID string) []zipw.Member {
	out := append([]zipw.Member(nil), ms...)
	ct, rl := idx(out, "[Content_Types].xml")[0], idx(out, "_rels/.rels")[0]
	s := string(out[ct].Data)
	out[ct].Data = []byte(strings.Replace(s, "</Types>", `<Override PartName="/`+name+`" ContentType="`+ctype+`"/></Types>`, 1))
	s = string(out[rl].Data)
	if !strings.Contains(s, "</Relationships>") {
		panic("c20: _rels/.rels without end tag")
	}
	out[rl].Data = []byte(strings.Replace(s, "</Relationships>", `<Relationship Id="`+relID+`" Type="`+relType+`" Target="`+name+`"/></Relationships>`, 1))
	return append(out, zipw.M(name, data))
}

const (
	coreXML   = `<?xml version="1.0" encoding="UTF-8" standalone="yes"?>` + "\n" + `<cp:coreProperties xmlns:cp="http://schemas.openxmlformats.org/package/2006/metadata/core-properties" xmlns:dc="http://purl.org/dc/elements/1.1/"><dc:title>Sample</dc:title></cp:coreProperties>`
	appXML    = `<?xml version="1.0" encoding="UTF-8" standalone="yes"?>` + "\n" + `<Properties xmlns="http://schemas.openxmlformats.org/officeDocument/2006/extended-properties"><Application>verif</Application></Properties>`
	coreCT    = "application/vnd.openxmlformats-package.core-properties+xml"
	appCT     = "application/vnd.openxmlformats-officedocument.extended-properties+xml"
	coreRelT  = "http://schemas.openxmlformats.org/package/2006/relationships/metadata/core-properties"
	appRelT   = "http://schemas.openxmlformats.org/officeDocument/2006/relationships/extended-properties"
	propsNote = "props"
)

// inventoryDocs: packages whose inventories have at least three entries each (OOXML packages get
// docProps/core.xml and docProps/app.xml, i.e. three package relationships, like every file Office writes).
func inventoryDocs() []*doc {
	withProps := func(d *doc) *doc {
		c := *d
		c.members = addPart(addPart(d.members, "docProps/core.xml", coreXML, coreCT, coreRelT, "rIdCore"), "docProps/app.xml", appXML, appCT, appRelT, "rIdApp")
		c.variant = propsNote
		return &c
	}
	dk := pptxw.Deck{Title: "Pptx Sample", Slides: []pptxw.Slide{
		{Title: "Slide One", Paras: []pptxw.Para{{Text: "pptx first slide body"}, {Text: "pptx bullet a", Level: 0, Bullet: "char"}}},
	}}
	pp := pptxDoc()
	pp.members, pp.variant = dk.Members(), propsNote
	pp.core = idx(pp.members, "[Content_Types].xml", "_rels/.rels", "ppt/presentation.xml", "ppt/_rels/presentation.xml.rels", "ppt/slides/slide1.xml")
	return []*doc{withProps(docxDoc()), withProps(xlsxDoc()), pp, odtDoc(), odtNoMimetypeDoc(), epubDoc(3), epubDoc(2)}
}

func inventorySpace(e *harness.Env) {
	dcs := decoys()
	for _, d := range inventoryDocs() {
		base := "space=admit fmt=" + d.kind + " host=" + d.host() + " var=" + d.variant + " pack=inventory"
		for _, pos := range []string{"asis", "first", "middle", "last"} {
			for _, swap := range []bool{false, true} {
				ms := withInventory(d, d.members, pos, swap)
				attrs := "asis"
				if swap {
					attrs = "reversed"
				}
				tok := base + " inv=" + pos + " attrs=" + attrs
				{
					var z []byte
					get := func() []byte {
						if z == nil {
							z = zipw.Zip(ms)
						}
						return z
					}
					pre := tok + " decoy=none"
					detectCases(e, d, pre, get)
					for _, n := range shortNames(d) {
						openCase(e, d, pre, n, "text", get)
					}
				}
				for _, dc := range dcs {
					if !dc.hosts(d) {
						continue
					}
					first := dc.minPos
					if d.mimeFirst && first < 1 {
						first = 1
					}
					for p := first; p <= len(ms); p++ {
						// quick: decoy as early and as late as it may be; thorough: every position
						if !e.Thorough() && p != first && p != len(ms) {
							continue
						}
						dms := withDecoy(d, ms, dc, p)
						var z []byte
						get := func() []byte {
							if z == nil {
								z = zipw.Zip(dms)
							}
							return z
						}
						pre := tok + " decoy=" + dc.token + fmt.Sprintf(" pos=%d", p)
						detectCases(e, d, pre, get)
						for _, n := range shortNames(d) {
							openCase(e, d, pre, n, "text", get)
						}
					}
				}
			}
		}
	}
}
