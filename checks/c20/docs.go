package main

// The valid documents of the admission space: one logical document per format, built with the
// independent writers of verif/internal/gen, as a member list (ZIP formats) or as flat bytes
// (PDF, HTML). Every document carries marker phrases that a correct parse of ITS format returns.

import (
	"strings"

	"github.com/tsawler/tabula/format"

	"verif/internal/gen/docxw"
	"verif/internal/gen/epubw"
	"verif/internal/gen/odtw"
	"verif/internal/gen/pdfw"
	"verif/internal/gen/pptxw"
	"verif/internal/gen/xlsxw"
	"verif/internal/gen/zipw"
)

type doc struct {
	kind    string        // pdf docx odt xlsx pptx epub html
	variant string        // own descriptor token
	truth   format.Format // the format the bytes are
	markers []string      // phrases Text()/ToMarkdown() of a correct parse contain
	raw     []byte        // flat formats
	// ZIP formats
	members   []zipw.Member
	mimeFirst bool  // members[0] is the mimetype member and has to stay first (ODF 1.2 part 3 s3.3, OCF s4.3)
	core      []int // indices (into members) of the <=5 core members that are permuted
	opc       bool  // has [Content_Types].xml (extra parts get an Override)
	odf       bool  // has META-INF/manifest.xml (extra files get a file-entry)
}

func (d *doc) zip() bool { return d.members != nil }

// host names the container family (descriptor token): opc (DOCX, XLSX, PPTX), odf, ocf (EPUB), flat.
func (d *doc) host() string {
	switch {
	case d.opc:
		return "opc"
	case d.odf:
		return "odf"
	case d.zip():
		return "ocf"
	}
	return "flat"
}

func idx(ms []zipw.Member, names ...string) []int {
	var out []int
	for _, n := range names {
		found := -1
		for i, m := range ms {
			if m.Name == n {
				found = i
			}
		}
		if found < 0 {
			panic("c20: writer did not produce member " + n)
		}
		out = append(out, found)
	}
	return out
}

func member(ms []zipw.Member, name string) zipw.Member {
	return ms[idx(ms, name)[0]]
}

func docxDoc() *doc {
	d := docxw.Doc{Body: []docxw.Block{
		docxw.Para{Style: "Heading1", Content: []docxw.Inline{docxw.R(docxw.T("Docx Title"))}},
		docxw.P("docx paragraph one with several words"),
		docxw.Table{Cols: 2, Rows: []docxw.Row{{Cells: []docxw.Cell{docxw.C("dh1"), docxw.C("dh2")}}, {Cells: []docxw.Cell{docxw.C("dc1"), docxw.C("dc2")}}}},
		docxw.P("docx closing paragraph"),
	}}
	ms := docxw.Members(d, docxw.Opts{Styles: docxw.DefaultStyles()})
	return &doc{kind: "docx", variant: "base", truth: format.DOCX, markers: []string{"docx paragraph one with several words", "docx closing paragraph"},
		members: ms, opc: true,
		core: idx(ms, "[Content_Types].xml", "_rels/.rels", "word/document.xml", "word/_rels/document.xml.rels", "word/styles.xml")}
}

func odtMembers() []zipw.Member {
	d := odtw.Doc{Body: []odtw.Block{
		odtw.Heading{Style: "Heading_20_1", Level: 1, Content: []odtw.Inline{odtw.Text("Odt Title")}},
		odtw.P("odt paragraph one with several words"),
		odtw.Table{Cols: 2, Rows: []odtw.Row{{Cells: []odtw.Cell{odtw.C("oh1"), odtw.C("oh2")}}, {Cells: []odtw.Cell{odtw.C("oc1"), odtw.C("oc2")}}}},
		odtw.P("odt closing paragraph"),
	}}
	return odtw.Members(d, odtw.Opts{Styles: odtw.DefaultStyles(), ListStyles: odtw.DefaultListStyles(), Title: "Odt Sample"})
}

func odtDoc() *doc {
	ms := odtMembers()
	if ms[0].Name != "mimetype" {
		panic("c20: odtw: mimetype is not the first member")
	}
	return &doc{kind: "odt", variant: "base", truth: format.ODT, markers: []string{"odt paragraph one with several words", "odt closing paragraph"},
		members: ms, mimeFirst: true, odf: true,
		core: idx(ms, "META-INF/manifest.xml", "content.xml", "styles.xml", "meta.xml")}
}

// odtNoMimetypeDoc: ODF 1.2 part 3 s3.3 only RECOMMENDS the mimetype file ("should contain"); a
// package without it is conforming, and then nothing constrains the member order.
func odtNoMimetypeDoc() *doc {
	ms := odtMembers()[1:]
	return &doc{kind: "odt", variant: "no-mimetype", truth: format.ODT, markers: []string{"odt paragraph one with several words", "odt closing paragraph"},
		members: ms, odf: true,
		core: idx(ms, "META-INF/manifest.xml", "content.xml", "styles.xml", "meta.xml")}
}

func xlsxDoc() *doc {
	wb := xlsxw.Workbook{Deflate: true, Sheets: []xlsxw.Sheet{
		{Name: "First", Cells: []xlsxw.Cell{{Ref: "A1", Kind: xlsxw.Shared, Value: "xlsxname"}, {Ref: "B1", Kind: xlsxw.Shared, Value: "xlsxqty"},
			{Ref: "A2", Kind: xlsxw.Inline, Value: "xlsxapple"}, {Ref: "B2", Kind: xlsxw.Number, Value: "3"}}},
	}}
	ms := wb.Members()
	return &doc{kind: "xlsx", variant: "base", truth: format.XLSX, markers: []string{"xlsxname", "xlsxapple"},
		members: ms, opc: true,
		core: idx(ms, "[Content_Types].xml", "_rels/.rels", "xl/workbook.xml", "xl/_rels/workbook.xml.rels", "xl/worksheets/sheet1.xml")}
}

func pptxDoc() *doc {
	dk := pptxw.Deck{Title: "Pptx Sample", OmitDocProps: true, Slides: []pptxw.Slide{
		{Title: "Slide One", Paras: []pptxw.Para{{Text: "pptx first slide body"}, {Text: "pptx bullet a", Level: 0, Bullet: "char"}}},
	}}
	ms := dk.Members()
	return &doc{kind: "pptx", variant: "base", truth: format.PPTX, markers: []string{"pptx first slide body", "pptx bullet a"},
		members: ms, opc: true,
		core: idx(ms, "[Content_Types].xml", "_rels/.rels", "ppt/presentation.xml", "ppt/_rels/presentation.xml.rels", "ppt/slides/slide1.xml")}
}

func epubDoc(version int) *doc {
	b := epubw.Book{Version: version, Title: "Epub Sample", Author: "Verif", Language: "en", Identifier: "urn:uuid:verif-sample",
		Chapters: []epubw.Chapter{
			{ID: "c1", Title: "Chapter One", Body: "<p>epub first chapter paragraph</p>"},
			{ID: "c2", Title: "Chapter Two", Body: "<p>epub second chapter paragraph</p>"},
		}}
	ms := b.Members()
	if ms[0].Name != "mimetype" {
		panic("c20: epubw: mimetype is not the first member")
	}
	nav := "OEBPS/nav.xhtml"
	v := "v3"
	if version == 2 {
		nav = "OEBPS/toc.ncx"
		v = "v2"
	}
	return &doc{kind: "epub", variant: v, truth: format.EPUB, markers: []string{"epub first chapter paragraph", "epub second chapter paragraph"},
		members: ms, mimeFirst: true,
		core: idx(ms, "META-INF/container.xml", "OEBPS/content.opf", nav, "OEBPS/ch1.xhtml", "OEBPS/ch2.xhtml")}
}

func pdfDocs() []*doc {
	l := func(x, y, size float64, s string) pdfw.Line {
		return pdfw.Line{Font: pdfw.Type1WinAnsi, Text: s, X: x, Y: y, Size: size}
	}
	d := pdfw.Doc{Name: "a", Pages: []pdfw.Page{{Lines: []pdfw.Line{
		l(72, 720, 18, "Pdf Heading One"),
		l(72, 690, 12, "pdf paragraph one with several words"),
		l(72, 676, 12, "pdf closing paragraph"),
	}}}}
	mk := []string{"pdf paragraph one with several words", "pdf closing paragraph"}
	return []*doc{
		{kind: "pdf", variant: "classic", truth: format.PDF, markers: mk, raw: pdfw.Write(d, pdfw.Layout{}).Bytes},
		{kind: "pdf", variant: "xrefstream", truth: format.PDF, markers: mk, raw: pdfw.Write(d, pdfw.Layout{XRef: "stream", ObjStm: "all", Filter: "Fl"}).Bytes},
	}
}

const htmlBody = `<html><head><title>Html Sample</title></head>
<body><h1>Html Title</h1><p>html paragraph one with several words</p>
<table><tr><th>hh1</th><th>hh2</th></tr><tr><td>hc1</td><td>hc2</td></tr></table>
<p>html closing paragraph</p></body></html>
`

// htmlDocs: spellings of the start of a valid HTML / XHTML document. The token "lead" names what
// precedes the root element.
func htmlDocs() []*doc {
	mk := []string{"html paragraph one with several words", "html closing paragraph"}
	xhtmlBody := strings.Replace(htmlBody, "<html>", `<html xmlns="http://www.w3.org/1999/xhtml">`, 1)
	v := []struct{ name, data string }{
		{"doctype", "<!DOCTYPE html>\n" + htmlBody},
		{"doctype-lower", "<!doctype html>\n" + htmlBody},
		{"html4-doctype", `<!DOCTYPE HTML PUBLIC "-//W3C//DTD HTML 4.01//EN" "http://www.w3.org/TR/html4/strict.dtd">` + "\n" + htmlBody},
		{"leading-newlines", "\r\n\n  \t<!DOCTYPE html>\n" + htmlBody},
		{"xhtml-xmldecl", `<?xml version="1.0" encoding="UTF-8"?>` + "\n" + `<!DOCTYPE html PUBLIC "-//W3C//DTD XHTML 1.0 Strict//EN" "http://www.w3.org/TR/xhtml1/DTD/xhtml1-strict.dtd">` + "\n" + xhtmlBody},
		{"bom", "\xEF\xBB\xBF<!DOCTYPE html>\n" + htmlBody},
		{"mentions-other-magic", "<!DOCTYPE html>\n<!-- PK\x03\x04 %PDF-1.7 -->\n" + strings.Replace(htmlBody, "<h1>", "<p>%PDF-1.4 is how a PDF starts, PK is how a ZIP starts</p><h1>", 1)},
		{"comment-first", "<!-- saved from url=(0014)about:internet -->\n<!DOCTYPE html>\n" + htmlBody},
	}
	var out []*doc
	for _, x := range v {
		out = append(out, &doc{kind: "html", variant: x.name, truth: format.HTML, markers: mk, raw: []byte(x.data)})
	}
	return out
}

// absRootTarget rewrites the officeDocument relationship of _rels/.rels to the equivalent
// absolute part name (Target="/word/document.xml"; OPC resolves Target against the package root).
func absRootTarget(d *doc, main string) *doc {
	ms := append([]zipw.Member(nil), d.members...)
	k := idx(ms, "_rels/.rels")[0]
	s := string(ms[k].Data)
	if strings.Count(s, `Target="`+main+`"`) != 1 {
		panic("c20: _rels/.rels does not name " + main)
	}
	ms[k].Data = []byte(strings.Replace(s, `Target="`+main+`"`, `Target="/`+main+`"`, 1))
	c := *d
	c.members, c.variant = ms, "abs-root-target"
	return &c
}

func allDocs() []*doc {
	var ds []*doc
	ds = append(ds, pdfDocs()...)
	ds = append(ds, docxDoc(), absRootTarget(docxDoc(), "word/document.xml"), odtDoc(), odtNoMimetypeDoc(),
		xlsxDoc(), absRootTarget(xlsxDoc(), "xl/workbook.xml"), pptxDoc(), absRootTarget(pptxDoc(), "ppt/presentation.xml"), epubDoc(3), epubDoc(2))
	ds = append(ds, htmlDocs()...)
	return ds
}

// ---- decoys ----------------------------------------------------------------------------------

// decoy is ONE additional member that is characteristic of another format. Its bytes are the real
// part of a valid document of that format (so a reader that is sent down the wrong path finds
// something it can parse).
type decoy struct {
	token string // descriptor value
	of    string // format it is characteristic of
	name  string
	data  []byte
	store bool
	ctype string // content type for the OPC Override / ODF manifest entry
	hosts func(d *doc) bool
	// minPos is the first position the member may take (mimetype decoys are never first: a
	// first-member mimetype is the way ODF and OCF declare a package's type)
	minPos int
}

func decoys() []decoy {
	dx, xl, pp, od, ep := docxDoc(), xlsxDoc(), pptxDoc(), odtDoc(), epubDoc(3)
	not := func(k string) func(*doc) bool { return func(d *doc) bool { return d.kind != k } }
	opcOnly := func(d *doc) bool { return d.opc }
	return []decoy{
		{token: "word", of: "docx", name: "word/document.xml", data: member(dx.members, "word/document.xml").Data,
			ctype: "application/vnd.openxmlformats-officedocument.wordprocessingml.document.main+xml", hosts: not("docx")},
		{token: "xl", of: "xlsx", name: "xl/workbook.xml", data: member(xl.members, "xl/workbook.xml").Data,
			ctype: "application/vnd.openxmlformats-officedocument.spreadsheetml.sheet.main+xml", hosts: not("xlsx")},
		{token: "ppt", of: "pptx", name: "ppt/presentation.xml", data: member(pp.members, "ppt/presentation.xml").Data,
			ctype: "application/vnd.openxmlformats-officedocument.presentationml.presentation.main+xml", hosts: not("pptx")},
		{token: "container", of: "epub", name: "META-INF/container.xml", data: member(ep.members, "META-INF/container.xml").Data,
			ctype: "application/xml", hosts: not("epub")},
		{token: "odf-manifest", of: "odt", name: "META-INF/manifest.xml", data: member(od.members, "META-INF/manifest.xml").Data,
			ctype: "application/xml", hosts: not("odt")},
		{token: "content-xml", of: "odt", name: "content.xml", data: member(od.members, "content.xml").Data,
			ctype: "application/xml", hosts: not("odt")},
		{token: "mimetype-odt", of: "odt", name: "mimetype", data: []byte("application/vnd.oasis.opendocument.text"), store: true,
			ctype: "text/plain", hosts: opcOnly, minPos: 1},
		{token: "mimetype-epub", of: "epub", name: "mimetype", data: []byte("application/epub+zip"), store: true,
			ctype: "text/plain", hosts: opcOnly, minPos: 1},
		{token: "content-types", of: "ooxml", name: "[Content_Types].xml", data: member(dx.members, "[Content_Types].xml").Data,
			ctype: "application/xml", hosts: func(d *doc) bool { return !d.opc }},
		{token: "html", of: "html", name: "index.html", data: []byte("<!DOCTYPE html>\n" + htmlBody),
			ctype: "text/html", hosts: func(d *doc) bool { return true }},
		{token: "pdf", of: "pdf", name: "attachment.pdf", data: pdfDocs()[0].raw, store: true,
			ctype: "application/pdf", hosts: func(d *doc) bool { return true }},
		// an embedded OLE-style object below the host's OWN directory (what Office really writes)
		{token: "embedded-xlsx", of: "xlsx", name: "embeddings/Microsoft_Excel_Sheet1.xlsx", data: zipw.Zip(xl.members), store: true,
			ctype: "application/vnd.openxmlformats-officedocument.spreadsheetml.sheet", hosts: func(d *doc) bool { return d.kind == "docx" || d.kind == "pptx" }},
		{token: "embedded-docx", of: "docx", name: "embeddings/Microsoft_Word_Document1.docx", data: zipw.Zip(dx.members), store: true,
			ctype: "application/vnd.openxmlformats-officedocument.wordprocessingml.document", hosts: func(d *doc) bool { return d.kind == "xlsx" || d.kind == "pptx" }},
	}
}

var ownDir = map[string]string{"docx": "word/", "xlsx": "xl/", "pptx": "ppt/"}

// withDecoy returns the member list `order` with the decoy inserted at position pos and the host's
// own inventory (OPC content types / ODF manifest) extended so that the package stays a valid
// package of its own format.
func withDecoy(d *doc, order []zipw.Member, dc decoy, pos int) []zipw.Member {
	name := dc.name
	if strings.HasPrefix(name, "embeddings/") {
		name = ownDir[d.kind] + name
	}
	out := make([]zipw.Member, 0, len(order)+1)
	for i, m := range order {
		if i == pos {
			out = append(out, zipw.Member{Name: name, Data: dc.data, Store: dc.store})
		}
		switch {
		case d.opc && m.Name == "[Content_Types].xml":
			s := string(m.Data)
			add := `<Override PartName="/` + name + `" ContentType="` + dc.ctype + `"/>`
			if !strings.Contains(s, "</Types>") {
				panic("c20: content types part without </Types>")
			}
			m.Data = []byte(strings.Replace(s, "</Types>", add+"</Types>", 1))
		case d.odf && m.Name == "META-INF/manifest.xml" && !strings.HasPrefix(name, "META-INF/"):
			s := string(m.Data)
			add := `<manifest:file-entry manifest:full-path="` + name + `" manifest:media-type="` + dc.ctype + `"/>`
			if !strings.Contains(s, "</manifest:manifest>") {
				panic("c20: manifest without end tag")
			}
			m.Data = []byte(strings.Replace(s, "</manifest:manifest>", add+"</manifest:manifest>", 1))
		}
		out = append(out, m)
	}
	if pos >= len(order) {
		out = append(out, zipw.Member{Name: name, Data: dc.data, Store: dc.store})
	}
	return out
}
