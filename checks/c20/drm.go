package main

// DRM space: an EPUB 3 with two spine documents (ch1.xhtml and the extension-less "chapter2", both
// application/xhtml+xml), a style sheet, a font and an image. Every item is plain, obfuscated
// (IDPF or Adobe font obfuscation) or encrypted (AES-128-CBC, AES-256-CBC, AES-256-GCM, unknown
// algorithm URI); the marked resources are REALLY transformed and listed in META-INF/encryption.xml.
//
// Oracle (statement, weakest reading):
//
//	rights.xml present, or a content document (spine XHTML by manifest media type) covered by
//	anything but one of the two font-obfuscation algorithms      -> errors.Is(err, ErrDRMProtected)
//	nothing but font obfuscation in encryption.xml, content documents untouched
//	                                                             -> opens, Text() has both chapters
//	only css / font / image encrypted with a real cipher, or a content document "obfuscated"
//	(obfuscation is defined for fonts; tabula cannot undo it)    -> either refusal as DRM, or opens
//	                                                                (with every untouched chapter)

import (
	"bytes"
	"crypto/aes"
	"crypto/cipher"
	"crypto/sha1"
	"encoding/hex"
	"errors"
	"fmt"
	"os"
	"regexp"
	"strings"

	"github.com/tsawler/tabula"
	"github.com/tsawler/tabula/epubdoc"

	"verif/internal/gen/epubw"
	"verif/internal/gen/zipw"
	"verif/internal/harness"
)

const bookID = "urn:uuid:6ba7b810-9dad-11d1-80b4-00c04fd430c8"

var algURI = map[string]string{
	"idpf":      "http://www.idpf.org/2008/embedding",
	"adobe":     "http://ns.adobe.com/pdf/enc#RC",
	"aes128cbc": "http://www.w3.org/2001/04/xmlenc#aes128-cbc",
	"aes256cbc": "http://www.w3.org/2001/04/xmlenc#aes256-cbc",
	"aes256gcm": "http://www.w3.org/2009/xmlenc11#aes256-gcm",
	"unknown":   "http://example.org/verif/2026/private-cipher",
}

var (
	obfAlgs    = []string{"idpf", "adobe"}
	cipherAlgs = []string{"aes128cbc", "aes256cbc", "aes256gcm", "unknown"}
	itemNames  = []string{"x1", "x2", "css", "font", "img"}
	uriForms   = []string{"asis", "dotslash", "pct", "upper", "space"}
)

const (
	plain = iota
	obf
	enc
)

var classTok = []string{"plain", "obf", "cipher"}

var pngBytes = []byte("\x89PNG\r\n\x1a\n\x00\x00\x00\rIHDR\x00\x00\x00\x01\x00\x00\x00\x01\x08\x06\x00\x00\x00\x1f\x15\xc4\x89" +
	"\x00\x00\x00\rIDATx\x9cc\xf8\xcf\xc0\xf0\x1f\x00\x05\x00\x01\xff\x89\x99=\x1d\x00\x00\x00\x00IEND\xaeB`\x82")

// hrefs of the five items as written in the manifest (relative to the OPF), per URI form and OPF location.
func itemHrefs(form, opf string) [5]string {
	h := [5]string{"ch1.xhtml", "chapter2", "style.css", "fonts/font.otf", "images/cover.png"}
	switch form {
	case "upper":
		h = [5]string{"CH1.XHTML", "CHAPTER2", "STYLE.CSS", "FONTS/FONT.OTF", "IMAGES/COVER.PNG"}
	case "space":
		h = [5]string{"ch%201.xhtml", "chapter%202", "my%20style.css", "fonts/my%20font.otf", "images/the%20cover.png"}
	}
	if opf == "nested" {
		// package document in EPUB/pkg/, resources beside that directory
		for i := range h {
			h[i] = "../text/" + h[i]
		}
	}
	return h
}

var opfPaths = map[string]string{"OEBPS": "OEBPS/content.opf", "root": "content.opf", "nested": "EPUB/pkg/package.opf"}

func transform(alg string, data []byte) []byte {
	out := append([]byte(nil), data...)
	key := make([]byte, 32)
	for i := range key {
		key[i] = byte(17*i + 3)
	}
	switch alg {
	case "idpf":
		k := sha1.Sum([]byte(bookID))
		for i := 0; i < len(out) && i < 1040; i++ {
			out[i] ^= k[i%20]
		}
	case "adobe":
		k, _ := hex.DecodeString(strings.ReplaceAll(strings.TrimPrefix(bookID, "urn:uuid:"), "-", ""))
		for i := 0; i < len(out) && i < 1024; i++ {
			out[i] ^= k[i%16]
		}
	case "aes128cbc", "aes256cbc":
		n := 16
		if alg == "aes256cbc" {
			n = 32
		}
		blk, _ := aes.NewCipher(key[:n])
		pad := 16 - len(out)%16
		for i := 0; i < pad; i++ {
			out = append(out, byte(pad))
		}
		iv := []byte("verif-c20-iv-016")
		cipher.NewCBCEncrypter(blk, iv).CryptBlocks(out, out)
		out = append(append([]byte(nil), iv...), out...)
	case "aes256gcm":
		blk, _ := aes.NewCipher(key)
		g, _ := cipher.NewGCM(blk)
		nonce := []byte("verif-c20-nc")
		out = append(append([]byte(nil), nonce...), g.Seal(nil, nonce, data, nil)...)
	case "unknown":
		for i := range out {
			out[i] ^= 0x5A
		}
	default:
		panic("c20: unknown algorithm " + alg)
	}
	return out
}

func cipherURI(form, member string) string {
	u := epubw.PctEncode(member, "")
	switch form {
	case "dotslash":
		return "./" + u
	case "pct":
		// RFC 3986 6.2.2.2: a percent-encoded unreserved character is equivalent to the character
		return u[:len(u)-1] + fmt.Sprintf("%%%02X", u[len(u)-1])
	}
	return u
}

// buildDRM returns the EPUB bytes.
func buildDRM(assign [5]int, obfAlg, cipherAlg, form string, rights bool, style, opf, entryOrder, metaPos, opfInv string) []byte {
	h := itemHrefs(form, opf)
	b := epubw.Book{Version: 3, OPFPath: opfPaths[opf], Title: "Drm Sample", Author: "Verif", Language: "en", Identifier: bookID,
		Chapters: []epubw.Chapter{
			{ID: "c1", Href: h[0], Title: "Chapter One", Body: `<p>alpha chapter text</p>`},
			{ID: "c2", Href: h[1], Title: "Chapter Two", Body: `<p>bravo chapter text</p>`},
		},
		Decoys: []epubw.Chapter{
			{ID: "css", Href: h[2], MediaType: "text/css", InManifest: true, Raw: "p { font-family: 'Verif Sans'; margin: 0 }\n"},
			{ID: "font", Href: h[3], MediaType: "font/otf", InManifest: true, Raw: "OTTO\x00\x0b\x00\x80\x00\x03\x000CFF " + strings.Repeat("verif-font-table ", 80)},
			{ID: "img", Href: h[4], MediaType: "image/png", InManifest: true, Raw: string(pngBytes)},
		}}
	ms := b.Members()
	if opfInv == "reversed" {
		k := idx(ms, opfPaths[opf])[0]
		ms[k].Data = []byte(rewriteInventory(string(ms[k].Data), inventory{member: opfPaths[opf], elem: opfItemRe}, "reversed", true))
	}
	var entryList []string
	p := "enc:"
	dataOpen := `<enc:EncryptedData Id="ED%d">`
	if style == "default-ns" {
		p = ""
		dataOpen = `<EncryptedData xmlns="http://www.w3.org/2001/04/xmlenc#" Id="ED%d">`
	}
	anyCipher := false
	for i := 0; i < 5; i++ {
		if assign[i] == plain {
			continue
		}
		alg := obfAlg
		if assign[i] == enc {
			alg = cipherAlg
			anyCipher = true
		}
		name := epubw.Resolve(opfPaths[opf], h[i])
		k := idx(ms, name)[0]
		ms[k].Data = transform(alg, ms[k].Data)
		var entries strings.Builder
		fmt.Fprintf(&entries, dataOpen, i+1)
		fmt.Fprintf(&entries, `<%sEncryptionMethod Algorithm="%s"/>`, p, algURI[alg])
		if assign[i] == enc {
			entries.WriteString(`<ds:KeyInfo xmlns:ds="http://www.w3.org/2000/09/xmldsig#"><ds:RetrievalMethod URI="#EK" Type="http://www.w3.org/2001/04/xmlenc#EncryptedKey"/></ds:KeyInfo>`)
		}
		fmt.Fprintf(&entries, `<%sCipherData><%sCipherReference URI="%s"/></%sCipherData></%sEncryptedData>`, p, p, epubw.Esc(cipherURI(form, name)), p, p)
		if entryOrder == "rev" {
			entryList = append([]string{entries.String()}, entryList...)
		} else {
			entryList = append(entryList, entries.String())
		}
	}
	var extra []zipw.Member
	if len(entryList) > 0 {
		var x strings.Builder
		x.WriteString(`<?xml version="1.0" encoding="UTF-8"?>` + "\n")
		x.WriteString(`<encryption xmlns="urn:oasis:names:tc:opendocument:xmlns:container" xmlns:enc="http://www.w3.org/2001/04/xmlenc#">`)
		if anyCipher {
			x.WriteString(`<enc:EncryptedKey Id="EK"><enc:EncryptionMethod Algorithm="http://www.w3.org/2001/04/xmlenc#rsa-oaep-mgf1p"/>` +
				`<ds:KeyInfo xmlns:ds="http://www.w3.org/2000/09/xmldsig#"><ds:KeyName>reading-system</ds:KeyName></ds:KeyInfo>` +
				`<enc:CipherData><enc:CipherValue>dmVyaWYtYzIwLXdyYXBwZWQta2V5</enc:CipherValue></enc:CipherData></enc:EncryptedKey>`)
		}
		x.WriteString(strings.Join(entryList, ""))
		x.WriteString(`</encryption>`)
		extra = append(extra, zipw.M("META-INF/encryption.xml", x.String()))
	}
	if rights {
		extra = append(extra, zipw.M("META-INF/rights.xml", `<?xml version="1.0" encoding="UTF-8"?>`+"\n"+
			`<adept:rights xmlns:adept="http://ns.adobe.com/adept"><licenseToken><user>urn:uuid:00000000-0000-4000-8000-000000000020</user><resource>`+bookID+`</resource></licenseToken></adept:rights>`))
	}
	// META-INF members directly after container.xml (members[1]) or as the last members
	out := append([]zipw.Member{}, ms[:2]...)
	if metaPos == "end" {
		out = append(out, ms[2:]...)
		out = append(out, extra...)
	} else {
		out = append(out, extra...)
		out = append(out, ms[2:]...)
	}
	return zipw.Zip(out)
}

func drm(e *harness.Env) {
	for mask := 0; mask < 243; mask++ {
		var assign [5]int
		x := mask
		nObf, nEnc := 0, 0
		for i := 0; i < 5; i++ {
			assign[i] = x % 3
			x /= 3
			switch assign[i] {
			case obf:
				nObf++
			case enc:
				nEnc++
			}
		}
		oa, ca := obfAlgs, cipherAlgs
		if nObf == 0 {
			oa = []string{"-"}
		}
		if nEnc == 0 {
			ca = []string{"-"}
		}
		mixed := nObf > 0 && nEnc > 0
		for _, obfAlg := range oa {
			for _, cipherAlg := range ca {
				// quick: mixed assignments with one algorithm pair only
				if mixed && !e.Thorough() && !(obfAlg == "idpf" && cipherAlg == "aes256cbc") {
					continue
				}
				for _, form := range uriForms {
					for _, rights := range []bool{false, true} {
						for _, v := range drmVariants(e.Thorough()) {
							for _, api := range []string{"tabula.Open", "epubdoc.OpenReader"} {
								var b strings.Builder
								b.WriteString("space=drm")
								for i, n := range itemNames {
									b.WriteString(" " + n + "=" + classTok[assign[i]])
								}
								fmt.Fprintf(&b, " obfalg=%s cipheralg=%s uri=%s rights=%v style=%s opf=%s entries=%s metapos=%s opfinv=%s api=%s",
									obfAlg, cipherAlg, form, rights, v.style, v.opf, v.entries, v.metaPos, v.opfInv, api)
								desc := b.String()
								if !e.Own(desc) {
									continue
								}
								drmCase(e, desc, assign, obfAlg, cipherAlg, form, rights, v, api)
							}
						}
					}
				}
			}
		}
	}
}

var opfItemRe = regexp.MustCompile(`<item\s[^>]*/>`)

type drmVariant struct{ style, opf, entries, metaPos, opfInv string }

// drmVariants: spelling of encryption.xml x location of the package document x order of the
// EncryptedData elements x position of the META-INF members x order of the OPF manifest (items and
// attributes as written / reversed). thorough: full product 2x3x2x2 with the manifest order
// alternating; quick: style x opf{OEBPS,root} x entries with metapos and manifest order alternating.
func drmVariants(thorough bool) []drmVariant {
	var out []drmVariant
	for si, style := range []string{"prefixed", "default-ns"} {
		for oi, opf := range []string{"OEBPS", "root", "nested"} {
			for ei, entries := range []string{"fwd", "rev"} {
				for mi, metaPos := range []string{"front", "end"} {
					if !thorough && (opf == "nested" || mi != (si+oi+ei)%2) {
						continue
					}
					// OPF manifest as written / items in reverse order with reversed attribute order
					// alternating, so that each manifest order meets every value of every other dimension
					// (the full 2x would put thorough too close to its time budget on a loaded machine)
					for vi, opfInv := range []string{"asis", "reversed"} {
						if (!thorough && vi != (si+ei)%2) || (thorough && vi != (si+oi+ei+mi)%2) {
							continue
						}
						out = append(out, drmVariant{style, opf, entries, metaPos, opfInv})
					}
				}
			}
		}
	}
	return out
}

func drmCase(e *harness.Env, desc string, assign [5]int, obfAlg, cipherAlg, form string, rights bool, v drmVariant, api string) {
	data := buildDRM(assign, obfAlg, cipherAlg, form, rights, v.style, v.opf, v.entries, v.metaPos, v.opfInv)
	fl := map[string][]byte{"input.epub": data}
	e.Begin(desc)
	var text string
	var err error
	sig, det := harness.Guard(func() {
		if api == "tabula.Open" {
			path, done := casePath("drm.epub")
			defer done()
			if werr := os.WriteFile(path, data, 0o644); werr != nil {
				panic(werr)
			}
			x := tabula.Open(path)
			defer x.Close()
			text, _, err = x.Text()
			return
		}
		var r *epubdoc.Reader
		r, err = epubdoc.OpenReader(bytes.NewReader(data), int64(len(data)))
		if err == nil {
			defer r.Close()
			text, err = r.Text()
		}
	})
	if sig != "" {
		fail(e, desc, sig, det, fl)
		return
	}
	isDRM := err != nil && errors.Is(err, epubdoc.ErrDRMProtected)
	contentCipher := assign[0] == enc || assign[1] == enc
	contentObf := assign[0] == obf || assign[1] == obf
	auxCipher := assign[2] == enc || assign[3] == enc || assign[4] == enc
	// chapters that are untouched have to be in the text whenever the book opens
	var want []string
	if assign[0] == plain {
		want = append(want, "alpha chapter text")
	}
	if assign[1] == plain {
		want = append(want, "bravo chapter text")
	}
	show := text
	if len(show) > 200 {
		show = show[:200] + "..."
	}
	switch {
	case rights || contentCipher:
		why := "a content document is encrypted"
		if rights {
			why = "META-INF/rights.xml is present"
		}
		switch {
		case isDRM:
			e.Pass(desc, true, "drm-refused")
		case err == nil:
			fail(e, desc, "drm-not-refused", fmt.Sprintf("%s, but the book opened; text %q", why, show), fl)
		default:
			fail(e, desc, "drm-other-error", fmt.Sprintf("%s; error is not ErrDRMProtected: %v", why, err), fl)
		}
	case contentObf || auxCipher:
		switch {
		case isDRM:
			e.Pass(desc, true, "either:refused")
		case err != nil:
			fail(e, desc, "error-on-readable-epub", fmt.Sprintf("neither ErrDRMProtected nor success: %v", err), fl)
		case !hasAll(text, want):
			fail(e, desc, "wrong-content", fmt.Sprintf("opened, untouched chapters %q missing from %q", want, show), fl)
		default:
			e.Pass(desc, true, "either:opened")
		}
	default:
		switch {
		case isDRM:
			fail(e, desc, "obfuscation-refused-as-drm", fmt.Sprintf("encryption.xml lists only font obfuscation of non-content resources (or nothing), refused: %v", err), fl)
		case err != nil:
			fail(e, desc, "error-on-readable-epub", fmt.Sprintf("unprotected book: %v", err), fl)
		case !hasAll(text, want):
			fail(e, desc, "wrong-content", fmt.Sprintf("opened, chapters %q missing from %q", want, show), fl)
		default:
			oc := "opened:unprotected"
			if assign != [5]int{} {
				oc = "opened:font-obfuscation-only"
			}
			e.Pass(desc, assign != [5]int{}, oc)
		}
	}
}
