package main

// "replace" space: the same path, content replaced. One case = write content A to a path, open
// it, overwrite the path with content B, open it again. The statement says the BYTES decide, for
// every naming of the same bytes — so what the path held before is irrelevant: the second open
// must give exactly the verdict that B gets at a path that was never used (and, where B is a
// valid document, the verdict the statement demands). The whole history lives inside the case
// (fresh directory per case), so a replay reproduces it.
//
// Alphabet: one representative per format, plus two contents that are no document of any format
// (plain text; nothing at all = the file does not exist) x every ordered pair x every file name
// of the admission space (8 extensions x lower/upper/mixed case, none, 4 unsupported).

import (
	"fmt"
	"os"
	"strings"

	"github.com/tsawler/tabula"
	"github.com/tsawler/tabula/format"

	"verif/internal/gen/zipw"
	"verif/internal/harness"
)

type content struct {
	kind string
	d    *doc   // nil: not a document
	data []byte // nil with d == nil: the file is absent
}

func replaceAlphabet() []content {
	var out []content
	pick := map[string]string{"pdf": "classic", "docx": "base", "odt": "base", "xlsx": "base", "pptx": "base", "epub": "v3", "html": "doctype"}
	for _, d := range allDocs() {
		if pick[d.kind] != d.variant {
			continue
		}
		data := d.raw
		if d.zip() {
			data = zipw.Zip(d.members)
		}
		out = append(out, content{kind: d.kind, d: d, data: data})
	}
	out = append(out, content{kind: "text", data: []byte("just some plain text, no document of any supported format\n")})
	out = append(out, content{kind: "absent"})
	return out
}

type verdict struct {
	ok   bool
	text string
	errc string
	err  error
}

func (v verdict) String() string {
	if v.ok {
		t := v.text
		if len(t) > 120 {
			t = t[:120] + "..."
		}
		return fmt.Sprintf("opened, text %q", t)
	}
	return fmt.Sprintf("error (%s): %q", v.errc, v.err.Error())
}

func put(path string, c content) {
	if c.d == nil && c.data == nil {
		os.Remove(path)
		return
	}
	if err := os.WriteFile(path, c.data, 0o644); err != nil {
		panic(err)
	}
}

func openText(path string) (v verdict, sig, det string) {
	sig, det = harness.Guard(func() {
		x := tabula.Open(path)
		defer x.Close()
		t, _, err := x.Text()
		if err != nil {
			// the message names the path; the class does not
			v = verdict{errc: errClass(err), err: err}
			return
		}
		v = verdict{ok: true, text: t}
	})
	return
}

// demanded: what the statement says about content c under this name ("" = nothing beyond
// equality with the fresh-path verdict).
func demanded(c content, n fname, v verdict) string {
	if c.d == nil {
		if c.data == nil && v.ok {
			return "opened-absent-file"
		}
		return ""
	}
	f, supported := extFormat[strings.ToLower(n.ext)]
	switch {
	case supported && f == c.d.truth:
		if !v.ok {
			return "refused-under-own-extension"
		}
		if !hasAll(v.text, c.d.markers) {
			return "own-extension-wrong-content"
		}
	case supported:
		if v.ok {
			return "opened-under-foreign-extension"
		}
	default:
		if v.ok && !hasAll(v.text, c.d.markers) {
			return "misparsed-without-extension"
		}
	}
	return ""
}

func replace(e *harness.Env) {
	alpha := replaceAlphabet()
	for _, a := range alpha {
		for _, b := range alpha {
			if a.kind == "absent" && b.kind == "absent" {
				continue
			}
			for _, n := range allNames() {
				extTok := n.ext
				if extTok == "" {
					extTok = "none"
				}
				desc := "space=replace first=" + a.kind + " second=" + b.kind + " ext=" + extTok + " case=" + n.class
				if !e.Own(desc) {
					continue
				}
				replaceCase(e, desc, a, b, n)
			}
		}
	}
}

func replaceCase(e *harness.Env, desc string, a, b content, n fname) {
	e.Begin(desc)
	fl := map[string][]byte{}
	if a.data != nil {
		fl["first."+a.kind+".bin"] = a.data
	}
	if b.data != nil {
		fl["second."+b.kind+".bin"] = b.data
	}
	// reference: B at a path nothing has touched
	fresh, doneF := casePath("doc" + n.ext)
	defer doneF()
	put(fresh, b)
	ref, sig, det := openText(fresh)
	if sig != "" {
		fail(e, desc, sig, det, fl)
		return
	}
	// history: A, open, B, open — on one path
	path, done := casePath("doc" + n.ext)
	defer done()
	put(path, a)
	first, sig, det := openText(path)
	if sig != "" {
		fail(e, desc, sig, det, fl)
		return
	}
	if why := demanded(a, n, first); why != "" {
		fail(e, desc, "first-open:"+why, fmt.Sprintf("%s content under doc%s (first use of the path): %v", a.kind, n.ext, first), fl)
		return
	}
	put(path, b)
	second, sig, det := openText(path)
	if sig != "" {
		fail(e, desc, sig, det, fl)
		return
	}
	if why := demanded(b, n, second); why != "" {
		fail(e, desc, "after-replace:"+why, fmt.Sprintf("doc%s held %s content (%v), was overwritten with %s content: %v; the same bytes at an unused path: %v",
			n.ext, a.kind, first, b.kind, second, ref), fl)
		return
	}
	if second.ok != ref.ok || second.text != ref.text || second.errc != ref.errc {
		fail(e, desc, "after-replace:verdict-depends-on-history", fmt.Sprintf("doc%s held %s content, was overwritten with %s content: %v; the same bytes at an unused path: %v",
			n.ext, a.kind, b.kind, second, ref), fl)
		return
	}
	oc := "replace:refused"
	if second.ok {
		oc = "replace:opened"
	}
	if b.d != nil && b.d.truth != format.Unknown && a.kind == b.kind {
		oc += ":same-content"
	}
	e.Pass(desc, true, oc)
}
