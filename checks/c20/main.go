// C20 — Files are admitted by content; mismatches and DRM are refused.
//
// Three enumerated spaces, all run against the real code:
//
//	names   format.Detect(name) against the extension table of the statement
//	admit   valid documents of the seven formats x physical packaging (ZIP member order, one decoy
//	        member of another format at every position) x file names (every supported extension in
//	        lower / upper / mixed case, none, unsupported) x detection entry points and terminal
//	        operations of tabula.Open
//	        + "inventory" packaging: entry order / attribute order of the XML inventories (inventory.go)
//	replace same path, content replaced: ordered pairs of contents x file names, two opens on one
//	        path inside one case (replace.go)
//	drm     EPUBs x every subset of five manifest items listed in META-INF/encryption.xml x
//	        algorithm x CipherReference spelling x rights.xml x two entry points (drm.go)
//
// The oracle is the statement: the bytes decide. Own extension (any case): opens and returns the
// document's text. Any other supported extension: an error. No / unsupported extension: an error
// or the document's own text, never anything else.
package main

import (
	"bytes"
	"fmt"
	"os"
	"path/filepath"
	"strings"

	"github.com/tsawler/tabula"
	"github.com/tsawler/tabula/format"

	"verif/internal/gen/zipw"
	"verif/internal/harness"
)

func main() { harness.Main("C20", "exploration", run) }

var scratchDir string

var caseSeq int

// casePath returns <scratch>/<fresh directory>/<name>: every case works on a path that no other
// case of this process has used or will use, so path-keyed state inside tabula can never carry a
// verdict from one case into another (histories on ONE path are the business of the "replace"
// space, where the whole history lives inside the case). done removes the directory.
func casePath(name string) (path string, done func()) {
	caseSeq++
	dir := filepath.Join(scratchDir, fmt.Sprintf("c%d", caseSeq))
	if err := os.MkdirAll(dir, 0o755); err != nil {
		panic(err)
	}
	return filepath.Join(dir, name), func() { os.RemoveAll(dir) }
}

func run(e *harness.Env) {
	e.Rule = "full product per space. admit: 20 valid documents (2 PDF layouts; DOCX, XLSX, PPTX each with relative and absolute officeDocument target; ODT with and without mimetype; EPUB 2/3; 8 HTML/XHTML openings) x " +
		"{all permutations of the <=5 core ZIP members (mimetype fixed first where present), remaining members after/before} x " +
		"{no decoy, one characteristic member of every other format (13 kinds) at every position, host inventory (content types / ODF manifest) updated} x " +
		"{DetectFromReader, DetectFromMagic, Open(name).Text() under the 8 supported extensions + own extension upper/mixed case + no extension}; " +
		"base packaging additionally x 29 names (8 extensions x lower/upper/mixed, none, 4 unsupported) x {Text, ToMarkdown, Document, PageCount}; names: format.Detect on 29 names x 4 stems x 5 directories. " +
		"inventory: 7 packages x deciding inventory entry (ODF '/' file-entry, main-part Override, officeDocument Relationship, OPF item) asis/first/middle/last x attribute order asis/reversed x {no decoy, every decoy at first/last (thorough: every) position} x the same entry points. " +
		"replace: every ordered pair (A,B) over {one document per format, plain text, absent file} x the 29 names: write A, open, overwrite with B, open again on ONE path; second verdict = statement verdict for B = verdict of B at an unused path. " +
		"every other case works on a path that is unique in the process. " +
		"drm: EPUB with 2 spine documents (one without file extension) + css + font + image, every assignment of {plain, obfuscated, encrypted} to the 5 items (3^5, includes all 2^5 subsets per algorithm) x " +
		"obfuscation URI {IDPF, Adobe} x cipher URI {AES-128-CBC, AES-256-CBC, AES-256-GCM, unknown} x 5 CipherReference spellings x rights.xml x encryption.xml style x OPF location x entry order x META-INF position x OPF manifest order x {tabula.Open, epubdoc.OpenReader}. " +
		"quick: decoys under every 10th member order + the reverse order, abs-root-target twins lightly, mixed obfuscated+encrypted assignments with one algorithm pair, 8 of 24 encryption.xml/OPF variants; thorough: everything, except that the OPF manifest order alternates over the 24 encryption.xml/OPF variants instead of doubling them. " +
		"distinct = distinct descriptors; non-trivial = anything but a base document under its own lower-case extension / an EPUB without encryption.xml"
	e.Assumptions = []string{
		"the writers of verif/internal/gen produce valid documents of their format (they are shared with C16-C18 and never consult tabula)",
		"a package stays a valid package of its format when one extra part is added and declared in its inventory ([Content_Types].xml Override / ODF manifest file-entry); OCF allows extra files",
		"ODF and OCF require the mimetype member first, so it is never moved; OPC puts no constraint on member order",
		"crypto/aes, crypto/cipher and crypto/sha1 of the Go standard library (used to really encrypt / obfuscate the marked resources)",
	}
	scratchDir = harness.Scratch()
	defer os.RemoveAll(scratchDir)
	names(e)
	admit(e)
	inventorySpace(e)
	replace(e)
	drm(e)
}

// ---- file names ------------------------------------------------------------------------------

var supportedExt = []string{".pdf", ".docx", ".odt", ".xlsx", ".pptx", ".epub", ".html", ".htm"}

var extFormat = map[string]format.Format{".pdf": format.PDF, ".docx": format.DOCX, ".odt": format.ODT, ".xlsx": format.XLSX,
	".pptx": format.PPTX, ".epub": format.EPUB, ".html": format.HTML, ".htm": format.HTML}

func mixedCase(ext string) string {
	b := []byte(ext)
	for i := 1; i < len(b); i += 2 {
		b[i] = byte(strings.ToUpper(string(b[i]))[0])
	}
	return string(b)
}

type fname struct {
	ext   string // as written ("" = none)
	class string // lower upper mixed none unsupported
}

func allNames() []fname {
	var out []fname
	for _, x := range supportedExt {
		out = append(out, fname{x, "lower"})
	}
	for _, x := range supportedExt {
		out = append(out, fname{strings.ToUpper(x), "upper"})
	}
	for _, x := range supportedExt {
		out = append(out, fname{mixedCase(x), "mixed"})
	}
	out = append(out, fname{"", "none"})
	for _, x := range []string{".txt", ".zip", ".xml", ".doc"} {
		out = append(out, fname{x, "unsupported"})
	}
	return out
}

// shortNames: the 8 supported extensions, the document's own extension in upper and mixed case, none.
func shortNames(d *doc) []fname {
	var out []fname
	for _, x := range supportedExt {
		out = append(out, fname{x, "lower"})
	}
	own := "." + d.kind
	out = append(out, fname{strings.ToUpper(own), "upper"}, fname{mixedCase(own), "mixed"}, fname{"", "none"})
	return out
}

// names: the extension table itself (content-independent).
func names(e *harness.Env) {
	for _, dir := range []string{"", "./", "/tmp/some.dir/", "archive.pdf/", "a b/"} {
		for _, stem := range []string{"doc", "report.final", ".hidden", "x.pdf"} {
			for _, n := range allNames() {
				name := dir + stem + n.ext
				desc := harness.D("space", "names", "name", name, "case", n.class)
				if !e.Own(desc) {
					continue
				}
				want := extFormat[strings.ToLower(n.ext)] // zero value = Unknown
				if n.ext == "" {
					// the stem decides: "report.final" -> Unknown, "x.pdf" -> PDF, ".hidden" -> Unknown
					if stem == "x.pdf" {
						want = format.PDF
					}
				}
				var got format.Format
				if sig, det := harness.Guard(func() { got = format.Detect(name) }); sig != "" {
					fail(e, desc, sig, det, nil)
					continue
				}
				if got != want {
					fail(e, desc, "extension-table", fmt.Sprintf("format.Detect(%q) = %v, want %v", name, got, want), nil)
					continue
				}
				e.Pass(desc, n.class != "lower", "name:"+want.String())
			}
		}
	}
}

// ---- admission -------------------------------------------------------------------------------

func permutations(n int) [][]int {
	var out [][]int
	p := make([]int, n)
	used := make([]bool, n)
	var rec func(k int)
	rec = func(k int) {
		if k == n {
			out = append(out, append([]int(nil), p...))
			return
		}
		for i := 0; i < n; i++ {
			if !used[i] {
				used[i] = true
				p[k] = i
				rec(k + 1)
				used[i] = false
			}
		}
	}
	rec(0)
	return out
}

func permToken(p []int) string {
	var b strings.Builder
	for _, x := range p {
		b.WriteByte(byte('0' + x))
	}
	return b.String()
}

// arrange builds the member order: [mimetype] + core in permuted order and the remaining members
// before or after them.
func arrange(d *doc, perm []int, restBefore bool) []zipw.Member {
	isCore := map[int]bool{}
	for _, i := range d.core {
		isCore[i] = true
	}
	var head, core, rest []zipw.Member
	for i, m := range d.members {
		switch {
		case d.mimeFirst && i == 0:
			head = append(head, m)
		case !isCore[i]:
			rest = append(rest, m)
		}
	}
	for _, k := range perm {
		core = append(core, d.members[d.core[k]])
	}
	out := head
	if restBefore {
		out = append(out, rest...)
		out = append(out, core...)
	} else {
		out = append(out, core...)
		out = append(out, rest...)
	}
	return out
}

func admit(e *harness.Env) {
	docs := allDocs()
	dcs := decoys()
	for _, d := range docs {
		// (1) base packaging x every name x every terminal operation + the detection entry points
		base := "space=admit fmt=" + d.kind + " host=" + d.host() + " var=" + d.variant
		var data []byte
		content := func() []byte {
			if data == nil {
				if d.zip() {
					data = zipw.Zip(d.members)
				} else {
					data = d.raw
				}
			}
			return data
		}
		detectCases(e, d, base+" pack=base", content)
		for _, n := range allNames() {
			for _, op := range []string{"text", "markdown", "document", "pagecount"} {
				openCase(e, d, base+" pack=base", n, op, content)
			}
		}
		if !d.zip() {
			continue
		}
		// (2) member orders x decoys
		perms := permutations(len(d.core))
		hasRest := len(d.members)-len(d.core) > 0
		if d.mimeFirst {
			hasRest = len(d.members)-len(d.core)-1 > 0
		}
		// quick treats the abs-root-target twins lightly: every 10th order, decoys under the first and last order
		light := !e.Thorough() && d.variant == "abs-root-target"
		for pi, perm := range perms {
			if light && !(pi%10 == 0 || pi == len(perms)-1) {
				continue
			}
			for _, restBefore := range []bool{false, true} {
				if restBefore && !hasRest {
					continue
				}
				rest := "after"
				if restBefore {
					rest = "before"
				}
				if !hasRest {
					rest = "none"
				}
				order := arrange(d, perm, restBefore)
				ordTok := " order=" + permToken(perm) + " rest=" + rest
				{
					var z []byte
					get := func() []byte {
						if z == nil {
							z = zipw.Zip(order)
						}
						return z
					}
					pre := base + " pack=permuted" + ordTok + " decoy=none"
					detectCases(e, d, pre, get)
					for _, n := range shortNames(d) {
						openCase(e, d, pre, n, "text", get)
					}
				}
				// quick: decoys under every 10th member order (and the reverse order), remaining members after; thorough: all
				if !e.Thorough() {
					if !(pi%10 == 0 || pi == len(perms)-1) || restBefore || (light && pi != 0 && pi != len(perms)-1) {
						continue
					}
				}
				for _, dc := range dcs {
					if !dc.hosts(d) {
						continue
					}
					first := dc.minPos
					if d.mimeFirst && first < 1 {
						first = 1
					}
					for pos := first; pos <= len(order); pos++ {
						ms := withDecoy(d, order, dc, pos)
						var z []byte
						get := func() []byte {
							if z == nil {
								z = zipw.Zip(ms)
							}
							return z
						}
						pre := base + " pack=decoy" + ordTok + " decoy=" + dc.token + fmt.Sprintf(" pos=%d", pos)
						detectCases(e, d, pre, get)
						for _, n := range shortNames(d) {
							openCase(e, d, pre, n, "text", get)
						}
					}
				}
			}
		}
	}
}

func files(d *doc, data []byte) map[string][]byte {
	return map[string][]byte{"input." + d.kind + ".bin": data}
}

// detectCases: the content-based detection entry points.
func detectCases(e *harness.Env, d *doc, pre string, content func() []byte) {
	if desc := pre + " api=DetectFromReader"; e.Own(desc) {
		data := content()
		e.Begin(desc)
		var got format.Format
		var err error
		sig, det := harness.Guard(func() { got, err = format.DetectFromReader(bytes.NewReader(data), int64(len(data))) })
		switch {
		case sig != "":
			fail(e, desc, sig, det, files(d, data))
		case err != nil:
			fail(e, desc, "detect-error", fmt.Sprintf("DetectFromReader: %v", err), files(d, data))
		case got != d.truth:
			fail(e, desc, "misdetected-as-"+got.String(), fmt.Sprintf("DetectFromReader = %v, the bytes are a valid %v document", got, d.truth), files(d, data))
		default:
			e.Pass(desc, !strings.Contains(pre, "pack=base"), "detect:"+got.String())
		}
	}
	if desc := pre + " api=DetectFromMagic"; e.Own(desc) {
		data := content()
		e.Begin(desc)
		var got format.Format
		sig, det := harness.Guard(func() { got = format.DetectFromMagic(data) })
		// documented: Unknown for ZIP containers (the caller has to look inside); for PDF and HTML the
		// magic is the content-based decision.
		ok := got == d.truth || (d.zip() && got == format.Unknown)
		switch {
		case sig != "":
			fail(e, desc, sig, det, files(d, data))
		case !ok:
			fail(e, desc, "magic-misdetected-as-"+got.String(), fmt.Sprintf("DetectFromMagic = %v, the bytes are a valid %v document", got, d.truth), files(d, data))
		default:
			e.Pass(desc, !strings.Contains(pre, "pack=base"), "magic:"+got.String())
		}
	}
}

func hasAll(s string, markers []string) bool {
	for _, m := range markers {
		if !strings.Contains(s, m) {
			return false
		}
	}
	return true
}

// openCase: tabula.Open(<dir>/doc<ext>).<op>() on the bytes.
func openCase(e *harness.Env, d *doc, pre string, n fname, op string, content func() []byte) {
	extTok := n.ext
	if extTok == "" {
		extTok = "none"
	}
	desc := pre + " api=Open op=" + op + " ext=" + extTok + " case=" + n.class
	if !e.Own(desc) {
		return
	}
	data := content()
	e.Begin(desc)
	path, done := casePath("doc" + n.ext)
	defer done()
	if err := os.WriteFile(path, data, 0o644); err != nil {
		panic(err)
	}
	var out string
	var err error
	textual := op == "text" || op == "markdown"
	sig, det := harness.Guard(func() {
		x := tabula.Open(path)
		defer x.Close()
		switch op {
		case "text":
			out, _, err = x.Text()
		case "markdown":
			out, _, err = x.ToMarkdown()
		case "document":
			doc, _, derr := x.Document()
			err = derr
			if derr == nil && doc == nil {
				err = fmt.Errorf("c20: nil document without error")
			}
		case "pagecount":
			var c int
			c, err = x.PageCount()
			out = fmt.Sprint(c)
		}
	})
	if sig != "" {
		fail(e, desc, sig, det, files(d, data))
		return
	}
	lower := strings.ToLower(n.ext)
	f, supported := extFormat[lower]
	own := supported && f == d.truth
	nontrivial := !(strings.Contains(pre, "pack=base") && own && n.class == "lower" && op == "text")
	show := out
	if len(show) > 300 {
		show = show[:300] + "..."
	}
	switch {
	case own:
		if err != nil {
			fail(e, desc, "refused-under-own-extension", fmt.Sprintf("a valid %v document named doc%s: %v", d.truth, n.ext, err), files(d, data))
			return
		}
		if textual && !hasAll(out, d.markers) {
			fail(e, desc, "own-extension-wrong-content", fmt.Sprintf("opened, but the output lacks the document's text %q: %q", d.markers, show), files(d, data))
			return
		}
		e.Pass(desc, nontrivial, "opened:"+d.kind)
	case supported:
		if err == nil {
			fail(e, desc, "opened-under-foreign-extension", fmt.Sprintf("a valid %v document named doc%s was parsed as %v without error: %q", d.truth, n.ext, f, show), files(d, data))
			return
		}
		e.Pass(desc, true, "refused:"+errClass(err))
	default:
		// no / unsupported extension: refused, or admitted by content — never parsed as something else
		if err == nil {
			if textual && !hasAll(out, d.markers) {
				fail(e, desc, "misparsed-without-extension", fmt.Sprintf("a valid %v document named doc%s opened without error but not as itself: %q", d.truth, n.ext, show), files(d, data))
				return
			}
			e.Pass(desc, true, "noext-opened-by-content")
			return
		}
		e.Pass(desc, true, "noext-refused:"+errClass(err))
	}
}

// errClass: coarse stable class of a refusal (outcome statistics only).
func errClass(err error) string {
	s := err.Error()
	switch {
	case strings.Contains(s, "file format mismatch"):
		return "format-mismatch"
	case strings.Contains(s, "unsupported file format"):
		return "unsupported-format"
	case strings.Contains(s, "failed to open"):
		return "reader-error"
	case strings.Contains(s, "failed to detect"):
		return "detect-error"
	}
	return "other-error"
}

// fail records a failing case; with C20_DUMP=<file> (development aid) it also appends
// "signature<TAB>descriptor" to that file.
func fail(e *harness.Env, desc, sig, detail string, fl map[string][]byte) {
	if p := os.Getenv("C20_DUMP"); p != "" {
		if f, err := os.OpenFile(p, os.O_APPEND|os.O_CREATE|os.O_WRONLY, 0o644); err == nil {
			f.WriteString(sig + "\t" + desc + "\t" + strings.SplitN(detail, "\n", 2)[0] + "\n")
			f.Close()
		}
	}
	e.Fail(desc, sig, detail, fl)
}
