package main

import (
	"archive/zip"
	"bytes"
	"fmt"
	"hash/crc32"
	"regexp"
	"strings"

	"github.com/tsawler/tabula"
	"github.com/tsawler/tabula/epubdoc"
	"github.com/tsawler/tabula/htmldoc"
	"github.com/tsawler/tabula/model"
)

// out is what one (document, mode) query returns through the three renderings.
type out struct {
	r   [3]string // text, markdown, flattened document
	err string
}

var viaNames = [3]string{"text", "md", "doc"}

func htmlMode(m int) htmldoc.NavigationExclusionMode {
	switch m {
	case modeNone:
		return htmldoc.NavigationExclusionNone
	case modeExplicit:
		return htmldoc.NavigationExclusionExplicit
	case modeStandard:
		return htmldoc.NavigationExclusionStandard
	}
	return htmldoc.NavigationExclusionAggressive
}

// flatten renders a model.Document as text: one line per element with its type and structure,
// so that two documents compare equal iff their element sequences are equal.
func flatten(d *model.Document) string {
	if d == nil {
		return "<nil document>"
	}
	var b strings.Builder
	for pi, p := range d.Pages {
		fmt.Fprintf(&b, "page %d\n", pi+1)
		for _, e := range p.Elements {
			switch x := e.(type) {
			case *model.Heading:
				fmt.Fprintf(&b, "H%d %s\n", x.Level, x.Text)
			case *model.Paragraph:
				fmt.Fprintf(&b, "P %s\n", x.Text)
			case *model.List:
				fmt.Fprintf(&b, "L ordered=%v\n", x.Ordered)
				for _, it := range x.Items {
					fmt.Fprintf(&b, "  I%d %s\n", it.Level, it.Text)
				}
			case *model.Table:
				b.WriteString("T\n")
				for _, row := range x.Rows {
					b.WriteString("  R")
					for _, c := range row {
						fmt.Fprintf(&b, " [%s rs=%d cs=%d h=%v]", c.Text, c.RowSpan, c.ColSpan, c.IsHeader)
					}
					b.WriteString("\n")
				}
			default:
				fmt.Fprintf(&b, "? %T\n", e)
			}
		}
	}
	return b.String()
}

func queryReader(r *htmldoc.Reader, m int, via int) (string, error) {
	opts := htmldoc.ExtractOptions{NavigationExclusion: htmlMode(m)}
	switch via {
	case 0:
		return r.TextWithOptions(opts)
	case 1:
		return r.MarkdownWithOptions(opts)
	}
	d, err := r.DocumentWithOptions(opts)
	if err != nil {
		return "", err
	}
	return flatten(d), nil
}

// fresh: a new reader per (document, mode); all three renderings.
func fresh(src string, m int) out {
	var o out
	r, err := htmldoc.OpenReader(strings.NewReader(src))
	if err != nil {
		o.err = "OpenReader: " + err.Error()
		return o
	}
	defer r.Close()
	for via := 0; via < 3; via++ {
		s, err := queryReader(r, m, via)
		if err != nil {
			o.err = viaNames[via] + ": " + err.Error()
			return o
		}
		o.r[via] = s
	}
	return o
}

// ---- tokens ---------------------------------------------------------------------------------------

var (
	tokRe  = regexp.MustCompile(`Tk[0-9][0-9][^ \t\n\r|\]]*`)
	zsRe   = regexp.MustCompile(`Zs[0-9][0-9]`)
	tagsRe = regexp.MustCompile(`</?[a-zA-Z][a-zA-Z0-9]*[ >/]`)
)

// tokens returns the leaf tokens in order of appearance. In the markdown rendering a table cell is
// followed by " |" and in the flattened document by " rs=": both are cut by the delimiter class
// (space). Trailing markdown escapes do not occur (the suffix alphabet has no '|').
//
// Text of neighbouring elements may come back without a separator between them ("Tk01Tk02": e.g. an item's own
// text directly followed by a <section> or <pre> child in markup without whitespace). The statement asks for the
// text to be returned once and in order, not for a separator, so a run is split at every token start.
func tokens(s string) []string {
	var out []string
	for _, run := range tokRe.FindAllString(s, -1) {
		start := 0
		for _, loc := range idRe.FindAllStringIndex(run, -1) {
			if loc[0] > start {
				out = append(out, run[start:loc[0]])
			}
			start = loc[0]
		}
		out = append(out, run[start:])
	}
	return out
}

var idRe = regexp.MustCompile(`Tk[0-9][0-9]`)

// lines returns the non-empty lines of a rendering: every renderer writes one unit per line
// (paragraph, heading, list item, table row).
func lines(s string) []string {
	var out []string
	for _, l := range strings.Split(s, "\n") {
		if strings.TrimSpace(l) != "" {
			out = append(out, l)
		}
	}
	return out
}

func ids(toks []string) []string {
	out := make([]string, len(toks))
	for i, t := range toks {
		out[i] = t[:4]
	}
	return out
}

func isSubseq(a, b []string) bool { // a is a subsequence of b
	j := 0
	for _, x := range a {
		for j < len(b) && b[j] != x {
			j++
		}
		if j == len(b) {
			return false
		}
		j++
	}
	return true
}

func eqStrs(a, b []string) bool {
	if len(a) != len(b) {
		return false
	}
	for i := range a {
		if a[i] != b[i] {
			return false
		}
	}
	return true
}

// ---- EPUB ------------------------------------------------------------------------------------------

const containerXML = `<?xml version="1.0" encoding="UTF-8"?>
<container version="1.0" xmlns="urn:oasis:names:tc:opendocument:xmlns:container">
  <rootfiles>
    <rootfile full-path="OEBPS/content.opf" media-type="application/oebps-package+xml"/>
  </rootfiles>
</container>
`

const opfXML = `<?xml version="1.0" encoding="UTF-8"?>
<package xmlns="http://www.idpf.org/2007/opf" version="3.0" unique-identifier="uid">
  <metadata xmlns:dc="http://purl.org/dc/elements/1.1/">
    <dc:identifier id="uid">urn:uuid:00000000-0000-4000-8000-0000000000c1</dc:identifier>
    <dc:title>t</dc:title>
    <dc:language>en</dc:language>
    <meta property="dcterms:modified">2020-01-01T00:00:00Z</meta>
  </metadata>
  <manifest>
    <item id="ch1" href="ch1.xhtml" media-type="application/xhtml+xml"/>
  </manifest>
  <spine>
    <itemref idref="ch1"/>
  </spine>
</package>
`

// makeEPUB writes a minimal EPUB: stored mimetype first, container.xml, OPF, one chapter.
func makeEPUB(chapter string, deflate bool) []byte {
	var buf bytes.Buffer
	zw := zip.NewWriter(&buf)
	mt := []byte("application/epub+zip")
	w, err := zw.CreateRaw(&zip.FileHeader{Name: "mimetype", Method: zip.Store, CRC32: crc32.ChecksumIEEE(mt),
		CompressedSize64: uint64(len(mt)), UncompressedSize64: uint64(len(mt))})
	if err != nil {
		panic(err)
	}
	w.Write(mt)
	method := zip.Store
	if deflate {
		method = zip.Deflate
	}
	for _, f := range [][2]string{{"META-INF/container.xml", containerXML}, {"OEBPS/content.opf", opfXML}, {"OEBPS/ch1.xhtml", chapter}} {
		w, err := zw.CreateHeader(&zip.FileHeader{Name: f[0], Method: method})
		if err != nil {
			panic(err)
		}
		w.Write([]byte(f[1]))
	}
	if err := zw.Close(); err != nil {
		panic(err)
	}
	return buf.Bytes()
}

func epubQuery(data []byte, m int, md bool) (string, error) {
	r, err := epubdoc.OpenReader(bytes.NewReader(data), int64(len(data)))
	if err != nil {
		return "", err
	}
	defer r.Close()
	if md {
		return r.MarkdownWithOptions(epubdoc.ExtractOptions{NavigationExclusion: m})
	}
	return r.TextWithOptions(epubdoc.ExtractOptions{NavigationExclusion: m})
}

// ---- facade -------------------------------------------------------------------------------------------

func facade(mk func() *tabula.Extractor) (o out) {
	t, _, err := mk().Text()
	if err != nil {
		o.err = "Text: " + err.Error()
		return
	}
	md, _, err := mk().ToMarkdown()
	if err != nil {
		o.err = "ToMarkdown: " + err.Error()
		return
	}
	d, _, err := mk().Document()
	if err != nil {
		o.err = "Document: " + err.Error()
		return
	}
	o.r = [3]string{t, md, flatten(d)}
	return
}
