// C19 — HTML extraction keeps content; navigation filtering only narrows.
//
// DOM trees are generated from a small grammar (content leaves with unique tokens, neutral and
// excludable wrappers, link-dense/sparse blocks), serialized to HTML by the check itself in several
// spellings, and run through every entry point and every navigation-exclusion mode of the real code.
// The expected result is read off the generated tree (never by parsing HTML in the check).
package main

import (
	"bytes"
	"fmt"
	"os"
	"path/filepath"
	"sort"
	"strings"

	"github.com/tsawler/tabula"
	"github.com/tsawler/tabula/epubdoc"
	"github.com/tsawler/tabula/htmldoc"
	"verif/internal/harness"
)

func main() { harness.Main("C19", "exploration", run) }

type checker struct {
	e   *harness.Env
	dir string // scratch directory for the file entry points
}

func run(e *harness.Env) {
	e.Rule = "documents = (A) every sequence of <=2 (quick) / <=3 (thorough) content blocks over 54 block shapes " +
		"(h1-h6, p, pre, code, pre>code, blockquote[>p], ul/ol depth 1-3, li with <p>, tables with thead/tbody/tfoot and row/col spans, lists as direct children of lists, nested lists / tables / quotes / pre reached through div, section, span inside an item, sibling lists in one parent, neutral containers, script/style noise); " +
		"(A2) every shape and pair x 8 inline variants (plain, named/decimal/hex entities, inline markup, script+comment inside, misnested inline tags, mixed) x 4 frames (full, fragment, head/body omitted, XHTML) x 8 spellings (omitted end tags, quoting, case, whitespace, cut off before the trailing end tags); " +
		"(B) one possibly-excludable wrapper (semantic elements, ARIA roles, 20 vocabulary words x 10 decorations x class/id, near-misses, link-dense/sparse blocks, attribute-carrying leaves) x 20 page skeletons (top-level, single wrapper, nested, inside and directly inside lists, only block child of a neutral container, with loose inline text beside it) x inner content; " +
		"(B2) every block shape inside and right after 8 representative wrappers x 4 skeletons; (C) ordered pairs of wrappers nested and as siblings x skeletons; (D) triple nesting. " +
		"Each document is queried in all 4 modes through htmldoc.OpenReader/Open, tabula.FromHTMLString/FromHTMLReader/Open(.html) and as an EPUB chapter (epubdoc.OpenReader, tabula.Open(.epub)); " +
		"one evaluation = one oracle clause (chk=...) on one document; non-trivial = any document except a single plain paragraph"
	e.Assumptions = []string{
		"the check's HTML serializer emits what the tree says (valid HTML5 / well-formed XHTML; optional end tags omitted only where the HTML standard allows)",
		"reference exclusion predicate = documented mode definitions (htmldoc/types.go, navigation.go comments): nav/aside/role=navigation|complementary anywhere, header/footer/role=banner|contentinfo only as child of body or of the single div/main wrapper, class/id vocabulary with letter boundaries, link density clearly above (>=70%, >=5 links) or clearly below (<=50% or <=2 links) the documented 60%/4 threshold",
		"archive/zip writes a valid container",
	}
	dir := harness.Scratch()
	defer os.RemoveAll(dir)
	c := &checker{e: e, dir: dir}
	c.spaceA()
	c.spaceA2()
	c.spaceB()
	c.spaceB2()
	c.spaceC()
	c.spaceD()
	c.spaceT()
	c.spaceM()
	c.spaceL()
}

// ---- one document ---------------------------------------------------------------------------------------

type docCase struct {
	desc       string
	body       *node
	st         style
	fr         frame
	nontrivial bool
	deep       bool // run the expensive entry points (files, facade, EPUB) too
	// loose: the page has loose inline text directly inside a container next to a possibly-excluded block.
	// Removing that block physically turns the container into a paragraph (a different classification of the
	// loose text, which the property does not govern), so the equality-with-pruned-document clause is not judged.
	loose bool
	// modal: the document has parts some mode excludes; deep documents of this kind also get the ordered-pairs
	// matrix on one epubdoc.Reader
	modal bool
}

// cache walk: visits every ordered pair of modes once (Eulerian circuit of the complete digraph with loops).
var cacheWalk = []int{0, 0, 1, 1, 2, 2, 3, 3, 0, 2, 0, 3, 1, 3, 2, 1, 0}

func (c *checker) doc(dc docCase) {
	e := c.e
	if !e.Replaying() && !e.Own(dc.desc) {
		return
	}
	if e.Replaying() {
		// replay addresses one clause: find out cheaply whether it belongs to this document
		hit := false
		c.clauses(dc, nil, func(desc string, ok bool, sig, detail, outcome string) {
			if e.Own(desc) {
				hit = true
			}
		})
		if !hit {
			return
		}
	}
	e.Begin(dc.desc)
	e.Add("documents", 1)
	src := render(dc.body, dc.st, dc.fr)
	files := map[string][]byte{"input.html": []byte(src)}
	var ob *observed
	sig, det := harness.Guard(func() { ob = c.observe(dc, src) })
	if sig != "" {
		e.Fail(dc.desc+" chk=run", sig, det, files)
		return
	}
	c.clauses(dc, ob, func(desc string, ok bool, sig, detail, outcome string) {
		if e.Replaying() && !e.Own(desc) {
			return
		}
		if ok {
			e.Pass(desc, dc.nontrivial, outcome)
		} else {
			e.Fail(desc, sig, detail+"\n--- input.html\n"+src, files)
		}
	})
	e.End()
}

// observed: everything the real code returned for one document.
type observed struct {
	ref         *refModel
	prim        [4]out         // fresh reader per mode
	pruned      [4]out         // mode None on the document with mode m's excluded subtrees removed
	prunedS     [4]string      // the pruned sources
	cache       []string       // result of step k of the cache walk on one shared reader
	pairBad     string         // first mismatch of the ordered-pairs-on-one-reader matrix (htmldoc)
	epubPairBad string         // the same for epubdoc.Reader
	entry       map[string]out // other entry points; key "ep/mode"
	facades     map[string]out
	epub        map[string]string // "text/m" "md/m"
	epubErr     string
}

func (c *checker) observe(dc docCase, src string) *observed {
	ob := &observed{ref: newRef(dc.body), entry: map[string]out{}, facades: map[string]out{}, epub: map[string]string{}}
	for m := 0; m < 4; m++ {
		ob.prim[m] = fresh(src, m)
	}
	for m := 1; m < 4; m++ {
		pb := prune(dc.body, ob.ref.skipper(m))
		ob.prunedS[m] = render(pb, dc.st, dc.fr)
		if ob.prunedS[m] == src {
			ob.pruned[m] = ob.prim[0]
		} else {
			ob.pruned[m] = fresh(ob.prunedS[m], modeNone)
		}
	}
	// cache walk on one reader
	if r, err := htmldoc.OpenReader(strings.NewReader(src)); err == nil {
		for k, m := range cacheWalk {
			s, err := queryReader(r, m, k%3)
			if err != nil {
				s = "error: " + err.Error()
			}
			ob.cache = append(ob.cache, s)
		}
		r.Close()
	}
	if !dc.deep {
		return ob
	}
	// every ordered pair of modes (incl. the same mode twice) on ONE reader, mode a being the reader's very first
	// query: both the first and the second result must equal the fresh-reader result, in all three renderings
	for a := 0; a < 4 && ob.pairBad == ""; a++ {
		r, err := htmldoc.OpenReader(strings.NewReader(src))
		if err != nil {
			ob.pairBad = "OpenReader: " + err.Error()
			break
		}
		for via := 0; via < 3; via++ {
			if s, _ := queryReader(r, a, via); s != ob.prim[a].r[via] && ob.pairBad == "" {
				ob.pairBad = fmt.Sprintf("new reader, first queries in mode %s: %s differs from another fresh reader\n--- got\n%s\n--- fresh\n%s", modeNames[a], viaNames[via], s, ob.prim[a].r[via])
			}
		}
		for b := 0; b < 4; b++ {
			for via := 0; via < 3; via++ {
				if s, _ := queryReader(r, b, via); s != ob.prim[b].r[via] && ob.pairBad == "" {
					ob.pairBad = fmt.Sprintf("one reader queried in mode %s first, then in mode %s: %s differs from a fresh reader in mode %s\n--- after %s\n%s\n--- fresh\n%s", modeNames[a], modeNames[b], viaNames[via], modeNames[b], modeNames[a], s, ob.prim[b].r[via])
				}
			}
		}
		r.Close()
	}
	// file entry points
	hp := filepath.Join(c.dir, "x.html")
	if err := os.WriteFile(hp, []byte(src), 0o644); err != nil {
		panic(err)
	}
	for m := 0; m < 4; m++ {
		var o out
		r, err := htmldoc.Open(hp)
		if err != nil {
			o.err = err.Error()
		} else {
			for via := 0; via < 3; via++ {
				s, err := queryReader(r, m, via)
				if err != nil {
					o.err = err.Error()
				}
				o.r[via] = s
			}
			r.Close()
		}
		ob.entry[fmt.Sprintf("open/%d", m)] = o
	}
	ob.facades["FromHTMLString"] = facade(func() *tabula.Extractor { return tabula.FromHTMLString(src) })
	ob.facades["FromHTMLReader"] = facade(func() *tabula.Extractor { return tabula.FromHTMLReader(strings.NewReader(src)) })
	ob.facades["Open.html"] = facade(func() *tabula.Extractor { return tabula.Open(hp) })
	// EPUB: the same body as a well-formed XHTML chapter
	chapter := render(dc.body, dc.st, frames[3])
	data := makeEPUB(chapter, len(src)%2 == 0)
	for m := 0; m < 4; m++ {
		for _, md := range []bool{false, true} {
			s, err := epubQuery(data, m, md)
			if err != nil {
				ob.epubErr = err.Error()
			}
			k := "text"
			if md {
				k = "md"
			}
			ob.epub[fmt.Sprintf("%s/%d", k, m)] = s
		}
	}
	if dc.modal {
		// ordered pairs of modes on ONE epubdoc.Reader (mode a = the reader's very first call), Text and Markdown
		for a := 0; a < 4 && ob.epubPairBad == ""; a++ {
			r, err := epubdoc.OpenReader(bytes.NewReader(data), int64(len(data)))
			if err != nil {
				ob.epubPairBad = "OpenReader: " + err.Error()
				break
			}
			call := func(m int, md bool) (string, string) {
				if md {
					s, _ := r.MarkdownWithOptions(epubdoc.ExtractOptions{NavigationExclusion: m})
					return s, fmt.Sprintf("md/%d", m)
				}
				s, _ := r.TextWithOptions(epubdoc.ExtractOptions{NavigationExclusion: m})
				return s, fmt.Sprintf("text/%d", m)
			}
			seq := []int{a, 0, 1, 2, 3}
			for i, m := range seq {
				for _, md := range []bool{false, true} {
					if s, k := call(m, md); s != ob.epub[k] && ob.epubPairBad == "" {
						ob.epubPairBad = fmt.Sprintf("one epubdoc.Reader, first call in mode %s, call %d in mode %s (%s) differs from a fresh reader\n--- on the used reader\n%s\n--- fresh reader\n%s", modeNames[a], i, modeNames[m], k, s, ob.epub[k])
					}
				}
			}
			r.Close()
		}
	}
	ep := filepath.Join(c.dir, "x.epub")
	if err := os.WriteFile(ep, data, 0o644); err != nil {
		panic(err)
	}
	ob.facades["Open.epub"] = facade(func() *tabula.Extractor { return tabula.Open(ep) })
	return ob
}

// clauses evaluates every oracle clause of one document. With ob == nil it only enumerates the clause
// descriptors (replay lookup); descriptors never depend on observed data.
func (c *checker) clauses(dc docCase, ob *observed, report func(desc string, ok bool, sig, detail, outcome string)) {
	dry := ob == nil
	sub := func(kv ...string) string {
		n := len(dc.desc)
		for _, s := range kv {
			n += len(s) + 1
		}
		var sb strings.Builder
		sb.Grow(n)
		sb.WriteString(dc.desc)
		for i := 0; i+1 < len(kv); i += 2 {
			sb.WriteByte(' ')
			sb.WriteString(kv[i])
			sb.WriteByte('=')
			sb.WriteString(kv[i+1])
		}
		return sb.String()
	}

	var all []*node
	leaves(dc.body, nil, &all)
	pos := map[string]int{}
	byID := map[string]*node{}
	kindSet := map[string]bool{}
	for i, l := range all {
		if !l.floating {
			pos[l.tok[:4]] = i
		}
		byID[l.tok[:4]] = l
		kindSet[l.kind] = true
	}
	var kinds []string
	for k := range kindSet {
		kinds = append(kinds, k)
	}
	sort.Strings(kinds)

	if !dry && ob.prim[0].err != "" {
		report(sub("chk", "open"), false, "error-on-valid-html", ob.prim[0].err, "")
		return
	}

	// (1) mode None keeps every content element: once (per leaf kind), exact text, document order, no script/style
	for via := 0; via < 3; via++ {
		var toks []string
		count := map[string]int{}
		if !dry {
			toks = tokens(ob.prim[0].r[via])
			for _, id := range ids(toks) {
				count[id]++
			}
		}
		for _, k := range kinds {
			d := sub("chk", "keep", "via", viaNames[via], "kind", k)
			if dry {
				report(d, true, "", "", "")
				continue
			}
			var lost, dup []string
			for _, l := range all {
				if l.kind != k {
					continue
				}
				switch n := count[l.tok[:4]]; {
				case n == 0:
					lost = append(lost, l.tok)
				case n > 1:
					dup = append(dup, l.tok)
				}
			}
			switch {
			case len(lost) > 0:
				report(d, false, "lost", fmt.Sprintf("mode None, %s: text of %s element(s) %q is not returned\noutput:\n%s", viaNames[via], k, lost, ob.prim[0].r[via]), "")
			case len(dup) > 0:
				report(d, false, "duplicated", fmt.Sprintf("mode None, %s: text of %s element(s) %q is returned more than once\noutput:\n%s", viaNames[via], k, dup, ob.prim[0].r[via]), "")
			default:
				report(d, true, "", "", "keep:"+kindClass(k))
			}
		}
		d := sub("chk", "exact", "via", viaNames[via])
		if dry {
			report(d, true, "", "", "")
		} else {
			bad := ""
			for _, t := range toks {
				l := byID[t[:4]]
				if l == nil {
					bad = fmt.Sprintf("token %q was never generated", t)
				} else if t != l.tok {
					bad = fmt.Sprintf("text of %s is %q, want %q (entities decoded, markup removed)", l.kind, t, l.tok)
				}
			}
			if tagsRe.MatchString(stripExpected(ob.prim[0].r[via], all)) {
				bad = "markup in output"
			}
			if bad != "" {
				report(d, false, "garbled-text", fmt.Sprintf("mode None, %s: %s\noutput:\n%s", viaNames[via], bad, ob.prim[0].r[via]), "")
			} else {
				report(d, true, "", "", "exact")
			}
		}
		d = sub("chk", "order", "via", viaNames[via])
		if dry {
			report(d, true, "", "", "")
		} else {
			last, ok := -1, true
			seen := map[string]bool{}
			for _, id := range ids(toks) {
				if seen[id] {
					continue
				}
				seen[id] = true
				p, known := pos[id]
				if !known {
					continue
				}
				if p < last {
					ok = false
				}
				last = p
			}
			if !ok {
				report(d, false, "out-of-order", fmt.Sprintf("mode None, %s: tokens %v are not in document order\noutput:\n%s", viaNames[via], ids(toks), ob.prim[0].r[via]), "")
			} else {
				report(d, true, "", "", "order")
			}
		}
	}
	d := sub("chk", "noscript")
	if dry {
		report(d, true, "", "", "")
	} else {
		leak := ""
		for m := 0; m < 4; m++ {
			for via := 0; via < 3; via++ {
				if z := zsRe.FindString(ob.prim[m].r[via]); z != "" {
					leak = fmt.Sprintf("mode %s, %s: script/style/comment token %s in output:\n%s", modeNames[m], viaNames[via], z, ob.prim[m].r[via])
				}
			}
		}
		if leak != "" {
			report(d, false, "script-style-leak", leak, "")
		} else {
			report(d, true, "", "", "noscript")
		}
	}

	// (2)-(4) per stricter mode
	nExcl := [4]int{}
	for m := 1; m < 4; m++ {
		if !dry {
			var kept []*node
			leaves(dc.body, ob.ref.skipper(m), &kept)
			nExcl[m] = len(all) - len(kept)
			if ob.ref.ambig && m == 3 {
				c.e.Add("ambiguous_density_documents", 1)
			}
		}
		if dry {
			report(sub("chk", "excl", "mode", modeNames[m]), true, "", "", "")
		} else if !ob.ref.ambig {
			sig, det := c.exclClause(dc, ob, m, all, byID)
			report(sub("chk", "excl", "mode", modeNames[m]), sig == "", sig, det, fmt.Sprintf("excl:%s:%s", modeNames[m], bucket(nExcl[m])))
		}
		// monotone: subsequence of the next weaker mode (pure statement, no reference predicate)
		d := sub("chk", "mono", "mode", modeNames[m])
		if dry {
			report(d, true, "", "", "")
		} else {
			bad := ""
			for via := 0; via < 3; via++ {
				a, b := tokens(ob.prim[m].r[via]), tokens(ob.prim[m-1].r[via])
				if !isSubseq(a, b) {
					bad = fmt.Sprintf("%s: mode %s returns %v, which is not a subsequence of mode %s: %v", viaNames[via], modeNames[m], a, modeNames[m-1], b)
				}
				// the same on the returned units (one line per paragraph / heading / list item / table row)
				if la, lb := lines(ob.prim[m].r[via]), lines(ob.prim[m-1].r[via]); !isSubseq(la, lb) {
					bad = fmt.Sprintf("%s: the units (lines) mode %s returns are not a subsequence of the units of mode %s\n--- %s\n%s\n--- %s\n%s", viaNames[via], modeNames[m], modeNames[m-1], modeNames[m], ob.prim[m].r[via], modeNames[m-1], ob.prim[m-1].r[via])
				}
			}
			if ob.prim[m].err != "" {
				bad = "error: " + ob.prim[m].err
			}
			if bad != "" {
				report(d, false, "not-subsequence", bad, "")
			} else {
				cls := "equal"
				if len(tokens(ob.prim[m].r[0])) < len(tokens(ob.prim[m-1].r[0])) {
					cls = "narrower"
				}
				report(d, true, "", "", "mono:"+modeNames[m]+":"+cls)
			}
		}
		// unchanged outside: identical to mode None on the document with the excluded subtrees removed
		// no leak: nothing from inside a subtree the mode excludes is returned (judged on its own, independent of
		// what mode None returned)
		d = sub("chk", "noleak", "mode", modeNames[m])
		if dry {
			report(d, true, "", "", "")
		} else if !ob.ref.ambig {
			var kept []*node
			leaves(dc.body, ob.ref.skipper(m), &kept)
			keptSet := map[string]bool{}
			for _, l := range kept {
				keptSet[l.tok[:4]] = true
			}
			bad := ""
			for via := 0; via < 3 && bad == ""; via++ {
				for _, id := range ids(tokens(ob.prim[m].r[via])) {
					if l := byID[id]; l != nil && !keptSet[id] {
						bad = fmt.Sprintf("%s: mode %s returns %s, the text of a %s element inside an excluded subtree\noutput:\n%s", viaNames[via], modeNames[m], id, l.kind, ob.prim[m].r[via])
						break
					}
				}
			}
			if bad != "" {
				report(d, false, "leak-from-excluded-subtree", bad, "")
			} else {
				report(d, true, "", "", "noleak:"+bucket(nExcl[m]))
			}
		}
		if dc.loose {
			continue
		}
		d = sub("chk", "same", "mode", modeNames[m])
		if dry {
			report(d, true, "", "", "")
		} else if !ob.ref.ambig {
			bad := ""
			for via := 0; via < 3; via++ {
				if ob.prim[m].r[via] != ob.pruned[m].r[via] {
					bad = fmt.Sprintf("%s: mode %s on the document differs from mode None on the document without the excluded subtrees\n--- mode %s\n%s\n--- None on pruned document\n%s\n--- pruned document\n%s",
						viaNames[via], modeNames[m], modeNames[m], ob.prim[m].r[via], ob.pruned[m].r[via], ob.prunedS[m])
					break
				}
			}
			if bad != "" {
				report(d, false, "differs-from-pruned-document", bad, "")
			} else {
				report(d, true, "", "", "same:"+bucket(nExcl[m]))
			}
		}
	}

	// (5) reader cache
	d = sub("chk", "cache")
	if dry {
		report(d, true, "", "", "")
	} else {
		bad := ""
		for k, m := range cacheWalk {
			if k < len(ob.cache) && ob.cache[k] != ob.prim[m].r[k%3] {
				bad = fmt.Sprintf("one reader queried with modes %v: step %d (mode %s, %s) differs from a fresh reader\n--- shared reader\n%s\n--- fresh reader\n%s", modesUpTo(k), k, modeNames[m], viaNames[k%3], ob.cache[k], ob.prim[m].r[k%3])
				break
			}
		}
		if len(ob.cache) != len(cacheWalk) {
			bad = "shared reader could not be opened"
		}
		if bad != "" {
			report(d, false, "cache-depends-on-history", bad, "")
		} else {
			report(d, true, "", "", "cache")
		}
	}
	if !dc.deep {
		return
	}
	d = sub("chk", "pairs", "ep", "htmldoc")
	if dry {
		report(d, true, "", "", "")
	} else if ob.pairBad != "" {
		report(d, false, "cache-depends-on-history", ob.pairBad, "")
	} else {
		report(d, true, "", "", "pairs:htmldoc")
	}
	if dc.modal {
		d = sub("chk", "pairs", "ep", "epubdoc")
		if dry {
			report(d, true, "", "", "")
		} else if ob.epubPairBad != "" {
			report(d, false, "cache-depends-on-history", ob.epubPairBad, "")
		} else {
			report(d, true, "", "", "pairs:epubdoc")
		}
	}

	// (6) entry points
	for m := 0; m < 4; m++ {
		d := sub("chk", "entry", "ep", "htmldoc.Open", "mode", modeNames[m])
		if dry {
			report(d, true, "", "", "")
			continue
		}
		o := ob.entry[fmt.Sprintf("open/%d", m)]
		if o.err != "" || o.r != ob.prim[m].r {
			report(d, false, "entry-point-differs", fmt.Sprintf("htmldoc.Open(file) in mode %s differs from OpenReader on the same bytes (err=%q)\n--- Open\n%s\n--- OpenReader\n%s", modeNames[m], o.err, o.r[0], ob.prim[m].r[0]), "")
		} else {
			report(d, true, "", "", "entry:open")
		}
	}
	for _, ep := range []string{"FromHTMLString", "FromHTMLReader", "Open.html", "Open.epub"} {
		for via := 0; via < 3; via++ {
			d := sub("chk", "entry", "ep", ep, "via", viaNames[via])
			if dry {
				report(d, true, "", "", "")
				continue
			}
			o := ob.facades[ep]
			if o.err != "" {
				report(d, false, "error-on-valid-html", ep+": "+o.err, "")
				continue
			}
			// the facade has no mode switch: its result must be the result of one of the four modes
			got := tokens(o.r[via])
			which := -1
			for m := 0; m < 4 && which < 0; m++ {
				if ep == "Open.epub" { // other frame (XHTML chapter): compare the tokens
					if eqStrs(got, tokens(ob.prim[m].r[via])) {
						which = m
					}
				} else if o.r[via] == ob.prim[m].r[via] {
					which = m
				}
			}
			if which < 0 {
				report(d, false, "entry-point-differs", fmt.Sprintf("tabula %s %s corresponds to no exclusion mode of htmldoc on the same bytes\n--- %s\n%s\n--- htmldoc None\n%s\n--- htmldoc Standard\n%s", ep, viaNames[via], ep, o.r[via], ob.prim[0].r[via], ob.prim[2].r[via]), "")
			} else {
				report(d, true, "", "", "entry:facade")
			}
		}
	}
	for m := 0; m < 4; m++ {
		for vi, k := range []string{"text", "md"} {
			d := sub("chk", "entry", "ep", "epubdoc", "via", k, "mode", modeNames[m])
			if dry {
				report(d, true, "", "", "")
				continue
			}
			if ob.epubErr != "" {
				report(d, false, "error-on-valid-epub", ob.epubErr, "")
				continue
			}
			got := ob.epub[fmt.Sprintf("%s/%d", k, m)]
			want := ob.prim[m].r[vi]
			ok := eqStrs(tokens(got), tokens(want))
			if dc.fr.xhtml {
				ok = ok && got == strings.TrimSpace(want)
			}
			if !ok {
				report(d, false, "entry-point-differs", fmt.Sprintf("EPUB chapter, mode %s, %s differs from the same body as HTML\n--- epub\n%s\n--- html\n%s", modeNames[m], k, got, want), "")
			} else {
				report(d, true, "", "", "entry:epub")
			}
		}
	}
}

// exclClause: mode m returns what mode None returned minus the leaves inside subtrees the reference
// predicate excludes (so that content defects of mode None are not reported a second time here).
func (c *checker) exclClause(dc docCase, ob *observed, m int, all []*node, byID map[string]*node) (string, string) {
	var kept []*node
	leaves(dc.body, ob.ref.skipper(m), &kept)
	keptSet := map[string]bool{}
	for _, l := range kept {
		keptSet[l.tok[:4]] = true
	}
	for via := 0; via < 3; via++ {
		var exp []string
		for _, id := range ids(tokens(ob.prim[0].r[via])) {
			if keptSet[id] || byID[id] == nil {
				exp = append(exp, id)
			}
		}
		got := ids(tokens(ob.prim[m].r[via]))
		if eqStrs(got, exp) {
			continue
		}
		var miss, extra []string
		gs, es := map[string]bool{}, map[string]bool{}
		for _, x := range got {
			gs[x] = true
		}
		for _, x := range exp {
			es[x] = true
		}
		for _, x := range exp {
			if !gs[x] && byID[x] != nil {
				miss = append(miss, x+"("+byID[x].kind+")")
			}
		}
		for _, x := range got {
			if !es[x] && byID[x] != nil {
				extra = append(extra, x+"("+byID[x].kind+")")
			}
		}
		sig := "wrong-exclusion"
		switch {
		case len(miss) > 0 && len(extra) == 0:
			sig = "excluded-too-much"
		case len(extra) > 0 && len(miss) == 0:
			sig = "excluded-too-little"
		}
		return sig, fmt.Sprintf("mode %s, %s: wrongly dropped %v, wrongly kept %v\nexpected ids %v\ngot ids      %v\noutput:\n%s", modeNames[m], viaNames[via], miss, extra, exp, got, ob.prim[m].r[via])
	}
	return "", ""
}

func modesUpTo(k int) []string {
	var out []string
	for i := 0; i <= k && i < len(cacheWalk); i++ {
		out = append(out, modeNames[cacheWalk[i]])
	}
	return out
}

func bucket(n int) string {
	switch {
	case n == 0:
		return "0"
	case n <= 2:
		return "1-2"
	case n <= 5:
		return "3-5"
	}
	return "6+"
}

// kindClass collapses leaf kinds to their element for the outcome statistics.
func kindClass(k string) string {
	if i := strings.IndexAny(k, "@+/"); i > 0 {
		k = k[:i]
	}
	return k
}

// stripExpected removes the expected leaf texts (which legitimately contain '<' and '>') from s.
func stripExpected(s string, all []*node) string {
	for _, l := range all {
		s = strings.ReplaceAll(s, l.tok, "")
	}
	return s
}
