package main

import (
	"fmt"
	"strings"

	"verif/internal/harness"
)

// ---- spaces ---------------------------------------------------------------------------------------------

func bodyOf(b *builder, shapes []shape) *node {
	body := el("body")
	for _, s := range shapes {
		addAll(body, s.build(b))
	}
	return body
}

func seqName(shapes []shape) string {
	var n []string
	for _, s := range shapes {
		n = append(n, s.name)
	}
	return strings.Join(n, ",")
}

// spaceA: every sequence of content block shapes, plain spelling.
func (c *checker) spaceA() {
	maxLen := 2
	if c.e.Thorough() {
		maxLen = 3
	}
	var rec func(cur []shape)
	rec = func(cur []shape) {
		if len(cur) > 0 {
			desc := harness.D("space", "A", "seq", seqName(cur), "iv", "plain", "frame", "full", "style", "tidy")
			b := &builder{}
			c.doc(docCase{desc: desc, body: bodyOf(b, cur), st: styles[0], fr: frames[0],
				nontrivial: !(len(cur) == 1 && cur[0].name == "p"), deep: len(cur) <= 2})
		}
		if len(cur) == maxLen {
			return
		}
		for _, s := range contentShapes {
			rec(append(cur[:len(cur):len(cur)], s))
		}
	}
	rec(nil)
}

// spaceA2: shapes and pairs x inline variant x frame x spelling.
func (c *checker) spaceA2() {
	var seqs [][]shape
	for _, s := range contentShapes {
		seqs = append(seqs, []shape{s})
	}
	if c.e.Thorough() {
		for _, s := range contentShapes {
			for _, t := range contentShapes {
				seqs = append(seqs, []shape{s, t})
			}
		}
	} else {
		// quick: each shape followed by a paragraph and by a list (the two neighbours that matter for omitted end tags)
		for _, s := range contentShapes {
			seqs = append(seqs, []shape{s, shapeByName("p")}, []shape{shapeByName("ul2"), s})
		}
	}
	seenSeq := uniq{}
	for _, seq := range seqs {
		if !seenSeq.first(seqName(seq)) {
			continue
		}
		for iv := range inlineVariants {
			for _, fr := range frames {
				for _, st := range styles {
					if iv == 0 && fr.name == "full" && st.name == "tidy" {
						continue // in space A
					}
					if fr.xhtml && (st.omitEnd || st.upper || st.quote == 2 || st.cutoff) {
						continue // not well-formed
					}
					desc := harness.D("space", "A2", "seq", seqName(seq), "iv", inlineVariants[iv], "frame", fr.name, "style", st.name)
					b := &builder{iv: iv}
					c.doc(docCase{desc: desc, body: bodyOf(b, seq), st: st, fr: fr, nontrivial: true, deep: len(seq) == 1})
				}
			}
		}
	}
}

// uniq guards against generating the same document twice under one descriptor.
type uniq map[string]bool

func (u uniq) first(desc string) bool {
	if u[desc] {
		return false
	}
	u[desc] = true
	return true
}

func isContainerWrapper(w wrapper) bool {
	return !w.list && !w.leafy && !strings.Contains(w.name, ".dense") && !strings.Contains(w.name, ".sparse")
}

func pInner(b *builder) []*node { return one(b.leaf("p", "p")) }

// spaceB: one possibly-excludable wrapper x page skeleton x inner content (+ spelling/inline deviations).
func (c *checker) spaceB() {
	thorough := c.e.Thorough()
	var ws []wrapper
	ws = append(ws, structWrappers...)
	ws = append(ws, mixedWrappers...)
	ws = append(ws, attrWrappers(true)...)
	for wi, w := range ws {
		for _, sk := range skeletons {
			if sk.inList && !w.list {
				continue
			}
			inners := innerShapes
			if !isContainerWrapper(w) {
				inners = innerShapes[:1]
			}
			for ii, in := range inners {
				type variant struct {
					iv int
					fr frame
					st style
				}
				vs := []variant{{0, frames[0], styles[0]}}
				// spelling / inline deviations: for the structural and mixed wrappers everywhere, for the
				// vocabulary grid in the thorough tier only
				if ii == 0 && (wi < len(structWrappers)+len(mixedWrappers) || thorough) {
					vs = append(vs, variant{0, frames[1], styles[6]}, variant{4, frames[3], styles[5]}, variant{0, frames[2], styles[1]})
					if thorough {
						vs = append(vs, variant{5, frames[0], styles[3]}, variant{1, frames[1], styles[2]}, variant{7, frames[2], styles[4]}, variant{6, frames[0], styles[7]})
					}
				}
				for vi, v := range vs {
					desc := harness.D("space", "B", "skel", sk.name, "w", w.name, "inner", in.name, "iv", inlineVariants[v.iv], "frame", v.fr.name, "style", v.st.name)
					b := &builder{iv: v.iv}
					w, in := w, in
					body := sk.build(b, func(b *builder) []*node { return one(w.build(b, in.build)) })
					c.doc(docCase{desc: desc, body: body, st: v.st, fr: v.fr, nontrivial: true, loose: sk.loose, modal: true, deep: ii == 0 && vi == 0 && (thorough || wi < len(structWrappers)+len(mixedWrappers) || sk.name == "body")})
				}
			}
		}
	}
}

// spaceB2: every content block shape inside (and next to) representative wrappers, so that list / table state
// is exercised across an excluded block.
func (c *checker) spaceB2() {
	all := append(append(append([]wrapper{}, structWrappers...), mixedWrappers...), attrWrappers(true)...)
	for _, skn := range []string{"body", "between-lists", "div>div", "wrapdiv"} {
		var sk skeleton
		for _, s := range skeletons {
			if s.name == skn {
				sk = s
			}
		}
		for _, wn := range []string{"div", "nav", "header", "footer", "div.class=menu", "div.role=contentinfo", "div.class=navy", "article"} {
			var w wrapper
			for _, x := range all {
				if x.name == wn {
					w = x
				}
			}
			for _, in := range contentShapes {
				for _, after := range []string{"none", "same"} {
					desc := harness.D("space", "B2", "skel", sk.name, "w", w.name, "inner", in.name, "after", after)
					b := &builder{}
					w, in := w, in
					mid := func(b *builder) []*node {
						out := one(w.build(b, in.build))
						if after == "same" {
							out = append(out, in.build(b)...) // the same shape again right after the wrapper
						}
						return out
					}
					c.doc(docCase{desc: desc, body: sk.build(b, mid), st: styles[0], fr: frames[0], nontrivial: true, modal: true, deep: skn == "body" && after == "none"})
				}
			}
		}
	}
}

// pairAlphabet: representative wrappers for the pair/triple spaces.
func pairAlphabet(thorough bool) []wrapper {
	names := []string{"div", "section", "nav", "aside", "header", "footer",
		"div.role=navigation", "div.role=banner", "div.role=contentinfo", "header.role=banner",
		"div.class=menu", "div.id=sidebar", "div.class=site-header", "div.class=footer", "div.class=navy", "div.class=prefooter",
		"div.class=content.id=nav", "ul.class=menu", "ul.dense", "div.dense", "ul.sparse", "p.class=footer", "ul>li.class=menu-item"}
	if thorough {
		names = append(names, "article", "main", "div.role=complementary", "div.role=main", "footer.role=contentinfo", "section.role=contentinfo",
			"div.id=footer", "div.class=widget-area", "div.class=menubar", "div.class=post+nav+wide", "section.class=sidebar", "header.class=site-header",
			"ul.role=navigation", "ol.dense", "section.dense", "div.sparse", "ul.fewlinks", "h2.id=navigation", "table.class=sidebar", "ul.class=menubar")
	}
	var all []wrapper
	all = append(all, structWrappers...)
	all = append(all, mixedWrappers...)
	all = append(all, attrWrappers(true)...)
	var out []wrapper
	for _, n := range names {
		found := false
		for _, w := range all {
			if w.name == n {
				out = append(out, w)
				found = true
				break
			}
		}
		if !found {
			panic("pairAlphabet: no wrapper " + n)
		}
	}
	return out
}

// spaceC: ordered pairs of wrappers, nested (X1[X2[p], p]) and as siblings (X1[p], X2[p]).
func (c *checker) spaceC() {
	thorough := c.e.Thorough()
	ws := pairAlphabet(thorough)
	skels := []string{"body", "wrapdiv", "div+p", "div>div", "article+p", "only-div", "loose-div-before"}
	if thorough {
		skels = append(skels, "wrapmain", "body-first-last", "between-lists", "only-section", "only-article", "wrapdiv-only", "loose-div-after", "loose-div-span")
	}
	for _, skn := range skels {
		var sk skeleton
		for _, s := range skeletons {
			if s.name == skn {
				sk = s
			}
		}
		for _, w1 := range ws {
			for _, w2 := range ws {
				for _, arr := range []string{"nested", "siblings"} {
					if arr == "nested" && !isContainerWrapper(w1) {
						continue
					}
					desc := harness.D("space", "C", "skel", sk.name, "arr", arr, "w1", w1.name, "w2", w2.name)
					b := &builder{}
					w1, w2 := w1, w2
					var mid func(b *builder) []*node
					if arr == "nested" {
						mid = func(b *builder) []*node {
							return one(w1.build(b, func(b *builder) []*node {
								return []*node{w2.build(b, pInner), b.leaf("p", "p")}
							}))
						}
					} else {
						mid = func(b *builder) []*node {
							return []*node{w1.build(b, pInner), w2.build(b, pInner)}
						}
					}
					c.doc(docCase{desc: desc, body: sk.build(b, mid), st: styles[0], fr: frames[0], nontrivial: true, loose: sk.loose, modal: true, deep: thorough && skn == "body"})
				}
			}
		}
	}
}

// spaceD: triple nesting X1[X2[X3[p], p], p] over container wrappers.
func (c *checker) spaceD() {
	thorough := c.e.Thorough()
	names := []string{"div", "nav", "header", "footer", "div.role=banner", "div.class=menu", "div.class=navy", "article"}
	if thorough {
		names = append(names, "section", "aside", "div.role=contentinfo", "div.id=sidebar", "div.class=site-header", "main", "div.role=navigation", "div.class=prefooter")
	}
	all := append(append(append([]wrapper{}, structWrappers...), mixedWrappers...), attrWrappers(true)...)
	var ws []wrapper
	for _, n := range names {
		for _, w := range all {
			if w.name == n {
				ws = append(ws, w)
				break
			}
		}
	}
	last := append(append([]wrapper{}, ws...), pairAlphabet(false)[17:]...) // innermost may also be a list/dense/leaf wrapper
	for _, skn := range []string{"body", "wrapdiv"} {
		var sk skeleton
		for _, s := range skeletons {
			if s.name == skn {
				sk = s
			}
		}
		for _, w1 := range ws {
			for _, w2 := range ws {
				for _, w3 := range last {
					desc := harness.D("space", "D", "skel", sk.name, "w1", w1.name, "w2", w2.name, "w3", w3.name)
					b := &builder{}
					w1, w2, w3 := w1, w2, w3
					mid := func(b *builder) []*node {
						return one(w1.build(b, func(b *builder) []*node {
							return []*node{w2.build(b, func(b *builder) []*node {
								return []*node{w3.build(b, pInner), b.leaf("p", "p")}
							}), b.leaf("p", "p")}
						}))
					}
					c.doc(docCase{desc: desc, body: sk.build(b, mid), st: styles[0], fr: frames[0], nontrivial: true})
				}
			}
		}
	}
}

// spaceT: tables with row/column spans, including inconsistent layouts browsers accept (a row pushed to the
// right by rowspans from above beyond every row's own colspan sum, staggered rowspans, a rowspan reaching past
// the last row). Every cell token must come back exactly once, in order, in Text, Markdown and Document.
// rows <= 3; quick: <= 2 cells per row and <= 2 spanned cells per table; thorough: the full product for <= 2 cells
// per row, and <= 3 cells per row with <= 2 spanned cells.
func (c *checker) spaceT() {
	type span struct{ rs, cs int }
	spans := []span{{1, 1}, {2, 1}, {1, 2}, {2, 2}, {3, 1}}
	thorough := c.e.Thorough()
	seen := uniq{}
	emit := func(layout [][]span, hdr string) {
		var parts []string
		for _, r := range layout {
			var cs []string
			for _, s := range r {
				cs = append(cs, fmt.Sprintf("%dx%d", s.rs, s.cs))
			}
			parts = append(parts, strings.Join(cs, ","))
		}
		desc := harness.D("space", "T", "hdr", hdr, "rows", strings.Join(parts, "/"))
		if !seen.first(desc) {
			return
		}
		b := &builder{}
		t := el("table")
		var body *node
		for i, r := range layout {
			tr := el("tr")
			for _, s := range r {
				tag, sect := "td", "tbody"
				if hdr == "thead" && i == 0 {
					tag, sect = "th", "thead"
				}
				tr.add(cell(b, tag, sect, s.rs, s.cs))
			}
			switch {
			case hdr == "thead" && i == 0:
				t.add(el("thead", tr))
			case hdr == "thead":
				if body == nil {
					body = el("tbody")
					t.add(body)
				}
				body.add(tr)
			default:
				t.add(tr)
			}
		}
		doc := el("body", b.leaf("p", "p"), markTable(t), b.leaf("p", "p"))
		c.doc(docCase{desc: desc, body: doc, st: styles[0], fr: frames[0], nontrivial: true})
	}
	var gen func(layout [][]span, rows, maxCells, devLeft int)
	gen = func(layout [][]span, rows, maxCells, devLeft int) {
		if len(layout) == rows {
			for _, hdr := range []string{"none", "thead"} {
				if hdr == "thead" && rows < 2 {
					continue
				}
				emit(layout, hdr)
			}
			return
		}
		for n := 1; n <= maxCells; n++ {
			var row func(cur []span, dev int)
			row = func(cur []span, dev int) {
				if len(cur) == n {
					gen(append(layout[:len(layout):len(layout)], append([]span{}, cur...)), rows, maxCells, dev)
					return
				}
				for si, s := range spans {
					if si > 0 && dev == 0 {
						break
					}
					d := dev
					if si > 0 && d > 0 {
						d--
					}
					row(append(cur, s), d)
				}
			}
			row(nil, devLeft)
		}
	}
	for rows := 2; rows <= 3; rows++ {
		if thorough {
			gen(nil, rows, 2, -1) // full product (negative budget never reaches 0)
			gen(nil, rows, 3, 2)
		} else {
			gen(nil, rows, 2, 2)
		}
	}
}

// spaceM: mixed-content containers (own text + structured child + own text) x placement (plain page, kept part
// next to an excluded nav, inside an excluded aside) x inline variant x spelling.
func (c *checker) spaceM() {
	thorough := c.e.Thorough()
	ivs := []int{0, 1, 4}
	sts := []style{styles[0], styles[5]}
	if thorough {
		ivs = []int{0, 1, 2, 3, 4, 5, 6, 7}
		sts = []style{styles[0], styles[5], styles[1], styles[7]}
	}
	for _, cont := range mixedContainers {
		for _, child := range mixedChildren {
			for _, after := range mixedAfters {
				for _, place := range []string{"plain", "beside-nav", "in-aside"} {
					for _, iv := range ivs {
						for si, st := range sts {
							desc := harness.D("space", "M", "container", cont, "child", child, "after", after, "place", place, "iv", inlineVariants[iv], "style", st.name)
							b := &builder{iv: iv}
							x := mixedShape(cont, child, after)(b)
							var body *node
							switch place {
							case "plain":
								body = addAll(el("body", b.prose("p", "p")), x).add(b.prose("p", "p"))
							case "beside-nav":
								body = el("body", el("nav", b.leaf("p", "p")), addAll(el("div"), x), b.prose("p", "p"))
							default:
								body = el("body", b.prose("p", "p"), addAll(el("aside"), x), b.prose("p", "p"))
							}
							c.doc(docCase{desc: desc, body: body, st: st, fr: frames[0], nontrivial: true, modal: place != "plain",
								deep: si == 0 && (iv == 0 || thorough && iv == 4)})
						}
					}
				}
			}
		}
	}
}

// spaceL: leaf-like elements x inner element x layout of text and inner elements x placement x inline variant x spelling.
func (c *checker) spaceL() {
	thorough := c.e.Thorough()
	ivs := []int{0, 1}
	sts := []style{styles[0], styles[5]}
	if thorough {
		ivs = []int{0, 1, 2, 3, 4, 5, 6, 7}
		sts = []style{styles[0], styles[5], styles[1], styles[7]}
	}
	seen := uniq{}
	for _, o := range leafOuters {
		for _, inner := range o.inners {
			for _, layout := range leafLayouts {
				innerName := inner
				if layout == "text" {
					innerName = "-" // no inner element in this layout
				}
				for _, place := range []string{"plain", "beside-nav"} {
					for _, iv := range ivs {
						for si, st := range sts {
							desc := harness.D("space", "L", "outer", o.tag, "inner", innerName, "layout", layout, "place", place, "iv", inlineVariants[iv], "style", st.name)
							if !seen.first(desc) {
								continue
							}
							b := &builder{iv: iv}
							x := leafLike(o.tag, inner, layout)(b)
							var body *node
							if place == "plain" {
								body = addAll(el("body", b.prose("p", "p")), x).add(b.prose("p", "p"))
							} else {
								body = el("body", el("nav", b.leaf("p", "p")), addAll(el("div", b.prose("p", "p")), x), b.prose("p", "p"))
							}
							c.doc(docCase{desc: desc, body: body, st: st, fr: frames[0], nontrivial: true, modal: place != "plain", deep: si == 0 && iv == 0 && place == "plain"})
						}
					}
				}
			}
		}
	}
}
