package main

import (
	"fmt"
	"strings"
)

// ---- content block shapes (no excludable node inside) ---------------------------------------------

type shape struct {
	name  string
	build func(b *builder) []*node
}

func one(n *node) []*node { return []*node{n} }

func li(b *builder, depth int, nested *node) *node {
	n := b.leaf("li", fmt.Sprintf("li%d", depth))
	return n.add(nested)
}

// wli: item of a list that is reached through a wrapper element inside an item.
func wli(b *builder) *node { return b.leaf("li", "li@wrapped") }

// liWith: list item with own text and block children; textAfter puts the item's own text after them.
func liWith(b *builder, depth int, textAfter bool, kids ...*node) *node {
	n := el("li")
	pieces, tok := b.inline()
	n.tok, n.kind, n.textAfter = tok, fmt.Sprintf("li%d", depth), textAfter
	if !textAfter {
		for _, p := range pieces {
			n.add(p)
		}
	}
	for _, k := range kids {
		n.add(k)
	}
	if textAfter {
		for _, p := range pieces {
			n.add(p)
		}
	}
	return n
}

// lip: list item whose text is wrapped in a <p> (the li itself has no direct text).
func lip(b *builder, depth int, nested *node) *node {
	_ = depth
	n := el("li", b.leaf("p", "li-p"))
	return n.add(nested)
}

func cell(b *builder, tag, sect string, rs, cs int) *node {
	n := b.leaf(tag, tag+"@"+sect)
	if rs > 1 {
		n.with("rowspan", fmt.Sprint(rs))
	}
	if cs > 1 {
		n.with("colspan", fmt.Sprint(cs))
	}
	return n
}

// markTable refines the leaf kinds of a finished table with the geometric situation of each cell:
// "+over" = cell index beyond the number of cells of the table's first row (spans make rows ragged),
// "+r0nh" = cell of the first row of a table without any header cell that has further rows.
func markTable(t *node) *node {
	var rows [][]*node
	var sects []string
	for _, s := range t.kids {
		if s.tag == "tr" {
			rows = append(rows, cellsOf(s))
			sects = append(sects, "tbody")
			continue
		}
		for _, r := range s.kids {
			if r.tag == "tr" {
				rows = append(rows, cellsOf(r))
				sects = append(sects, s.tag)
			}
		}
	}
	if len(rows) == 0 {
		return t
	}
	first := len(rows[0])
	hasHeader := sects[0] == "thead"
	for _, c := range rows[0] {
		if c.tag == "th" {
			hasHeader = true
		}
	}
	for i, r := range rows {
		for j, c := range r {
			if j >= first {
				c.kind += "+over"
			}
			if i == 0 && !hasHeader && len(rows) > 1 {
				c.kind += "+r0nh"
			}
		}
	}
	return t
}

func cellsOf(tr *node) []*node {
	var out []*node
	for _, c := range tr.kids {
		if c.tag == "td" || c.tag == "th" {
			out = append(out, c)
		}
	}
	return out
}

func headings() []shape {
	var out []shape
	for l := 1; l <= 6; l++ {
		t := fmt.Sprintf("h%d", l)
		out = append(out, shape{t, func(b *builder) []*node { return one(b.leaf(t, t)) }})
	}
	return out
}

var contentShapes = append(headings(), []shape{
	{"p", func(b *builder) []*node { return one(b.leaf("p", "p")) }},
	{"pre", func(b *builder) []*node { return one(b.leaf("pre", "pre")) }},
	{"code", func(b *builder) []*node { return one(b.leaf("code", "code")) }},
	{"precode", func(b *builder) []*node { return one(b.wrapLeaf("pre", "code", "pre-code")) }},
	{"bq", func(b *builder) []*node { return one(b.leaf("blockquote", "blockquote")) }},
	{"bqp", func(b *builder) []*node { return one(b.wrapLeaf("blockquote", "p", "blockquote-p")) }},
	{"ul1", func(b *builder) []*node { return one(el("ul", li(b, 1, nil), li(b, 1, nil))) }},
	{"ol1", func(b *builder) []*node { return one(el("ol", li(b, 1, nil), li(b, 1, nil))) }},
	{"ul2", func(b *builder) []*node {
		a := b.leaf("li", "li1")
		a.add(el("ul", li(b, 2, nil)))
		return one(el("ul", a, li(b, 1, nil)))
	}},
	{"ul3", func(b *builder) []*node {
		// ul > li A > ol > (li B > ul > li C), li D ; li E
		a := b.leaf("li", "li1")
		bb := b.leaf("li", "li2")
		bb.add(el("ul", li(b, 3, nil)))
		a.add(el("ol", bb, li(b, 2, nil)))
		return one(el("ul", a, li(b, 1, nil)))
	}},
	// list containers as direct children of list containers (no <li> in between): invalid per the content
	// model but accepted by every parser and common in the wild
	{"ulul-mid", func(b *builder) []*node {
		return one(el("ul", li(b, 1, nil), el("ul", b.leaf("li", "li@direct")), li(b, 1, nil)))
	}},
	{"ulul-first", func(b *builder) []*node {
		return one(el("ol", el("ul", b.leaf("li", "li@direct"), b.leaf("li", "li@direct")), li(b, 1, nil)))
	}},
	{"ulul-last", func(b *builder) []*node {
		return one(el("ul", li(b, 1, nil), li(b, 1, nil), el("ol", b.leaf("li", "li@direct"))))
	}},
	{"ulul-two", func(b *builder) []*node {
		return one(el("ul", li(b, 1, nil), el("ul", b.leaf("li", "li@direct")), li(b, 1, nil),
			el("ol", b.leaf("li", "li@direct"), b.leaf("li", "li@direct")), li(b, 1, nil)))
	}},
	{"ulul-deep", func(b *builder) []*node {
		// the directly nested container sits one level down, inside a properly nested list, and has a nested list itself
		in := b.leaf("li", "li@direct")
		in.add(el("ul", li(b, 3, nil)))
		a := b.leaf("li", "li1")
		a.add(el("ul", li(b, 2, nil), el("ol", in, b.leaf("li", "li@direct")), li(b, 2, nil)))
		return one(el("ul", a, li(b, 1, nil)))
	}},
	{"divlists", func(b *builder) []*node {
		// lists as siblings of one parent, directly adjacent and separated by a paragraph
		return one(el("div", el("ul", li(b, 1, nil), li(b, 1, nil)), el("ol", li(b, 1, nil)), b.leaf("p", "p"), el("ul", li(b, 1, nil))))
	}},
	// list-item contents reached through neutral wrappers inside the item
	{"liw-div", func(b *builder) []*node {
		return one(el("ul", liWith(b, 1, false, el("div", el("ul", wli(b), wli(b)))), li(b, 1, nil)))
	}},
	{"liw-div-textafter", func(b *builder) []*node {
		return one(el("ul", liWith(b, 1, true, el("div", el("ol", wli(b)))), li(b, 1, nil)))
	}},
	{"liw-section", func(b *builder) []*node {
		return one(el("ol", liWith(b, 1, false, el("section", el("ul", wli(b)))), li(b, 1, nil)))
	}},
	{"liw-span", func(b *builder) []*node {
		return one(el("ul", liWith(b, 1, false, el("span", el("ul", wli(b)))), li(b, 1, nil)))
	}},
	{"liw-div2", func(b *builder) []*node {
		return one(el("ul", liWith(b, 1, false, el("div", el("section", el("ul", wli(b), wli(b))))), li(b, 1, nil)))
	}},
	{"liw-div+direct", func(b *builder) []*node {
		// a wrapped nested list next to a directly nested one, both orders
		a := liWith(b, 1, false, el("div", el("ul", wli(b))), el("ul", li(b, 2, nil)))
		fl := wli(b)
		fl.floating = true
		c := liWith(b, 1, false, el("ol", li(b, 2, nil)), el("div", el("ul", fl)))
		return one(el("ul", a, c))
	}},
	{"liw-only", func(b *builder) []*node {
		// the item has no text of its own, only the wrapped list
		return one(el("ul", el("li", el("div", el("ul", wli(b), wli(b)))), li(b, 1, nil)))
	}},
	{"liw-deep", func(b *builder) []*node {
		in := liWith(b, 2, false, el("div", el("ol", wli(b))))
		a := b.leaf("li", "li1")
		a.add(el("ul", in, li(b, 2, nil)))
		return one(el("ul", a, li(b, 1, nil)))
	}},
	{"liw-table", func(b *builder) []*node {
		return one(el("ul", liWith(b, 1, false, el("div", el("table", el("tr", b.leaf("td", "li-div-td"), b.leaf("th", "li-div-td"))))), li(b, 1, nil)))
	}},
	{"liw-bq", func(b *builder) []*node {
		return one(el("ul", liWith(b, 1, true, el("div", b.leaf("blockquote", "li-div-blockquote"))), li(b, 1, nil)))
	}},
	{"liw-pre", func(b *builder) []*node {
		return one(el("ol", liWith(b, 1, false, el("div", b.leaf("pre", "li-div-pre")), el("section", b.leaf("p", "li-section-p"))), li(b, 1, nil)))
	}},
	{"ulp", func(b *builder) []*node { return one(el("ul", lip(b, 1, nil), li(b, 1, nil))) }},
	{"ulp2", func(b *builder) []*node {
		a := el("li", b.leaf("p", "li-p"))
		a.add(el("ul", lip(b, 2, nil), li(b, 2, nil)))
		return one(el("ol", a))
	}},
	{"ulmix", func(b *builder) []*node {
		// item with direct text followed by a paragraph of its own, then a nested list
		a := b.leaf("li", "li1")
		a.add(b.leaf("p", "li-p"))
		a.add(el("ul", li(b, 2, nil)))
		return one(el("ul", a, li(b, 1, nil)))
	}},
	{"libq", func(b *builder) []*node {
		return one(el("ul", el("li", b.leaf("blockquote", "li-blockquote")), li(b, 1, nil)))
	}},
	{"lipre", func(b *builder) []*node {
		return one(el("ol", el("li", b.leaf("pre", "li-pre")), li(b, 1, nil)))
	}},
	{"litable", func(b *builder) []*node {
		return one(el("ul", el("li", el("table", el("tr", b.leaf("td", "li-td"), b.leaf("td", "li-td")))), li(b, 1, nil)))
	}},
	{"bqul", func(b *builder) []*node {
		return one(el("blockquote", b.leaf("p", "blockquote-p"), el("ul", b.leaf("li", "blockquote-li"), b.leaf("li", "blockquote-li"))))
	}},
	{"tdblocks", func(b *builder) []*node {
		// cells holding a paragraph and a list
		return one(markTable(el("table",
			el("thead", el("tr", cell(b, "th", "thead", 1, 1), cell(b, "th", "thead", 1, 1))),
			el("tbody", el("tr", el("td", b.leaf("p", "td-p")), el("td", el("ul", b.leaf("li", "td-li"), b.leaf("li", "td-li"))))))))
	}},
	{"tplain", func(b *builder) []*node {
		return one(markTable(el("table", el("tr", cell(b, "td", "tbody", 1, 1), cell(b, "td", "tbody", 1, 1)), el("tr", cell(b, "td", "tbody", 1, 1), cell(b, "td", "tbody", 1, 1)))))
	}},
	{"t1row", func(b *builder) []*node {
		return one(markTable(el("table", el("tbody", el("tr", cell(b, "td", "tbody", 1, 1), cell(b, "td", "tbody", 1, 1))))))
	}},
	{"thead", func(b *builder) []*node {
		return one(markTable(el("table",
			el("thead", el("tr", cell(b, "th", "thead", 1, 1), cell(b, "th", "thead", 1, 1))),
			el("tbody", el("tr", cell(b, "td", "tbody", 1, 1), cell(b, "td", "tbody", 1, 1))))))
	}},
	{"tfoot", func(b *builder) []*node {
		return one(markTable(el("table",
			el("thead", el("tr", cell(b, "th", "thead", 1, 1), cell(b, "th", "thead", 1, 1))),
			el("tbody", el("tr", cell(b, "td", "tbody", 1, 1), cell(b, "td", "tbody", 1, 1))),
			el("tfoot", el("tr", cell(b, "td", "tfoot", 1, 1), cell(b, "th", "tfoot", 1, 1))))))
	}},
	{"thfirst", func(b *builder) []*node {
		return one(markTable(el("table", el("tr", cell(b, "th", "tbody", 1, 1), cell(b, "th", "tbody", 1, 1)), el("tr", cell(b, "td", "tbody", 1, 1), cell(b, "td", "tbody", 1, 1)))))
	}},
	{"tcolspan", func(b *builder) []*node {
		// first row is one cell spanning two columns: later rows have more cells than the first
		return one(markTable(el("table",
			el("thead", el("tr", cell(b, "th", "thead", 1, 2))),
			el("tbody", el("tr", cell(b, "td", "tbody", 1, 1), cell(b, "td", "tbody", 1, 1))))))
	}},
	{"trowspan", func(b *builder) []*node {
		return one(markTable(el("table",
			el("tbody",
				el("tr", cell(b, "th", "tbody", 2, 1), cell(b, "td", "tbody", 1, 1)),
				el("tr", cell(b, "td", "tbody", 1, 1))))))
	}},
	{"tspans", func(b *builder) []*node {
		// 3-column grid: r0 = [A rs2][B cs2] ; r1 = [C][D] ; r2 = [E cs3]
		return one(markTable(el("table",
			el("tr", cell(b, "th", "tbody", 2, 1), cell(b, "th", "tbody", 1, 2)),
			el("tr", cell(b, "td", "tbody", 1, 1), cell(b, "td", "tbody", 1, 1)),
			el("tr", cell(b, "td", "tbody", 1, 3)))))
	}},
	{"divp", func(b *builder) []*node { return one(el("div", b.leaf("p", "p"))) }},
	{"section", func(b *builder) []*node { return one(el("section", b.leaf("h2", "h2"), b.leaf("p", "p"))) }},
	{"article", func(b *builder) []*node {
		// header/footer nested in an article are not page chrome: kept in every mode
		return one(el("article", el("header", b.leaf("h1", "h1")), b.leaf("p", "p"), el("footer", b.leaf("p", "p"))))
	}},
	{"neutralboxes", func(b *builder) []*node {
		// elements the traversal has no case for: the content elements inside them must still come back
		return []*node{
			el("dl", el("dt", raw("term")), el("dd", b.leaf("p", "dd-p"), el("ul", b.leaf("li", "dd-li")))),
			el("figure", b.leaf("pre", "figure-pre"), el("figcaption", b.leaf("p", "figcaption-p"))),
			el("details", el("summary", raw("more")), b.leaf("p", "details-p"), b.leaf("blockquote", "details-blockquote")),
			el("address", b.leaf("p", "address-p")),
		}
	}},
	{"noise", func(b *builder) []*node {
		return []*node{b.script(), b.leaf("p", "p"), el("hr"), b.styleEl(), comment("Zs97 block comment"), b.leaf("p", "p")}
	}},
}...)

func shapeByName(n string) shape {
	for _, s := range contentShapes {
		if s.name == n {
			return s
		}
	}
	panic("no shape " + n)
}

// ---- wrappers (possibly excludable containers) ---------------------------------------------------------

// wrapper describes how to build a possibly-excludable block around inner content.
type wrapper struct {
	name string
	// build returns the wrapper element; inner is placed inside (for list-typed wrappers inner is ignored
	// and the wrapper brings its own items).
	build func(b *builder, inner func(b *builder) []*node) *node
	list  bool // the wrapper is itself a ul/ol (may also be nested inside an li)
	leafy bool // the wrapper is itself a content leaf or table carrying the attribute
}

func container(tag string, kv ...string) func(b *builder, inner func(b *builder) []*node) *node {
	return func(b *builder, inner func(b *builder) []*node) *node {
		n := el(tag)
		for i := 0; i+1 < len(kv); i += 2 {
			n.with(kv[i], kv[i+1])
		}
		for _, k := range inner(b) {
			n.add(k)
		}
		return n
	}
}

// linkLeaf: leaf whose whole text is inside one <a> (kind suffix "+a").
func linkLeaf(b *builder, tag, kind string) *node {
	n := el(tag)
	b.noA = true
	pieces, tok := b.inline()
	b.noA = false
	a := el("a").with("href", "#")
	for _, p := range pieces {
		a.add(p)
	}
	n.add(a)
	n.tok, n.kind = tok, kind+"+a"
	return n
}

// proseLeaf: leaf with long non-link text and one short link (kind suffix "+a1").
func proseLeaf(b *builder, tag, kind string) *node {
	n := b.leaf(tag, kind+"+a1")
	n.add(raw(" lorem ipsum dolor sit amet consectetur "))
	n.add(el("a", raw("z")).with("href", "#"))
	return n
}

func denseList(tag string, kv ...string) func(b *builder, inner func(b *builder) []*node) *node {
	return func(b *builder, _ func(b *builder) []*node) *node {
		n := el(tag)
		for i := 0; i+1 < len(kv); i += 2 {
			n.with(kv[i], kv[i+1])
		}
		for i := 0; i < 5; i++ {
			n.add(linkLeaf(b, "li", "liX"))
		}
		return n
	}
}

func sparseList(tag string, nitems int) func(b *builder, inner func(b *builder) []*node) *node {
	return func(b *builder, _ func(b *builder) []*node) *node {
		n := el(tag)
		for i := 0; i < nitems; i++ {
			n.add(proseLeaf(b, "li", "liX"))
		}
		return n
	}
}

func plainList(tag string, kv ...string) func(b *builder, inner func(b *builder) []*node) *node {
	return func(b *builder, _ func(b *builder) []*node) *node {
		n := el(tag)
		for i := 0; i+1 < len(kv); i += 2 {
			n.with(kv[i], kv[i+1])
		}
		n.add(b.leaf("li", "liX"))
		n.add(b.leaf("li", "liX"))
		return n
	}
}

func denseBox(tag string) func(b *builder, inner func(b *builder) []*node) *node {
	return func(b *builder, _ func(b *builder) []*node) *node {
		n := el(tag)
		for i := 0; i < 5; i++ {
			n.add(linkLeaf(b, "p", "p"))
		}
		return n
	}
}

func sparseBox(tag string) func(b *builder, inner func(b *builder) []*node) *node {
	return func(b *builder, _ func(b *builder) []*node) *node {
		n := el(tag)
		for i := 0; i < 5; i++ {
			n.add(proseLeaf(b, "p", "p"))
		}
		return n
	}
}

// fewLinks: 2 link-only items: 100% link text but far fewer links than the documented minimum of 4.
func fewLinks(tag string) func(b *builder, inner func(b *builder) []*node) *node {
	return func(b *builder, _ func(b *builder) []*node) *node {
		n := el(tag)
		n.add(linkLeaf(b, "li", "liX"))
		n.add(linkLeaf(b, "li", "liX"))
		return n
	}
}

// itemWith: a plain list whose first item carries the attribute.
func itemWith(k, v string) func(b *builder, inner func(b *builder) []*node) *node {
	return func(b *builder, _ func(b *builder) []*node) *node {
		return el("ul", b.leaf("li", "liX").with(k, v), b.leaf("li", "liX"))
	}
}

func leafWith(tag, kind string, kv ...string) func(b *builder, inner func(b *builder) []*node) *node {
	return func(b *builder, _ func(b *builder) []*node) *node {
		n := b.leaf(tag, kind)
		for i := 0; i+1 < len(kv); i += 2 {
			n.with(kv[i], kv[i+1])
		}
		return n
	}
}

// structural wrappers: semantic elements, roles, neutral containers, link-density blocks.
var structWrappers = []wrapper{
	{name: "div", build: container("div")},
	{name: "section", build: container("section")},
	{name: "article", build: container("article")},
	{name: "main", build: container("main")},
	{name: "nav", build: container("nav")},
	{name: "aside", build: container("aside")},
	{name: "header", build: container("header")},
	{name: "footer", build: container("footer")},
	{name: "div.role=navigation", build: container("div", "role", "navigation")},
	{name: "div.role=complementary", build: container("div", "role", "complementary")},
	{name: "div.role=banner", build: container("div", "role", "banner")},
	{name: "div.role=contentinfo", build: container("div", "role", "contentinfo")},
	{name: "div.role=main", build: container("div", "role", "main")},
	{name: "div.role=article", build: container("div", "role", "article")},
	{name: "section.role=complementary", build: container("section", "role", "complementary")},
	{name: "header.role=banner", build: container("header", "role", "banner")},
	{name: "footer.role=contentinfo", build: container("footer", "role", "contentinfo")},
	{name: "section.role=contentinfo", build: container("section", "role", "contentinfo")},
	{name: "ul.role=navigation", build: plainList("ul", "role", "navigation"), list: true},
	{name: "ul.dense", build: denseList("ul"), list: true},
	{name: "ol.dense", build: denseList("ol"), list: true},
	{name: "ul.sparse", build: sparseList("ul", 5), list: true},
	{name: "ul.fewlinks", build: fewLinks("ul"), list: true},
	{name: "div.dense", build: denseBox("div")},
	{name: "section.dense", build: denseBox("section")},
	{name: "article.dense", build: denseBox("article")}, // link density applies to div/section/ul/ol only
	{name: "div.sparse", build: sparseBox("div")},
}

// attribute decorations of a vocabulary word w
var decorations = []struct {
	name string
	f    func(w string) string
}{
	{"exact", func(w string) string { return w }},
	{"prefix", func(w string) string { return "main-" + w }},
	{"suffix", func(w string) string { return w + "-left" }},
	{"digit", func(w string) string { return w + "2" }},
	{"underscore", func(w string) string { return "top_" + w }},
	{"upper", func(w string) string { return strings.ToUpper(w) }},
	{"list", func(w string) string { return "post " + w + " wide" }},
	// near-misses: the word glued to other letters
	{"glue-pre", func(w string) string { return "pre" + w }},
	{"glue-post", func(w string) string { return w + "y" }},
	{"glue-both", func(w string) string { return "x" + w + "less" }},
}

var nearMisses = []string{"navy", "canvas", "menubar", "prefooter", "footnote", "bannerless", "unavailable", "sidebars-off", "wide", "content"}

// attrWrappers: class/id carrying containers (full vocabulary x decoration x attribute).
func attrWrappers(full bool) []wrapper {
	var out []wrapper
	add := func(tag, k, v string) {
		out = append(out, wrapper{name: tag + "." + k + "=" + strings.ReplaceAll(v, " ", "+"), build: container(tag, k, v)})
	}
	words := vocabulary
	decos := decorations
	if !full {
		words = []string{"nav", "menu", "site-header", "footer", "sidebar", "widget-area", "aside", "breadcrumbs"}
		decos = decorations[:1]
	}
	for _, w := range words {
		for _, d := range decos {
			for _, k := range []string{"class", "id"} {
				if k == "id" && d.name == "list" {
					continue
				}
				add("div", k, d.f(w))
			}
		}
	}
	for _, nm := range nearMisses {
		add("div", "class", nm)
		if full {
			add("div", "id", nm)
		}
	}
	seen := map[string]bool{}
	uniq := out[:0]
	for _, w := range out {
		if !seen[w.name] {
			seen[w.name] = true
			uniq = append(uniq, w)
		}
	}
	return uniq
}

// mixedWrappers: attributes on other elements, both attributes at once, leaf elements carrying the attribute.
var mixedWrappers = []wrapper{
	{name: "section.class=sidebar", build: container("section", "class", "sidebar")},
	{name: "article.id=footer", build: container("article", "id", "footer")},
	{name: "main.class=menu", build: container("main", "class", "menu")},
	{name: "div.class=content.id=nav", build: container("div", "class", "content", "id", "nav")},
	{name: "div.class=navy.id=canvas", build: container("div", "class", "navy", "id", "canvas")},
	{name: "div.id=main.class=widget", build: container("div", "id", "main", "class", "widget")},
	{name: "header.class=site-header", build: container("header", "class", "site-header")},
	{name: "footer.class=prefooter", build: container("footer", "class", "prefooter")},
	{name: "ul.class=menu", build: plainList("ul", "class", "menu"), list: true},
	{name: "ol.id=breadcrumbs", build: plainList("ol", "id", "breadcrumbs"), list: true},
	{name: "ul.class=menubar", build: plainList("ul", "class", "menubar"), list: true},
	{name: "ul>li.class=menu-item", build: itemWith("class", "menu-item"), list: true},
	{name: "ul>li.class=nav-item+active", build: itemWith("class", "nav-item active"), list: true},
	{name: "ul>li.id=navy", build: itemWith("id", "navy"), list: true},
	{name: "p.class=footer", build: leafWith("p", "p", "class", "footer"), leafy: true},
	{name: "p.class=footnote", build: leafWith("p", "p", "class", "footnote"), leafy: true},
	{name: "h2.id=navigation", build: leafWith("h2", "h2", "id", "navigation"), leafy: true},
	{name: "h2.class=widget-title", build: leafWith("h2", "h2", "class", "widget-title"), leafy: true},
	{name: "blockquote.class=aside", build: leafWith("blockquote", "blockquote", "class", "aside"), leafy: true},
	{name: "pre.class=menu", build: leafWith("pre", "pre", "class", "menu"), leafy: true},
	{name: "table.class=sidebar", leafy: true, build: func(b *builder, _ func(b *builder) []*node) *node {
		return markTable(el("table", el("tr", cell(b, "td", "tbody", 1, 1), cell(b, "td", "tbody", 1, 1)))).with("class", "sidebar")
	}},
	{name: "table.class=navy", leafy: true, build: func(b *builder, _ func(b *builder) []*node) *node {
		return markTable(el("table", el("tr", cell(b, "td", "tbody", 1, 1), cell(b, "td", "tbody", 1, 1)))).with("class", "navy")
	}},
}

// innerShapes: content placed inside container wrappers.
var innerShapes = []shape{
	{"p", func(b *builder) []*node { return one(b.leaf("p", "p")) }},
	{"h2+ul", func(b *builder) []*node {
		return []*node{b.leaf("h2", "h2"), el("ul", li(b, 1, nil), li(b, 1, nil))}
	}},
	{"table", func(b *builder) []*node {
		return one(markTable(el("table", el("tr", cell(b, "th", "tbody", 1, 1), cell(b, "td", "tbody", 1, 1)))))
	}},
}

// ---- skeletons: where a wrapper sits in the page ----------------------------------------------------------

// skeleton builds a body around the block(s) produced by mid; p() yields fresh surrounding paragraphs.
type skeleton struct {
	name  string
	build func(b *builder, mid func(b *builder) []*node) *node
	// inList: mid is placed inside an <li> or directly inside a list (only list-typed wrappers fit)
	inList bool
	// loose: loose inline text sits next to mid inside the same container
	loose bool
}

const filler = " lorem ipsum dolor sit amet consectetur adipiscing elit sed do eiusmod tempor incididunt ut labore et dolore magna aliqua ut enim ad minim veniam quis nostrud exercitation"

// prose: a leaf followed by long plain text, so that containers of the page skeleton stay clearly
// below the link-density threshold whatever link-dense block is placed next to it.
func (b *builder) prose(tag, kind string) *node {
	n := b.leaf(tag, kind)
	n.add(raw(filler))
	return n
}

func pli(b *builder, depth int) *node { return b.prose("li", fmt.Sprintf("li%d", depth)) }

func addAll(n *node, ks []*node) *node {
	for _, k := range ks {
		n.add(k)
	}
	return n
}

var skeletons = []skeleton{
	{name: "body", build: func(b *builder, mid func(b *builder) []*node) *node {
		body := el("body", b.prose("h1", "h1"))
		addAll(body, mid(b))
		return body.add(b.prose("p", "p"))
	}},
	{name: "body-first-last", build: func(b *builder, mid func(b *builder) []*node) *node {
		// the wrapper is the first block, a list follows directly
		body := el("body")
		addAll(body, mid(b))
		return body.add(el("ul", pli(b, 1)))
	}},
	{name: "wrapdiv", build: func(b *builder, mid func(b *builder) []*node) *node {
		w := el("div", b.prose("h1", "h1")).with("id", "page")
		addAll(w, mid(b))
		w.add(b.prose("p", "p"))
		return el("body", w)
	}},
	{name: "wrapmain", build: func(b *builder, mid func(b *builder) []*node) *node {
		w := el("main")
		addAll(w, mid(b))
		w.add(b.prose("p", "p"))
		return el("body", w)
	}},
	{name: "div+p", build: func(b *builder, mid func(b *builder) []*node) *node {
		// the div has a content sibling: it is not a single top-level wrapper
		w := el("div", b.prose("p", "p"))
		addAll(w, mid(b))
		return el("body", w, b.prose("p", "p"))
	}},
	{name: "div>div", build: func(b *builder, mid func(b *builder) []*node) *node {
		in := el("div")
		addAll(in, mid(b))
		in.add(b.prose("p", "p"))
		return el("body", el("div", b.prose("h1", "h1"), in))
	}},
	{name: "article+p", build: func(b *builder, mid func(b *builder) []*node) *node {
		a := el("article", b.prose("h2", "h2"))
		addAll(a, mid(b))
		a.add(b.prose("p", "p"))
		return el("body", a, b.prose("p", "p"))
	}},
	{name: "between-lists", build: func(b *builder, mid func(b *builder) []*node) *node {
		body := el("body", el("ul", pli(b, 1), pli(b, 1)))
		addAll(body, mid(b))
		return body.add(el("ol", pli(b, 1)))
	}},
	{name: "in-li", inList: true, build: func(b *builder, mid func(b *builder) []*node) *node {
		a := b.prose("li", "li1")
		addAll(a, mid(b))
		return el("body", b.prose("p", "p"), el("ul", a, pli(b, 1)), b.prose("p", "p"))
	}},
	{name: "ul-direct", inList: true, build: func(b *builder, mid func(b *builder) []*node) *node {
		// the list-typed wrapper is a direct child of the list, between two items
		u := el("ul", pli(b, 1))
		addAll(u, mid(b))
		u.add(pli(b, 1))
		return el("body", b.prose("p", "p"), u, b.prose("p", "p"))
	}},
	{name: "in-li-li", inList: true, build: func(b *builder, mid func(b *builder) []*node) *node {
		in := b.prose("li", "li2")
		addAll(in, mid(b))
		a := b.prose("li", "li1")
		a.add(el("ol", in, pli(b, 2)))
		return el("body", el("ul", a, pli(b, 1)), b.prose("p", "p"))
	}},
}

// onlyChild: the block(s) under test are the only children of a neutral container.
func onlyChild(tag string) func(b *builder, mid func(b *builder) []*node) *node {
	return func(b *builder, mid func(b *builder) []*node) *node {
		n := el(tag)
		addAll(n, mid(b))
		return el("body", b.prose("h1", "h1"), n, b.prose("p", "p"))
	}
}

// looseBeside: like onlyChild, with loose inline text (no content element, no token) before or after the block(s).
func looseBeside(tag string, before, span bool) func(b *builder, mid func(b *builder) []*node) *node {
	return func(b *builder, mid func(b *builder) []*node) *node {
		n := el(tag)
		txt := raw("posted by ann on monday in general remarks and other matters of little interest ")
		if span {
			txt = el("span", txt)
		}
		if before {
			n.add(txt)
		}
		addAll(n, mid(b))
		if !before {
			n.add(txt)
		}
		return el("body", b.prose("h1", "h1"), n, b.prose("p", "p"))
	}
}

func init() {
	skeletons = append(skeletons,
		skeleton{name: "only-div", build: onlyChild("div")},
		skeleton{name: "only-section", build: onlyChild("section")},
		skeleton{name: "only-article", build: onlyChild("article")},
		skeleton{name: "only-main", build: onlyChild("main")},
		skeleton{name: "wrapdiv-only", build: func(b *builder, mid func(b *builder) []*node) *node {
			return el("body", addAll(el("div"), mid(b))) // the sole wrapper holds nothing but the block(s) under test
		}},
		skeleton{name: "loose-div-before", loose: true, build: looseBeside("div", true, false)},
		skeleton{name: "loose-div-after", loose: true, build: looseBeside("div", false, false)},
		skeleton{name: "loose-div-span", loose: true, build: looseBeside("div", true, true)},
		skeleton{name: "loose-section-before", loose: true, build: looseBeside("section", true, false)},
	)
}

// ---- mixed-content containers ---------------------------------------------------------------------------
//
// A content element the traversal treats as one unit (blockquote, li, td, th) holding own inline text, then a
// structured child (list, table, pre, p, div), then own inline text again (bare text, em, a, cite). Every piece
// carries its own token.

var mixedContainers = []string{"blockquote", "li", "td", "th"}
var mixedChildren = []string{"ul", "ol", "table", "pre", "p", "div"}
var mixedAfters = []string{"text", "em", "a", "cite"}

// tokText: bare text (or a <span> when the inline variant needs several pieces) carrying a token of its own.
func tokText(b *builder, kind string) *node {
	pieces, tok := b.inline()
	var n *node
	if len(pieces) == 1 && pieces[0].tag == "" {
		n = pieces[0]
	} else {
		n = el("span")
		for _, p := range pieces {
			n.add(p)
		}
	}
	n.tok, n.kind = tok, kind
	return n
}

func mixedShape(container, child, after string) func(b *builder) []*node {
	return func(b *builder) []*node {
		k := container
		var c *node
		switch container {
		case "li":
			c = b.leaf("li", "li1")
		case "td", "th":
			c = b.leaf(container, container+"@tbody")
		default:
			c = b.leaf(container, container)
		}
		switch child {
		case "ul", "ol":
			c.add(el(child, b.leaf("li", k+"/li"), b.leaf("li", k+"/li")))
		case "table":
			c.add(el("table", el("tr", b.leaf("td", k+"/td"), b.leaf("td", k+"/td"))))
		case "pre":
			c.add(b.leaf("pre", k+"/pre"))
		case "p":
			c.add(b.leaf("p", k+"/p"))
		case "div":
			c.add(el("div", b.leaf("p", k+"/div-p")))
		}
		var a *node
		if after == "text" {
			a = tokText(b, k+"/text-after")
		} else {
			a = el(after)
			if after == "a" {
				a.with("href", "#")
				b.noA = true
			}
			pieces, tok := b.inline()
			b.noA = false
			for _, p := range pieces {
				a.add(p)
			}
			a.tok, a.kind = tok, k+"/"+after+"-after"
		}
		// an item's own text after a directly nested list: the item (and its text) precedes the nested items in
		// element order although this piece follows them in the source; see node.floating
		if container == "li" && (child == "ul" || child == "ol") {
			a.floating = true
		}
		c.add(a)
		switch container {
		case "li":
			return one(el("ul", c, li(b, 1, nil)))
		case "td", "th":
			return one(el("table", el("tr", c, b.leaf("td", "td@tbody"))))
		}
		return one(c)
	}
}

// ---- leaf-like elements with inner elements ----------------------------------------------------------------
//
// The text of a leaf-like element (pre, code, heading, p, blockquote, li, td) is its whole text, wherever inner
// inline elements sit: text only, one inner element covering everything, text before / after an inner element,
// two inner elements, one inner element per line. Every piece (bare text, inner element) carries its own token.

var leafOuters = []struct {
	tag    string
	inners []string
}{
	{"pre", []string{"code", "span", "a", "samp"}},
	{"code", []string{"span", "b"}},
	{"h2", []string{"span", "a", "code"}},
	{"p", []string{"a", "em", "code"}},
	{"blockquote", []string{"cite", "code"}},
	{"li", []string{"a", "code"}},
	{"td", []string{"code", "a"}},
}

var leafLayouts = []string{"text", "inner", "text+inner", "inner+text", "inner+inner", "inner-per-line"}

func leafLike(outer, inner, layout string) func(b *builder) []*node {
	return func(b *builder) []*node {
		o := el(outer)
		in := func() *node {
			n := el(inner)
			if inner == "a" {
				n.with("href", "#")
				b.noA = true
			}
			pieces, tok := b.inline()
			b.noA = false
			for _, p := range pieces {
				n.add(p)
			}
			n.tok, n.kind = tok, outer+"/"+inner
			return n
		}
		txt := func() *node { return tokText(b, outer+"/text") }
		sep := " "
		switch layout {
		case "text":
			o.add(txt())
		case "inner":
			o.add(in())
		case "text+inner":
			o.add(txt()).add(raw(sep)).add(in())
		case "inner+text":
			o.add(in()).add(raw(sep)).add(txt())
		case "inner+inner":
			o.add(in()).add(raw(sep)).add(in())
		case "inner-per-line":
			o.add(txt()).add(raw("\n")).add(in()).add(raw("\n")).add(in()).add(raw("\n")).add(in()).add(raw("\n")).add(txt())
		}
		switch outer {
		case "li":
			return one(el("ul", o, pli(b, 1)))
		case "td":
			return one(el("table", el("tr", o, b.leaf("td", "td@tbody"))))
		}
		return one(o)
	}
}
