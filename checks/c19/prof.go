package main

import (
	"os"
	"runtime/pprof"
)

func startProf() func() {
	p := os.Getenv("C19_PROF")
	if p == "" {
		return func() {}
	}
	f, _ := os.Create(p)
	pprof.StartCPUProfile(f)
	return func() { pprof.StopCPUProfile(); f.Close() }
}
