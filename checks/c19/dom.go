package main

import (
	"fmt"
	"regexp"
	"strings"
)

// ---- the generated DOM -----------------------------------------------------------------------
//
// A document is a tree of element nodes. Content leaves (h1-h6, p, li, td/th, pre, code,
// blockquote) carry a unique token "TkNN" plus a suffix chosen by the inline variant; the
// expected (decoded, markup-free) text of the leaf is tok. The check never parses HTML itself:
// the expected result is read off this tree.

type attr struct{ k, v string }

type node struct {
	tag    string // element name; "" for an inline piece
	attrs  []attr
	kids   []*node
	parent *node

	// inline piece (tag == ""): src is emitted verbatim; dec is its decoded text ("" for comments)
	src  string
	dec  string
	srcX string // alternative spelling for the well-formed XHTML serialization ("" = same as src)

	// content leaf annotation
	tok  string // expected decoded text; "" when the element is not a leaf
	kind string // leaf kind for descriptors/signatures, e.g. "li2", "td@tfoot", "li1-p"
	// textAfter: the leaf's own text follows its block children in the source (document order of its token)
	textAfter bool
	// floating: the leaf sits in a neutral wrapper inside a list item AFTER a directly nested list of that item.
	// The implementation may fold the wrapper's text into the item's own text (returned before the nested items) or
	// emit it as nested items (after them); the statement orders content elements, and both readings keep the
	// element order item < its contents, so the order clause does not place this leaf. "Exactly once" still applies.
	floating bool
}

func el(tag string, kids ...*node) *node {
	n := &node{tag: tag}
	for _, k := range kids {
		n.add(k)
	}
	return n
}

func (n *node) add(k *node) *node {
	if k != nil {
		k.parent = n
		n.kids = append(n.kids, k)
	}
	return n
}

func (n *node) with(k, v string) *node {
	n.attrs = append(n.attrs, attr{k, v})
	return n
}

func (n *node) attr(k string) string {
	for _, a := range n.attrs {
		if a.k == k {
			return a.v
		}
	}
	return ""
}

func raw(s string) *node        { return &node{src: s, dec: s} }
func ent(src, dec string) *node { return &node{src: src, dec: dec} }
func comment(s string) *node    { return &node{src: "<!-- " + s + " -->"} }

// builder hands out unique tokens.
type builder struct {
	next  int
	nextZ int
	iv    int  // inline variant applied to every leaf
	noA   bool // the leaf text is already inside an <a>: the markup variant must not nest another one
}

var inlineVariants = []string{"plain", "named", "decimal", "hex", "markup", "script", "misnest", "mixed"}

// inline returns the inline pieces and the expected decoded text of a fresh leaf.
func (b *builder) inline() ([]*node, string) {
	b.next++
	id := fmt.Sprintf("%02d", b.next)
	z := func() string { b.nextZ++; return fmt.Sprintf("Zs%02d", b.nextZ) }
	iv := b.iv
	if iv == 7 { // mixed: rotate over the other variants by leaf number
		iv = b.next % 7
	}
	switch iv {
	case 1:
		n := ent("Tk"+id+"&amp;&lt;&gt;&quot;&eacute;&euro;x", "Tk"+id+"&<>\"é€x")
		n.srcX = "Tk" + id + "&amp;&lt;&gt;&quot;&#233;&#8364;x" // XML predefines only amp, lt, gt, quot, apos
		return []*node{n}, "Tk" + id + "&<>\"é€x"
	case 2:
		return []*node{ent("Tk"+id+"&#38;&#60;&#62;&#233;&#8364;x", "Tk"+id+"&<>é€x")}, "Tk" + id + "&<>é€x"
	case 3:
		n := ent("Tk"+id+"&#x26;&#x3C;&#x3e;&#xE9;&#x20ac;&#X41;", "Tk"+id+"&<>é€A")
		n.srcX = "Tk" + id + "&#x26;&#x3C;&#x3e;&#xE9;&#x20ac;&#x41;" // XML wants a lower-case x
		return []*node{n}, "Tk" + id + "&<>é€A"
	case 4:
		return []*node{
			el("b", raw("T")),
			b.linkOrI(el("em", raw("k"))),
			el("span", raw(id[:1])).with("class", "x"),
			raw(id[1:]),
		}, "Tk" + id
	case 5:
		return []*node{
			raw("T"),
			el("script", raw("var "+z()+"=1;")),
			raw("k" + id[:1]),
			comment(z()),
			raw(id[1:]),
		}, "Tk" + id
	}
	if iv == 6 {
		// misnested inline tags (malformed but ubiquitous): the adoption agency algorithm keeps the text order
		n := ent("<b>T<i>k</b>"+id+"</i>", "Tk"+id)
		n.srcX = "<b>T<i>k</i></b><i>" + id + "</i>"
		return []*node{n}, "Tk" + id
	}
	return []*node{raw("Tk" + id)}, "Tk" + id
}

func (b *builder) linkOrI(k *node) *node {
	if b.noA {
		return el("i", k)
	}
	return el("a", k).with("href", "http://example.com/?a=1&b=2")
}

// leaf builds a content leaf element.
func (b *builder) leaf(tag, kind string) *node {
	n := el(tag)
	pieces, tok := b.inline()
	for _, p := range pieces {
		n.add(p)
	}
	n.tok, n.kind = tok, kind
	return n
}

// wrapLeaf builds <outer><inner>text</inner></outer>; the inner element is the leaf.
func (b *builder) wrapLeaf(outer, inner, kind string) *node {
	return el(outer, b.leaf(inner, kind))
}

// noise: non-content elements whose text must never be returned.
func (b *builder) script() *node {
	b.nextZ++
	return el("script", raw(fmt.Sprintf("var Zs%02d = 1;", b.nextZ)))
}
func (b *builder) styleEl() *node {
	b.nextZ++
	return el("style", raw(fmt.Sprintf(".Zs%02d { color: red }", b.nextZ)))
}

// ---- walking -----------------------------------------------------------------------------------

// leaves returns the content leaves in document order, skipping subtrees for which skip is true.
func leaves(n *node, skip func(*node) bool, out *[]*node) {
	if n.tag == "" {
		if n.tok != "" { // bare text carrying a token of its own (own text of a container after a block child)
			*out = append(*out, n)
		}
		return
	}
	if skip != nil && skip(n) {
		return
	}
	if n.tok != "" && !n.textAfter {
		*out = append(*out, n)
	}
	for _, k := range n.kids {
		leaves(k, skip, out)
	}
	if n.tok != "" && n.textAfter {
		*out = append(*out, n)
	}
}

// prune returns a deep copy of n without the subtrees for which skip is true.
func prune(n *node, skip func(*node) bool) *node {
	if n.tag != "" && skip(n) {
		return nil
	}
	c := &node{tag: n.tag, attrs: n.attrs, src: n.src, srcX: n.srcX, dec: n.dec, tok: n.tok, kind: n.kind, textAfter: n.textAfter, floating: n.floating}
	for _, k := range n.kids {
		c.add(prune(k, skip))
	}
	return c
}

func isElem(n *node) bool { return n.tag != "" }

// ---- reference exclusion predicate (from the documented mode definitions) -------------------------

const (
	modeNone = iota
	modeExplicit
	modeStandard
	modeAggressive
)

var modeNames = []string{"None", "Explicit", "Standard", "Aggressive"}

var vocabulary = []string{
	"nav", "navbar", "navigation", "menu", "topnav", "sidenav", "breadcrumb", "breadcrumbs",
	"site-header", "page-header", "masthead", "banner",
	"footer", "site-footer", "page-footer", "colophon",
	"sidebar", "widget-area", "widget", "aside",
}

func isLetter(c byte) bool { return (c >= 'a' && c <= 'z') || (c >= 'A' && c <= 'Z') }

// vocabMatch: some vocabulary word occurs in v (ASCII case-insensitively) delimited on both
// sides by a non-letter or the string boundary.
func vocabMatch(v string) bool {
	lv := strings.ToLower(v)
	for _, w := range vocabulary {
		for from := 0; from+len(w) <= len(lv); {
			i := strings.Index(lv[from:], w)
			if i < 0 {
				break
			}
			i += from
			j := i + len(w)
			if (i == 0 || !isLetter(lv[i-1])) && (j == len(lv) || !isLetter(lv[j])) {
				return true
			}
			from = i + 1
		}
	}
	return false
}

type refModel struct {
	body    *node
	wrapper *node // the single top-level wrapper (sole element child of body, div or main)
	ambig   bool  // some link-density decision is too close to the documented threshold
}

func newRef(body *node) *refModel {
	r := &refModel{body: body}
	var elems []*node
	for _, k := range body.kids {
		if isElem(k) && k.tag != "script" && k.tag != "style" {
			elems = append(elems, k)
		}
	}
	if len(elems) == 1 && (elems[0].tag == "div" || elems[0].tag == "main") {
		r.wrapper = elems[0]
	}
	return r
}

func (r *refModel) top(n *node) bool {
	return n.parent == r.body || (r.wrapper != nil && n.parent == r.wrapper)
}

// density: the quantities of the link-density heuristic, computed on the generated tree:
// bytes of (trimmed) text, bytes of text inside <a>, number of <a> elements.
func density(n *node, inA bool) (total, inLinks, links int) {
	if n.tag == "" {
		l := len(strings.TrimSpace(n.dec))
		if inA {
			return l, l, 0
		}
		return l, 0, 0
	}
	if n.tag == "a" {
		links = 1
		inA = true
	}
	for _, k := range n.kids {
		t, l, c := density(k, inA)
		total, inLinks, links = total+t, inLinks+l, links+c
	}
	return
}

func isBlockTag(t string) bool {
	switch t {
	case "ul", "ol", "p", "div", "table", "blockquote", "pre":
		return true
	}
	return false
}

// excluded: the documented predicate of mode m for element n.
func (r *refModel) excluded(n *node, m int) bool {
	if m == modeNone || n.tag == "" {
		return false
	}
	// Explicit
	switch n.tag {
	case "nav", "aside":
		return true
	}
	switch n.attr("role") {
	case "navigation", "complementary":
		return true
	case "banner", "contentinfo":
		if r.top(n) {
			return true
		}
	}
	if (n.tag == "header" || n.tag == "footer") && r.top(n) {
		return true
	}
	if m >= modeStandard {
		if c := n.attr("class"); c != "" && vocabMatch(c) {
			return true
		}
		if id := n.attr("id"); id != "" && vocabMatch(id) {
			return true
		}
	}
	if m >= modeAggressive {
		switch n.tag {
		case "div", "section", "ul", "ol":
			total, inl, links := density(n, false)
			if total > 0 {
				// documented threshold: more than 60% of the text inside links and at least 4 links.
				// The generator keeps clear of the threshold; anything in between is flagged.
				ratio := float64(inl) / float64(total)
				dense := ratio >= 0.70 && links >= 5
				sparse := ratio <= 0.50 || links <= 2
				if !dense && !sparse {
					r.ambig = true
				}
				return dense
			}
		}
	}
	return false
}

func (r *refModel) skipper(m int) func(*node) bool {
	return func(n *node) bool { return r.excluded(n, m) }
}

// ---- serialization ----------------------------------------------------------------------------------

type style struct {
	name    string
	omitEnd bool // omit the end tags HTML5 allows to omit (p, li, td, th, tr, thead, tbody, tfoot)
	quote   int  // 0 "double", 1 'single', 2 unquoted where the value allows it
	upper   bool // upper-case tag and attribute names
	compact bool // no inter-element whitespace
	xhtml   bool // well-formed XML serialization (never combined with omitEnd/unquoted/upper)
	cutoff  bool // the document ends after the last text: every trailing end tag is missing (same DOM)
}

var styles = []style{
	{name: "tidy"},
	{name: "omitend", omitEnd: true},
	{name: "squote", quote: 1},
	{name: "unquoted", quote: 2},
	{name: "upper", upper: true},
	{name: "compact", compact: true},
	{name: "all", omitEnd: true, quote: 2, upper: true, compact: true},
	{name: "cutoff", cutoff: true},
}

type frame struct {
	name   string
	quirks bool
	xhtml  bool
}

var frames = []frame{
	{name: "full"},
	{name: "fragment", quirks: true},
	{name: "nobody"},
	{name: "xhtml", xhtml: true},
}

var pClosers = map[string]bool{"address": true, "hr": true, "article": true, "aside": true, "blockquote": true, "div": true,
	"footer": true, "h1": true, "h2": true, "h3": true, "h4": true, "h5": true, "h6": true, "header": true, "main": true,
	"nav": true, "ol": true, "p": true, "pre": true, "section": true, "table": true, "ul": true}

type writer struct {
	b  strings.Builder
	st style
	fr frame
}

func (w *writer) name(s string) string {
	if w.st.upper {
		return strings.ToUpper(s)
	}
	return s
}

func escAttr(v string, q byte) string {
	v = strings.ReplaceAll(v, "&", "&amp;")
	v = strings.ReplaceAll(v, "<", "&lt;")
	if q == '"' {
		v = strings.ReplaceAll(v, "\"", "&quot;")
	} else {
		v = strings.ReplaceAll(v, "'", "&#39;")
	}
	return v
}

func (w *writer) attrs(n *node) {
	for _, a := range n.attrs {
		w.b.WriteByte(' ')
		w.b.WriteString(w.name(a.k))
		w.b.WriteByte('=')
		q := w.st.quote
		if q == 2 && (a.v == "" || strings.ContainsAny(a.v, " \t\n\"'=<>`&")) {
			q = 0
		}
		switch q {
		case 0:
			w.b.WriteString("\"" + escAttr(a.v, '"') + "\"")
		case 1:
			w.b.WriteString("'" + escAttr(a.v, '\'') + "'")
		default:
			w.b.WriteString(a.v)
		}
	}
}

// nextElem returns the next sibling that is not nil; ok=false when n is the last child.
func nextSibling(n *node) *node {
	if n.parent == nil {
		return nil
	}
	ks := n.parent.kids
	for i, k := range ks {
		if k == n && i+1 < len(ks) {
			return ks[i+1]
		}
	}
	return nil
}

func (w *writer) mayOmitEnd(n *node) bool {
	if !w.st.omitEnd {
		return false
	}
	nx := nextSibling(n)
	switch n.tag {
	case "p":
		if nx == nil {
			return n.parent != nil && n.parent.tag != "a"
		}
		if nx.tag == "table" && w.fr.quirks {
			return false // in quirks mode a table does not close an open p
		}
		return pClosers[nx.tag]
	case "li":
		return nx == nil || nx.tag == "li"
	case "td", "th":
		return nx == nil || nx.tag == "td" || nx.tag == "th"
	case "tr":
		return nx == nil || nx.tag == "tr"
	case "thead":
		return nx != nil && (nx.tag == "tbody" || nx.tag == "tfoot")
	case "tbody":
		return nx == nil || nx.tag == "tbody" || nx.tag == "tfoot"
	case "tfoot":
		return nx == nil
	}
	return false
}

func isContainer(n *node) bool {
	switch n.tag {
	case "div", "section", "article", "main", "nav", "aside", "header", "footer", "ul", "ol", "table",
		"thead", "tbody", "tfoot", "tr", "body":
		return true
	}
	return false
}

func (w *writer) nl(depth int) {
	if w.st.compact {
		return
	}
	w.b.WriteByte('\n')
	for i := 0; i < depth; i++ {
		w.b.WriteString("  ")
	}
}

func (w *writer) node(n *node, depth int) {
	if n.tag == "" {
		if w.st.xhtml && n.srcX != "" {
			w.b.WriteString(n.srcX)
		} else {
			w.b.WriteString(n.src)
		}
		return
	}
	w.b.WriteByte('<')
	w.b.WriteString(w.name(n.tag))
	w.attrs(n)
	if n.tag == "hr" || n.tag == "br" {
		if w.st.xhtml {
			w.b.WriteString("/>")
		} else {
			w.b.WriteByte('>')
		}
		return
	}
	w.b.WriteByte('>')
	cont := isContainer(n)
	for _, k := range n.kids {
		if k.tag != "" && (cont || isBlockTag(k.tag)) {
			w.nl(depth + 1)
		}
		w.node(k, depth+1)
	}
	if cont {
		w.nl(depth)
	}
	if !w.mayOmitEnd(n) {
		w.b.WriteString("</" + w.name(n.tag) + ">")
	}
}

// render serializes the body subtree inside the frame.
func render(body *node, st style, fr frame) string {
	if fr.xhtml {
		st = style{name: st.name, compact: st.compact, quote: st.quote % 2, xhtml: true}
	}
	w := &writer{st: st, fr: fr}
	inner := func() {
		for _, k := range body.kids {
			if k.tag != "" {
				w.nl(1)
			}
			w.node(k, 1)
		}
		w.nl(0)
	}
	switch fr.name {
	case "full":
		w.b.WriteString("<!DOCTYPE html>\n<html lang=\"en\">\n<head>\n<meta charset=\"utf-8\">\n<title>t</title>\n<style>.Zs99 { margin: 0 }</style>\n<script>var Zs98 = 0;</script>\n</head>\n<body>")
		inner()
		w.b.WriteString("</body>\n</html>\n")
	case "fragment":
		inner()
	case "nobody":
		w.b.WriteString("<!DOCTYPE html>\n<title>t</title>")
		inner()
	case "xhtml":
		w.b.WriteString("<?xml version=\"1.0\" encoding=\"UTF-8\"?>\n<!DOCTYPE html>\n<html xmlns=\"http://www.w3.org/1999/xhtml\">\n<head>\n<title>t</title>\n<style type=\"text/css\">.Zs99 { margin: 0 }</style>\n</head>\n<body>")
		inner()
		w.b.WriteString("</body>\n</html>\n")
	}
	if st.cutoff {
		return trailingEndTags.ReplaceAllString(w.b.String(), "")
	}
	return w.b.String()
}

var trailingEndTags = regexp.MustCompile(`(\s*</[a-zA-Z0-9]+>)*\s*$`)
