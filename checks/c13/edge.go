package main

import (
	"fmt"
	"strings"
	"unicode/utf8"

	"github.com/tsawler/tabula/model"
	"github.com/tsawler/tabula/rag"
	"verif/internal/harness"
)

// ---- (edge) invisible / non-letter characters at the edges of every piece ---------------------
//
// Only white space (unicode.IsSpace, what strings.TrimSpace removes) may disappear at piece edges;
// everything else must survive, in order. One "edge character" of every relevant class is placed
// at the text start, the text end, directly before every break opportunity, directly after every
// break opportunity, and between the characters of an unspaced run (where raw cuts fall), so that
// wherever the splitter cuts, such a character sits at the edge of a piece.

var edgeChars = []struct {
	name string
	s    string
}{
	{"bom", "\uFEFF"},   // Cf byte order mark / zero width no-break space
	{"zwsp", "\u200B"},  // Cf zero width space
	{"zwj", "\u200D"},   // Cf zero width joiner
	{"shy", "\u00AD"},   // Cf soft hyphen
	{"rlm", "\u200F"},   // Cf right-to-left mark
	{"nbsp", "\u00A0"},  // Zs, white space: may be dropped
	{"ideo", "\u3000"},  // Zs ideographic space, white space: may be dropped
	{"acute", "\u0301"}, // Mn combining mark
	{"nel", "\u0085"},   // Cc, white space: may be dropped
	{"us", "\u001F"},    // Cc unit separator, NOT white space
	{"vs16", "\uFE0F"},  // Mn variation selector
}

// edgeText builds the text for one base x placement x edge character.
func edgeText(base, place, x string) string {
	var b strings.Builder
	const n = 48
	unit := func(i int) (word, sep string) {
		switch base {
		case "words":
			return fmt.Sprintf("word%d", i%10), " "
		case "lines":
			return fmt.Sprintf("line%d", i%10), "\n"
		case "sentences":
			return fmt.Sprintf("Sentence%d ends here.", i%10), " "
		case "emoji": // unspaced run: every cut is a raw cut
			return "\U0001F600", ""
		case "cjk":
			return "\u8a9e", ""
		}
		panic(base)
	}
	if place == "start" {
		b.WriteString(x)
	}
	for i := 0; i < n; i++ {
		w, sep := unit(i)
		if place == "after-break" && i > 0 {
			b.WriteString(x)
		}
		b.WriteString(w)
		if place == "before-break" && i < n-1 {
			b.WriteString(x)
		}
		if i < n-1 {
			b.WriteString(sep)
		}
	}
	if place == "end" {
		b.WriteString(x)
	}
	return b.String()
}

func edgeSpace(e *harness.Env) {
	bases := []string{"words", "lines", "sentences", "emoji", "cjk"}
	places := []string{"start", "end", "before-break", "after-break"}
	for _, base := range bases {
		for _, place := range places {
			for _, x := range edgeChars {
				s := edgeText(base, place, x.s)
				if !utf8.ValidString(s) {
					panic("generator emitted invalid UTF-8")
				}
				want := stripWS(s)
				pre := fmt.Sprintf("space=edge base=%s place=%s char=%s len=%d", base, place, x.name, len(s))
				files := map[string][]byte{"input.txt": []byte(s)}

				// SplitToSize and ChunkDocumentWithConfig over the size grid
				for _, api := range []string{"split", "docchunk"} {
					forSizeGrid(pre+" api="+api, 1, func(desc string, u unitV, lim int, tp tpcV) {
						if lim > 200 || !e.Own(desc) {
							return
						}
						var pieces []string
						e.Begin(desc)
						sig, det := harness.Guard(func() {
							cfg := sizeConfig(u.u, lim, tp.v, true)
							if api == "split" {
								pieces = rag.NewSizeCalculatorWithConfig(cfg).SplitToSize(s, nil)
								return
							}
							doc := model.NewDocument()
							pg := model.NewPage(612, 792)
							pg.AddElement(&model.Paragraph{Text: s, FontSize: 11})
							doc.AddPage(pg)
							for _, c := range rag.ChunkDocumentWithConfig(doc, rag.DefaultChunkerConfig(), cfg).Chunks {
								pieces = append(pieces, c.Text)
							}
						})
						if sig != "" {
							fail(e, desc, sig, det, files)
							return
						}
						bound := boundApplies(u.u, lim, maxSpaceGap(s))
						if sig, det := checkPieces(want, pieces, bound, u.u, lim, tp.v); sig != "" {
							fail(e, desc, sig, det, files)
							return
						}
						e.Pass(desc, len(pieces) > 1, "edge:"+api+":pieces="+bucket(len(pieces)))
					})
				}

				// layout-based Chunker (splitBySentences + word split of oversized sentences)
				for _, max := range []int{5, 50, 200} {
					desc := fmt.Sprintf("%s api=chunker max=%d", pre, max)
					if !e.Own(desc) {
						continue
					}
					cfg := rag.DefaultChunkerConfig()
					cfg.MaxChunkSize = max
					cfg.TargetChunkSize = (max + 1) / 2
					doc, _ := layoutDoc("single", s)
					var base *rag.ChunkResult
					var err error
					e.Begin(desc)
					sig, det := harness.Guard(func() { base, err = rag.NewChunkerWithConfig(cfg).Chunk(doc) })
					if sig != "" {
						fail(e, desc, sig, det, files)
						continue
					}
					if err != nil || base == nil {
						fail(e, desc, "chunk-error", fmt.Sprintf("Chunk returned error %v", err), files)
						continue
					}
					var pieces []string
					for _, c := range base.Chunks {
						pieces = append(pieces, c.Text)
					}
					bound := max >= 200 && maxSpaceGap(s) <= 50
					if sig, det := checkPieces(want, pieces, bound, rag.SizeUnitCharacters, max, 0.25); sig != "" {
						fail(e, desc, sig, det, files)
						continue
					}
					e.Pass(desc, len(pieces) > 1, "edge:chunker:pieces="+bucket(len(pieces)))
				}
			}
		}
	}
}
