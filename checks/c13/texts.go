package main

import (
	"fmt"
	"regexp"
	"strings"
	"unicode"
	"unicode/utf8"

	"verif/internal/harness"
)

// ---- segment alphabet (DESIGN.md C13) ------------------------------------------------------
//
// A text is the concatenation of <= L segments. Segments marked rep are repeated r times
// (r is one factor per text). Everything is valid UTF-8.

type segKind struct {
	name string
	unit string
	rep  bool
}

// sentence returns a sentence of exactly n bytes: capital first letter, words of <= 8 letters
// separated by single spaces, ending in ". " (so '.' sits at index n-2 and a space at n-1).
func sentence(n int, tag string) string {
	words := []string{"quick", "brown", "foxes", "jump", "over", "lazy", "dogs", "while", "seven", "wizards", "box"}
	var b strings.Builder
	b.WriteString("The")
	b.WriteString(tag)
	i := 0
	for {
		w := words[i%len(words)]
		i++
		// room left before the final ". " : n-2-b.Len(); adding " "+w must leave either 0 or >= 2 bytes
		room := n - 2 - b.Len()
		if room == 0 {
			break
		}
		if room < 1+len(w) || (room-1-len(w) == 1) {
			// pad with a short last word that fits exactly
			b.WriteByte(' ')
			for k := 0; k < room-1; k++ {
				b.WriteByte("abcdefgh"[k%8])
			}
			break
		}
		b.WriteByte(' ')
		b.WriteString(w)
	}
	b.WriteString(". ")
	s := b.String()
	if len(s) != n {
		panic(fmt.Sprintf("sentence(%d): built %d bytes", n, len(s)))
	}
	if g := maxSpaceGap(s); g > 12 {
		panic(fmt.Sprintf("sentence(%d): gap %d", n, g))
	}
	return s
}

var alphabet = []segKind{
	{"w", "lorem ", true},                    // ASCII word
	{"tok", strings.Repeat("x", 120), false}, // very long token without any break
	{"cjk", "日本語学校", true},                   // CJK run without spaces or ASCII punctuation
	{"cjkw", "学校 日本語 ", true},                // CJK words separated by spaces
	{"emo", "😀", true},                       // 4-byte emoji
	{"comb", "e\u0323\u0301", true},          // base + two combining marks
	{"s60", sentence(60, "a"), false},        // sentences of 60/150/200/250 bytes ending in ". "
	{"s150", sentence(150, "b"), false},
	{"s200", sentence(200, "c"), false},
	{"s250", sentence(250, "d"), false},
	// sentences in multi-byte scripts with ASCII sentence punctuation: capital first letter, ". " at the
	// end (rune index != byte index everywhere after them; 2-byte and 3-byte characters, odd/even lengths)
	{"mbs", "\u0395\u03bb\u03bb\u03b7\u03bd\u03b9\u03ba\u03ac \u043a\u0438\u0440\u0438\u043b\u043b\u0438\u0446\u0430 caf\u00e9 \u00fcber. ", false}, // Greek + Cyrillic + accented Latin
	{"mbs3", "\u00c9t\u00e9 \u65e5\u672c\u8a9e\u306e\u6587 \u5b66\u6821 na\u00efve \u0442\u0435\u043a\u0441\u0442. ", false},                        // accented capital + CJK + Cyrillic
	{"q", "? ", false},
	{"nl", "\n", false},
	{"para", "\n\n", false},
	{"nbsp", "\u00a0", false},
	{"nel", "\u0085", false},
	{"abbr", "U.S.A. ", false}, // dotted abbreviation (the sentence detectors special-case these)
	{"dec", "3.14 ", false},    // decimal number
}

func alphaIndex(names ...string) []int {
	var out []int
	for _, n := range names {
		found := false
		for i, a := range alphabet {
			if a.name == n {
				out = append(out, i)
				found = true
			}
		}
		if !found {
			panic("unknown segment " + n)
		}
	}
	return out
}

func allAlpha() []int {
	out := make([]int, len(alphabet))
	for i := range out {
		out[i] = i
	}
	return out
}

// text is one enumerated input.
type text struct {
	id   string // e.g. "q+s200"
	rep  int
	nseg int
	s    string

	desc     string
	done     bool
	stripped string
	mb       bool
	gap      int
}

func (t *text) prep() {
	if t.done {
		return
	}
	t.done = true
	t.stripped = stripWS(t.s)
	t.gap = maxSpaceGap(t.s)
	for i := 0; i < len(t.s); i++ {
		if t.s[i] >= 0x80 {
			t.mb = true
			break
		}
	}
	if !utf8.ValidString(t.s) {
		panic("generator emitted invalid UTF-8: " + t.id)
	}
}

// part returns the descriptor tokens of this text ("k=v k=v", same format as harness.D), including
// the derived features mb (contains multi-byte characters) and gap (space at least every 50 bytes).
func (t *text) part() string {
	if t.desc == "" {
		t.prep()
		g := "le50"
		if t.gap > 50 {
			g = "gt50"
		}
		t.desc = harness.D("text", t.id, "rep", t.rep, "len", len(t.s), "mb", b2i(t.mb), "gap", g, "initials", b2i(initialsRE.MatchString(t.s)))
	}
	return t.desc
}

// initialsRE: sentence punctuation directly followed by a capital letter and punctuation again
// (dotted initials such as "U.S.A."), a shape the sentence detectors special-case.
var initialsRE = regexp.MustCompile(`[.!?][A-Z][.!?]`)

func b2i(b bool) int {
	if b {
		return 1
	}
	return 0
}

func build(seq []int, rep int) string {
	var b strings.Builder
	for _, k := range seq {
		a := alphabet[k]
		if a.rep {
			for i := 0; i < rep; i++ {
				b.WriteString(a.unit)
			}
		} else {
			b.WriteString(a.unit)
		}
	}
	return b.String()
}

func seqID(seq []int) string {
	if len(seq) == 0 {
		return "empty"
	}
	names := make([]string, len(seq))
	for i, k := range seq {
		names[i] = alphabet[k].name
	}
	return strings.Join(names, "+")
}

// forTexts enumerates every sequence of minLen..maxLen segments over alpha (indices into alphabet),
// crossed with the repetition factors (only for sequences that contain a repeatable segment).
// The order is deterministic: by length, then lexicographic in alpha order, then by rep.
func forTexts(alpha []int, minLen, maxLen int, reps []int, f func(t *text)) {
	seq := make([]int, 0, maxLen)
	var rec func(l int)
	emit := func() {
		hasRep := false
		for _, k := range seq {
			if alphabet[k].rep {
				hasRep = true
			}
		}
		rs := reps
		if !hasRep {
			rs = []int{1}
		}
		for _, r := range rs {
			f(&text{id: seqID(seq), rep: r, nseg: len(seq), s: build(seq, r)})
		}
	}
	rec = func(l int) {
		if len(seq) == l {
			emit()
			return
		}
		for _, k := range alpha {
			seq = append(seq, k)
			rec(l)
			seq = seq[:len(seq)-1]
		}
	}
	for l := minLen; l <= maxLen; l++ {
		rec(l)
	}
}

// mkText builds a named text from segment names (used for the fixed small alphabets).
func mkText(rep int, names ...string) *text {
	seq := alphaIndex(names...)
	return &text{id: seqID(seq), rep: rep, nseg: len(seq), s: build(seq, rep)}
}

// ---- oracle helpers --------------------------------------------------------------------------

// stripWS removes every Unicode white-space rune. Bytes that are not valid UTF-8 are kept.
func stripWS(s string) string {
	// fast path: nothing to strip
	var b strings.Builder
	b.Grow(len(s))
	for i := 0; i < len(s); {
		c := s[i]
		if c < 0x80 {
			if !(c == ' ' || (c >= '\t' && c <= '\r')) {
				b.WriteByte(c)
			}
			i++
			continue
		}
		r, n := utf8.DecodeRuneInString(s[i:])
		if r == utf8.RuneError && n == 1 {
			b.WriteByte(c)
			i++
			continue
		}
		if !unicode.IsSpace(r) {
			b.WriteString(s[i : i+n])
		}
		i += n
	}
	return b.String()
}

// maxSpaceGap is the longest run of bytes without an ASCII space (0x20), counting the runs
// before the first and after the last space. "a space at least every 50 bytes" <=> gap <= 50.
func maxSpaceGap(s string) int {
	g, cur := 0, 0
	for i := 0; i < len(s); i++ {
		if s[i] == ' ' {
			cur = 0
			continue
		}
		cur++
		if cur > g {
			g = cur
		}
	}
	return g
}

// maxRunWithout is the longest run of bytes that contains none of the (ASCII) bytes in set.
func maxRunWithout(s, set string) int {
	g, cur := 0, 0
	for i := 0; i < len(s); i++ {
		if strings.IndexByte(set, s[i]) >= 0 {
			cur = 0
			continue
		}
		cur++
		if cur > g {
			g = cur
		}
	}
	return g
}

func show(s string) string {
	if len(s) > 120 {
		a, b := 50, len(s)-50
		for a > 0 && !utf8.RuneStart(s[a]) {
			a--
		}
		for b < len(s) && !utf8.RuneStart(s[b]) {
			b++
		}
		return fmt.Sprintf("%q…(%d bytes)…%q", s[:a], len(s), s[b:])
	}
	return fmt.Sprintf("%q", s)
}

// firstDiff describes where two strings start to differ.
func firstDiff(want, got string) string {
	n := len(want)
	if len(got) < n {
		n = len(got)
	}
	i := 0
	for i < n && want[i] == got[i] {
		i++
	}
	w, g := want[i:], got[i:]
	if len(w) > 40 {
		w = w[:40]
	}
	if len(g) > 40 {
		g = g[:40]
	}
	return fmt.Sprintf("lengths want=%d got=%d; first difference at non-whitespace byte %d: want %q got %q", len(want), len(got), i, w, g)
}
