package main

import (
	"fmt"
	"strings"

	"github.com/tsawler/tabula/model"
	"github.com/tsawler/tabula/rag"
	"verif/internal/harness"
)

const paragraphType = model.ElementTypeParagraph

const introPara = "Intro paragraph that precedes the long one."

// layoutDoc builds a one-page document whose layout analysis result holds the given paragraph
// (layout-based Chunker input). It returns the document and the paragraph texts in order.
func layoutDoc(layout, para string) (*model.Document, []string) {
	doc := model.NewDocument()
	pg := model.NewPage(612, 792)
	lay := &model.PageLayout{}
	var paras []string
	switch layout {
	case "single":
		paras = []string{para}
	case "pre":
		paras = []string{introPara, para}
	case "h1":
		lay.Headings = []model.HeadingInfo{{Level: 1, Text: "Heading One", FontSize: 20, Confidence: 1}}
		paras = []string{para}
	default:
		panic("layout " + layout)
	}
	for i, p := range paras {
		lay.Paragraphs = append(lay.Paragraphs, model.ParagraphInfo{Index: i, Text: p, BBox: model.BBox{X: 72, Y: 700 - float64(i)*100, Width: 400, Height: 80}})
	}
	pg.Layout = lay
	doc.AddPage(pg)
	return doc, paras
}

// ---- (chunker) layout-based Chunker: Chunk and ChunkWithOverlapEnabled ----------------------

func chunkerSpace(e *harness.Env, L int) {
	layouts := []string{"single", "pre", "h1"}
	forTexts(allAlpha(), 1, L, []int{1, 8, 40}, func(t *text) {
		for _, layout := range layouts {
			for _, max := range limits {
				for _, osz := range []int{0, 1, 2, 10, 100} {
					for _, osent := range []int{1, 0} {
						if osz == 0 && osent == 0 {
							continue
						}
						// derived feature: does the paragraph hold a stretch without sentence punctuation longer than the limit?
						sg := "lemax"
						if maxRunWithout(t.s, ".!?") > max {
							sg = "gtmax"
						}
						desc := fmt.Sprintf("space=chunker %s layout=%s max=%d sentgap=%s ovsize=%d ovsent=%d", t.part(), layout, max, sg, osz, osent)
						if !e.Own(desc) {
							continue
						}
						t.prep()
						cfg := rag.DefaultChunkerConfig()
						cfg.MaxChunkSize = max
						cfg.TargetChunkSize = (max + 1) / 2
						cfg.OverlapSize = osz
						cfg.OverlapSentences = osent == 1
						files := map[string][]byte{"paragraph.txt": []byte(t.s)}

						// 1. plain chunking: the pieces
						doc, paras := layoutDoc(layout, t.s)
						var base *rag.ChunkResult
						var err error
						e.Begin(desc)
						sig, det := harness.Guard(func() { base, err = rag.NewChunkerWithConfig(cfg).Chunk(doc) })
						if sig != "" {
							fail(e, desc, sig, det, files)
							continue
						}
						if err != nil || base == nil {
							fail(e, desc, "chunk-error", fmt.Sprintf("Chunk returned error %v", err), files)
							continue
						}
						own := make([]string, len(base.Chunks))
						titles := make([]string, len(base.Chunks))
						for i, c := range base.Chunks {
							own[i] = c.Text
							titles[i] = c.Metadata.SectionTitle
						}
						joined := strings.Join(paras, "\n\n")
						bound := max >= 200 && maxSpaceGap(joined) <= 50
						sig, det = checkPieces(stripWS(joined), own, bound, rag.SizeUnitCharacters, max, 0.25)

						// 2. the same with overlap enabled: overlap clauses against the own contents
						var n int
						if sig == "" {
							doc2, _ := layoutDoc(layout, t.s)
							var wo *rag.ChunkWithOverlapResult
							sig, det = harness.Guard(func() { wo, err = rag.NewChunkerWithConfig(cfg).ChunkWithOverlapEnabled(doc2) })
							if sig == "" {
								if err != nil || wo == nil {
									sig, det = "chunk-error", fmt.Sprintf("ChunkWithOverlapEnabled returned error %v", err)
								} else {
									sig, det, n = checkApplied(own, wo.Chunks, osz*3, func(i int) string {
										if cfg.IncludeSectionContext && titles[i] != "" {
											return "[" + titles[i] + "]"
										}
										return ""
									})
								}
							}
						}
						if sig != "" {
							fail(e, desc, sig, det, files)
							continue
						}
						oc := fmt.Sprintf("chunker:chunks=%s:overlapped=%s", bucket(len(own)), bucket(n))
						if bound {
							oc += ":bounded"
						}
						e.Pass(desc, len(own) > 1, oc)
					}
				}
			}
		}
	})
}

// ---- (docchunk) element-based DocumentChunker: ChunkDocumentWithConfig -----------------------

func docChunkSpace(e *harness.Env, L int) {
	forTexts(allAlpha(), 1, L, []int{1, 8, 40}, func(t *text) {
		for _, layout := range []string{"single", "two"} {
			forSizeGrid("space=docchunk "+t.part()+" layout="+layout, 1, func(desc string, u unitV, lim int, tp tpcV) {
				if !e.Own(desc) {
					return
				}
				t.prep()
				doc := model.NewDocument()
				pg := model.NewPage(612, 792)
				paras := []string{t.s}
				if layout == "two" {
					paras = []string{introPara, t.s}
				}
				for _, p := range paras {
					pg.AddElement(&model.Paragraph{Text: p, FontSize: 11})
				}
				doc.AddPage(pg)
				var coll *rag.ChunkCollection
				e.Begin(desc)
				sig, det := harness.Guard(func() {
					coll = rag.ChunkDocumentWithConfig(doc, rag.DefaultChunkerConfig(), sizeConfig(u.u, lim, tp.v, true))
				})
				files := map[string][]byte{"paragraph.txt": []byte(t.s)}
				if sig != "" {
					fail(e, desc, sig, det, files)
					return
				}
				if coll == nil {
					fail(e, desc, "chunk-error", "ChunkDocumentWithConfig returned nil", files)
					return
				}
				texts := make([]string, len(coll.Chunks))
				for i, c := range coll.Chunks {
					texts[i] = c.Text
				}
				joined := strings.Join(paras, "\n\n")
				bound := boundApplies(u.u, lim, maxSpaceGap(joined))
				if sig, det := checkPieces(stripWS(joined), texts, bound, u.u, lim, tp.v); sig != "" {
					fail(e, desc, sig, det, files)
					return
				}
				oc := "docchunk:chunks=" + bucket(len(texts))
				if bound {
					oc += ":bounded"
				}
				e.Pass(desc, len(texts) > 1, oc)
			})
		}
	})
}
