// C13 — Splitting respects the size limit and never corrupts text.
//
// Bounded-exhaustive enumeration of (text, size configuration, overlap configuration) against
// every public splitting / overlap entry point of tabula/rag:
//
//	split     rag.(*SizeCalculator).SplitToSize(text, nil)
//	point     rag.(*SizeCalculator).FindSplitPointAt / FindSplitPoint
//	bnd       SplitToSize(text, DetectBoundaries(blocks))          (semantic boundaries supplied)
//	ovl       rag.(*OverlapGenerator).GenerateOverlap
//	apply     rag.ApplyOverlapToChunks
//	chunker   rag.NewChunkerWithConfig(c).Chunk / ChunkWithOverlapEnabled  (oversized paragraphs -> splitBySentences)
//	docchunk  rag.ChunkDocumentWithConfig                                  (oversized text block -> SplitToSize)
//
// Oracle clauses (exactly the statement): terminates without panic; the non-whitespace runes of
// the pieces, concatenated, equal those of the input; every piece is valid UTF-8 (all inputs
// are); under the precondition "character/token limit >= 200 and an ASCII space at least every
// 50 bytes" no piece exceeds the maximum; overlap text is (modulo whitespace) a suffix of the
// previous chunk's OWN content, valid UTF-8 and not longer than MaxOverlap.
package main

import (
	"fmt"
	"os"
	"strings"
	"time"
	"unicode/utf8"

	"github.com/tsawler/tabula/rag"
	"verif/internal/harness"
)

func main() { harness.Main("C13", "exploration", run) }

func run(e *harness.Env) {
	e.Track = true
	e.CaseDeadline = 20 * time.Second // backstop only: a split of these texts takes micro- to milliseconds
	L := 3
	if e.Thorough() {
		L = 4
	}
	e.Rule = fmt.Sprintf("full product per sub-space (no sampling). Texts = every sequence of 0..n segments over {ASCII word, 120-byte token, CJK run, spaced CJK words, emoji, base+2 combining marks, "+
		"sentences of 60/150/200/250 bytes ending in '. ', two multi-byte-script sentences (Greek/Cyrillic/accented Latin/CJK) ending in '. ', '? ', newline, blank line, NBSP, NEL, dotted abbreviation, decimal number} with one repetition factor r in {1,8,40} for the repeatable segments. "+
		"split (n<=%d%s): texts x unit{characters,tokens,words,sentences,paragraphs} x limit{1,2,5,50,200,800} (sentences/paragraphs only 1,2,5 and words up to 200: larger ones cannot engage on texts of this size) x TokensPerChar{0.25,1,0 (token unit only)}; "+
		"edge: {words, lines, sentences, unspaced emoji, unspaced CJK} x one character of {Cf: BOM, ZWSP, ZWJ, soft hyphen, RLM; Zs: NBSP, ideographic space; Mn: combining acute, VS16; Cc: NEL, unit separator} placed at {text start, text end, before every break opportunity, after every break opportunity} x the size grid (limits<=200) through SplitToSize, ChunkDocumentWithConfig and the layout Chunker (only white space may vanish at piece edges); "+
		"point (n<=%d): FindSplitPointAt and FindSplitPoint on the same grid; bnd: sequences of <=%d paragraph blocks out of 14 (incl. multi-byte sentences and blocks with stray leading/trailing blanks) with BoundaryDetector boundaries x SplitAtSemanticBoundaries x the grid; "+
		"ovl (n<=%d; quick additionally every 3-segment sequence over {2 multi-byte sentences, ASCII sentence, spaced CJK, emoji, word}): texts x strategy{none,character,sentence,paragraph} x size{1,2,10,100} x PreserveWords x MaxOverlap{0,50,300,500} x MinOverlap{0,20}; "+
		"ovlcut: {1-,2-,3-,4-byte character runs, mixed} x {unspaced, spaced, sentences} x 0..3 leading ASCII bytes (every alignment of the cut byte inside a character) x strategy{character,sentence,paragraph} x PreserveWords x MaxOverlap{50,51,100,500} x Size{Max-3..Max+2,Max+50,10 | 1,2 sentences/paragraphs}, through GenerateOverlap and ApplyOverlapToChunks; "+
		"apply: sequences of 2..%d position-marked chunk texts out of 10 kinds (two of them multi-byte-script sentences) x the overlap grid x IncludeHeadingContext; "+
		"chunker (n<=%d): one-page documents {paragraph, intro+paragraph, H1+paragraph} x MaxChunkSize{1,2,5,50,200,800} x OverlapSize{0,1,2,10,100} x OverlapSentences, Chunk and ChunkWithOverlapEnabled; "+
		"docchunk (n<=%d): ChunkDocumentWithConfig on {paragraph, intro+paragraph} x the size grid. "+
		"A case is distinct by its descriptor; non-trivial = the input had to be split or an overlap was produced (a clause beyond termination was exercised)",
		L, map[bool]string{false: "", true: "; for n=4 limits<50 only with r=1; plus every 5-segment sequence over 8 segment kinds with r in {1,8}, limits<50 only with r=1"}[e.Thorough()],
		L-1, map[bool]int{false: 2, true: 3}[e.Thorough()], L-1, map[bool]int{false: 3, true: 4}[e.Thorough()], L-1, L-1)
	e.Assumptions = []string{
		"Go's unicode.IsSpace / utf8.ValidString define white space and UTF-8 validity",
		"sizes are measured as the library defines its units: characters = len(text) in bytes (SizeMetrics.Characters, CharCount), tokens = int(bytes*ratio), MaxOverlap in bytes (len(overlap)); bounds are exact, no slack",
		"'break opportunity within the maximum' = the quantifier's precondition: limit >= 200 and an ASCII space at least every 50 bytes",
		"'configured overlap bounds' = MaxOverlap (MinOverlap and Size are targets, not bounds)",
	}
	e.Note("max_segments", fmt.Sprint(L))
	// C13_SPACES (development only, never set by registered commands): comma list of sub-spaces to run
	only := os.Getenv("C13_SPACES")
	want := func(name string) bool { return only == "" || strings.Contains(","+only+",", ","+name+",") }
	if only != "" {
		e.Incomplete("development filter C13_SPACES=" + only)
	}
	if want("split") {
		splitSpace(e, L)
	}
	if want("edge") {
		edgeSpace(e)
	}
	if want("point") {
		pointSpace(e, L-1)
	}
	if want("bnd") {
		boundarySpace(e)
	}
	if want("ovl") {
		overlapSpace(e, L-1)
	}
	if want("ovlcut") {
		overlapCutSpace(e)
	}
	if want("apply") {
		applySpace(e)
	}
	if want("chunker") {
		chunkerSpace(e, L-1)
	}
	if want("docchunk") {
		docChunkSpace(e, L-1)
	}
}

// fail records a failing case. Every failing descriptor is kept (known-finding matching needs it),
// but the detail text and input files only for the first 200 cases of a signature per sub-space and worker.
var failSeen = map[string]int{}

func fail(e *harness.Env, desc, sig, det string, files map[string][]byte) {
	key := sig
	if i := strings.IndexByte(desc, ' '); i > 0 {
		key = desc[:i] + " " + sig // per sub-space and signature
	}
	failSeen[key]++
	if failSeen[key] > 200 && !e.Replaying() {
		det, files = "(detail omitted after 200 cases of this signature in this sub-space and worker; replay the case to see it)", nil
	}
	e.Fail(desc, sig, det, files)
}

// ---- configuration grid ---------------------------------------------------------------------

type unitV struct {
	name string
	u    rag.SizeUnit
}

var units = []unitV{
	{"chars", rag.SizeUnitCharacters}, {"tokens", rag.SizeUnitTokens}, {"words", rag.SizeUnitWords},
	{"sentences", rag.SizeUnitSentences}, {"paragraphs", rag.SizeUnitParagraphs},
}

var limits = []int{1, 2, 5, 50, 200, 800}

type tpcV struct {
	name string
	v    float64
}

var tpcs = []tpcV{{"0.25", 0.25}, {"1", 1}, {"0", 0}}

func sizeConfig(u rag.SizeUnit, limit int, tpc float64, semantic bool) rag.SizeConfig {
	c := rag.DefaultSizeConfig()
	c.Max = rag.SizeLimit{Value: limit, Unit: u, Type: rag.LimitTypeHard}
	t := limit / 2
	if t < 1 {
		t = 1
	}
	c.Target = rag.SizeLimit{Value: t, Unit: u, Type: rag.LimitTypeSoft}
	c.Min = rag.SizeLimit{Value: 0, Unit: u, Type: rag.LimitTypeSoft}
	c.TokensPerChar = tpc
	c.SplitAtSemanticBoundaries = semantic
	return c
}

type sizeCase struct {
	u    unitV
	lim  int
	tp   tpcV
	part string // "unit=.. limit=.. tpc=.."
}

var sizeGrid = func() []sizeCase {
	var out []sizeCase
	for _, u := range units {
		for _, lim := range limits {
			for _, tp := range tpcs {
				if u.u != rag.SizeUnitTokens && tp.name != "0.25" {
					continue // the ratio only enters the token unit
				}
				// limits that can never engage on texts of <= 5 segments (<= ~4 KB): 50+ sentences or
				// paragraphs (4000+ bytes by the documented estimates) and 800 words (4800 bytes)
				if ((u.u == rag.SizeUnitSentences || u.u == rag.SizeUnitParagraphs) && lim >= 50) || (u.u == rag.SizeUnitWords && lim >= 800) {
					continue
				}
				out = append(out, sizeCase{u, lim, tp, harness.D("unit", u.name, "limit", lim, "tpc", tp.name)})
			}
		}
	}
	return out
}()

// forSizeGrid enumerates unit x limit x TokensPerChar; pre is the descriptor so far.
func forSizeGrid(pre string, minLimit int, f func(desc string, u unitV, lim int, tp tpcV)) {
	for i := range sizeGrid {
		c := &sizeGrid[i]
		if c.lim < minLimit {
			continue
		}
		f(pre+" "+c.part, c.u, c.lim, c.tp)
	}
}

// pieceSize measures a piece in the unit of the hard maximum exactly as the library defines that
// unit (SizeMetrics.Characters = len(text), i.e. bytes; tokens = int(len(text) * ratio)): no slack.
func pieceSize(p string, u rag.SizeUnit, tpc float64) int {
	n := len(p)
	if u == rag.SizeUnitTokens {
		if tpc <= 0 {
			tpc = 0.25 // documented default, as EstimateTokens does
		}
		return int(float64(n) * tpc)
	}
	return n
}

// trimFits is a derived descriptor feature: the text exceeds the character/token maximum only by its
// leading/trailing white space (it fits once trimmed, as every other piece is).
func trimFits(s string, u rag.SizeUnit, limit int, tpc float64) int {
	if u != rag.SizeUnitCharacters && u != rag.SizeUnitTokens {
		return 0
	}
	if pieceSize(s, u, tpc) > limit && pieceSize(strings.TrimSpace(s), u, tpc) <= limit {
		return 1
	}
	return 0
}

// boundApplies is the statement's precondition for the size bound.
func boundApplies(u rag.SizeUnit, limit int, gap int) bool {
	return (u == rag.SizeUnitCharacters || u == rag.SizeUnitTokens) && limit >= 200 && gap <= 50
}

// checkPieces evaluates conservation, UTF-8 integrity and (when it applies) the size bound.
// It returns the joined signature of every violated clause ("" if none) and a detail text.
func checkPieces(wantStripped string, pieces []string, bound bool, u rag.SizeUnit, limit int, tpc float64) (string, string) {
	var sigs, det []string
	if got := stripWS(strings.Join(pieces, "")); got != wantStripped {
		sigs = append(sigs, "text-not-conserved")
		det = append(det, "non-whitespace characters of the pieces differ from the input: "+firstDiff(wantStripped, got))
	}
	for i, p := range pieces {
		if !utf8.ValidString(p) {
			sigs = append(sigs, "invalid-utf8-piece")
			det = append(det, fmt.Sprintf("piece %d of %d is not valid UTF-8 (a multi-byte character was cut): %s", i, len(pieces), show(p)))
			break
		}
	}
	if bound {
		for i, p := range pieces {
			if sz := pieceSize(p, u, tpc); sz > limit {
				sigs = append(sigs, "piece-exceeds-max")
				det = append(det, fmt.Sprintf("piece %d of %d measures %d (%d bytes, %d characters) > hard maximum %d although the text has a space at least every 50 bytes: %s", i, len(pieces), sz, len(p), utf8.RuneCountInString(p), limit, show(p)))
				break
			}
		}
	}
	return first(sigs), strings.Join(det, "\n")
}

// first returns the signature of the first violated clause (fixed clause order). The detail text
// always lists every violated clause; one stable class per case keeps known-finding matching exact.
func first(sigs []string) string {
	if len(sigs) == 0 {
		return ""
	}
	return sigs[0]
}

func bucket(n int) string {
	switch {
	case n <= 1:
		return fmt.Sprint(n)
	case n <= 4:
		return "2-4"
	case n <= 20:
		return "5-20"
	}
	return "21+"
}

// ---- (split) SizeCalculator.SplitToSize(text, nil) ----------------------------------------

// reduced alphabet for the longest sequences of the thorough tier
var reducedAlpha = []string{"w", "cjk", "cjkw", "tok", "s200", "s250", "q", "para"}

func splitSpace(e *harness.Env, L int) {
	body := func(minLimNseg int) func(t *text) {
		return func(t *text) {
			minLimit := 1
			if t.nseg >= minLimNseg && t.rep > 1 {
				minLimit = 50 // the longest repeated texts only with the limits where the search windows matter
			}
			forSizeGrid("space=split "+t.part(), minLimit, func(desc string, u unitV, lim int, tp tpcV) {
				desc = fmt.Sprintf("%s trimfits=%d", desc, trimFits(t.s, u.u, lim, tp.v))
				if !e.Own(desc) {
					return
				}
				t.prep()
				sc := rag.NewSizeCalculatorWithConfig(sizeConfig(u.u, lim, tp.v, true))
				var pieces []string
				e.Begin(desc)
				sig, det := harness.Guard(func() { pieces = sc.SplitToSize(t.s, nil) })
				files := map[string][]byte{"input.txt": []byte(t.s)}
				if sig != "" {
					fail(e, desc, sig, det, files)
					return
				}
				bound := boundApplies(u.u, lim, t.gap)
				if sig, det := checkPieces(t.stripped, pieces, bound, u.u, lim, tp.v); sig != "" {
					fail(e, desc, sig, det, files)
					return
				}
				e.Max("max_pieces", int64(len(pieces)))
				oc := "split:pieces=" + bucket(len(pieces))
				if bound {
					oc += ":bounded"
				}
				e.Pass(desc, len(pieces) > 1, oc)
			})
		}
	}
	if !e.Thorough() {
		forTexts(allAlpha(), 0, L, []int{1, 8, 40}, body(L+1)) // quick: <=3 segments, every limit
		return
	}
	forTexts(allAlpha(), 0, L, []int{1, 8, 40}, body(L)) // thorough: <=3 segments every limit, 4 segments limits>=50
	{
		forTexts(alphaIndex(reducedAlpha...), L+1, L+1, []int{1, 8}, body(L))
		e.Note("split_extra", fmt.Sprintf("all sequences of exactly %d segments over %v, r in {1,8} (limits<50 only with r=1)", L+1, reducedAlpha))
	}
}

// ---- (point) FindSplitPointAt / FindSplitPoint ---------------------------------------------

func pointSpace(e *harness.Env, L int) {
	forTexts(allAlpha(), 0, L, []int{1, 8, 40}, func(t *text) {
		forSizeGrid("space=point "+t.part(), 1, func(pre string, u unitV, lim int, tp tpcV) {
			for _, api := range []string{"At", "Target"} {
				desc := pre + " api=" + api
				if !e.Own(desc) {
					continue
				}
				t.prep()
				cfg := sizeConfig(u.u, lim, tp.v, true)
				if api == "Target" {
					cfg.Target = rag.SizeLimit{Value: lim, Unit: u.u, Type: rag.LimitTypeSoft}
				}
				sc := rag.NewSizeCalculatorWithConfig(cfg)
				var p int
				e.Begin(desc)
				sig, det := harness.Guard(func() {
					if api == "At" {
						p = sc.FindSplitPointAt(t.s, nil, lim, u.u)
					} else {
						p = sc.FindSplitPoint(t.s, nil)
					}
				})
				files := map[string][]byte{"input.txt": []byte(t.s)}
				switch {
				case sig != "":
					fail(e, desc, sig, det, files)
				case p < 0 || p > len(t.s):
					fail(e, desc, "split-point-out-of-range", fmt.Sprintf("split point %d outside [0,%d]", p, len(t.s)), files)
				case p < len(t.s) && !utf8.RuneStart(t.s[p]):
					fail(e, desc, "split-point-inside-character", fmt.Sprintf("split point %d lies inside a multi-byte character: head %s | tail %s", p, show(t.s[:p]), show(t.s[p:])), files)
				case p == len(t.s):
					e.Pass(desc, false, "point:whole")
				default:
					e.Pass(desc, true, "point:inner")
				}
			}
		})
	})
}

// ---- (bnd) SplitToSize with boundaries from the BoundaryDetector ---------------------------

// paragraph blocks of the boundary space. Most are trimmed (as a layout analysis delivers them); the
// "sp" kinds keep a stray leading / trailing blank, which SplitToSize trims from the remainder while
// the boundary positions are only shifted by the split position.
type paraKind struct {
	id string
	s  string
}

func paragraphKinds() []paraKind {
	tr := func(t *text) paraKind {
		return paraKind{fmt.Sprintf("%s*%d", t.id, t.rep), strings.TrimSpace(t.s)}
	}
	out := []paraKind{
		tr(mkText(8, "w")), tr(mkText(1, "s60")), tr(mkText(1, "s150")), tr(mkText(1, "s250")), tr(mkText(1, "s60", "s60", "s60")),
		tr(mkText(40, "cjk")), tr(mkText(8, "cjkw")), tr(mkText(8, "emo")), tr(mkText(1, "tok")), tr(mkText(1, "s200", "q")),
		tr(mkText(1, "mbs", "mbs3", "mbs")),
	}
	out = append(out,
		paraKind{"sp+cjk*8", " " + mkText(8, "cjk").s},
		paraKind{"sp+mbs+mbs3+sp", "  " + mkText(1, "mbs", "mbs3").s},
		paraKind{"s60+s60+sp", mkText(1, "s60", "s60").s + " "})
	return out
}

func boundarySpace(e *harness.Env) {
	paras := paragraphKinds()
	maxBlocks := 2
	if e.Thorough() {
		maxBlocks = 3
	}
	det := rag.NewBoundaryDetector()
	seq := []int{}
	var rec func(l int)
	emit := func() {
		ids := make([]string, len(seq))
		blocks := make([]rag.ContentBlock, len(seq))
		parts := make([]string, len(seq))
		for i, k := range seq {
			ids[i] = paras[k].id
			parts[i] = paras[k].s
			blocks[i] = rag.ContentBlock{Type: 0, Text: parts[i], Index: i}
		}
		joined := strings.Join(parts, "\n\n")
		t := &text{id: strings.Join(ids, "|"), rep: 1, nseg: len(seq), s: joined}
		for _, sem := range []int{1, 0} {
			forSizeGrid(fmt.Sprintf("space=bnd %s sem=%d", t.part(), sem), 1, func(desc string, u unitV, lim int, tp tpcV) {
				desc = fmt.Sprintf("%s trimfits=%d", desc, trimFits(joined, u.u, lim, tp.v))
				if !e.Own(desc) {
					return
				}
				t.prep()
				for i := range blocks {
					blocks[i].Type = paragraphType
				}
				var pieces []string
				var nb int
				e.Begin(desc)
				sig, dt := harness.Guard(func() {
					bs := det.DetectBoundaries(blocks)
					nb = len(bs)
					pieces = rag.NewSizeCalculatorWithConfig(sizeConfig(u.u, lim, tp.v, sem == 1)).SplitToSize(joined, bs)
				})
				files := map[string][]byte{"input.txt": []byte(joined)}
				if sig != "" {
					fail(e, desc, sig, dt, files)
					return
				}
				bound := boundApplies(u.u, lim, t.gap)
				if sig, dt := checkPieces(t.stripped, pieces, bound, u.u, lim, tp.v); sig != "" {
					fail(e, desc, sig, fmt.Sprintf("%d boundaries supplied\n%s", nb, dt), files)
					return
				}
				oc := "bnd:pieces=" + bucket(len(pieces))
				if bound {
					oc += ":bounded"
				}
				e.Pass(desc, len(pieces) > 1, oc)
			})
		}
	}
	rec = func(l int) {
		if len(seq) == l {
			emit()
			return
		}
		for k := range paras {
			seq = append(seq, k)
			rec(l)
			seq = seq[:len(seq)-1]
		}
	}
	for l := 1; l <= maxBlocks; l++ {
		rec(l)
	}
}

// ---- overlap grid ---------------------------------------------------------------------------

type stratV struct {
	name string
	s    rag.OverlapStrategy
}

var strategies = []stratV{{"none", rag.OverlapNone}, {"character", rag.OverlapCharacter}, {"sentence", rag.OverlapSentence}, {"paragraph", rag.OverlapParagraph}}

type ovlCfg struct {
	part string // "strategy=.. size=.. words=.. maxov=.. minov=.."
	cfg  rag.OverlapConfig
}

func overlapGrid() []ovlCfg {
	var out []ovlCfg
	for _, st := range strategies {
		for _, size := range []int{1, 2, 10, 100} {
			for _, pw := range []int{1, 0} {
				for _, mx := range []int{0, 50, 300, 500} {
					for _, mn := range []int{0, 20} {
						if st.s == rag.OverlapNone && (size != 1 || pw != 1 || mx != 0 || mn != 0) {
							continue
						}
						out = append(out, ovlCfg{
							part: harness.D("strategy", st.name, "size", size, "words", pw, "maxov", mx, "minov", mn),
							cfg:  rag.OverlapConfig{Strategy: st.s, Size: size, MinOverlap: mn, MaxOverlap: mx, PreserveWords: pw == 1},
						})
					}
				}
			}
		}
	}
	return out
}

// checkOverlap evaluates the overlap clauses for one overlap text against the OWN content of
// the chunk it was taken from (ownStripped = that content without white space).
func checkOverlap(ov string, ownStripped string, maxOverlap int) (string, string) {
	if ov == "" {
		return "", ""
	}
	var sigs, det []string
	if !utf8.ValidString(ov) {
		sigs = append(sigs, "overlap-invalid-utf8")
		det = append(det, "overlap text is not valid UTF-8 (a multi-byte character was cut): "+show(ov))
	}
	if s := stripWS(ov); !strings.HasSuffix(ownStripped, s) {
		// classes of the same clause, told apart by what the overlap text is instead
		class := "overlap-not-suffix"
		switch {
		case ownStripped != "" && len(s) > len(ownStripped) && strings.HasSuffix(s, ownStripped):
			class += ":reaches-past-own-content" // the whole own content plus text from further back (the neighbour's overlap prefix)
		case strings.Contains(ownStripped, s):
			class += ":inner-part" // text from the middle / start of the chunk
		}
		sigs = append(sigs, class)
		det = append(det, fmt.Sprintf("overlap text (modulo white space) is not a suffix of the previous chunk's own content\n overlap: %s\n previous own content: %s", show(ov), show(ownStripped)))
	}
	// MaxOverlap is measured the way the library measures it (len(overlap), OverlapResult.CharCount): bytes, no slack
	if n := len(ov); n > maxOverlap {
		sigs = append(sigs, "overlap-exceeds-max")
		det = append(det, fmt.Sprintf("overlap text has %d bytes (%d characters) > MaxOverlap %d: %s", n, utf8.RuneCountInString(ov), maxOverlap, show(ov)))
	}
	return first(sigs), strings.Join(det, "\n")
}

// ---- (ovl) OverlapGenerator.GenerateOverlap ------------------------------------------------

// overlap texts of the quick tier one segment longer than the full-alphabet bound: every mix of
// multi-byte-script sentences, ASCII sentences, spaced CJK, emoji and plain words (3 sentences are
// needed before a 2-sentence overlap starts anywhere but at the beginning of the text)
var overlapAlpha = []string{"mbs", "mbs3", "s60", "cjkw", "emo", "w"}

func overlapSpace(e *harness.Env, L int) {
	grid := overlapGrid()
	body := overlapBody(e, grid)
	forTexts(allAlpha(), 0, L, []int{1, 8, 40}, body)
	if !e.Thorough() {
		forTexts(alphaIndex(overlapAlpha...), L+1, L+1, []int{1, 8}, body)
		e.Note("ovl_extra", fmt.Sprintf("all sequences of exactly %d segments over %v, r in {1,8}", L+1, overlapAlpha))
	}
}

func overlapBody(e *harness.Env, grid []ovlCfg) func(t *text) {
	return func(t *text) {
		for _, oc := range grid {
			desc := "space=ovl " + t.part() + " " + oc.part
			if !e.Own(desc) {
				continue
			}
			t.prep()
			var res *rag.OverlapResult
			e.Begin(desc)
			sig, det := harness.Guard(func() { res = rag.NewOverlapGeneratorWithConfig(oc.cfg).GenerateOverlap(t.s) })
			files := map[string][]byte{"input.txt": []byte(t.s)}
			if sig != "" {
				fail(e, desc, sig, det, files)
				continue
			}
			if res == nil {
				fail(e, desc, "nil-overlap-result", "GenerateOverlap returned nil", files)
				continue
			}
			if sig, det := checkOverlap(res.Text, t.stripped, oc.cfg.MaxOverlap); sig != "" {
				fail(e, desc, sig, det, files)
				continue
			}
			switch {
			case res.Text == "":
				e.Pass(desc, false, "ovl:empty")
			case stripWS(res.Text) == t.stripped:
				e.Pass(desc, true, "ovl:whole-chunk")
			default:
				e.Pass(desc, true, "ovl:proper-suffix")
			}
		}
	}
}

// ---- (apply) ApplyOverlapToChunks ----------------------------------------------------------

// chunkKinds build position-marked chunk texts: every chunk of a sequence has different words,
// so an overlap taken from the wrong neighbour cannot pass as a suffix by coincidence.
var chunkKinds = []struct {
	name string
	mk   func(i int) string
}{
	{"sent1", func(i int) string { return fmt.Sprintf("Chunk%d holds exactly one sentence about topic%d.", i, i) }},
	{"sent2", func(i int) string {
		return fmt.Sprintf("Chunk%d starts with a first sentence. Then chunk%d ends with a second sentence.", i, i)
	}},
	{"sent3", func(i int) string {
		return fmt.Sprintf("One%d is short. Two%d is short. Three%d is a little bit longer than the others.", i, i, i)
	}},
	{"words", func(i int) string { return strings.TrimSpace(strings.Repeat(fmt.Sprintf("word%d ", i), 12)) }},
	{"cjk", func(i int) string {
		return strings.Repeat("日本語", 3) + fmt.Sprint(i) + strings.Repeat("学校の文字列", 5)
	}},
	{"paras", func(i int) string { return fmt.Sprintf("Para%d one is here.\n\nPara%d two is there.", i, i) }},
	{"emoji", func(i int) string {
		return fmt.Sprintf("\U0001F600%d e\u0323\u0301 \U0001F600\U0001F600 %d\U0001F600", i, i)
	}},
	{"tiny", func(i int) string { return fmt.Sprintf("x%d", i) }},
	// multi-byte scripts mixed with ASCII sentence punctuation (2 and 3 sentences, each starting with a capital)
	{"mbsent2", func(i int) string {
		return fmt.Sprintf("\u041f\u0440\u0438\u0432\u0435\u0442 \u043c\u0438\u0440%d, \u044d\u0442\u043e \u043f\u0435\u0440\u0432\u043e\u0435. \u0395\u03bb\u03bb\u03b7\u03bd\u03b9\u03ba\u03ac%d \u65e5\u672c\u8a9e caf\u00e9 here.", i, i)
	}},
	{"mbsent3", func(i int) string {
		return fmt.Sprintf("\u00c9t\u00e9%d \u5b66\u6821 one. \u00dcber%d na\u00efve \u0442\u0435\u043a\u0441\u0442 two. \u0391\u03b8\u03ae\u03bd\u03b1%d \u65e5\u672c three ends here.", i, i, i)
	}},
}

func applySpace(e *harness.Env) {
	grid := overlapGrid()
	maxLen := 3
	if e.Thorough() {
		maxLen = 4
	}
	seq := []int{}
	var rec func(l int)
	emit := func() {
		ids := make([]string, len(seq))
		own := make([]string, len(seq))
		for i, k := range seq {
			ids[i] = chunkKinds[k].name
			own[i] = chunkKinds[k].mk(i)
		}
		id := strings.Join(ids, "|")
		mb := 0
		for _, o := range own {
			if len(o) != utf8.RuneCountInString(o) {
				mb = 1
			}
		}
		for _, oc := range grid {
			for _, ctx := range []int{0, 1} {
				desc := fmt.Sprintf("space=apply chunks=%s mb=%d %s ctx=%d", id, mb, oc.part, ctx)
				if !e.Own(desc) {
					continue
				}
				cfg := oc.cfg
				cfg.IncludeHeadingContext = ctx == 1
				chunks := make([]*rag.Chunk, len(own))
				for i, s := range own {
					chunks[i] = rag.NewChunk(fmt.Sprintf("c%d", i), s, rag.ChunkMetadata{SectionTitle: "Sec", ChunkIndex: i})
				}
				var res []*rag.ChunkWithOverlap
				e.Begin(desc)
				sig, det := harness.Guard(func() { res = rag.ApplyOverlapToChunks(chunks, cfg) })
				files := map[string][]byte{"chunks.txt": []byte(strings.Join(own, "\n=====\n"))}
				if sig != "" {
					fail(e, desc, sig, det, files)
					continue
				}
				title := ""
				if ctx == 1 {
					title = "[Sec]"
				}
				sig, det, n := checkApplied(own, res, cfg.MaxOverlap, func(int) string { return title })
				if sig != "" {
					fail(e, desc, sig, det, files)
					continue
				}
				e.Pass(desc, n > 0, "apply:overlapped="+bucket(n))
			}
		}
	}
	rec = func(l int) {
		if len(seq) == l {
			emit()
			return
		}
		for k := range chunkKinds {
			seq = append(seq, k)
			rec(l)
			seq = seq[:len(seq)-1]
		}
	}
	for l := 2; l <= maxLen; l++ {
		rec(l)
	}
}

// checkApplied checks the chunks returned by ApplyOverlapToChunks / ChunkWithOverlapEnabled
// against the chunks' own contents (texts before any overlap was applied). ctxOf(i) is the
// context line the configuration prepends to chunk i ("" for none). The signature is that of the
// first violated clause of the first offending chunk; the detail lists all of them.
func checkApplied(own []string, res []*rag.ChunkWithOverlap, maxOverlap int, ctxOf func(i int) string) (sig, det string, overlapped int) {
	if len(res) != len(own) {
		return "chunk-count-changed", fmt.Sprintf("%d chunks in, %d out", len(own), len(res)), 0
	}
	var sigs, dets []string
	add := func(s, d string) {
		sigs = append(sigs, s)
		dets = append(dets, d)
	}
	for i, r := range res {
		if r == nil || r.Chunk == nil {
			add("nil-chunk", fmt.Sprintf("chunk %d is nil", i))
			continue
		}
		ownS := stripWS(own[i])
		if !r.HasOverlapPrefix && r.OverlapPrefix == "" {
			if stripWS(r.Text) != ownS {
				add("text-not-conserved", fmt.Sprintf("chunk %d has no overlap but its text changed: %s", i, firstDiff(ownS, stripWS(r.Text))))
			}
			continue
		}
		overlapped++
		if i == 0 {
			add("overlap-not-suffix", "the first chunk received an overlap prefix: "+show(r.OverlapPrefix))
			continue
		}
		if s, d := checkOverlap(r.OverlapPrefix, stripWS(own[i-1]), maxOverlap); s != "" {
			add(s, fmt.Sprintf("chunk %d: %s", i, d))
		}
		want := stripWS(ctxOf(i)) + stripWS(r.OverlapPrefix) + ownS
		if got := stripWS(r.Text); got != want {
			add("text-not-conserved", fmt.Sprintf("chunk %d text is not [context] + overlap + own content: %s", i, firstDiff(want, got)))
		}
		if utf8.ValidString(r.OverlapPrefix) && !utf8.ValidString(r.Text) {
			add("invalid-utf8-piece", fmt.Sprintf("chunk %d text is not valid UTF-8 although its overlap prefix and own content are: %s", i, show(r.Text)))
		}
	}
	return first(sigs), strings.Join(dets, "\n"), overlapped
}

// ---- (ovlcut) every alignment of the overlap cut inside a multi-byte character ---------------
//
// The tail of a chunk is cut at byte len(text)-Size (character strategy) or len(overlap)-MaxOverlap
// (truncation of a sentence / paragraph overlap whose last sentence alone exceeds MaxOverlap).
// Texts are runs of 1-, 2-, 3- and 4-byte characters (and a mix), unspaced / spaced / as sentences,
// shifted by 0..3 leading ASCII bytes so that the cut byte falls at every offset 0..3 of a character;
// (Size, MaxOverlap) pairs include Size = MaxOverlap-3 .. MaxOverlap+2 and Size > MaxOverlap.

func overlapCutSpace(e *harness.Env) {
	type body struct {
		name string
		unit []string // characters cycled through
	}
	bodies := []body{
		{"b1", []string{"a", "b", "c", "d", "e"}},
		{"b2", []string{"α", "β", "γ", "δ", "é"}},
		{"b3", []string{"日", "本", "語", "学", "校"}},
		{"b4", []string{"😀", "🎉", "🚀"}},
		{"mix", []string{"a", "β", "日", "😀", "é", "語", "b"}},
	}
	build := func(b body, form string, n int) string {
		var sb strings.Builder
		for i := 0; i < n; i++ {
			switch form {
			case "spaced":
				if i > 0 && i%5 == 0 {
					sb.WriteByte(' ')
				}
			case "sentences":
				if i%40 == 0 {
					if i > 0 {
						sb.WriteString(". ")
					}
					sb.WriteString("S") // capital: the sentence detector needs one after ". "
				} else if i%5 == 0 {
					sb.WriteByte(' ')
				}
			}
			sb.WriteString(b.unit[i%len(b.unit)])
		}
		if form == "sentences" {
			sb.WriteByte('.')
		}
		return sb.String()
	}
	type cfgCase struct {
		part string
		cfg  rag.OverlapConfig
	}
	var cfgs []cfgCase
	for _, st := range strategies[1:] {
		for _, pw := range []int{0, 1} {
			for _, mx := range []int{50, 51, 100, 500} {
				sizes := []int{1, 2}
				if st.s == rag.OverlapCharacter {
					sizes = []int{10, mx - 3, mx - 2, mx - 1, mx, mx + 1, mx + 2, mx + 50}
				}
				for _, size := range sizes {
					cfgs = append(cfgs, cfgCase{
						part: harness.D("strategy", st.name, "size", size, "words", pw, "maxov", mx),
						cfg:  rag.OverlapConfig{Strategy: st.s, Size: size, MinOverlap: 20, MaxOverlap: mx, PreserveWords: pw == 1},
					})
				}
			}
		}
	}
	for _, b := range bodies {
		for _, form := range []string{"unspaced", "spaced", "sentences"} {
			for shift := 0; shift <= 3; shift++ {
				s := "zzz"[:shift] + build(b, form, 260)
				if !utf8.ValidString(s) {
					panic("generator emitted invalid UTF-8")
				}
				own := stripWS(s)
				for _, c := range cfgs {
					for _, api := range []string{"gen", "apply"} {
						desc := fmt.Sprintf("space=ovlcut body=%s form=%s shift=%d len=%d %s api=%s", b.name, form, shift, len(s), c.part, api)
						if !e.Own(desc) {
							continue
						}
						var ov string
						e.Begin(desc)
						sig, det := harness.Guard(func() {
							if api == "gen" {
								ov = rag.NewOverlapGeneratorWithConfig(c.cfg).GenerateOverlap(s).Text
							} else {
								chunks := []*rag.Chunk{rag.NewChunk("c0", s, rag.ChunkMetadata{}), rag.NewChunk("c1", "Next chunk.", rag.ChunkMetadata{ChunkIndex: 1})}
								res := rag.ApplyOverlapToChunks(chunks, c.cfg)
								ov = res[1].OverlapPrefix
								if want := stripWS(ov) + "Nextchunk."; stripWS(res[1].Text) != want {
									panic("C13-ORACLE text-not-conserved")
								}
							}
						})
						files := map[string][]byte{"input.txt": []byte(s)}
						if strings.HasPrefix(det, "C13-ORACLE text-not-conserved") {
							fail(e, desc, "text-not-conserved", "second chunk's text is not overlap + own content", files)
							continue
						}
						if sig != "" {
							fail(e, desc, sig, det, files)
							continue
						}
						if sig, det := checkOverlap(ov, own, c.cfg.MaxOverlap); sig != "" {
							fail(e, desc, sig, det, files)
							continue
						}
						switch {
						case ov == "":
							e.Pass(desc, false, "ovlcut:empty")
						case len(ov) == c.cfg.MaxOverlap:
							e.Pass(desc, true, "ovlcut:exactly-max")
						case len(ov) > c.cfg.MaxOverlap-4:
							e.Pass(desc, true, "ovlcut:max-minus-1..3")
						default:
							e.Pass(desc, true, "ovlcut:shorter")
						}
					}
				}
			}
		}
	}
}
