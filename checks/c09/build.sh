#!/bin/bash
# Build step of the C09 check (called by run.sh with the output path): builds the check against the tabula
# checkout under test with the map-iteration-order overlay (see maporder/main.go). /repo itself is not modified.
set -e
bin="$1"
repo="${VERIF_REPO:-/repo}"
tag=$(echo "$repo" | md5sum | cut -c1-8)
od="$PWD/.build/c09-overlay-$tag"
rm -rf "$od"; mkdir -p "$od"
sites=$(go run ./checks/c09/maporder "$repo" "$od")
echo "map-order overlay: $sites range-over-map sites rewritten in $repo/layout"
go build ${VERIF_MODFLAG:-} -overlay "$od/overlay.json" -ldflags "-X main.mapOrderSites=$sites" -o "$bin" ./checks/c09
