package main

import (
	"fmt"
	"os"
	"path/filepath"
	"strings"

	"github.com/tsawler/tabula"
	"github.com/tsawler/tabula/layout"
	"github.com/tsawler/tabula/model"
	"github.com/tsawler/tabula/reader"
	"github.com/tsawler/tabula/text"
)

// api is one observation point of the property. family: which of the pinned heuristic filters lie on
// the API's pipeline (they are the only recorded explanations for a loss).
type api struct {
	name   string
	family string
	aspect string // "" = everything; "loss" / "dup": only that half of the comparison (element tree)
	paras  bool   // pipeline contains paragraph/heading detection, whose tie-breaks follow map iteration order: explore both orders
	part   int
	run1   func(fr []text.TextFragment) view // Part 1: fragments in
	run2   func(path string) view            // Part 2: PDF in
}

func lineGroups(lines []layout.Line) [][]text.TextFragment {
	g := make([][]text.TextFragment, 0, len(lines))
	for _, l := range lines {
		g = append(g, l.Fragments)
	}
	return g
}

func lineTexts(lines []layout.Line) []string {
	s := make([]string, 0, len(lines))
	for _, l := range lines {
		s = append(s, l.Text)
	}
	return s
}

func paraView(ps []layout.Paragraph) view {
	v := view{hasG: true, hasS: true, facets: []string{"Paragraph.Lines[].Fragments", "Paragraph.Text", "Paragraph.Lines[].Text"}}
	var lt []string
	for _, p := range ps {
		v.strs = append(v.strs, p.Text)
		for _, l := range p.Lines {
			v.groups = append(v.groups, l.Fragments)
			lt = append(lt, l.Text)
		}
	}
	v.moreStrs = [][]string{lt}
	return v
}

func blockView(bs []layout.Block) view {
	v := view{hasG: true, hasS: true, facets: []string{"Block.Fragments", "Block.Lines", "Block.GetText"}}
	var lines [][]text.TextFragment
	for i := range bs {
		v.groups = append(v.groups, bs[i].Fragments)
		lines = append(lines, bs[i].Lines...)
		v.strs = append(v.strs, bs[i].GetText())
	}
	v.moreGroups = [][][]text.TextFragment{lines}
	return v
}

func listItemsText(items []layout.ListItem, sb *strings.Builder) {
	for _, it := range items {
		sb.WriteString(it.Prefix + " " + it.Text + "\n")
		listItemsText(it.Children, sb)
	}
}

// elemView judges what the elements themselves carry (Text); with details=true it judges instead what hangs off
// each element: Heading.Text / Paragraph.Text / the items of List, and the fragments in their lines. The two are
// separate observation points because they fail independently.
func elemView(es []layout.LayoutElement, ps []layout.Paragraph, details bool) view {
	v := view{hasS: true}
	var lines [][]text.TextFragment
	seenPtr := map[interface{}]bool{}
	for _, e := range es {
		k := "paragraph"
		switch e.Type {
		case model.ElementTypeHeading:
			k = "heading"
		case model.ElementTypeList:
			k = "list"
		}
		v.allKinds = append(v.allKinds, k)
		if !details {
			v.strs = append(v.strs, e.Text)
		} else {
			var ptr interface{}
			switch {
			case e.Heading != nil:
				ptr = e.Heading
				v.strs = append(v.strs, e.Heading.Text)
				lines = append(lines, lineGroups(e.Heading.Lines)...)
			case e.List != nil:
				ptr = e.List
				var sb strings.Builder
				for _, it := range e.List.GetAllItems() {
					sb.WriteString(it.Prefix + " " + it.Text + "\n")
					lines = append(lines, lineGroups(it.Lines)...)
				}
				v.strs = append(v.strs, sb.String())
			case e.Paragraph != nil:
				ptr = e.Paragraph
				v.strs = append(v.strs, e.Paragraph.Text)
				lines = append(lines, lineGroups(e.Paragraph.Lines)...)
			default:
				v.strs = append(v.strs, "")
			}
			if ptr != nil {
				// two elements hang on one and the same Heading/List/Paragraph object, or the object is not the one
				// the element's own text was taken from
				if seenPtr[ptr] || !sameNonSpace(v.strs[len(v.strs)-1], e.Text) {
					v.override = "element-details-belong-to-another-element"
				}
				seenPtr[ptr] = true
			}
		}
		if k != "paragraph" {
			v.elemBox = append(v.elemBox, box{e.BBox.X, e.BBox.Y, e.BBox.Width, e.BBox.Height})
			v.elemKind = append(v.elemKind, k)
		}
	}
	if details {
		v.hasG, v.groups = true, lines
		v.facets = []string{"Element.{Heading,List,Paragraph} lines", "Element.{Heading,List,Paragraph} text"}
	}
	for _, p := range ps {
		pi := paraInfo{box: box{p.BBox.X, p.BBox.Y, p.BBox.Width, p.BBox.Height}, frags: map[posKey]bool{}}
		x0, y0, x1, y1 := 1e18, 1e18, -1e18, -1e18
		for _, l := range p.Lines {
			for _, f := range l.Fragments {
				pi.frags[keyOf(f.Text, f.X, f.Y)] = true
				x0, y0 = min(x0, f.X), min(y0, f.Y)
				x1, y1 = max(x1, f.X+f.Width), max(y1, f.Y+f.Height)
			}
		}
		pi.abs = box{x0, y0, x1 - x0, y1 - y0}
		v.paras = append(v.paras, pi)
	}
	return v
}

var apis = []api{
	// ---- Part 1: detectors fed with fragments ------------------------------------------------
	{name: "Column.Fragments", family: "column", part: 1, run1: func(fr []text.TextFragment) view {
		l := layout.NewColumnDetector().Detect(fr, pageW, pageH)
		v := view{hasG: true}
		for _, c := range l.Columns {
			v.groups = append(v.groups, c.Fragments)
		}
		if len(l.SpanningFragments) > 0 {
			v.groups = append(v.groups, l.SpanningFragments)
		}
		v.hasS, v.strs = true, []string{l.GetText()}
		v.facets = []string{"Columns[].Fragments+SpanningFragments", "ColumnLayout.GetText"}
		return v
	}},
	{name: "Line.Detect", family: "line", part: 1, run1: func(fr []text.TextFragment) view {
		l := layout.NewLineDetector().Detect(fr, pageW, pageH)
		return view{hasG: true, groups: lineGroups(l.Lines), hasS: true, strs: lineTexts(l.Lines),
			moreGroups: [][][]text.TextFragment{{l.GetAllFragments()}}, moreStrs: [][]string{{l.GetText()}},
			facets: []string{"Line.Fragments", "LineLayout.GetAllFragments", "Line.Text", "LineLayout.GetText"}}
	}},
	{name: "Paragraph.FromFragments", paras: true, family: "line", part: 1, run1: func(fr []text.TextFragment) view {
		l := layout.NewParagraphDetector().DetectFromFragments(fr, pageW, pageH)
		v := paraView(l.Paragraphs)
		v.moreStrs = append(v.moreStrs, []string{l.GetText()})
		v.facets = append(v.facets, "ParagraphLayout.GetText")
		return v
	}},
	{name: "Block.Detect", family: "block", part: 1, run1: func(fr []text.TextFragment) view {
		l := layout.NewBlockDetector().Detect(fr, pageW, pageH)
		v := blockView(l.Blocks)
		v.moreGroups = append(v.moreGroups, [][]text.TextFragment{l.GetAllFragments()})
		v.moreStrs = append(v.moreStrs, []string{l.GetText()})
		v.facets = []string{"Block.Fragments", "Block.Lines", "BlockLayout.GetAllFragments", "Block.GetText", "BlockLayout.GetText"}
		v.input = fr
		countBlockMerges(fr)
		// every fragment of a block is also in exactly one of its lines
		for i := range l.Blocks {
			var fl []text.TextFragment
			for _, ln := range l.Blocks[i].Lines {
				fl = append(fl, ln...)
			}
			if len(fl) != len(l.Blocks[i].Fragments) {
				v.err = fmt.Errorf("block %d: %d fragments but %d fragments in its lines", i, len(l.Blocks[i].Fragments), len(fl))
			}
		}
		return v
	}},
	{name: "ReadingOrder.Fragments", family: "column", part: 1, run1: func(fr []text.TextFragment) view {
		r := layout.NewReadingOrderDetector().Detect(fr, pageW, pageH)
		return view{hasG: true, groups: [][]text.TextFragment{r.Fragments}}
	}},
	{name: "ReadingOrder.Sections", family: "column", part: 1, run1: func(fr []text.TextFragment) view {
		r := layout.NewReadingOrderDetector().Detect(fr, pageW, pageH)
		v := view{hasG: true}
		for _, s := range r.Sections {
			v.groups = append(v.groups, s.Fragments)
		}
		return v
	}},
	{name: "ReadingOrder.Lines", family: "column+line", part: 1, run1: func(fr []text.TextFragment) view {
		r := layout.NewReadingOrderDetector().Detect(fr, pageW, pageH)
		v := view{hasG: true, groups: lineGroups(r.Lines), hasS: true, strs: lineTexts(r.Lines),
			facets: []string{"ReadingOrder.Lines[].Fragments", "Sections[].Lines[].Fragments", "ReadingOrder.Lines[].Text", "Sections[].Lines[].Text"}}
		var sg [][]text.TextFragment
		var st []string
		for _, s := range r.Sections {
			sg = append(sg, lineGroups(s.Lines)...)
			st = append(st, lineTexts(s.Lines)...)
		}
		v.moreGroups, v.moreStrs = [][][]text.TextFragment{sg}, [][]string{st}
		return v
	}},
	{name: "ReadingOrder.GetText", family: "column+line", part: 1, run1: func(fr []text.TextFragment) view {
		r := layout.NewReadingOrderDetector().Detect(fr, pageW, pageH)
		return view{hasS: true, strs: []string{r.GetText()}}
	}},
	{name: "ReadingOrder.GetParagraphs", paras: true, family: "column+line", part: 1, run1: func(fr []text.TextFragment) view {
		r := layout.NewReadingOrderDetector().Detect(fr, pageW, pageH)
		pl := r.GetParagraphs()
		v := paraView(pl.Paragraphs)
		v.moreStrs = append(v.moreStrs, []string{pl.GetText()})
		v.facets = append(v.facets, "ParagraphLayout.GetText")
		return v
	}},
	{name: "Analyzer.Elements", paras: true, family: "elements", aspect: "loss", part: 1, run1: func(fr []text.TextFragment) view {
		r := layout.NewAnalyzer().Analyze(fr, pageW, pageH)
		var ps []layout.Paragraph
		if r.Paragraphs != nil {
			ps = r.Paragraphs.Paragraphs
		}
		return elemView(r.Elements, ps, false)
	}},
	{name: "Analyzer.Elements.dup", paras: true, family: "elements", aspect: "dup", part: 1, run1: func(fr []text.TextFragment) view {
		r := layout.NewAnalyzer().Analyze(fr, pageW, pageH)
		var ps []layout.Paragraph
		if r.Paragraphs != nil {
			ps = r.Paragraphs.Paragraphs
		}
		return elemView(r.Elements, ps, false)
	}},
	{name: "Analyzer.ElementDetails", paras: true, family: "elements", aspect: "loss", part: 1, run1: func(fr []text.TextFragment) view {
		r := layout.NewAnalyzer().Analyze(fr, pageW, pageH)
		var ps []layout.Paragraph
		if r.Paragraphs != nil {
			ps = r.Paragraphs.Paragraphs
		}
		return elemView(r.Elements, ps, true)
	}},
	{name: "Analyzer.QuickElementDetails", paras: true, family: "column+line", part: 1, run1: func(fr []text.TextFragment) view {
		r := layout.NewAnalyzer().QuickAnalyze(fr, pageW, pageH)
		return elemView(r.Elements, nil, true)
	}},
	{name: "Analyzer.QuickElements", paras: true, family: "column+line", part: 1, run1: func(fr []text.TextFragment) view {
		r := layout.NewAnalyzer().QuickAnalyze(fr, pageW, pageH)
		return elemView(r.Elements, nil, false)
	}},

	// ---- Part 2: the public API on the same page written as a PDF --------------------------------
	{name: "Fragments", family: "none", part: 2, run2: func(p string) view {
		fr, _, err := tabula.Open(p).Fragments()
		return view{hasG: true, groups: [][]text.TextFragment{fr}, err: err}
	}},
	{name: "ExtractText", family: "none", part: 2, run2: func(p string) view {
		r, err := reader.Open(p)
		if err != nil {
			return view{err: err}
		}
		defer r.Close()
		pg, err := r.GetPage(0)
		if err != nil {
			return view{err: err}
		}
		s, err := r.ExtractText(pg)
		return view{hasS: true, strs: []string{s}, err: err}
	}},
	{name: "Text", family: "column+line", part: 2, run2: func(p string) view {
		s, _, err := tabula.Open(p).Text()
		return view{hasS: true, strs: []string{s}, err: err}
	}},
	{name: "ByColumn", family: "column+line", part: 2, run2: func(p string) view {
		s, _, err := tabula.Open(p).ByColumn().Text()
		return view{hasS: true, strs: []string{s}, err: err}
	}},
	{name: "JoinParagraphs", paras: true, family: "column+line", part: 2, run2: func(p string) view {
		s, _, err := tabula.Open(p).JoinParagraphs().Text()
		return view{hasS: true, strs: []string{s}, err: err}
	}},
	{name: "PreserveLayout", family: "none", part: 2, run2: func(p string) view {
		s, _, err := tabula.Open(p).PreserveLayout().Text()
		return view{hasS: true, strs: []string{s}, err: err}
	}},
	{name: "Lines", family: "line", part: 2, run2: func(p string) view {
		ls, err := tabula.Open(p).Lines()
		return view{hasG: true, groups: lineGroups(ls), hasS: true, strs: lineTexts(ls), err: err, facets: []string{"Line.Fragments", "Line.Text"}}
	}},
	{name: "Paragraphs", paras: true, family: "column+line", part: 2, run2: func(p string) view {
		ps, err := tabula.Open(p).Paragraphs()
		v := paraView(ps)
		v.err = err
		return v
	}},
	{name: "Blocks", family: "block", part: 2, run2: func(p string) view {
		bs, err := tabula.Open(p).Blocks()
		v := blockView(bs)
		v.err = err
		return v
	}},
	{name: "Elements", paras: true, family: "elements", aspect: "loss", part: 2, run2: func(p string) view {
		es, err := tabula.Open(p).Elements()
		ps, _ := tabula.Open(p).Paragraphs() // the paragraphs the element tree starts from (classification only)
		v := elemView(es, ps, false)
		v.err = err
		return v
	}},
	{name: "ElementDetails", paras: true, family: "elements", aspect: "loss", part: 2, run2: func(p string) view {
		es, err := tabula.Open(p).Elements()
		ps, _ := tabula.Open(p).Paragraphs()
		v := elemView(es, ps, true)
		v.err = err
		return v
	}},
	{name: "Elements.dup", paras: true, family: "elements", aspect: "dup", part: 2, run2: func(p string) view {
		es, err := tabula.Open(p).Elements()
		ps, _ := tabula.Open(p).Paragraphs() // the paragraphs the element tree starts from (classification only)
		v := elemView(es, ps, false)
		v.err = err
		return v
	}},
}

// ---- Part 2 plumbing --------------------------------------------------------------------------

var scratchDir string

func scratchFile() string {
	if scratchDir == "" {
		d, err := os.MkdirTemp("/dev/shm", "c09-")
		if err != nil {
			d, _ = os.MkdirTemp("", "c09-")
		}
		scratchDir = d
	}
	return filepath.Join(scratchDir, "page.pdf")
}

func cleanupScratch() {
	if scratchDir != "" {
		os.RemoveAll(scratchDir)
	}
}

func pdfOf(p *pageSpec) []byte {
	fr := make([]pdfFrag, 0, len(p.frags))
	for _, f := range p.frags {
		fr = append(fr, pdfFrag{text: f.text, x: f.x, y: f.y, size: f.size, rtl: f.rtl})
	}
	return writePDF(fr, pageW, pageH, p.scaleF)
}

// adoptGeometry replaces the generator's width model by what tabula reports for the same fragment
// (matched by text and position); items tabula does not report keep the generator's estimate.
func adoptGeometry(items []item, fr []text.TextFragment) {
	idx := map[posKey]int{}
	for i, it := range items {
		idx[keyOf(it.text, it.x, it.y)] = i
	}
	for _, f := range fr {
		if i, ok := idx[keyOf(f.Text, f.X, f.Y)]; ok {
			items[i].w, items[i].h = f.Width, f.Height
			items[i].extracted = true
		}
	}
}

// ---- coverage: does the block merger merge NON-ADJACENT blocks on the pages of the grammar? -------------
//
// The unmerged blocks (MergeOverlappingBlocks=false) are put back into creation order (top line first) and the
// merge pass is replayed with the pinned rule (boxes overlap by more than 30% of the smaller one): a merge of
// block i with block j while an unused block lies between them is the constellation in which the merged block's
// lines are appended "over" other blocks.
var blockMerges, blockMergesNonAdjacent int64

func countBlockMerges(fr []text.TextFragment) {
	cfg := layout.DefaultBlockConfig()
	cfg.MergeOverlappingBlocks = false
	bs := layout.NewBlockDetectorWithConfig(cfg).Detect(fr, pageW, pageH).Blocks
	type bb struct{ x0, y0, x1, y1, top float64 }
	boxes := make([]bb, 0, len(bs))
	for i := range bs {
		b := bs[i].BBox
		top := b.Y + b.Height
		if len(bs[i].Lines) > 0 && len(bs[i].Lines[0]) > 0 {
			top = bs[i].Lines[0][0].Y
		}
		boxes = append(boxes, bb{b.X, b.Y, b.X + b.Width, b.Y + b.Height, top})
	}
	for i := 1; i < len(boxes); i++ { // creation order: first line's baseline, descending
		for j := i; j > 0 && boxes[j].top > boxes[j-1].top; j-- {
			boxes[j], boxes[j-1] = boxes[j-1], boxes[j]
		}
	}
	used := make([]bool, len(boxes))
	for i := range boxes {
		if used[i] {
			continue
		}
		cur := boxes[i]
		for j := i + 1; j < len(boxes); j++ {
			if used[j] {
				continue
			}
			o := boxes[j]
			l, r := max(cur.x0, o.x0), min(cur.x1, o.x1)
			bt, tp := max(cur.y0, o.y0), min(cur.y1, o.y1)
			if l >= r || bt >= tp {
				continue
			}
			if (r-l)*(tp-bt) <= 0.3*min((cur.x1-cur.x0)*(cur.y1-cur.y0), (o.x1-o.x0)*(o.y1-o.y0)) {
				continue
			}
			blockMerges++
			for k := i + 1; k < j; k++ {
				if !used[k] {
					blockMergesNonAdjacent++
					break
				}
			}
			used[j] = true
			cur = bb{min(cur.x0, o.x0), min(cur.y0, o.y0), max(cur.x1, o.x1), max(cur.y1, o.y1), cur.top}
		}
	}
}

func sameNonSpace(a, b string) bool {
	strip := func(s string) string { return strings.Join(strings.Fields(s), "") }
	return strip(a) == strip(b)
}
