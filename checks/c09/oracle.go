package main

import (
	"fmt"
	"math"
	"os"
	"sort"
	"strings"
	"unicode"

	"github.com/tsawler/tabula/text"
)

// ---- reference side ---------------------------------------------------------------------------
//
// item is one distinct input fragment (exact duplicates — same text, same position — are folded into
// mult). The property: every item is found at least once and at most mult times, nothing else appears.

type item struct {
	text       string
	x, y, w, h float64
	mult       int
	rtl        bool
	role       string
	extracted  bool // Part 2: tabula's Fragments() reported it (geometry then comes from there)
}

func (it item) right() float64 { return it.x + it.w }
func (it item) top() float64   { return it.y + it.h }

type posKey struct {
	text string
	x, y int64
}

func keyOf(t string, x, y float64) posKey {
	return posKey{t, int64(math.Round(x * 1000)), int64(math.Round(y * 1000))}
}

// refItems folds the specification into distinct items in device space (scale applied).
//
// What counts as "the same position" is the pinned contract of the two packages:
//   - layout (Part 1) is handed fragments and removes nothing: only a fragment with identical text and identical
//     coordinates is a duplicate;
//   - text extraction (Part 2) documents one sanctioned removal, text.(*Extractor).deduplicateFragments: same text and
//     the same position after rounding to a grid of min(1, glyph height/12) units. Fragments that fall on one grid point
//     are one item with mult copies; everything else — a second layer 0.7pt or 2pt away, the second "l" of "ll" — must
//     come out of every API.
func refItems(p *pageSpec, part int) []item {
	idx := map[posKey]int{}
	var out []item
	s := p.scaleF
	for _, f := range p.frags {
		k := keyOf(f.text, f.x*s, f.y*s)
		if part == 2 {
			grid := f.size * s / 12
			if grid <= 0 || grid > 1 {
				grid = 1
			}
			k = posKey{f.text, int64(int(f.x*s/grid + 0.5)), int64(int(f.y*s/grid + 0.5))}
		}
		if i, ok := idx[k]; ok {
			out[i].mult++
			continue
		}
		idx[k] = len(out)
		out = append(out, item{text: f.text, x: f.x * s, y: f.y * s, w: f.w * s, h: f.size * s, mult: 1, rtl: f.rtl, role: f.role})
	}
	return out
}

// specFragments is the Part-1 input: the specification as tabula TextFragments (what text extraction
// would hand to the layout code), duplicates included.
func specFragments(p *pageSpec) []text.TextFragment {
	s := p.scaleF
	out := make([]text.TextFragment, 0, len(p.frags))
	for _, f := range p.frags {
		fn := "/F1"
		if f.rtl {
			fn = "/F2"
		}
		out = append(out, text.TextFragment{Text: f.text, X: f.x * s, Y: f.y * s, Width: f.w * s, Height: f.size * s,
			FontName: fn, FontSize: f.size * s, Direction: text.DetectDirection(f.text)})
	}
	return out
}

// ---- observation -----------------------------------------------------------------------------

// view is what one API returned, reduced to what the property talks about.
type view struct {
	groups   [][]text.TextFragment // fragment-bearing groups (lines / columns+spanning / blocks / sections); nil: API has none
	hasG     bool
	strs     []string // text renderings (Line.Text, Paragraph.Text, element text, page text); nil: API has none
	hasS     bool
	elemBox  []box // elements of kind heading/list (for the overlap class)
	elemKind []string
	// further views of the SAME result (Block.Lines next to Block.Fragments, BlockLayout.GetText next to Block.GetText, …):
	// each set is judged against the input on its own, so views that disagree with each other cannot both pass
	moreGroups [][][]text.TextFragment
	moreStrs   [][]string
	facets     []string            // names for failure details: first the group sets (primary, more…), then the string sets
	override   string              // a defect the API runner saw directly (named signature; no geometry needed)
	allKinds   []string            // kind of every element, parallel to strs (element views only)
	paras      []paraInfo          // paragraphs the element tree was built from (element views only; classification aid)
	part       int                 // 1: detectors fed with fragments, 2: public API on a PDF
	input      []text.TextFragment // the fragments the layout code was given (Part 1: the specification; Part 2: Fragments())
	err        error
}

// paraInfo: a paragraph as tabula reports it — its box (relative to the column for reading-order
// paragraphs), the box of its fragments in page coordinates, and which fragments it holds.
type paraInfo struct {
	box, abs box
	frags    map[posKey]bool
}

func (a box) area() float64 { return a.w * a.h }

// overlapsHalf is the pinned consumption rule of the element tree: intersection > 50% of the smaller box.
func overlapsHalf(a, b box) bool {
	ox := math.Min(a.x+a.w, b.x+b.w) - math.Max(a.x, b.x)
	oy := math.Min(a.y+a.h, b.y+b.h) - math.Max(a.y, b.y)
	if ox <= 0 || oy <= 0 {
		return false
	}
	return ox*oy > pinConsumeOverlap*math.Min(a.area(), b.area())
}

func (v view) groupSets() [][][]text.TextFragment {
	var out [][][]text.TextFragment
	if v.hasG {
		out = append(out, v.groups)
	}
	return append(out, v.moreGroups...)
}

func (v view) strSets() [][]string {
	var out [][]string
	if v.hasS {
		out = append(out, v.strs)
	}
	return append(out, v.moreStrs...)
}

// facet names a view in failure details ("" for the only one).
func (v view) facet(k int, group bool) string {
	if len(v.groupSets())+len(v.strSets()) <= 1 {
		return ""
	}
	if !group {
		k += len(v.groupSets())
	}
	if k < len(v.facets) {
		return "[" + v.facets[k] + "] "
	}
	return fmt.Sprintf("[view %d] ", k)
}

type box struct{ x, y, w, h float64 }

// verbose (C09_VERBOSE=1): full failure details; the default keeps them short because the recorded findings are hit
// hundreds of thousands of times in the thorough tier.
var verbose = os.Getenv("C09_VERBOSE") != ""

// uncertain[i]: a rendering holds fewer copies of item i's text than the input has, but (same text at several
// positions, or duplicate layers) not few enough to say that THIS item is missing; such an item is neither counted
// as lost nor used as a surviving witness against an explanation. Set by judge, read by classifyLost.
var uncertain []bool

type verdict struct {
	ok      bool
	sig     string
	detail  string
	outcome string
}

func nonSpace(s string) map[rune]int {
	m := map[rune]int{}
	for _, r := range s {
		if !unicode.IsSpace(r) {
			m[r]++
		}
	}
	return m
}

func reverse(s string) string {
	r := []rune(s)
	for i, j := 0, len(r)-1; i < j; i, j = i+1, j-1 {
		r[i], r[j] = r[j], r[i]
	}
	return string(r)
}

// judge compares a view with the reference items. family selects which pinned heuristic filters may
// explain a loss (see classify).
func judge(items []item, v view, family, aspect string) verdict {
	if v.err != nil {
		return verdict{sig: "api-error", detail: v.err.Error()}
	}
	if v.override != "" {
		return verdict{sig: v.override, detail: "see the signature: the observation point detected this directly"}
	}
	n := len(items)
	lost := make([]bool, n)
	surplus := make([]bool, n)
	uncertain = make([]bool, n)
	var notes []string
	invented := false

	for gk, groups := range v.groupSets() {
		idx := map[posKey]int{}
		for i, it := range items {
			idx[keyOf(it.text, it.x, it.y)] = i
		}
		cnt := make([]int, n)
		for gi, g := range groups {
			for _, f := range g {
				i, ok := idx[keyOf(f.Text, f.X, f.Y)]
				if !ok {
					invented = true
					notes = append(notes, fmt.Sprintf("%sgroup %d holds a fragment that is not an input fragment: %q@%.2f,%.2f", v.facet(gk, true), gi, f.Text, f.X, f.Y))
					continue
				}
				cnt[i]++
			}
		}
		for i, it := range items {
			if cnt[i] == 0 {
				lost[i] = true
				notes = append(notes, fmt.Sprintf("%sfragment %q@%.2f,%.2f (w=%.2f) is in no group", v.facet(gk, true), it.text, it.x, it.y, it.w))
			} else if cnt[i] > it.mult {
				surplus[i] = true
				notes = append(notes, fmt.Sprintf("%sfragment %q@%.2f,%.2f is in %d groups/places (input has %d)", v.facet(gk, true), it.text, it.x, it.y, cnt[i], it.mult))
			}
		}
	}
	residual, residualNeg, residualPos := false, false, false
	type ambig struct {
		ids []int
		d   int
	}
	var ambiguous []ambig
	for sk, strs := range v.strSets() {
		S := strings.Join(strs, "\n")
		got := nonSpace(S)
		want := map[rune]int{}
		// identical texts at different positions (list bullets never repeat, but be general): count per distinct text
		byText := map[string][]int{}
		var order []string
		for i, it := range items {
			if _, ok := byText[it.text]; !ok {
				order = append(order, it.text)
			}
			byText[it.text] = append(byText[it.text], i)
		}
		// longest texts first, and every occurrence is blanked once counted: a short text (the bullet "-") must not be
		// found inside a longer one (the hyphenated word "Abcd-")
		sort.SliceStable(order, func(i, j int) bool { return len(order[i]) > len(order[j]) })
		work := S
		countAndBlank := func(t string) int {
			c := strings.Count(work, t)
			if c > 0 {
				work = strings.ReplaceAll(work, t, strings.Repeat("\x00", len(t)))
			}
			return c
		}
		for _, t := range order {
			ids := byText[t]
			found := countAndBlank(t)
			if rt := reverse(t); rt != t && items[ids[0]].rtl {
				found += countAndBlank(rt) // a renderer may emit an RTL run in visual order
			}
			minC, maxC := len(ids), 0
			for _, i := range ids {
				maxC += items[i].mult
			}
			for _, r := range t {
				if !unicode.IsSpace(r) {
					want[r] += found
				}
			}
			if found < maxC && len(ids) > 1 {
				for _, i := range ids {
					uncertain[i] = true
				}
			}
			if found < minC {
				// minC-found of the fragments with this text are missing; which ones is only ambiguous when the same
				// text stands at several positions (repeat toggle): settled below
				if found > 0 {
					ambiguous = append(ambiguous, ambig{ids, minC - found})
				}
				for k := found; k < minC; k++ {
					i := ids[k]
					lost[i] = true
					notes = append(notes, fmt.Sprintf("%stext of fragment %q@%.2f,%.2f (w=%.2f) is missing from the rendering", v.facet(sk, false), t, items[i].x, items[i].y, items[i].w))
				}
			} else if found > maxC {
				for _, i := range ids {
					surplus[i] = true
				}
				notes = append(notes, fmt.Sprintf("%stext %q occurs %d times in the rendering (input has %d)", v.facet(sk, false), t, found, maxC))
			}
		}
		// when the rendering repeats text (element tree: heading + paragraph), a surplus copy of one position can hide
		// the loss of another position with the same text: such items are no witnesses either way
		anySurplus := false
		for i := range items {
			if surplus[i] {
				anySurplus = true
			}
		}
		if anySurplus {
			for _, t := range order {
				if ids := byText[t]; len(ids) > 1 {
					for _, i := range ids {
						uncertain[i] = true
					}
				}
			}
		}
		// whatever the per-fragment counts do not account for
		var diff []string
		seen := map[rune]bool{}
		for r, c := range got {
			seen[r] = true
			if c != want[r] {
				diff = append(diff, fmt.Sprintf("%q:%+d", r, c-want[r]))
				if c < want[r] {
					residualNeg = true
				} else {
					residualPos = true
				}
			}
		}
		for r, c := range want {
			if !seen[r] && c != 0 {
				diff = append(diff, fmt.Sprintf("%q:%+d", r, -c))
				residualNeg = true
			}
		}
		if len(diff) > 0 {
			sort.Strings(diff)
			residual = true
			notes = append(notes, "characters not accounted for by whole fragments (output minus expected): "+strings.Join(diff, " "))
		}
	}

	// A rendering does not say WHICH of several same-text fragments is missing. The verdict does not depend on it;
	// for naming the loss class take the choice that leaves the fewest fragments unexplained.
	for _, a := range ambiguous {
		best, bestBad := -1, 1<<30
		for mask := 0; mask < 1<<len(a.ids); mask++ {
			if bitsSet(mask) != a.d {
				continue
			}
			for k, i := range a.ids {
				lost[i] = mask&(1<<k) != 0
			}
			bad := 0
			for _, c := range classifyLost(items, lost, family, v) {
				if c == "unexplained" {
					bad++
				}
			}
			if bad < bestBad {
				best, bestBad = mask, bad
			}
		}
		for k, i := range a.ids {
			lost[i] = best&(1<<k) != 0
		}
	}

	// aspects: the element tree is judged twice, once for losses and once for duplication/invention
	switch aspect {
	case "loss":
		surplus = make([]bool, n)
		invented = false
		residual = residualNeg
	case "dup":
		lost = make([]bool, n)
		residual = residualPos
	}
	var lostIdx, dupIdx []int
	for i := range items {
		if lost[i] {
			lostIdx = append(lostIdx, i)
		}
		if surplus[i] {
			dupIdx = append(dupIdx, i)
		}
	}
	if len(lostIdx) == 0 && len(dupIdx) == 0 && !invented && !residual {
		return verdict{ok: true}
	}
	var parts []string
	if len(lostIdx) > 0 {
		parts = append(parts, "lost:"+strings.Join(classifyLost(items, lost, family, v), "+"))
	}
	if len(dupIdx) > 0 {
		parts = append(parts, "dup:"+strings.Join(classifyDup(items, surplus, family, v), "+"))
	}
	if invented {
		parts = append(parts, "invented-fragment")
	}
	if residual {
		parts = append(parts, "chars-unattributable")
	}
	maxNotes, maxR := 5, 160
	if verbose {
		maxNotes, maxR = 60, 2000
	}
	if len(notes) > maxNotes {
		notes = append(notes[:maxNotes], fmt.Sprintf("… %d more (replay the case with C09_VERBOSE=1 for everything)", len(notes)-maxNotes))
	}
	if v.hasS {
		r := strings.Join(v.strs, " | ")
		if len(r) > maxR {
			r = r[:maxR] + "…"
		}
		notes = append(notes, fmt.Sprintf("rendering: %q", r))
	}
	return verdict{sig: strings.Join(parts, ";"), detail: strings.Join(notes, "\n")}
}

// ---- geometry classes of a loss --------------------------------------------------------------------
//
// The thresholds below are the constants of tabula's default layout configuration AS PINNED WHEN THIS CHECK
// WAS WRITTEN. They are deliberately not read from layout.Default*Config(): if a threshold changes, or text
// is lost for any other reason, the loss no longer fits a recorded class and surfaces as a VIOLATION.
const (
	pinMinLineWidth   = 5.0  // layout.LineConfig.MinLineWidth
	pinMinColumnWidth = 50.0 // layout.ColumnConfig.MinColumnWidth
	pinMinGapWidth    = 20.0 // layout.ColumnConfig.MinGapWidth
	pinMinBlockWidth  = 10.0 // layout.BlockConfig.MinBlockWidth
	pinMinBlockHeight = 5.0  // layout.BlockConfig.MinBlockHeight
	pinConsumeOverlap = 0.5  // layout.bboxOverlaps: a paragraph is dropped when a heading/list box covers more than half of the smaller box
	pinSameRow        = 0.5  // fraction of the glyph height within which two baselines are one row
	pinAdjacent       = 1.5  // fraction of the glyph height up to which a horizontal/vertical gap keeps neighbours together
)

func sameRow(a, b item) bool {
	return math.Abs(a.y-b.y) <= pinSameRow*(a.h+b.h)/2
}

func hgap(a, b item) float64 {
	return math.Max(0, math.Max(a.x, b.x)-math.Min(a.right(), b.right()))
}

func vgap(a, b item) float64 {
	return math.Max(0, math.Max(a.y, b.y)-math.Min(a.top(), b.top()))
}

// union-find
type uf []int

func newUF(n int) uf {
	u := make(uf, n)
	for i := range u {
		u[i] = i
	}
	return u
}
func (u uf) find(i int) int {
	for u[i] != i {
		u[i] = u[u[i]]
		i = u[i]
	}
	return i
}
func (u uf) join(a, b int) { u[u.find(a)] = u.find(b) }

func extent(items []item, ids []int) (x0, y0, x1, y1 float64) {
	x0, y0, x1, y1 = math.Inf(1), math.Inf(1), math.Inf(-1), math.Inf(-1)
	for _, i := range ids {
		it := items[i]
		x0, y0 = math.Min(x0, it.x), math.Min(y0, it.y)
		x1, y1 = math.Max(x1, it.right()), math.Max(y1, it.top())
	}
	return
}

// classifyLost names, for every connected group of lost fragments, the pinned filter whose geometry it fits;
// a group that fits none is "unexplained". family: which filters the API's pipeline contains
// ("line", "column", "column+line", "block", "elements", "none").
func classifyLost(items []item, lost []bool, family string, v view) []string {
	n := len(items)
	classes := map[string]bool{}

	// visual line runs: same row, chained by small horizontal gaps — over ALL items (lost or not)
	runs := newUF(n)
	for i := 0; i < n; i++ {
		for j := i + 1; j < n; j++ {
			if sameRow(items[i], items[j]) && hgap(items[i], items[j]) <= pinAdjacent*math.Max(items[i].h, items[j].h) {
				runs.join(i, j)
			}
		}
	}
	runMembers := map[int][]int{}
	for i := 0; i < n; i++ {
		r := runs.find(i)
		runMembers[r] = append(runMembers[r], i)
	}
	explained := make([]bool, n)

	// (d) element tree: a paragraph is dropped as a whole when its box overlaps an emitted heading / list box by
	// more than half of the smaller of the two. A lost fragment that made it into a paragraph can only be explained
	// this way; one that is in no paragraph was filtered before (classes a, b).
	inPara := make([]bool, n)
	if family == "elements" {
		for i := 0; i < n; i++ {
			if !lost[i] {
				continue
			}
			k := keyOf(items[i].text, items[i].x, items[i].y)
			for _, p := range v.paras {
				if !p.frags[k] {
					continue
				}
				inPara[i] = true
				for e, b := range v.elemBox {
					if overlapsHalf(b, p.box) || overlapsHalf(b, p.abs) {
						explained[i] = true
						classes["paragraph-consumed-by-overlapping-"+v.elemKind[e]] = true
						break
					}
				}
				break
			}
		}
	}
	// survivors that reached the output through the heading/list pipeline (which does not use columns)
	viaOther := func(mem []int) bool {
		if family != "elements" {
			return false
		}
		x0, y0, x1, y1 := extent(items, mem)
		for _, b := range v.elemBox {
			if x0 < b.x+b.w && b.x < x1 && y0 < b.y+b.h && b.y < y1 {
				return true
			}
		}
		return false
	}

	hasLine := strings.Contains(family, "line") || family == "elements"
	hasColumn := strings.Contains(family, "column") || family == "elements"

	// (a) a whole visual line narrower than the minimum line width
	if hasLine {
		for _, ids := range runMembers {
			all := true
			for _, i := range ids {
				if (!lost[i] && !uncertain[i]) || inPara[i] {
					all = false
				}
			}
			if !all {
				continue
			}
			x0, _, x1, _ := extent(items, ids)
			if x1-x0 < pinMinLineWidth {
				for _, i := range ids {
					explained[i] = true
				}
				classes["line-narrower-than-5pt"] = true
			}
		}
	}
	// (a') the line detector's tolerance adapts to the page (down to 0.15 units on pages with compressed coordinates), so
	// its lines can be finer than the visual runs above: fragments on one and the same baseline (within 0.15) that are
	// all lost and together narrower than the minimum line width are explained as well.
	if hasLine {
		tight := newUF(n)
		for a := 0; a < n; a++ {
			for b := a + 1; b < n; b++ {
				if math.Abs(items[a].y-items[b].y) <= 0.15 {
					tight.join(a, b)
				}
			}
		}
		tm := map[int][]int{}
		for a := 0; a < n; a++ {
			tm[tight.find(a)] = append(tm[tight.find(a)], a)
		}
		for _, ids := range tm {
			all, open := true, false
			for _, a := range ids {
				if (!lost[a] && !uncertain[a]) || inPara[a] {
					all = false
				}
				if lost[a] && !explained[a] {
					open = true
				}
			}
			if !all || !open {
				continue
			}
			if x0, _, x1, _ := extent(items, ids); x1-x0 < pinMinLineWidth {
				for _, a := range ids {
					explained[a] = true
				}
				classes["line-narrower-than-5pt"] = true
			}
		}
	}
	// (b) a whole detected column narrower than the minimum column width. The column regions are recomputed here
	// from the fragments the detector was given, with the pinned constants of ColumnDetector.findVerticalGaps
	// (5pt buckets, valley = density below 20% of the average, at least 20pt wide, at most 5 gaps): a region runs
	// from one gap centre to the next. All lost fragments of a region must fit into 50pt, and whatever survived in
	// that region must have had another way out (a row with content inside a gap = spanning line; a heading/list).
	if hasColumn {
		gaps := pinnedGaps(v.input)
		if len(gaps) > 0 {
			region := func(it item) int {
				c := it.x + it.w/2
				r := 0
				for r < len(gaps) && c >= (gaps[r][0]+gaps[r][1])/2 {
					r++
				}
				return r
			}
			inGapRow := func(i int) bool { // the row of item i has content whose centre lies inside a gap
				for j := 0; j < n; j++ {
					if !sameRow(items[i], items[j]) {
						continue
					}
					c := items[j].x + items[j].w/2
					for _, g := range gaps {
						if c > g[0] && c < g[1] {
							return true
						}
					}
				}
				return false
			}
			for r := 0; r <= len(gaps); r++ {
				var L []int
				ok := true
				for i := 0; i < n; i++ {
					if region(items[i]) != r {
						continue
					}
					switch {
					case lost[i] && !explained[i] && !inPara[i]:
						L = append(L, i)
					case !lost[i] && !uncertain[i] && !inGapRow(i) && !viaOther([]int{i}):
						ok = false // an ordinary fragment of this region survived: the column was not dropped
					}
				}
				if len(L) == 0 || !ok {
					continue
				}
				if x0, _, x1, _ := extent(items, L); x1-x0 < pinMinColumnWidth {
					for _, i := range L {
						explained[i] = true
					}
					classes["column-narrower-than-50pt"] = true
				}
			}
		}
	}
	// (c) a whole block smaller than the minimum block size. Blocks are re-derived with the pinned rules of
	// BlockDetector.groupLinesIntoBlocks: rows of the whole page, top to bottom; a new block starts when the vertical gap
	// exceeds 1.5 x the average glyph height or the two rows do not overlap horizontally.
	if family == "block" {
		rowsUF := newUF(n)
		for a := 0; a < n; a++ {
			for b := a + 1; b < n; b++ {
				if sameRow(items[a], items[b]) {
					rowsUF.join(a, b)
				}
			}
		}
		rm := map[int][]int{}
		for a := 0; a < n; a++ {
			rm[rowsUF.find(a)] = append(rm[rowsUF.find(a)], a)
		}
		var rows [][]int
		for _, ids := range rm {
			rows = append(rows, ids)
		}
		sort.Slice(rows, func(a, b int) bool {
			_, _, _, ta := extent(items, rows[a])
			_, _, _, tb := extent(items, rows[b])
			if ta != tb {
				return ta > tb
			}
			return rows[a][0] < rows[b][0]
		})
		avgH := func(ids []int) float64 {
			t := 0.0
			for _, a := range ids {
				t += items[a].h
			}
			return t / float64(len(ids))
		}
		var blocks [][]int
		for r, ids := range rows {
			if r > 0 {
				px0, py0, px1, _ := extent(items, rows[r-1])
				cx0, _, cx1, cy1 := extent(items, ids)
				gap := py0 - cy1
				if gap <= pinAdjacent*(avgH(rows[r-1])+avgH(ids))/2 && px1 > cx0 && cx1 > px0 {
					blocks[len(blocks)-1] = append(blocks[len(blocks)-1], ids...)
					continue
				}
			}
			blocks = append(blocks, append([]int{}, ids...))
		}
		for _, ids := range blocks {
			whole := true
			for _, a := range ids {
				if !lost[a] && !uncertain[a] {
					whole = false
				}
			}
			if !whole {
				continue
			}
			x0, y0, x1, y1 := extent(items, ids)
			switch {
			case x1-x0 < pinMinBlockWidth:
				classes["block-narrower-than-10pt"] = true
			case y1-y0 < pinMinBlockHeight:
				classes["block-lower-than-5pt"] = true
			default:
				continue
			}
			for _, a := range ids {
				explained[a] = true
			}
		}
	}
	// (c') tabula groups rows in stream-dependent order, so the re-derived blocks can be coarser than its own: a row
	// that is lost as a whole and on its own is smaller than the minimum block size is explained as well.
	if family == "block" {
		rowsUF := newUF(n)
		for a := 0; a < n; a++ {
			for b := a + 1; b < n; b++ {
				if sameRow(items[a], items[b]) {
					rowsUF.join(a, b)
				}
			}
		}
		rm := map[int][]int{}
		for a := 0; a < n; a++ {
			rm[rowsUF.find(a)] = append(rm[rowsUF.find(a)], a)
		}
		for _, ids := range rm {
			whole, open := true, false
			for _, a := range ids {
				if !lost[a] && !uncertain[a] {
					whole = false
				}
				if lost[a] && !explained[a] {
					open = true
				}
			}
			if !whole || !open {
				continue
			}
			x0, y0, x1, y1 := extent(items, ids)
			switch {
			case x1-x0 < pinMinBlockWidth:
				classes["block-narrower-than-10pt"] = true
			case y1-y0 < pinMinBlockHeight:
				classes["block-lower-than-5pt"] = true
			default:
				continue
			}
			for _, a := range ids {
				explained[a] = true
			}
		}
	}
	// (c'') … and its rows are not transitive (a fragment joins the row of the fragment sorted before it): as a last resort a
	// visual line run that is lost as a whole and is itself smaller than the minimum block size is explained.
	if family == "block" {
		for _, ids := range runMembers {
			whole, open := true, false
			for _, a := range ids {
				if !lost[a] && !uncertain[a] {
					whole = false
				}
				if lost[a] && !explained[a] {
					open = true
				}
			}
			if !whole || !open {
				continue
			}
			x0, y0, x1, y1 := extent(items, ids)
			switch {
			case x1-x0 < pinMinBlockWidth:
				classes["block-narrower-than-10pt"] = true
			case y1-y0 < pinMinBlockHeight:
				classes["block-lower-than-5pt"] = true
			default:
				continue
			}
			for _, a := range ids {
				explained[a] = true
			}
		}
	}
	// (e) Part 2: fragment deduplication keys on the position rounded to whole units; a fragment that shares text and
	// rounded position with an earlier, different fragment is dropped before any layout analysis.
	if v.part == 2 {
		rnd := func(f float64) int { return int(f + 0.5) }
		for a := 0; a < n; a++ {
			if !lost[a] || explained[a] || items[a].extracted {
				continue
			}
			for b := 0; b < n; b++ {
				if b != a && items[b].extracted && items[b].text == items[a].text && rnd(items[b].x) == rnd(items[a].x) && rnd(items[b].y) == rnd(items[a].y) {
					explained[a] = true
					classes["dedup-merged-neighbour-within-1-unit"] = true
					break
				}
			}
		}
	}
	for i := 0; i < n; i++ {
		if lost[i] && !explained[i] {
			classes["unexplained"] = true
		}
	}
	return sortedKeys(classes)
}

// pinnedGaps re-derives the column gaps (left, right) the way ColumnDetector.findVerticalGaps does, with the constants
// pinned when this check was written.
func pinnedGaps(fr []text.TextFragment) [][2]float64 {
	if len(fr) == 0 {
		return nil
	}
	const bucket, lowFrac, minGap, maxGaps = 5.0, 0.2, pinMinGapWidth, 5
	pw := pageW
	nb := int(pw/bucket) + 1
	hist := make([]int, nb)
	clamp := func(b int) int {
		if b < 0 {
			return 0
		}
		if b >= nb {
			return nb - 1
		}
		return b
	}
	minX, maxX := fr[0].X, fr[0].X+fr[0].Width
	for _, f := range fr {
		minX, maxX = math.Min(minX, f.X), math.Max(maxX, f.X+f.Width)
		for b := clamp(int(f.X / bucket)); b <= clamp(int((f.X+f.Width)/bucket)); b++ {
			hist[b]++
		}
	}
	start, end := clamp(int(minX/bucket)), clamp(int(maxX/bucket))
	total := 0
	for b := start; b <= end; b++ {
		total += hist[b]
	}
	thr := float64(total) / float64(end-start+1) * lowFrac
	var gaps [][2]float64
	in, vs := false, 0
	for b := start; b <= end; b++ {
		low := float64(hist[b]) < thr
		if low && !in {
			in, vs = true, b
		} else if !low && in {
			in = false
			if l, r := float64(vs)*bucket, float64(b)*bucket; r-l >= minGap {
				gaps = append(gaps, [2]float64{l, r})
			}
		}
	}
	if in {
		if l, r := float64(vs)*bucket, float64(end)*bucket; r-l >= minGap {
			gaps = append(gaps, [2]float64{l, r})
		}
	}
	if len(gaps) > maxGaps {
		gaps = gaps[:maxGaps]
	}
	return gaps
}

// classifyDup: in the element tree a text can be emitted by several elements; the class names their kinds.
// Everywhere else a repeated fragment has no recorded explanation.
func classifyDup(items []item, surplus []bool, family string, v view) []string {
	if family != "elements" || len(v.allKinds) != len(v.strs) {
		return []string{"unexplained"}
	}
	classes := map[string]bool{}
	for i, it := range items {
		if !surplus[i] {
			continue
		}
		cnt := map[string]int{}
		for e, s := range v.strs {
			cnt[v.allKinds[e]] += strings.Count(s, it.text)
		}
		var ks []string
		for _, k := range []string{"heading", "list", "paragraph"} {
			if cnt[k] > 0 {
				ks = append(ks, k)
			}
		}
		if len(ks) == 1 {
			ks[0] += "-twice" // repeated within elements of one kind
		}
		classes["in-"+strings.Join(ks, "-and-")] = true
	}
	return sortedKeys(classes)
}

func bitsSet(x int) int {
	n := 0
	for ; x != 0; x &= x - 1 {
		n++
	}
	return n
}

func sortedKeys(m map[string]bool) []string {
	var k []string
	for s := range m {
		k = append(k, s)
	}
	sort.Strings(k)
	return k
}
