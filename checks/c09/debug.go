package main

import (
	"fmt"
	"os"

	"github.com/tsawler/tabula/layout"
	"github.com/tsawler/tabula/text"
)

// dumpAnalysis (development aid, C09_DUMP=1 together with a replay): prints what the analyzer saw.
func dumpAnalysis(fr []text.TextFragment) {
	if os.Getenv("C09_DUMP") == "" {
		return
	}
	r := layout.NewAnalyzer().Analyze(fr, pageW, pageH)
	w := os.Stderr
	fmt.Fprintf(w, "columns=%d spanning=%d\n", len(r.Columns.Columns), len(r.Columns.SpanningFragments))
	for i, c := range r.Columns.Columns {
		fmt.Fprintf(w, "  col %d bbox=%.1f,%.1f %.1fx%.1f n=%d\n", i, c.BBox.X, c.BBox.Y, c.BBox.Width, c.BBox.Height, len(c.Fragments))
	}
	for i, s := range r.ReadingOrder.Sections {
		fmt.Fprintf(w, "  section %d %s col=%d lines=%d frags=%d\n", i, s.Type, s.ColumnIndex, len(s.Lines), len(s.Fragments))
	}
	for i, p := range r.Paragraphs.Paragraphs {
		fmt.Fprintf(w, "  para %d style=%s bbox=%.1f,%.1f %.1fx%.1f %q\n", i, p.Style, p.BBox.X, p.BBox.Y, p.BBox.Width, p.BBox.Height, p.Text)
	}
	for i, h := range r.Headings.Headings {
		fmt.Fprintf(w, "  heading %d conf=%.2f bbox=%.1f,%.1f %.1fx%.1f %q\n", i, h.Confidence, h.BBox.X, h.BBox.Y, h.BBox.Width, h.BBox.Height, h.Text)
	}
	for i, l := range r.Lists.Lists {
		fmt.Fprintf(w, "  list %d bbox=%.1f,%.1f %.1fx%.1f items=%d\n", i, l.BBox.X, l.BBox.Y, l.BBox.Width, l.BBox.Height, l.ItemCount)
		for _, it := range l.Items {
			fmt.Fprintf(w, "     item lvl=%d %q %q children=%d lines=%d %q\n", it.Level, it.Prefix, it.Text, len(it.Children), len(it.Lines), lineTexts(it.Lines))
		}
	}
	for i, e := range r.Elements {
		fmt.Fprintf(w, "  elem %d %v bbox=%.1f,%.1f %.1fx%.1f %q\n", i, e.Type, e.BBox.X, e.BBox.Y, e.BBox.Width, e.BBox.Height, e.Text)
	}
}
