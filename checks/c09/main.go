// C09 — Layout analysis never loses, invents or duplicates text.
//
// Bounded-exhaustive exploration of a grid grammar of synthetic pages (K columns x R rows x W words,
// plus toggles as deviations) against (Part 1) the layout detectors fed with fragments and (Part 2) the
// public extraction API on the same pages written as hand-made PDFs. Oracle: every input fragment is
// found exactly once (exact duplicates: at least once), nothing else appears — per API.
package main

import (
	"fmt"
	"os"
	"strings"
	"time"

	"github.com/tsawler/tabula"
	"github.com/tsawler/tabula/layout"
	"github.com/tsawler/tabula/text"
	"verif/internal/harness"
)

// mapOrderSites is set by build.sh: number of range-over-map loops of package layout that the overlay made ordered.
var mapOrderSites = "0 (built without the overlay: element-tree results may vary between runs)"

func main() { harness.Main("C09", "exploration", run) }

func run(e *harness.Env) {
	defer cleanupScratch()
	maxK, bound := 2, 2
	e.SetBudget(55 * time.Second) // internal cap: a machine too loaded to finish in time yields exhaustive:false, never an alarm
	if e.Thorough() {
		maxK, bound = 4, 3
		e.SetBudget(14 * time.Minute)
	}
	e.Rule = "grid grammar: full product of K columns (1..2 quick plus K=3 for R=2, 1..4 thorough) x R rows (1,2,3,8 quick; 1,2,3,4,8 thorough) x W words per line (1..3) x API, and on top of each grid every " +
		"combination of at most 2 (quick) / 3 (thorough) deviations among: justified, heading (first/last column, or a 30pt in-column heading), short last line, single-word line, overhanging word (near/far), " +
		"spanning title (top/mid), list markers (bullet/numbered/nested), RTL run, character-level fragmentation, exact duplicate overlay (all/line), inverted Y, coordinates x0.1, " +
		"single narrow glyph line (I/1), repeated text at a different position (word / doubled letter), hyphenated line end, columns not baseline-aligned (stagger),  descending map order (APIs with paragraph detection), one absent cell per deviation. Stack sub-space: pages of 4 (quick) / 5 (thorough) lines, every line left / middle / right / full width, boxes 12 on 14.4, 15 on 10, 12 on 8 (full product): every merge topology of up to 4/5 blocks. Glyph sub-space: character-level pages with a word holding a doubled narrow / wide glyph (ll ii jj .. oo mm ee tt …) at every position of a line and two sizes, and word-level pages with one word painted a second time at offsets 0, 0.3, 0.7, 2, 4 pt (x) / 0.3 pt (y), directly after the original or as a second layer (full product). Config sub-space: the full product of every configuration field of the layout detectors that selects a code path (ReadingOrderConfig Direction / PreferColumnOrder / InvertedY nil,false,true; BlockConfig MergeOverlappingBlocks; AnalyzerConfig DetectHeadings / DetectLists / UseReadingOrder; HeadingConfig BoldIndicatesHeading / AllCapsIndicatesHeading) over pages of 1..5, 8, 9 lines per column, 1-2 columns, with/without a title line, Y-up and Y-down coordinates. Reuse sub-space: for each of 12 detector/analyzer instance types, one instance analyses every ordered sequence A,B / A,B,A / A,A / A|B (thorough also A,B,C and A,B,A,B) over 17 reduced grammar pages with disjoint tokens; all results are rendered only afterwards and must equal the rendering by a fresh instance. distinct = distinct (API, grid, deviation vector); non-trivial = at least one deviation"
	e.Assumptions = []string{
		"Part 2 trusts tabula's PDF parsing and text positioning (C01/C08) to deliver the fragments: the reference is the list of fragments written into the PDF, their widths/heights are taken from tabula.Open(f).Fragments()",
		"text.DetectDirection is used to label the direction of Part-1 input fragments exactly as text extraction would",
		"tabula/layout is compiled with an overlay that makes its tie-breaking range-over-map loops (detectLeftMargin, detectDominantAlignment, detectBodyFontSize, …) iterate in sorted key order (ascending and descending are both explored); with Go's randomized order the element tree of some pages differs from run to run (property C03), which would make cases unreplayable",
		"loss classes use pinned thresholds (5pt line, 50pt column, 10x5pt block), not tabula's configuration at run time",
	}
	e.Note("map_order_seam", "range-over-map sites of tabula/layout iterated in sorted order by the build overlay: "+mapOrderSites+"; both ascending and descending order are explored for APIs that run paragraph/heading detection")
	e.Note("bound", fmt.Sprintf("K<=%d, R in {1,2,3,4,8}, W<=3, deviations<=%d, %d APIs", maxK, bound, len(apis)))

	only := os.Getenv("C09_API") // debugging aid: restrict to one API ("reuse": only the reuse sub-space)
	if only == "" || only == "reuse" {
		reuseSpace(e) // small; first, so that the time cap never cuts it
	}
	if only == "" || only == "stack" {
		stackSpace(e)
	}
	if only == "" || only == "glyphs" {
		glyphSpace(e)
	}
	if only == "" || only == "config" {
		configSpace(e)
	}
	for _, a := range apis {
		if only != "" && a.name != only {
			continue
		}
		for K := 1; K <= maxK+1; K++ {
			for _, R := range []int{1, 2, 3, 4, 8} {
				if !e.Thorough() && R == 4 {
					continue // quick: 4-row grids only in the thorough tier (3 and 8 rows bracket them)
				}
				if K > maxK && (e.Thorough() || R != 2) {
					continue // quick: three columns only on the 2-row grids (a column BETWEEN two others matters for block merging)
				}
				for W := 1; W <= 3; W++ {
					a, K, R, W := a, K, R, W
					space := harness.D("part", a.part, "api", a.name, "K", K, "R", R, "W", W)
					e.Explore(space, bound, func(c *harness.Ctx) {
						p := choose(c, K, R, W, a.paras)
						if !c.Counted() {
							return
						}
						evaluate(e, c, a, p)
					})
				}
			}
		}
	}
	emptyPage(e)
	e.Add("block_merges_on_explored_pages", blockMerges)
	e.Add("block_merges_nonadjacent_on_explored_pages", blockMergesNonAdjacent)
}

func evaluate(e *harness.Env, c *harness.Ctx, a api, p *pageSpec) {
	desc := c.Desc()
	if os.Getenv("C09_COUNT") != "" { // development aid: size of the space without running anything
		c.Pass("counted")
		return
	}
	sig, detail, files := runCase(e, desc, a, p)
	if sig != "" {
		c.Fail(sig, detail, files)
		return
	}
	c.Pass(outcomeOf(p, len(p.frags)))
}

// runCase runs one API on one page and judges it; sig == "" means the property held.
func runCase(e *harness.Env, desc string, a api, p *pageSpec) (string, string, map[string][]byte) {
	e.Begin(desc)
	if p.mapDesc {
		os.Setenv("C09_MAPORDER", "desc")
	} else {
		os.Setenv("C09_MAPORDER", "asc")
	}
	items := refItems(p, a.part)
	var v view
	var files map[string][]byte
	sig, det := harness.Guard(func() {
		if a.part == 1 {
			v = a.run1(specFragments(p))
			v.input = specFragments(p)
			dumpAnalysis(specFragments(p))
			return
		}
		pdf := pdfOf(p)
		files = map[string][]byte{"page.pdf": pdf}
		path := scratchFile()
		if err := os.WriteFile(path, pdf, 0o644); err != nil {
			panic(err)
		}
		fr, _, err := tabula.Open(path).Fragments()
		if err != nil {
			v = view{err: err}
			return
		}
		adoptGeometry(items, fr)
		v = a.run2(path)
		v.input = fr
	})
	if sig != "" {
		return sig, det, files
	}
	v.part = a.part
	vd := judge(items, v, a.family, a.aspect)
	if !vd.ok {
		debugLog(a.name, vd.sig, desc)
		return vd.sig, vd.detail + "\npage: " + p.describe(), files
	}
	return "", "", nil
}

// ---- stack sub-space: every merge topology over a few blocks -------------------------------------------
//
// The grid grammar only rarely produces blocks whose boxes overlap. Here a page is a stack of L lines (4 quick,
// 5 thorough); every line independently has one of four horizontal shapes (two words at the left, in the middle,
// at the right, or left AND right = full width) and the page one of three (glyph size, line pitch) pairs: boxes that
// do not overlap vertically (12 on 14.4), overlap by a third (15 on 10) or by a third of a smaller box (12 on 8).
// Lines without horizontal overlap start a new block, so the full product contains every arrangement of up to L
// blocks: chains (A-B, B-C), stars, and staircases in which only the MERGED box of two blocks overlaps a third.
func stackSpace(e *harness.Env) {
	L := 4
	if e.Thorough() {
		L = 5
	}
	shapes := []struct {
		name string
		xs   []float64
	}{{"L", []float64{50, 80}}, {"M", []float64{170, 200}}, {"R", []float64{300, 330}}, {"F", []float64{50, 80, 300, 330}}}
	pitches := []struct {
		name        string
		size, pitch float64
	}{{"12on14.4", 12, 14.4}, {"15on10", 15, 10}, {"12on8", 12, 8}}
	total := 1
	for i := 0; i < L; i++ {
		total *= len(shapes)
	}
	for _, a := range apis {
		if a.part == 2 && a.name != "Blocks" && a.name != "Lines" && a.name != "Text" && a.name != "Elements" {
			continue // the PDF route adds nothing per API here; keep the block, line, text and element observation points
		}
		for _, pt := range pitches {
			for code := 0; code < total; code++ {
				var sb strings.Builder
				x := code
				idx := make([]int, L)
				for i := range idx {
					idx[i] = x % len(shapes)
					x /= len(shapes)
					sb.WriteString(shapes[idx[i]].name)
				}
				desc := harness.D("part", a.part, "api", a.name, "space", "stack", "lines", sb.String(), "boxes", pt.name)
				if !e.Own(desc) {
					continue
				}
				p := &pageSpec{K: 1, R: L, W: 2, absent: map[[2]int]bool{}, scaleF: 1, heading: "none", overhang: "none", title: "none", list: "none", dup: "none", narrow: "none", repeat: "none"}
				ts := &tokenSrc{}
				for i := range idx {
					y := topY - float64(i)*pt.pitch
					for _, fx := range shapes[idx[i]].xs {
						w := ts.next()
						p.frags = append(p.frags, frag{text: w, x: fx, y: y, w: textWidth(w, pt.size), size: pt.size, role: "body", col: 0, row: i})
					}
				}
				sig, detail, files := runCase(e, desc, a, p)
				if sig != "" {
					e.Fail(desc, sig, detail, files)
					continue
				}
				e.Pass(desc, true, "stack:"+pt.name)
			}
		}
	}
}

// outcomeOf is a coarse class of the page that passed (vacuity check: several classes must occur).
func outcomeOf(p *pageSpec, n int) string {
	var t []string
	if p.K > 1 {
		t = append(t, "multicol")
	} else {
		t = append(t, "onecol")
	}
	if p.charfrag {
		t = append(t, "chars")
	}
	if p.dup != "none" {
		t = append(t, "dup")
	}
	if p.scale {
		t = append(t, "scaled")
	}
	if p.rtl {
		t = append(t, "rtl")
	}
	if p.title != "none" || p.heading != "none" {
		t = append(t, "titled")
	}
	if p.list != "none" {
		t = append(t, "list")
	}
	return strings.Join(t, "+")
}

// emptyPage: no fragments at all — every API must return nothing.
func emptyPage(e *harness.Env) {
	for _, a := range apis {
		desc := harness.D("part", a.part, "api", a.name, "page", "empty")
		if !e.Own(desc) {
			continue
		}
		e.Begin(desc)
		var v view
		sig, det := harness.Guard(func() {
			if a.part == 1 {
				v = a.run1([]text.TextFragment{})
				return
			}
			path := scratchFile()
			os.WriteFile(path, writePDF(nil, pageW, pageH, 1), 0o644)
			v = a.run2(path)
		})
		if sig != "" {
			e.Fail(desc, sig, det, nil)
			continue
		}
		vd := judge(nil, v, a.family, a.aspect)
		if !vd.ok {
			e.Fail(desc, vd.sig, vd.detail, nil)
			continue
		}
		e.Pass(desc, false, "empty")
	}
}

// debugLog (development aid, off unless C09_DEBUG names a file): one line per failing case.
func debugLog(api, sig, desc string) {
	f := os.Getenv("C09_DEBUG")
	if f == "" {
		return
	}
	if fh, err := os.OpenFile(f, os.O_APPEND|os.O_CREATE|os.O_WRONLY, 0o644); err == nil {
		fmt.Fprintf(fh, "%s\t%s\t%s\n", api, sig, desc)
		fh.Close()
	}
}

// ---- glyph sub-space: identical neighbours --------------------------------------------------------------
//
// Two fragments with the same text close to each other are either the two halves of a doubled letter on a
// character-level page ("hello", "skiing": l and i advance 0.22 em in Helvetica, o 0.56 em) or a second layer of the same
// word (poor man's bold). Only text extraction may remove a copy, and only one that rounds to the same grid point
// (refItems); layout analysis has to keep every fragment it is given.
func glyphSpace(e *harness.Env) {
	words := []string{"hello", "skiing", "jj", "will", "a..b", "moon", "mm", "seen", "tt", "off", "llama", "Illinois"}
	sizes := []float64{12, 8}
	if e.Thorough() {
		words = append(words, "i", "ll", "riff", "x||y", "aaa", "lil", "ii")
		sizes = append(sizes, 24, 5)
	}
	type off struct {
		name   string
		dx, dy float64
	}
	offsets := []off{{"0", 0, 0}, {"x0.3", 0.3, 0}, {"y0.3", 0, 0.3}, {"x0.7", 0.7, 0}, {"x2", 2, 0}, {"x4", 4, 0}}
	base := func() *pageSpec {
		return &pageSpec{K: 1, R: 2, W: 3, absent: map[[2]int]bool{}, scaleF: 1, heading: "none", overhang: "none", title: "none", list: "none", dup: "none", narrow: "none", repeat: "none"}
	}
	fill := [][]string{{"bad", "cup", "dog"}, {"pen", "hut", "van"}} // fillers share no letter pair with each other's neighbours
	for _, a := range apis {
		if a.part == 2 && a.name != "Fragments" && a.name != "ExtractText" && a.name != "Lines" && a.name != "Text" && a.name != "ByColumn" && a.name != "JoinParagraphs" && a.name != "PreserveLayout" && a.name != "Elements" {
			continue
		}
		// (1) character-level pages
		for _, w := range words {
			for pos := 0; pos < 3; pos++ {
				for _, size := range sizes {
					desc := harness.D("part", a.part, "api", a.name, "space", "glyphs", "word", w, "at", pos, "size", size)
					if !e.Own(desc) {
						continue
					}
					p := base()
					p.charfrag = true
					for row := 0; row < 2; row++ {
						x := marginL
						y := topY - float64(row)*size*1.2
						for k := 0; k < 3; k++ {
							word := fill[row][k]
							if row == 0 && k == pos {
								word = w
							}
							for _, r := range word {
								cw := textWidth(string(r), size)
								p.frags = append(p.frags, frag{text: string(r), x: x, y: y, w: cw, size: size, role: "body", col: 0, row: row})
								x += cw
							}
							x += textWidth(" ", size)
						}
					}
					sig, detail, files := runCase(e, desc, a, p)
					if sig != "" {
						e.Fail(desc, sig, detail, files)
						continue
					}
					e.Pass(desc, true, "glyphs:chars")
				}
			}
		}
		// (2) a word painted twice
		for pos := 0; pos < 3; pos++ {
			for _, o := range offsets {
				for _, layer := range []string{"adjacent", "last"} {
					desc := harness.D("part", a.part, "api", a.name, "space", "glyphs", "twice", pos, "offset", o.name, "stream", layer)
					if !e.Own(desc) {
						continue
					}
					p := base()
					ts := &tokenSrc{}
					var second []frag
					for row := 0; row < 2; row++ {
						x := marginL
						y := topY - float64(row)*leading
						for k := 0; k < 3; k++ {
							w := ts.next()
							f := frag{text: w, x: x, y: y, w: textWidth(w, bodySize), size: bodySize, role: "body", col: 0, row: row}
							p.frags = append(p.frags, f)
							if row == 0 && k == pos {
								g := f
								g.x, g.y = f.x+o.dx, f.y+o.dy
								g.isDup = o.dx == 0 && o.dy == 0
								if layer == "adjacent" {
									p.frags = append(p.frags, g)
								} else {
									second = append(second, g)
								}
							}
							x += f.w + textWidth(" ", bodySize)
						}
					}
					p.frags = append(p.frags, second...)
					sig, detail, files := runCase(e, desc, a, p)
					if sig != "" {
						e.Fail(desc, sig, detail, files)
						continue
					}
					e.Pass(desc, true, "glyphs:twice")
				}
			}
		}
	}
}

// ---- config sub-space: every configuration field that selects a code path ---------------------------------
//
// The other spaces drive the detectors with their default configuration. The exported configuration structs of package
// layout hold, besides numeric thresholds, these switches (enumerated from the struct definitions):
//
//	ReadingOrderConfig: Direction (LeftToRight / RightToLeft / TopToBottom), PreferColumnOrder, InvertedY (nil / &false / &true)
//	BlockConfig:        MergeOverlappingBlocks
//	AnalyzerConfig:     DetectHeadings, DetectLists, UseReadingOrder (+ its ReadingOrderConfig, BlockConfig, HeadingConfig)
//	HeadingConfig:      BoldIndicatesHeading, AllCapsIndicatesHeading
//
// (ColumnConfig, LineConfig, ParagraphConfig and ListConfig only hold thresholds and patterns.) Here their full product is
// run over small pages: 1..5, 8 and 9 lines per column (odd and even), one and two columns, with and without a full-width
// title line, coordinates Y-up and Y-down. Same oracle: nothing lost, invented or duplicated in any view.
func configSpace(e *harness.Env) {
	os.Setenv("C09_MAPORDER", "asc")
	type pg struct {
		K, n          int
		title, coords string
	}
	var pages []pg
	for _, K := range []int{1, 2} {
		for _, n := range []int{1, 2, 3, 4, 5, 8, 9} {
			for _, t := range []string{"none", "top"} {
				for _, c := range []string{"up", "down"} {
					pages = append(pages, pg{K, n, t, c})
				}
			}
		}
	}
	build := func(q pg) *pageSpec {
		p := &pageSpec{K: q.K, R: q.n, W: 2, justified: true, absent: map[[2]int]bool{}, scaleF: 1, heading: "none", overhang: "none", title: q.title, list: "none", dup: "none", narrow: "none", repeat: "none", inverty: q.coords == "down"}
		p.build()
		return p
	}
	tri := []struct {
		name string
		v    *bool
	}{{"nil", nil}, {"false", new(bool)}, {"true", func() *bool { b := true; return &b }()}}
	dirs := []struct {
		name string
		d    layout.ReadingDirection
	}{{"ltr", layout.LeftToRight}, {"rtl", layout.RightToLeft}, {"ttb", layout.TopToBottom}}
	bools := []bool{true, false}

	run := func(apiName, family, aspect, cfg string, q pg, f func(fr []text.TextFragment) view) {
		desc := harness.D("part", 1, "api", apiName, "space", "config", "cfg", cfg, "K", q.K, "lines", q.n, "title", q.title, "coords", q.coords)
		if !e.Own(desc) {
			return
		}
		p := build(q)
		a := api{name: apiName, family: family, aspect: aspect, part: 1, run1: f}
		sig, detail, files := runCase(e, desc, a, p)
		if sig != "" {
			e.Fail(desc, sig, detail, files)
			return
		}
		e.Pass(desc, true, "config:"+apiName)
	}

	// reading-order detector
	for _, d := range dirs {
		for _, pref := range bools {
			for _, inv := range tri {
				cfg := layout.DefaultReadingOrderConfig()
				cfg.Direction, cfg.PreferColumnOrder, cfg.InvertedY = d.d, pref, inv.v
				name := fmt.Sprintf("dir=%s,prefercolumn=%v,invertedY=%s", d.name, pref, inv.name)
				for _, q := range pages {
					run("Config.ReadingOrder.Fragments", "column", "", name, q, func(fr []text.TextFragment) view {
						r := layout.NewReadingOrderDetectorWithConfig(cfg).Detect(fr, pageW, pageH)
						v := view{hasG: true, groups: [][]text.TextFragment{r.Fragments}, facets: []string{"Fragments", "Sections[].Fragments"}}
						var sg [][]text.TextFragment
						for _, s := range r.Sections {
							sg = append(sg, s.Fragments)
						}
						v.moreGroups = [][][]text.TextFragment{sg}
						return v
					})
					run("Config.ReadingOrder.Lines", "column+line", "", name, q, func(fr []text.TextFragment) view {
						r := layout.NewReadingOrderDetectorWithConfig(cfg).Detect(fr, pageW, pageH)
						v := view{hasG: true, groups: lineGroups(r.Lines), hasS: true, strs: lineTexts(r.Lines),
							facets: []string{"Lines[].Fragments", "Sections[].Lines[].Fragments", "Lines[].Text", "Sections[].Lines[].Text", "GetText"}}
						var sg [][]text.TextFragment
						var st []string
						for _, s := range r.Sections {
							sg = append(sg, lineGroups(s.Lines)...)
							st = append(st, lineTexts(s.Lines)...)
						}
						v.moreGroups, v.moreStrs = [][][]text.TextFragment{sg}, [][]string{st, {r.GetText()}}
						return v
					})
					run("Config.ReadingOrder.GetParagraphs", "column+line", "", name, q, func(fr []text.TextFragment) view {
						pl := layout.NewReadingOrderDetectorWithConfig(cfg).Detect(fr, pageW, pageH).GetParagraphs()
						v := paraView(pl.Paragraphs)
						v.moreStrs = append(v.moreStrs, []string{pl.GetText()})
						v.facets = append(v.facets, "ParagraphLayout.GetText")
						return v
					})
				}
			}
		}
	}
	// block detector
	for _, merge := range bools {
		cfg := layout.DefaultBlockConfig()
		cfg.MergeOverlappingBlocks = merge
		for _, q := range pages {
			run("Config.Block.Detect", "block", "", fmt.Sprintf("merge=%v", merge), q, func(fr []text.TextFragment) view {
				l := layout.NewBlockDetectorWithConfig(cfg).Detect(fr, pageW, pageH)
				v := blockView(l.Blocks)
				v.moreGroups = append(v.moreGroups, [][]text.TextFragment{l.GetAllFragments()})
				v.moreStrs = append(v.moreStrs, []string{l.GetText()})
				v.facets = []string{"Block.Fragments", "Block.Lines", "BlockLayout.GetAllFragments", "Block.GetText", "BlockLayout.GetText"}
				return v
			})
		}
	}
	// analyzer
	for _, dh := range bools {
		for _, dl := range bools {
			for _, uro := range bools {
				for _, inv := range tri {
					for _, d := range dirs[:2] {
						for _, merge := range bools {
							for hb := 0; hb < 4; hb++ {
								cfg := layout.DefaultAnalyzerConfig()
								cfg.DetectHeadings, cfg.DetectLists, cfg.UseReadingOrder = dh, dl, uro
								cfg.ReadingOrderConfig.InvertedY, cfg.ReadingOrderConfig.Direction = inv.v, d.d
								cfg.BlockConfig.MergeOverlappingBlocks = merge
								cfg.HeadingConfig.BoldIndicatesHeading, cfg.HeadingConfig.AllCapsIndicatesHeading = hb&1 == 0, hb&2 == 0
								name := fmt.Sprintf("headings=%v,lists=%v,readingorder=%v,invertedY=%s,dir=%s,merge=%v,bold=%v,allcaps=%v", dh, dl, uro, inv.name, d.name, merge, hb&1 == 0, hb&2 == 0)
								for _, q := range pages {
									analyze := func(fr []text.TextFragment) (*layout.AnalysisResult, []layout.Paragraph) {
										r := layout.NewAnalyzerWithConfig(cfg).Analyze(fr, pageW, pageH)
										var ps []layout.Paragraph
										if r.Paragraphs != nil {
											ps = r.Paragraphs.Paragraphs
										}
										return r, ps
									}
									run("Config.Analyzer.Elements", "elements", "loss", name, q, func(fr []text.TextFragment) view {
										r, ps := analyze(fr)
										return elemView(r.Elements, ps, false)
									})
									run("Config.Analyzer.Elements.dup", "elements", "dup", name, q, func(fr []text.TextFragment) view {
										r, ps := analyze(fr)
										return elemView(r.Elements, ps, false)
									})
									run("Config.Analyzer.ElementDetails", "elements", "loss", name, q, func(fr []text.TextFragment) view {
										r, ps := analyze(fr)
										return elemView(r.Elements, ps, true)
									})
									run("Config.Analyzer.Structures", "column+line", "", name, q, func(fr []text.TextFragment) view {
										r, _ := analyze(fr)
										v := view{hasG: true, groups: lineGroups(r.Lines.Lines), hasS: true, strs: []string{r.GetText()},
											facets: []string{"Lines", "Blocks", "Paragraphs[].Lines", "ReadingOrder.Lines", "GetText", "Paragraphs.GetText", "ReadingOrder.GetText"}}
										var bg, pgp, rl [][]text.TextFragment
										for i := range r.Blocks.Blocks {
											bg = append(bg, r.Blocks.Blocks[i].Fragments)
										}
										for _, p := range r.Paragraphs.Paragraphs {
											pgp = append(pgp, lineGroups(p.Lines)...)
										}
										v.moreGroups = [][][]text.TextFragment{bg, pgp}
										v.moreStrs = [][]string{{r.Paragraphs.GetText()}}
										if r.ReadingOrder != nil {
											rl = lineGroups(r.ReadingOrder.Lines)
											v.moreGroups = append(v.moreGroups, rl)
											v.moreStrs = append(v.moreStrs, []string{r.ReadingOrder.GetText()})
										} else {
											v.facets = []string{"Lines", "Blocks", "Paragraphs[].Lines", "GetText", "Paragraphs.GetText"}
										}
										return v
									})
								}
							}
						}
					}
				}
			}
		}
	}
}
