package main

import (
	"fmt"
	"os"
	"strings"

	"github.com/tsawler/tabula/layout"
	"github.com/tsawler/tabula/text"
	"verif/internal/harness"
)

// ---- reuse sub-space: results are values ---------------------------------------------------------
//
// The main space drives a fresh detector for every page and looks at the result at once. Callers do
// neither: one detector / analyzer is run over every page of a document and the results are kept. Layout
// analysis "only regroups and orders text" must therefore also hold for a result that is looked at AFTER
// the instance that produced it has analysed other pages, and for the result of an instance that has
// analysed other pages before.
//
// For every detector type, ONE instance analyses a sequence of pages (A,B / A,A / A,B,A / thorough: A,B,C);
// only then every result is rendered, and each rendering must be identical to the rendering of the same
// page by a fresh instance (taken at once, as an immutable string). The fresh renderings are exactly what
// the main space judges with the multiset / assignment oracle, so equality carries that verdict over.
// The sequence "A|B" uses two separate instances (state shared at package level instead of per instance).

type reuseInst struct {
	name string
	// mk returns the two operations of one instance: call(i, fragments) -> result (kept as is), and
	// snap(result) -> canonical rendering of everything the result exposes.
	mk func() (call func(i int, fr []text.TextFragment) any, snap func(r any) string)
}

func dumpFrags(b *strings.Builder, tag string, fr []text.TextFragment) {
	fmt.Fprintf(b, "%s[%d]", tag, len(fr))
	for _, f := range fr {
		fmt.Fprintf(b, " %q@%.3f,%.3f/%.3fx%.3f", f.Text, f.X, f.Y, f.Width, f.Height)
	}
	b.WriteByte('\n')
}

func dumpLines(b *strings.Builder, tag string, ls []layout.Line) {
	fmt.Fprintf(b, "%s lines=%d\n", tag, len(ls))
	for i, l := range ls {
		fmt.Fprintf(b, " %s.line%d %q box=%.3f,%.3f,%.3f,%.3f sp=%.3f/%.3f al=%v ", tag, i, l.Text, l.BBox.X, l.BBox.Y, l.BBox.Width, l.BBox.Height, l.SpacingBefore, l.SpacingAfter, l.Alignment)
		dumpFrags(b, "", l.Fragments)
	}
}

func dumpParas(b *strings.Builder, tag string, pl *layout.ParagraphLayout) {
	if pl == nil {
		fmt.Fprintf(b, "%s nil\n", tag)
		return
	}
	fmt.Fprintf(b, "%s paras=%d text=%q\n", tag, len(pl.Paragraphs), pl.GetText())
	for i, p := range pl.Paragraphs {
		fmt.Fprintf(b, " %s.para%d %q style=%v box=%.3f,%.3f,%.3f,%.3f\n", tag, i, p.Text, p.Style, p.BBox.X, p.BBox.Y, p.BBox.Width, p.BBox.Height)
		dumpLines(b, fmt.Sprintf("%s.para%d", tag, i), p.Lines)
	}
}

func dumpColumns(b *strings.Builder, l *layout.ColumnLayout) {
	if l == nil {
		b.WriteString("columns nil\n")
		return
	}
	fmt.Fprintf(b, "columns=%d text=%q\n", len(l.Columns), l.GetText())
	for i, c := range l.Columns {
		dumpFrags(b, fmt.Sprintf(" col%d", i), c.Fragments)
	}
	dumpFrags(b, " spanning", l.SpanningFragments)
	dumpFrags(b, " reading", l.GetFragmentsInReadingOrder())
}

func dumpLineLayout(b *strings.Builder, l *layout.LineLayout) {
	if l == nil {
		b.WriteString("linelayout nil\n")
		return
	}
	fmt.Fprintf(b, "linelayout text=%q\n", l.GetText())
	dumpLines(b, "ll", l.Lines)
	dumpFrags(b, " all", l.GetAllFragments())
}

func dumpBlocks(b *strings.Builder, l *layout.BlockLayout) {
	if l == nil {
		b.WriteString("blocks nil\n")
		return
	}
	fmt.Fprintf(b, "blocks=%d text=%q\n", len(l.Blocks), l.GetText())
	for i := range l.Blocks {
		bl := &l.Blocks[i]
		fmt.Fprintf(b, " block%d %q\n", i, bl.GetText())
		dumpFrags(b, "  frags", bl.Fragments)
		for j, ln := range bl.Lines {
			dumpFrags(b, fmt.Sprintf("  line%d", j), ln)
		}
	}
}

func dumpRO(b *strings.Builder, r *layout.ReadingOrderResult) {
	if r == nil {
		b.WriteString("ro nil\n")
		return
	}
	fmt.Fprintf(b, "ro cols=%d dir=%v text=%q\n", r.ColumnCount, r.Direction, r.GetText())
	dumpFrags(b, " ro.frags", r.Fragments)
	dumpLines(b, "ro", r.Lines)
	for i, s := range r.Sections {
		fmt.Fprintf(b, " section%d %v col=%d\n", i, s.Type, s.ColumnIndex)
		dumpFrags(b, "  frags", s.Fragments)
		dumpLines(b, fmt.Sprintf("sec%d", i), s.Lines)
	}
	dumpParas(b, "ro.paras", r.GetParagraphs())
}

func dumpHeadings(b *strings.Builder, h *layout.HeadingLayout) {
	if h == nil {
		b.WriteString("headings nil\n")
		return
	}
	fmt.Fprintf(b, "headings=%d body=%.3f\n", len(h.Headings), h.BodyFontSize)
	for i, x := range h.Headings {
		fmt.Fprintf(b, " heading%d %q level=%v conf=%.3f ", i, x.Text, x.Level, x.Confidence)
		dumpFrags(b, "", x.Fragments)
		dumpLines(b, fmt.Sprintf("h%d", i), x.Lines)
	}
}

func dumpLists(b *strings.Builder, l *layout.ListLayout) {
	if l == nil {
		b.WriteString("lists nil\n")
		return
	}
	fmt.Fprintf(b, "lists=%d\n", len(l.Lists))
	for i := range l.Lists {
		li := &l.Lists[i]
		fmt.Fprintf(b, " list%d type=%v text=%q md=%q\n", i, li.Type, li.GetText(), li.ToMarkdown())
		for j, it := range li.GetAllItems() {
			fmt.Fprintf(b, "  item%d lvl=%d %q %q raw=%q\n", j, it.Level, it.Prefix, it.Text, it.RawText)
			dumpLines(b, fmt.Sprintf("l%d.i%d", i, j), it.Lines)
		}
	}
	for j, it := range l.AllItems {
		fmt.Fprintf(b, " all%d %q %q\n", j, it.Prefix, it.Text)
	}
}

func dumpElements(b *strings.Builder, es []layout.LayoutElement) {
	fmt.Fprintf(b, "elements=%d\n", len(es))
	for i, e := range es {
		fmt.Fprintf(b, " elem%d %v %q box=%.3f,%.3f,%.3f,%.3f", i, e.Type, e.Text, e.BBox.X, e.BBox.Y, e.BBox.Width, e.BBox.Height)
		if e.Heading != nil {
			fmt.Fprintf(b, " H=%q", e.Heading.Text)
		}
		if e.Paragraph != nil {
			fmt.Fprintf(b, " P=%q", e.Paragraph.Text)
		}
		if e.List != nil {
			fmt.Fprintf(b, " L=%q", e.List.GetText())
		}
		b.WriteByte('\n')
		dumpLines(b, fmt.Sprintf("e%d", i), e.Lines)
	}
}

func dumpAnalysis2(r *layout.AnalysisResult) string {
	var b strings.Builder
	fmt.Fprintf(&b, "stats=%+v text=%q md=%q\n", r.Stats, r.GetText(), r.GetMarkdown())
	dumpElements(&b, r.Elements)
	dumpColumns(&b, r.Columns)
	dumpRO(&b, r.ReadingOrder)
	dumpLineLayout(&b, r.Lines)
	dumpBlocks(&b, r.Blocks)
	dumpParas(&b, "paras", r.Paragraphs)
	dumpHeadings(&b, r.Headings)
	dumpLists(&b, r.Lists)
	for i, m := range r.GetElements() {
		fmt.Fprintf(&b, " model%d %T %+v\n", i, m, m)
	}
	return b.String()
}

var reuseInsts = []reuseInst{
	{"ColumnDetector", func() (func(int, []text.TextFragment) any, func(any) string) {
		d := layout.NewColumnDetector()
		return func(_ int, fr []text.TextFragment) any { return d.Detect(fr, pageW, pageH) },
			func(r any) string {
				var b strings.Builder
				dumpColumns(&b, r.(*layout.ColumnLayout))
				return b.String()
			}
	}},
	{"LineDetector", func() (func(int, []text.TextFragment) any, func(any) string) {
		d := layout.NewLineDetector()
		return func(_ int, fr []text.TextFragment) any { return d.Detect(fr, pageW, pageH) },
			func(r any) string {
				var b strings.Builder
				dumpLineLayout(&b, r.(*layout.LineLayout))
				return b.String()
			}
	}},
	{"ParagraphDetector", func() (func(int, []text.TextFragment) any, func(any) string) {
		d := layout.NewParagraphDetector()
		return func(_ int, fr []text.TextFragment) any { return d.DetectFromFragments(fr, pageW, pageH) },
			func(r any) string {
				var b strings.Builder
				dumpParas(&b, "paras", r.(*layout.ParagraphLayout))
				return b.String()
			}
	}},
	{"ParagraphDetector.Detect", func() (func(int, []text.TextFragment) any, func(any) string) {
		// line and paragraph detector both reused, paragraphs built from the reused line detector's lines
		ld, d := layout.NewLineDetector(), layout.NewParagraphDetector()
		return func(_ int, fr []text.TextFragment) any {
				return d.Detect(ld.Detect(fr, pageW, pageH).Lines, pageW, pageH)
			},
			func(r any) string {
				var b strings.Builder
				dumpParas(&b, "paras", r.(*layout.ParagraphLayout))
				return b.String()
			}
	}},
	{"BlockDetector", func() (func(int, []text.TextFragment) any, func(any) string) {
		d := layout.NewBlockDetector()
		return func(_ int, fr []text.TextFragment) any { return d.Detect(fr, pageW, pageH) },
			func(r any) string { var b strings.Builder; dumpBlocks(&b, r.(*layout.BlockLayout)); return b.String() }
	}},
	{"ReadingOrderDetector", func() (func(int, []text.TextFragment) any, func(any) string) {
		d := layout.NewReadingOrderDetector()
		return func(_ int, fr []text.TextFragment) any { return d.Detect(fr, pageW, pageH) },
			func(r any) string {
				var b strings.Builder
				dumpRO(&b, r.(*layout.ReadingOrderResult))
				return b.String()
			}
	}},
	{"HeadingDetector", func() (func(int, []text.TextFragment) any, func(any) string) {
		d := layout.NewHeadingDetector()
		return func(_ int, fr []text.TextFragment) any { return d.DetectFromFragments(fr, pageW, pageH) },
			func(r any) string {
				var b strings.Builder
				dumpHeadings(&b, r.(*layout.HeadingLayout))
				return b.String()
			}
	}},
	{"ListDetector", func() (func(int, []text.TextFragment) any, func(any) string) {
		d := layout.NewListDetector()
		return func(_ int, fr []text.TextFragment) any { return d.DetectFromFragments(fr, pageW, pageH) },
			func(r any) string { var b strings.Builder; dumpLists(&b, r.(*layout.ListLayout)); return b.String() }
	}},
	{"Analyzer.Analyze", func() (func(int, []text.TextFragment) any, func(any) string) {
		a := layout.NewAnalyzer()
		return func(_ int, fr []text.TextFragment) any { return a.Analyze(fr, pageW, pageH) },
			func(r any) string { return dumpAnalysis2(r.(*layout.AnalysisResult)) }
	}},
	{"Analyzer.QuickAnalyze", func() (func(int, []text.TextFragment) any, func(any) string) {
		a := layout.NewAnalyzer()
		return func(_ int, fr []text.TextFragment) any { return a.QuickAnalyze(fr, pageW, pageH) },
			func(r any) string { return dumpAnalysis2(r.(*layout.AnalysisResult)) }
	}},
	{"Analyzer.Mixed", func() (func(int, []text.TextFragment) any, func(any) string) {
		// the same analyzer alternates between the full and the quick analysis (they share the reading-order detector)
		a := layout.NewAnalyzer()
		return func(i int, fr []text.TextFragment) any {
				if i%2 == 0 {
					return a.Analyze(fr, pageW, pageH)
				}
				return a.QuickAnalyze(fr, pageW, pageH)
			},
			func(r any) string { return dumpAnalysis2(r.(*layout.AnalysisResult)) }
	}},
	{"ReorderForReading", func() (func(int, []text.TextFragment) any, func(any) string) {
		// package-level convenience functions (no instance the caller could keep apart)
		return func(_ int, fr []text.TextFragment) any { return layout.ReorderForReading(fr, pageW, pageH) },
			func(r any) string {
				var b strings.Builder
				dumpFrags(&b, "reordered", r.([]text.TextFragment))
				return b.String()
			}
	}},
}

// reusePages: a reduced set of grammar pages (every toggle once, small grids). off: tokens disjoint from the
// un-offset pages, so that text of one page showing up in the result of another cannot go unnoticed.
type reusePage struct {
	name string
	set  func(p *pageSpec)
}

var reusePages = []reusePage{
	{"empty", nil},
	{"k1r1w1", func(p *pageSpec) { p.K, p.R, p.W = 1, 1, 1 }},
	{"k1r3w2", func(p *pageSpec) { p.K, p.R, p.W = 1, 3, 2 }},
	{"k2r3w2just", func(p *pageSpec) { p.K, p.R, p.W, p.justified = 2, 3, 2, true }},
	{"k2r3w3", func(p *pageSpec) { p.K, p.R, p.W = 2, 3, 3 }},
	{"k3r2w2just", func(p *pageSpec) { p.K, p.R, p.W, p.justified = 3, 2, 2, true }},
	{"k2r8w2title", func(p *pageSpec) { p.K, p.R, p.W, p.justified, p.title = 2, 8, 2, true, "top" }},
	{"heading", func(p *pageSpec) { p.K, p.R, p.W, p.heading = 1, 3, 2, "first" }},
	{"nestedlist", func(p *pageSpec) { p.K, p.R, p.W, p.list = 1, 3, 2, "nested" }},
	{"bullets", func(p *pageSpec) { p.K, p.R, p.W, p.list = 2, 3, 2, "bullet" }},
	{"chars", func(p *pageSpec) { p.K, p.R, p.W, p.charfrag = 1, 2, 2, true }},
	{"duplayer", func(p *pageSpec) { p.K, p.R, p.W, p.dup = 2, 2, 2, "all" }},
	{"scaled", func(p *pageSpec) { p.K, p.R, p.W, p.scale = 1, 3, 3, true }},
	{"rtl", func(p *pageSpec) { p.K, p.R, p.W, p.rtl = 2, 3, 2, true }},
	{"narrowI", func(p *pageSpec) { p.K, p.R, p.W, p.narrow = 1, 3, 2, "I" }},
	{"overhang", func(p *pageSpec) { p.K, p.R, p.W, p.justified, p.overhang = 2, 3, 3, true, "far" }},
	{"inverty", func(p *pageSpec) { p.K, p.R, p.W, p.inverty = 2, 3, 2, true }},
}

func buildReusePage(rp reusePage, off bool) []text.TextFragment {
	if rp.set == nil {
		return []text.TextFragment{}
	}
	p := &pageSpec{absent: map[[2]int]bool{}, scaleF: 1, heading: "none", overhang: "none", title: "none", list: "none", dup: "none", narrow: "none", repeat: "none"}
	rp.set(p)
	if off {
		p.tokOff, p.hebOff = 50, 4
		if p.charfrag {
			p.tokOff = 28
		}
	}
	p.build()
	return specFragments(p)
}

func reuseSpace(e *harness.Env) {
	os.Setenv("C09_MAPORDER", "asc")
	type seq struct {
		name  string
		pages string // letters over A,B,C; '|' = switch to a second, separate instance
	}
	seqs := []seq{{"AB", "AB"}, {"ABA", "ABA"}, {"AA", "AA"}, {"A|B", "A|B"}}
	if e.Thorough() {
		seqs = append(seqs, seq{"ABC", "ABC"}, seq{"ABAB", "ABAB"})
	}
	for _, in := range reuseInsts {
		for _, sq := range seqs {
			nA, nB, nC := len(reusePages), 1, 1
			if strings.Contains(sq.pages, "B") {
				nB = len(reusePages)
			}
			if strings.Contains(sq.pages, "C") {
				nC = len(reusePages)
			}
			for ia := 0; ia < nA; ia++ {
				for ib := 0; ib < nB; ib++ {
					for ic := 0; ic < nC; ic++ {
						kv := []interface{}{"part", "reuse", "inst", in.name, "seq", sq.name, "A", reusePages[ia].name}
						if nB > 1 {
							kv = append(kv, "B", reusePages[ib].name)
						}
						if nC > 1 {
							kv = append(kv, "C", reusePages[ic].name)
						}
						desc := harness.D(kv...)
						if !e.Own(desc) {
							continue
						}
						e.Begin(desc)
						pages := map[byte][]text.TextFragment{
							'A': buildReusePage(reusePages[ia], false),
							'B': buildReusePage(reusePages[ib], true),
							'C': buildReusePage(reusePages[ic], false), // C shares A's token range: only the position in the sequence tells them apart
						}
						var sig, detail string
						gs, gd := harness.Guard(func() {
							// reference: a fresh instance per page, rendered at once
							ref := map[byte]string{}
							for _, c := range []byte(sq.pages) {
								if c == '|' {
									continue
								}
								if _, ok := ref[c]; !ok {
									call, snap := in.mk()
									ref[c] = snap(call(0, pages[c]))
								}
							}
							// one instance over the whole sequence, every result kept, rendered only at the end
							call, snap := in.mk()
							var results []any
							var which []byte
							n := 0
							for _, c := range []byte(sq.pages) {
								if c == '|' {
									call, _ = in.mk()
									n = 0
									continue
								}
								results = append(results, call(n, pages[c]))
								which = append(which, c)
								n++
							}
							for i, r := range results {
								got := snap(r)
								if in.name == "Analyzer.Mixed" && i%2 == 1 && !strings.Contains(sq.pages, "|") {
									// odd calls are QuickAnalyze: compare with a fresh QuickAnalyze
									a := layout.NewAnalyzer()
									if want := dumpAnalysis2(a.QuickAnalyze(pages[which[i]], pageW, pageH)); got != want {
										sig, detail = reuseSig(i, len(results)), firstDiff(want, got)
										return
									}
									continue
								}
								if got != ref[which[i]] {
									sig, detail = reuseSig(i, len(results)), firstDiff(ref[which[i]], got)
									return
								}
							}
						})
						switch {
						case gs != "":
							e.Fail(desc, gs, gd, nil)
						case sig != "":
							e.Fail(desc, sig, fmt.Sprintf("result %s of the sequence %s on one %s differs from what a fresh instance returns for that page\n%s", sig, sq.name, in.name, detail), nil)
						default:
							e.Pass(desc, true, "reuse:"+sq.name)
						}
					}
				}
			}
		}
	}
}

// reuseSig: an EARLIER result changed when the instance was used again (aliasing of returned data), or the LAST
// result depends on what the instance did before (state carried over).
func reuseSig(i, n int) string {
	if i < n-1 {
		return "reuse:earlier-result-changed-by-later-call"
	}
	return "reuse:result-depends-on-earlier-calls"
}

func firstDiff(want, got string) string {
	wl, gl := strings.Split(want, "\n"), strings.Split(got, "\n")
	for i := 0; i < len(wl) || i < len(gl); i++ {
		var w, g string
		if i < len(wl) {
			w = wl[i]
		}
		if i < len(gl) {
			g = gl[i]
		}
		if w != g {
			if len(w) > 700 {
				w = w[:700] + "…"
			}
			if len(g) > 700 {
				g = g[:700] + "…"
			}
			return fmt.Sprintf("first differing line (%d):\n fresh : %s\n reused: %s", i+1, w, g)
		}
	}
	return "(no difference?)"
}
