package main

import (
	"fmt"
	"math"
	"strings"

	"verif/internal/harness"
)

// ---- the grid grammar ------------------------------------------------------------------------
//
// A page is K columns x R rows x W words per line on a 612x792 page (12pt Helvetica, 14.4pt leading,
// 24pt column gutters, left margin 50), modified by the toggles below. Every fragment carries a text
// that is unique on the page (tokens `Xyz`, or page-unique characters in the character-level mode), so
// a missing or repeated fragment can be named exactly.

const (
	pageW, pageH = 612.0, 792.0
	marginL      = 50.0
	contentW     = 512.0
	gutter       = 24.0
	bodySize     = 12.0
	leading      = 14.4
	topY         = 700.0
)

// Helvetica AFM advance widths (1/1000 em) for 0x20..0x7E; everything else the grammar uses is listed in extraW.
var helvW = [95]int{
	278, 278, 355, 556, 556, 889, 667, 191, 333, 333, 389, 584, 278, 333, 278, 278,
	556, 556, 556, 556, 556, 556, 556, 556, 556, 556, 278, 278, 584, 584, 584, 556,
	1015, 667, 667, 722, 722, 667, 611, 778, 722, 278, 500, 667, 556, 833, 722, 778,
	667, 778, 722, 667, 611, 722, 667, 944, 667, 667, 611, 278, 278, 278, 469, 556,
	333, 556, 556, 500, 556, 556, 278, 556, 556, 222, 222, 500, 222, 833, 556, 556,
	556, 556, 333, 500, 278, 556, 500, 722, 500, 500, 500, 334, 260, 334, 584,
}

var extraW = map[rune]int{'•': 350, '–': 556, '—': 1000}

// width model of the generator (used to place words; the oracle never relies on it for PDFs — there the
// geometry is taken from the fragments tabula reports).
func textWidth(s string, size float64) float64 {
	t := 0
	for _, r := range s {
		switch {
		case r >= 0x20 && r <= 0x7E:
			t += helvW[r-0x20]
		case extraW[r] != 0:
			t += extraW[r]
		default:
			t += 500 // Latin-1 letters, Hebrew (no /Widths: tabula's default)
		}
	}
	return float64(t) * size / 1000
}

// frag is one positioned fragment of the specification (unscaled, standard Y-up coordinates until finish()).
type frag struct {
	text  string
	x, y  float64
	w     float64
	size  float64
	rtl   bool
	role  string // body heading title marker over narrow
	col   int
	row   int
	isDup bool // second copy of an exact duplicate overlay
}

type pageSpec struct {
	K, R, W int
	// toggles
	justified  bool
	heading    string // none first last
	shortlast  bool
	singleword bool
	overhang   string // none near far
	title      string // none top mid
	list       string // none bullet numbered nested
	rtl        bool
	charfrag   bool
	dup        string // none all line
	inverty    bool
	scale      bool
	narrow     string // none I 1
	stagger    bool   // columns are not baseline-aligned (staggerOff)
	hyphen     bool   // the first body line ends in a hyphen (a word broken across lines)
	repeat     string // none word letter: same text at a DIFFERENT position (never a sanctioned duplicate)
	absent     map[[2]int]bool

	mapDesc bool // iterate tabula's tie-breaking maps in descending key order (overlay seam)

	tokOff, hebOff int // first token index (reuse sub-space: page B gets tokens disjoint from page A)

	frags  []frag
	scaleF float64
}

// choose asks the explorer for every toggle (choice 0 = plain) and builds the page.
func choose(c *harness.Ctx, K, R, W int, mapOrder bool) *pageSpec {
	p := &pageSpec{K: K, R: R, W: W, absent: map[[2]int]bool{}, scaleF: 1}
	if mapOrder {
		p.mapDesc = c.PickS("maporder", "asc", "desc") == "desc"
	}
	p.justified = c.Bool("justified")
	hopts := []string{"none", "first"}
	if K > 1 {
		hopts = append(hopts, "last")
	}
	if R > 1 {
		hopts = append(hopts, "big") // a 30pt in-column heading in place of row 1 of column 0
	}
	p.heading = c.PickS("heading", hopts...)
	if W > 1 {
		p.shortlast = c.Bool("shortlast")
		if R > 1 {
			p.singleword = c.Bool("singleword")
		}
	}
	p.overhang = c.PickS("overhang", "none", "near", "far")
	p.title = c.PickS("title", "none", "top", "mid")
	p.list = c.PickS("list", "none", "bullet", "numbered", "nested")
	p.rtl = c.Bool("rtl")
	if K*R*W <= 48 { // the pool of page-unique characters covers 56 two-character tokens
		p.charfrag = c.Bool("charfrag")
	}
	p.dup = c.PickS("dup", "none", "all", "line")
	p.inverty = c.Bool("inverty")
	p.scale = c.Bool("scale")
	p.narrow = c.PickS("narrow", "none", "I", "1")
	p.repeat = c.PickS("repeat", "none", "word", "letter")
	if R > 1 {
		p.hyphen = c.Bool("hyphen")
	}
	if K > 1 {
		p.stagger = c.Bool("stagger")
	}
	for col := 0; col < K; col++ {
		for row := 0; row < R; row++ {
			if K*R == 1 {
				continue // an empty page is a separate, fixed case
			}
			if K*R > 8 && !((col == 0 || col == K-1) && (row == 0 || row == R-1)) {
				continue // big grids: only the four corner cells may be absent (keeps the thorough tier affordable)
			}
			if c.Bool(fmt.Sprintf("absent%d.%d", col, row)) {
				p.absent[[2]int{col, row}] = true
			}
		}
	}
	p.build()
	return p
}

// token alphabets
const upper = "ABCDEFGHJKLMNOPQRSTUVWXYZ" // no I (the narrow glyph)
const lower = "abcdefghijklmnopqrstuvwxyz"

var uniquePool = func() []rune {
	var r []rune
	for _, c := range lower {
		r = append(r, c)
	}
	for _, c := range upper {
		r = append(r, c)
	}
	for c := rune(0xC0); c <= 0xFF; c++ {
		if c == 0xD7 || c == 0xF7 {
			continue
		}
		r = append(r, c)
	}
	return r
}()

type tokenSrc struct {
	n        int
	hn       int
	charfrag bool
}

func (t *tokenSrc) next() string {
	i := t.n
	t.n++
	if t.charfrag {
		a, b := 2*i, 2*i+1
		if b >= len(uniquePool) {
			panic("c09: unique character pool exhausted")
		}
		return string([]rune{uniquePool[a], uniquePool[b]})
	}
	// Xabc: X cycles through 25 letters, the lower-case tail makes the token unique; only the first letter is
	// upper case, so a token can only be found at a token start when renderings are searched
	return string([]byte{upper[i%25], lower[(i/25*7+i*3)%26], lower[(i*5+i/25+1)%26], lower[(i*11+7)%26]})
}

func (t *tokenSrc) nextHebrew() string {
	i := t.hn
	t.hn++
	return string([]rune{0x05D0 + rune(3*i), 0x05D0 + rune(3*i+1), 0x05D0 + rune(3*i+2)})
}

// staggerOff: how far the baselines of column c%3 sit below the grid when the page is staggered. 5pt keeps a column
// on the "same row" as its neighbour for tabula (half a glyph height = 6pt), 7.2pt (half a leading) does not.
var staggerOff = [3]float64{5, 0, 7.2}

var bullets = []string{"-", "*", "•", "–", "—"}

func (p *pageSpec) colW() float64 { return (contentW - float64(p.K-1)*gutter) / float64(p.K) }
func (p *pageSpec) colX(col int) float64 {
	return marginL + float64(col)*(p.colW()+gutter)
}

func (p *pageSpec) build() {
	ts := &tokenSrc{charfrag: p.charfrag, n: p.tokOff, hn: p.hebOff}
	space := textWidth(" ", bodySize)
	cw := p.colW()
	var out []frag

	// vertical slots: row r of the body sits at topY - r*leading; a mid title opens a two-line hole after row midAfter.
	midAfter := -1
	if p.title == "mid" {
		midAfter = (p.R - 1) / 2
	}
	rowY := func(r int) float64 {
		y := topY - float64(r)*leading
		if midAfter >= 0 && r > midAfter {
			y -= 2 * leading
		}
		return y
	}

	// spanning title: five words spread over the full content width, one of them centred on a column gutter
	// (that is what makes a line "spanning" for the column detector: content inside a gap and a wide line)
	if p.title != "none" {
		y := topY + 60
		if p.title == "mid" {
			y = topY - float64(midAfter)*leading - 1.5*leading
		}
		centers := make([]float64, 5)
		for i := range centers {
			centers[i] = marginL + contentW*(float64(i)+0.5)/5
		}
		if p.K > 1 {
			g := p.colX((p.K-1)/2) + cw + gutter/2 // centre of a middle gutter
			best := 0
			for i := range centers {
				if math.Abs(centers[i]-g) < math.Abs(centers[best]-g) {
					best = i
				}
			}
			centers[best] = g
		}
		for _, cx := range centers {
			w := ts.next()
			ww := textWidth(w, bodySize)
			out = append(out, frag{text: w, x: cx - ww/2, y: y, w: ww, size: bodySize, role: "title", col: -1, row: -1})
		}
	}

	doubled, hyphenated := false, false
	maxRight := 0.0
	lastColFirstLineEnd := -1 // index in out of the last fragment of row 0 of the last column
	for col := 0; col < p.K; col++ {
		x0 := p.colX(col)
		if (p.heading == "first" && col == 0) || (p.heading == "last" && col == p.K-1) {
			x := x0
			for k := 0; k < 2; k++ {
				w := ts.next()
				ww := textWidth(w, 18)
				out = append(out, frag{text: w, x: x, y: topY + 26, w: ww, size: 18, role: "heading", col: col, row: -1})
				x += ww + textWidth(" ", 18)
			}
		}
		for row := 0; row < p.R; row++ {
			if p.absent[[2]int{col, row}] {
				continue
			}
			nw := p.W
			if p.shortlast && row == p.R-1 {
				nw = 1
			}
			if p.singleword && col == 0 && row == 1 {
				nw = 1
			}
			y := rowY(row)
			if p.stagger {
				y -= staggerOff[col%3] // columns are not baseline-aligned
			}
			x := x0
			if p.heading == "big" && col == 0 && row == 1 {
				// the in-column heading: two 30pt words; its box reaches up into the rows above
				for k := 0; k < 2; k++ {
					w := ts.next()
					ww := textWidth(w, 30)
					out = append(out, frag{text: w, x: x, y: y, w: ww, size: 30, role: "heading", col: col, row: row})
					x += ww + textWidth(" ", 30)
				}
				if r := x - textWidth(" ", 30); r > maxRight {
					maxRight = r
				}
				continue
			}
			isRTL := p.rtl && col == p.K-1 && row == 0
			// list marker in column 0
			if p.list != "none" && col == 0 {
				if p.list == "nested" && row > 0 {
					x += 20
				}
				var m string
				if p.list == "bullet" {
					m = bullets[row%len(bullets)]
				} else {
					m = fmt.Sprintf("%d.", row+2)
				}
				mw := textWidth(m, bodySize)
				out = append(out, frag{text: m, x: x, y: y, w: mw, size: bodySize, role: "marker", col: col, row: row})
				x += mw + space
			}
			words := make([]string, nw)
			widths := make([]float64, nw)
			total := 0.0
			for k := range words {
				if isRTL {
					words[k] = ts.nextHebrew()
				} else {
					words[k] = ts.next()
					if p.hyphen && !hyphenated && k == nw-1 {
						words[k] += "-"
						hyphenated = true
					}
					if p.repeat == "letter" && !doubled {
						// the first body word ends in a doubled letter: two identical adjacent glyphs once fragmented
						r := []rune(words[k])
						words[k] += string(r[len(r)-1])
						doubled = true
					}
				}
				widths[k] = textWidth(words[k], bodySize)
				total += widths[k]
			}
			gap := space
			if p.justified && nw > 1 {
				gap = (x0 + cw - x - total) / float64(nw-1)
			}
			lineW := total + gap*float64(nw-1)
			for k := range words {
				fx := x
				if isRTL {
					// first word in reading order sits at the right end of the line's extent
					off := 0.0
					for j := 0; j < k; j++ {
						off += widths[j] + gap
					}
					fx = x + lineW - off - widths[k]
				}
				out = append(out, frag{text: words[k], x: fx, y: y, w: widths[k], size: bodySize, rtl: isRTL, role: "body", col: col, row: row})
				if !isRTL {
					x += widths[k] + gap
				}
			}
			if isRTL {
				x += lineW + gap
			}
			if r := x - gap; r > maxRight {
				maxRight = r
			}
			if col == p.K-1 && row == 0 {
				lastColFirstLineEnd = len(out) - 1
			}
		}
		// single narrow glyph line under the last row of column 0
		if p.narrow != "none" && col == 0 {
			y := rowY(p.R-1) - leading
			if p.stagger {
				y -= staggerOff[0]
			}
			out = append(out, frag{text: p.narrow, x: x0, y: y, w: textWidth(p.narrow, bodySize), size: bodySize, role: "narrow", col: 0, row: p.R})
		}
	}
	// a word sticking out past every line's right edge, on the first line of the last column
	if p.overhang != "none" {
		y := rowY(0)
		if lastColFirstLineEnd < 0 {
			// that line is masked out: the word stands alone on its row
			if maxRight == 0 {
				maxRight = p.colX(p.K - 1)
			}
		}
		x := maxRight + space
		if p.overhang == "far" {
			x = maxRight + 30
		}
		w := ts.next()
		f := frag{text: w, x: x, y: y, w: textWidth(w, bodySize), size: bodySize, role: "over", col: p.K - 1, row: 0}
		if lastColFirstLineEnd >= 0 {
			// keep stream order: directly after its line
			out = append(out[:lastColFirstLineEnd+1], append([]frag{f}, out[lastColFirstLineEnd+1:]...)...)
		} else {
			out = append(out, f)
		}
	}

	// the same text at another position: the last body word repeats the first one
	if p.repeat == "word" {
		first, last := -1, -1
		for i := range out {
			if out[i].role == "body" && !out[i].rtl {
				if first < 0 {
					first = i
				}
				last = i
			}
		}
		if first >= 0 && last > first {
			out[last].text = out[first].text
			out[last].w = out[first].w
		}
	}

	// character-level fragmentation
	if p.charfrag {
		var cf []frag
		for _, f := range out {
			rs := []rune(f.text)
			if f.rtl {
				// logical order in the stream, visual positions from the right
				x := f.x + f.w
				for _, r := range rs {
					w := textWidth(string(r), f.size)
					x -= w
					g := f
					g.text, g.x, g.w = string(r), x, w
					cf = append(cf, g)
				}
				continue
			}
			x := f.x
			for _, r := range rs {
				w := textWidth(string(r), f.size)
				g := f
				g.text, g.x, g.w = string(r), x, w
				cf = append(cf, g)
				x += w
			}
		}
		out = cf
	}

	// exact duplicate overlay (a second content layer)
	switch p.dup {
	case "all":
		n := len(out)
		for i := 0; i < n; i++ {
			g := out[i]
			g.isDup = true
			out = append(out, g)
		}
	case "line":
		n := len(out)
		first := -1
		for i := 0; i < n; i++ {
			if out[i].role == "body" || out[i].role == "marker" {
				if first < 0 {
					first = i
				}
				if out[i].col == out[first].col && out[i].row == out[first].row {
					g := out[i]
					g.isDup = true
					out = append(out, g)
				}
			}
		}
	}

	// inverted Y: first line of the stream has the lowest Y
	if p.inverty {
		for i := range out {
			out[i].y = pageH - out[i].y
		}
	}
	if p.scale {
		p.scaleF = 0.1
	}
	p.frags = out
}

// describe is a compact human-readable dump for failure details.
func (p *pageSpec) describe() string {
	var b strings.Builder
	for i, f := range p.frags {
		if i >= 12 && !verbose {
			fmt.Fprintf(&b, "… (%d fragments)", len(p.frags))
			break
		}
		fmt.Fprintf(&b, "%s@%.1f,%.1f ", f.text, f.x*p.scaleF, f.y*p.scaleF)
	}
	return b.String()
}
