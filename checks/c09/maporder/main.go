// maporder: build-time helper of the C09 check ("own the nondeterminism", DESIGN §0/§1.2 rewrite 2, reduced
// to what C09 needs). tabula's paragraph / heading detection picks "the most common" bucket by ranging over a
// Go map, so ties are broken by the randomized iteration order and Analyze/Elements/Paragraphs can return
// different structures for the same page from run to run. That is property C03's subject; for C09 every case
// must replay identically, so the check is built with an overlay in which every `for k, v := range m` over a
// locally made map in package layout iterates the keys in sorted order (ascending; descending when the
// environment variable C09_MAPORDER=desc — the check explores both). /repo is not touched: the rewritten copies
// live under /verif/.build and are handed to `go build -overlay`.
//
// usage: maporder <tabula checkout> <output dir>   -> writes <output dir>/overlay.json, prints the number of sites
package main

import (
	"bytes"
	"encoding/json"
	"fmt"
	"go/ast"
	"go/format"
	"go/parser"
	"go/token"
	"os"
	"path/filepath"
	"strings"
)

const helper = `package layout

import (
	"cmp"
	"os"
	"sort"
)

// verifSortedKeys is added by the C09 verification overlay (not part of tabula).
func verifSortedKeys[K cmp.Ordered, V any](m map[K]V) []K {
	keys := make([]K, 0, len(m))
	for k := range m {
		keys = append(keys, k)
	}
	desc := os.Getenv("C09_MAPORDER") == "desc"
	sort.Slice(keys, func(i, j int) bool {
		if desc {
			return keys[i] > keys[j]
		}
		return keys[i] < keys[j]
	})
	return keys
}
`

func main() {
	if len(os.Args) != 3 {
		fmt.Fprintln(os.Stderr, "usage: maporder <tabula checkout> <output dir>")
		os.Exit(2)
	}
	repo, out := os.Args[1], os.Args[2]
	repo, _ = filepath.Abs(repo)
	os.MkdirAll(out, 0o755)
	files, _ := filepath.Glob(filepath.Join(repo, "layout", "*.go"))
	replace := map[string]string{}
	sites := 0
	for _, f := range files {
		if strings.HasSuffix(f, "_test.go") {
			continue
		}
		fset := token.NewFileSet()
		af, err := parser.ParseFile(fset, f, nil, parser.ParseComments)
		if err != nil {
			fmt.Fprintln(os.Stderr, err)
			os.Exit(2)
		}
		n := 0
		for _, d := range af.Decls {
			fd, ok := d.(*ast.FuncDecl)
			if !ok || fd.Body == nil {
				continue
			}
			n += rewriteFunc(fd)
		}
		if n == 0 {
			continue
		}
		sites += n
		var buf bytes.Buffer
		if err := format.Node(&buf, fset, af); err != nil {
			fmt.Fprintln(os.Stderr, err)
			os.Exit(2)
		}
		dst := filepath.Join(out, filepath.Base(f))
		os.WriteFile(dst, buf.Bytes(), 0o644)
		abs, _ := filepath.Abs(dst)
		replace[f] = abs
	}
	if sites > 0 {
		dst := filepath.Join(out, "verif_maporder.go")
		os.WriteFile(dst, []byte(helper), 0o644)
		abs, _ := filepath.Abs(dst)
		replace[filepath.Join(repo, "layout", "verif_maporder.go")] = abs
	}
	b, _ := json.MarshalIndent(map[string]interface{}{"Replace": replace}, "", " ")
	os.WriteFile(filepath.Join(out, "overlay.json"), b, 0o644)
	fmt.Println(sites)
}

// localMaps: identifiers of this function that are bound to a freshly made map with a basic key type.
func localMaps(fd *ast.FuncDecl) map[string]bool {
	m := map[string]bool{}
	isMap := func(e ast.Expr) bool {
		switch x := e.(type) {
		case *ast.CallExpr:
			if id, ok := x.Fun.(*ast.Ident); ok && id.Name == "make" && len(x.Args) > 0 {
				_, ok := x.Args[0].(*ast.MapType)
				return ok
			}
		case *ast.CompositeLit:
			_, ok := x.Type.(*ast.MapType)
			return ok
		}
		return false
	}
	ast.Inspect(fd.Body, func(n ast.Node) bool {
		switch s := n.(type) {
		case *ast.AssignStmt:
			if s.Tok == token.DEFINE && len(s.Lhs) == len(s.Rhs) {
				for i, l := range s.Lhs {
					if id, ok := l.(*ast.Ident); ok && isMap(s.Rhs[i]) {
						m[id.Name] = true
					}
				}
			}
		case *ast.ValueSpec:
			if _, ok := s.Type.(*ast.MapType); ok {
				for _, id := range s.Names {
					m[id.Name] = true
				}
			}
		}
		return true
	})
	return m
}

func rewriteFunc(fd *ast.FuncDecl) int {
	maps := localMaps(fd)
	if len(maps) == 0 {
		return 0
	}
	n := 0
	ast.Inspect(fd.Body, func(node ast.Node) bool {
		rs, ok := node.(*ast.RangeStmt)
		if !ok {
			return true
		}
		id, ok := rs.X.(*ast.Ident)
		if !ok || !maps[id.Name] || rs.Tok != token.DEFINE || rs.Key == nil {
			return true
		}
		key, ok := rs.Key.(*ast.Ident)
		if !ok {
			return true
		}
		var val *ast.Ident
		if rs.Value != nil {
			if v, ok := rs.Value.(*ast.Ident); ok && v.Name != "_" {
				val = v
			}
		}
		if val == nil {
			// `for k := range m` followed by a sort is order-independent already; leave it alone
			return true
		}
		keyName := key.Name
		if keyName == "_" {
			keyName = "verifKey"
		}
		// for _, k := range verifSortedKeys(m) { v, verifOK := m[k]; if !verifOK { continue }; <body> }
		pre := []ast.Stmt{
			&ast.AssignStmt{Lhs: []ast.Expr{ast.NewIdent(val.Name), ast.NewIdent("verifOK")}, Tok: token.DEFINE,
				Rhs: []ast.Expr{&ast.IndexExpr{X: ast.NewIdent(id.Name), Index: ast.NewIdent(keyName)}}},
			&ast.IfStmt{Cond: &ast.UnaryExpr{Op: token.NOT, X: ast.NewIdent("verifOK")},
				Body: &ast.BlockStmt{List: []ast.Stmt{&ast.BranchStmt{Tok: token.CONTINUE}}}},
		}
		if key.Name == "_" {
			pre = append(pre, &ast.AssignStmt{Lhs: []ast.Expr{ast.NewIdent("_")}, Tok: token.ASSIGN, Rhs: []ast.Expr{ast.NewIdent(keyName)}})
		}
		rs.Key = ast.NewIdent("_")
		rs.Value = ast.NewIdent(keyName)
		rs.X = &ast.CallExpr{Fun: ast.NewIdent("verifSortedKeys"), Args: []ast.Expr{ast.NewIdent(id.Name)}}
		rs.Body.List = append(pre, rs.Body.List...)
		n++
		return true
	})
	return n
}
