package main

import (
	"bytes"
	"fmt"
	"strconv"
)

// Minimal hand-written single-page PDF: classic xref table, one uncompressed content stream,
// font F1 = Helvetica / WinAnsiEncoding (Type1, standard 14, no embedding) and, only when the page
// has a right-to-left run, font F2 = Helvetica with a ToUnicode CMap that maps the single-byte codes
// 0x41+i to the i-th Hebrew letter (U+05D0+i).
//
// Every fragment becomes `BT /Fk size Tf x y Td (text) Tj ET`; a page-level `cm` prefix carries the
// x0.1 scaling toggle.

type pdfFrag struct {
	text string // for F1: ASCII; for F2: Hebrew letters U+05D0..U+05EA
	x, y float64
	size float64
	rtl  bool
}

func num(f float64) string {
	s := strconv.FormatFloat(f, 'f', 4, 64)
	// trim trailing zeros
	if bytes.IndexByte([]byte(s), '.') >= 0 {
		for len(s) > 0 && s[len(s)-1] == '0' {
			s = s[:len(s)-1]
		}
		if s[len(s)-1] == '.' {
			s = s[:len(s)-1]
		}
	}
	if s == "-0" {
		s = "0"
	}
	return s
}

func pdfString(f pdfFrag) string {
	var b bytes.Buffer
	b.WriteByte('(')
	if f.rtl {
		for _, r := range f.text {
			b.WriteByte(byte(0x41 + (r - 0x05D0)))
		}
	} else {
		for _, r := range f.text {
			c := winAnsi(r)
			if c == '(' || c == ')' || c == '\\' {
				b.WriteByte('\\')
			}
			b.WriteByte(c)
		}
	}
	b.WriteByte(')')
	return b.String()
}

// winAnsi maps the runes the grammar uses to their WinAnsiEncoding byte.
func winAnsi(r rune) byte {
	switch {
	case r >= 0x20 && r <= 0x7E, r >= 0xA0 && r <= 0xFF:
		return byte(r)
	case r == '•':
		return 0x95
	case r == '–':
		return 0x96
	case r == '—':
		return 0x97
	}
	panic(fmt.Sprintf("c09: rune %q has no WinAnsi code in this writer", r))
}

const toUnicodeCMap = `/CIDInit /ProcSet findresource begin
12 dict begin
begincmap
/CIDSystemInfo << /Registry (Adobe) /Ordering (UCS) /Supplement 0 >> def
/CMapName /Adobe-Identity-UCS def
/CMapType 2 def
1 begincodespacerange
<00> <FF>
endcodespacerange
1 beginbfrange
<41> <5B> <05D0>
endbfrange
endcmap
CMapName currentdict /CMap defineresource pop
end
end
`

// writePDF serializes the page. scale != 1 puts `s 0 0 s 0 0 cm` in front of the text (coordinates in
// frags are then user-space, i.e. unscaled).
func writePDF(frags []pdfFrag, pageW, pageH, scale float64) []byte {
	var cs bytes.Buffer
	if scale != 1 {
		fmt.Fprintf(&cs, "%s 0 0 %s 0 0 cm\n", num(scale), num(scale))
	}
	needF2 := false
	for _, f := range frags {
		font := "F1"
		if f.rtl {
			font = "F2"
			needF2 = true
		}
		fmt.Fprintf(&cs, "BT /%s %s Tf %s %s Td %s Tj ET\n", font, num(f.size), num(f.x), num(f.y), pdfString(f))
	}
	var out bytes.Buffer
	var offs []int
	obj := func(body string) {
		offs = append(offs, out.Len())
		fmt.Fprintf(&out, "%d 0 obj\n%s\nendobj\n", len(offs), body)
	}
	out.WriteString("%PDF-1.4\n%\xe2\xe3\xcf\xd3\n")
	obj("<< /Type /Catalog /Pages 2 0 R >>")
	obj("<< /Type /Pages /Kids [3 0 R] /Count 1 >>")
	fonts := "/F1 5 0 R"
	if needF2 {
		fonts += " /F2 6 0 R"
	}
	obj(fmt.Sprintf("<< /Type /Page /Parent 2 0 R /MediaBox [0 0 %s %s] /Resources << /Font << %s >> >> /Contents 4 0 R >>", num(pageW), num(pageH), fonts))
	obj(fmt.Sprintf("<< /Length %d >>\nstream\n%sendstream", cs.Len(), cs.String()))
	obj("<< /Type /Font /Subtype /Type1 /BaseFont /Helvetica /Encoding /WinAnsiEncoding >>")
	if needF2 {
		obj("<< /Type /Font /Subtype /Type1 /BaseFont /Helvetica /ToUnicode 7 0 R >>")
		obj(fmt.Sprintf("<< /Length %d >>\nstream\n%sendstream", len(toUnicodeCMap), toUnicodeCMap))
	}
	xref := out.Len()
	fmt.Fprintf(&out, "xref\n0 %d\n0000000000 65535 f \n", len(offs)+1)
	for _, o := range offs {
		fmt.Fprintf(&out, "%010d 00000 n \n", o)
	}
	fmt.Fprintf(&out, "trailer\n<< /Size %d /Root 1 0 R >>\nstartxref\n%d\n%%%%EOF\n", len(offs)+1, xref)
	return out.Bytes()
}
