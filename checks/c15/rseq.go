package main

import (
	"fmt"
	"path/filepath"
	"strings"

	"github.com/tsawler/tabula/docx"
	"github.com/tsawler/tabula/epubdoc"
	"github.com/tsawler/tabula/htmldoc"
	"github.com/tsawler/tabula/model"
	"github.com/tsawler/tabula/odt"
	"github.com/tsawler/tabula/pptx"
	"github.com/tsawler/tabula/rag"
	"github.com/tsawler/tabula/xlsx"
	"verif/internal/harness"
)

// ---- (rseq) render sequences on ONE opened reader -------------------------------------------------
//
// Every format reader can be rendered more than once (Markdown, MarkdownWithRAGOptions, Document).
// A rendering must not depend on the renderings made before it on the same reader object: after
// any sequence of calls, the last call's result equals the result of the same call on a freshly
// opened reader. The fresh Markdown results themselves are judged by the ordinary oracle.

type rdr struct {
	md  func() (string, error)
	rag func(rag.MarkdownOptions) (string, error)
	// ragNav (htmldoc only): MarkdownWithRAGOptions with DefaultExtractOptions, i.e. through the
	// reader's per-exclusion-mode element cache that Markdown() and Document() use as well
	ragNav func(rag.MarkdownOptions) (string, error)
	doc    func() (*model.Document, error)
	close  func()
}

func openRdr(format, path string) (*rdr, error) {
	switch format {
	case "docx":
		r, err := docx.Open(path)
		if err != nil {
			return nil, err
		}
		return &rdr{md: r.Markdown, rag: func(m rag.MarkdownOptions) (string, error) { return r.MarkdownWithRAGOptions(docx.ExtractOptions{}, m) }, doc: r.Document, close: func() { r.Close() }}, nil
	case "odt":
		r, err := odt.Open(path)
		if err != nil {
			return nil, err
		}
		return &rdr{md: r.Markdown, rag: func(m rag.MarkdownOptions) (string, error) { return r.MarkdownWithRAGOptions(odt.ExtractOptions{}, m) }, doc: r.Document, close: func() { r.Close() }}, nil
	case "xlsx":
		r, err := xlsx.Open(path)
		if err != nil {
			return nil, err
		}
		return &rdr{md: r.Markdown, rag: func(m rag.MarkdownOptions) (string, error) { return r.MarkdownWithRAGOptions(xlsx.ExtractOptions{}, m) }, doc: r.Document, close: func() { r.Close() }}, nil
	case "pptx":
		r, err := pptx.Open(path)
		if err != nil {
			return nil, err
		}
		return &rdr{md: r.Markdown, rag: func(m rag.MarkdownOptions) (string, error) {
			return r.MarkdownWithRAGOptions(pptx.ExtractOptions{IncludeTitles: true}, m)
		}, doc: r.Document, close: func() { r.Close() }}, nil
	case "html":
		r, err := htmldoc.Open(path)
		if err != nil {
			return nil, err
		}
		return &rdr{md: r.Markdown, rag: func(m rag.MarkdownOptions) (string, error) {
			return r.MarkdownWithRAGOptions(htmldoc.ExtractOptions{}, m)
		},
			ragNav: func(m rag.MarkdownOptions) (string, error) {
				return r.MarkdownWithRAGOptions(htmldoc.DefaultExtractOptions(), m)
			}, doc: r.Document, close: func() { r.Close() }}, nil
	case "epub":
		r, err := epubdoc.Open(path)
		if err != nil {
			return nil, err
		}
		return &rdr{md: r.Markdown, rag: func(m rag.MarkdownOptions) (string, error) {
			return r.MarkdownWithRAGOptions(epubdoc.ExtractOptions{}, m)
		}, doc: r.Document, close: func() { r.Close() }}, nil
	}
	panic("format " + format)
}

// call is one rendering request.
type call struct {
	name string
	kind string // markdown / rag / document
	o    mdOpts
}

var callMenu = []call{
	{"M", "markdown", mdOpts{API: "plain", Max: 6}},
	{"R:default", "rag", mdOpts{API: "opts", Max: 6}},
	{"R:off1", "rag", mdOpts{API: "opts", Max: 6, Off: 1}},
	{"R:off2", "rag", mdOpts{API: "opts", Max: 6, Off: 2}},
	{"R:max2", "rag", mdOpts{API: "opts", Max: 2}},
	{"R:max1", "rag", mdOpts{API: "opts", Max: 1}},
	{"R:tocfm", "rag", mdOpts{API: "opts", Max: 6, TOC: true, FM: true}},
	{"D", "document", mdOpts{}},
}

// menuFor: the htmldoc reader has a second element cache (per navigation-exclusion mode); two
// extra calls render through it with non-neutral heading options.
func menuFor(p *producer) []call {
	if p.name != "html" {
		return callMenu
	}
	return append(append([]call{}, callMenu...),
		call{"N:off1", "ragnav", mdOpts{API: "opts", Max: 6, Off: 1}},
		call{"N:max1", "ragnav", mdOpts{API: "opts", Max: 1}})
}

func (r *rdr) do(c call) (string, error) {
	switch c.kind {
	case "markdown":
		return r.md()
	case "rag":
		return r.rag(ragOpts(c.o))
	case "ragnav":
		return r.ragNav(ragOpts(c.o))
	}
	d, err := r.doc()
	if err != nil {
		return "", err
	}
	return dumpModel(d), nil
}

// dumpModel is a canonical text form of the structural content of a model.Document.
func dumpModel(d *model.Document) string {
	var b strings.Builder
	if d == nil {
		return "<nil document>"
	}
	fmt.Fprintf(&b, "title=%q pages=%d\n", d.Metadata.Title, len(d.Pages))
	for _, pg := range d.Pages {
		if pg == nil {
			b.WriteString("page <nil>\n")
			continue
		}
		fmt.Fprintf(&b, "page %d\n", pg.Number)
		for _, el := range pg.Elements {
			switch x := el.(type) {
			case *model.Heading:
				fmt.Fprintf(&b, " H%d %q\n", x.Level, x.Text)
			case *model.Paragraph:
				fmt.Fprintf(&b, " P %q\n", x.Text)
			case *model.List:
				fmt.Fprintf(&b, " L ordered=%v\n", x.Ordered)
				for _, it := range x.Items {
					fmt.Fprintf(&b, "  - level=%d bullet=%q %q\n", it.Level, it.Bullet, it.Text)
				}
			case *model.Table:
				fmt.Fprintf(&b, " T %d rows\n", len(x.Rows))
				for _, r := range x.Rows {
					b.WriteString("  |")
					for _, c := range r {
						fmt.Fprintf(&b, " %q r%d c%d h=%v |", c.Text, c.RowSpan, c.ColSpan, c.IsHeader)
					}
					b.WriteString("\n")
				}
			default:
				fmt.Fprintf(&b, " %T\n", el)
			}
		}
	}
	return b.String()
}

// rseqDocs: two documents per format with headings on several levels (so that offsets and caps
// change something), a nested list, paragraphs and a table with the special cells.
func rseqDocs(p *producer) []struct {
	name string
	d    *Doc
} {
	lv := func(l int) int {
		if l > p.headings {
			return p.headings
		}
		return l
	}
	mk := func(levels []int, pattern string, kinds []string, merge bool) *Doc {
		d := &Doc{Title: "Ttl"}
		d.Title += d.token()
		tbl := func() {
			t := d.table(2, 2, kinds)
			if merge && p.spans {
				t = d.table(2, 3, []string{"a", "a", "a", "a", "a", "a"})
				t.merge(1, 0, 1, 2)
			}
			d.Blocks = append(d.Blocks, t)
		}
		if p.headings == 0 { // xlsx: tables only
			tbl()
			d.Blocks = append(d.Blocks, d.table(1, 2, []string{"uni", "a"}))
			return d
		}
		for i, l := range levels {
			h := d.heading(lv(l))
			h.Synth = p.name == "pptx"
			d.Blocks = append(d.Blocks, h, d.para())
			switch i {
			case 0:
				d.Blocks = append(d.Blocks, d.list([]int{0, 1, 2, 0}, pattern))
			case 1:
				tbl()
			}
		}
		return d
	}
	return []struct {
		name string
		d    *Doc
	}{
		{"rich", mk([]int{1, 2, 3, 4}, "bnb", []string{"a", "pipe", "nl", "uni"}, false)},
		{"deep", mk([]int{3, 6, 2, 5, 9}, "nnn", []string{"a", "a", "code", "em"}, true)},
	}
}

func firstDiff(a, b string) string {
	la, lb := strings.Split(a, "\n"), strings.Split(b, "\n")
	for i := 0; i < len(la) || i < len(lb); i++ {
		var x, y string
		if i < len(la) {
			x = la[i]
		}
		if i < len(lb) {
			y = lb[i]
		}
		if x != y {
			return fmt.Sprintf("first difference at line %d:\n  used reader : %q\n  fresh reader: %q", i+1, x, y)
		}
	}
	return "no line differs"
}

func (c *checker) renderSequences() {
	e := c.e
	seqLen := 2
	if e.Thorough() {
		seqLen = 3
	}
	for _, p := range producers {
		if !p.options || p.name == "rag" {
			continue
		}
		menu := menuFor(p)
		for _, rd := range rseqDocs(p) {
			d := rd.d
			path := filepath.Join(c.w.dir, "rseq-"+rd.name+"."+p.name)
			built := false
			var files map[string][]byte
			build := func() {
				if built {
					return
				}
				built = true
				c.w.buildOnly = path
				_, files, _ = p.render(c.w, d, defOpts)
				c.w.buildOnly = ""
			}
			fresh := map[string]string{}
			freshOf := func(cl call) (string, error) {
				if s, ok := fresh[cl.name]; ok {
					return s, nil
				}
				r, err := openRdr(p.name, path)
				if err != nil {
					return "", err
				}
				defer r.close()
				s, err := r.do(cl)
				if err == nil {
					fresh[cl.name] = s
				}
				return s, err
			}

			// (1) the fresh renderings are judged like any other rendering
			for _, cl := range menu {
				if cl.kind == "document" {
					continue
				}
				cl := cl
				base := fmt.Sprintf("space=rseq producer=%s doc=%s call=%s fresh=y %s", p.name, rd.name, cl.name, optDesc(cl.o))
				c.evaluateWith(p, base, d, cl.o, true, "reader-"+cl.kind, func() (string, map[string][]byte, error) {
					build()
					s, err := freshOf(cl)
					return s, files, err
				})
			}

			// (2) every sequence of calls on one reader: the last result equals the fresh one
			idx := make([]int, seqLen)
			for {
				names := make([]string, seqLen)
				for i, k := range idx {
					names[i] = menu[k].name
				}
				last := menu[idx[seqLen-1]]
				desc := fmt.Sprintf("space=rseq producer=%s doc=%s seq=%s last=%s", p.name, rd.name, strings.Join(names, ","), last.kind)
				if e.Own(desc) {
					build()
					e.Begin(desc)
					var got, want string
					var err error
					sig, det := harness.Guard(func() {
						want, err = freshOf(last)
						if err != nil {
							return
						}
						var r *rdr
						r, err = openRdr(p.name, path)
						if err != nil {
							return
						}
						defer r.close()
						for _, k := range idx {
							got, err = r.do(menu[k])
							if err != nil {
								return
							}
						}
					})
					switch {
					case sig != "":
						e.Fail(desc, sig, det, files)
					case err != nil:
						e.Fail(desc, "error:reader", err.Error(), files)
					case got != want:
						e.Fail(desc, "history-dependent:"+last.kind, fmt.Sprintf("after the calls %s on one reader the last result differs from the same call on a fresh reader\n%s\n--- used reader ---\n%s\n--- fresh reader ---\n%s", strings.Join(names, ", "), firstDiff(got, want), got, want), files)
					default:
						e.Pass(desc, true, "rseq:"+p.name+":"+last.kind)
					}
					e.End()
				}
				i := seqLen - 1
				for i >= 0 {
					idx[i]++
					if idx[i] < len(menu) {
						break
					}
					idx[i] = 0
					i--
				}
				if i < 0 {
					break
				}
			}
		}
	}
}
