package main

import (
	"fmt"
	"strings"
)

// ---- logical document ----------------------------------------------------------------------
//
// Every producer is fed from the same logical document; the oracle derives its expectation from
// it and from nothing else.

// Cell kinds (the alphabet of the property's quantifier). Every text-carrying kind embeds fresh
// tokens so that the grid position of a cell is observable.
var cellKinds = []string{"a", "pipe", "pipes", "empty", "nl", "code", "bs", "em", "uni"}

type Cell struct {
	Kind    string
	Lines   []string // logical lines of the cell (1 unless Kind == "nl"; 0 for empty)
	Tokens  []string
	ColSpan int // >=1 on anchors
	RowSpan int
	Covered bool // position covered by another cell's span (carries no content)
}

func (c Cell) Text() string { return strings.Join(c.Lines, "\n") }

type Table struct {
	Rows [][]Cell // rectangular R x C; covered positions are present with Covered=true
	// HTML only: how the rows are wrapped ("thead", "throw", "plain", "tbody", "tfoot").
	HTMLMode string
}

func (t *Table) R() int { return len(t.Rows) }
func (t *Table) C() int { return len(t.Rows[0]) }

type Heading struct {
	Level int
	Text  string
	Synth bool // the producer has no heading level in its source (PPTX slide title)
	// Src, when set, says how the DOCX / ODT producers express the level (style chain, own or
	// inherited marker, direct outline level); nil = the format's plain built-in heading style.
	Src *headSrc
}

// styleDef is one style of a basedOn / parent chain.
//
//	builtin   DOCX: id HeadingK, name "heading K", w:outlineLvl K-1 (as Word writes it)
//	          ODT:  Heading_20_K, display name "Heading K", default-outline-level K
//	localized DOCX only: localized id (berschriftK), canonical name "heading K", w:outlineLvl
//	outline   custom id and name, level only from w:outlineLvl / default-outline-level
//	bare      umbrella style named "Heading" without any level (LibreOffice's parent of Heading 1..9)
//	none      no heading marker at all
type styleDef struct {
	Kind  string
	Level int
}

// headSrc: Chain[0] is the style the heading paragraph uses, Chain[i+1] its basedOn / parent.
// The level a reader has to show is the nearest definition: the style's own marker before the
// nearest ancestor's (ECMA-376 17.7.2 style inheritance; ODF: text:outline-level on text:h).
type headSrc struct {
	Chain  []styleDef
	Direct int  // DOCX: w:outlineLvl on the paragraph itself (+1); 0 = none. Chain is then marker-free
	NoAttr bool // ODT: text:h without text:outline-level (ODF default: level 1)
}

func (h *headSrc) String() string {
	var p []string
	for _, c := range h.Chain {
		if c.Level > 0 {
			p = append(p, fmt.Sprintf("%s%d", c.Kind, c.Level))
		} else {
			p = append(p, c.Kind)
		}
	}
	s := strings.Join(p, ">")
	if s == "" {
		s = "-"
	}
	if h.Direct > 0 {
		s += fmt.Sprintf("+direct%d", h.Direct)
	}
	if h.NoAttr {
		s += "+noattr"
	}
	return s
}

type Para struct{ Text string }

type Item struct {
	Depth   int
	Ordered bool
	Text    string
}

type List struct {
	Items   []Item
	Pattern string // kind per depth, e.g. "bnb"
}

type Block interface{}

type Doc struct {
	Title  string
	Blocks []Block
	tok    int
}

// token returns a fresh token; no token is a substring of another one or of any fixed text the
// producers add (front matter keys, "Table of Contents", "Notes", sheet names ...).
func (d *Doc) token() string {
	d.tok++
	return fmt.Sprintf("zq%02dx", d.tok)
}

func (d *Doc) para() Para { return Para{Text: d.token() + " " + d.token()} }

func (d *Doc) heading(level int) Heading {
	return Heading{Level: level, Text: "Hd" + d.token()}
}

func (d *Doc) cell(kind string) Cell {
	c := Cell{Kind: kind, ColSpan: 1, RowSpan: 1}
	t := func() string { x := d.token(); c.Tokens = append(c.Tokens, x); return x }
	switch kind {
	case "a":
		c.Lines = []string{t()}
	case "pipe":
		c.Lines = []string{t() + "|" + t()}
	case "pipes": // '|' at both edges of the text (two pipes)
		c.Lines = []string{"|" + t() + "|"}
	case "empty":
	case "nl":
		c.Lines = []string{t(), t()}
	case "code":
		c.Lines = []string{"`" + t() + "`"}
	case "bs":
		c.Lines = []string{`\`}
	case "em":
		c.Lines = []string{"*" + t() + "*"}
	case "uni":
		c.Lines = []string{"é" + t() + "日本ß"}
	default:
		panic("cell kind " + kind)
	}
	return c
}

// table builds an r x c table from kinds (row-major).
func (d *Doc) table(r, c int, kinds []string) *Table {
	t := &Table{}
	for i := 0; i < r; i++ {
		row := make([]Cell, c)
		for j := 0; j < c; j++ {
			row[j] = d.cell(kinds[i*c+j])
		}
		t.Rows = append(t.Rows, row)
	}
	return t
}

// merge turns the rectangle (r0,c0)+(rs x cs) into one merged cell anchored at (r0,c0).
func (t *Table) merge(r0, c0, rs, cs int) {
	for i := r0; i < r0+rs; i++ {
		for j := c0; j < c0+cs; j++ {
			if i == r0 && j == c0 {
				t.Rows[i][j].RowSpan, t.Rows[i][j].ColSpan = rs, cs
				continue
			}
			t.Rows[i][j] = Cell{Kind: "covered", Covered: true, ColSpan: 1, RowSpan: 1}
		}
	}
}

// anchor returns the anchor position of the merged region covering (i,j).
func (t *Table) anchor(i, j int) (int, int) {
	for a := 0; a <= i; a++ {
		for b := 0; b <= j; b++ {
			c := t.Rows[a][b]
			if !c.Covered && a+c.RowSpan > i && b+c.ColSpan > j {
				return a, b
			}
		}
	}
	return i, j
}

func (t *Table) hasSpan() bool {
	for _, r := range t.Rows {
		for _, c := range r {
			if c.Covered {
				return true
			}
		}
	}
	return false
}

// list builds a list from a depth sequence and a kind pattern (one letter per depth: b / n).
func (d *Doc) list(depths []int, pattern string) *List {
	l := &List{Pattern: pattern}
	for _, dp := range depths {
		l.Items = append(l.Items, Item{Depth: dp, Ordered: pattern[dp] == 'n', Text: "It" + d.token()})
	}
	return l
}

// bodyTokens lists every token of the document body with the block kind that carries it.
func (d *Doc) bodyTokens() (toks []string, where []string) {
	add := func(t, w string) { toks = append(toks, t); where = append(where, w) }
	for _, b := range d.Blocks {
		switch x := b.(type) {
		case Para:
			for _, f := range strings.Fields(x.Text) {
				add(f, "para")
			}
		case Heading:
			if strings.HasPrefix(x.Text, "Hd") { // same-title headings carry no token of their own
				add(strings.TrimPrefix(x.Text, "Hd"), "heading")
			}
		case *List:
			for _, it := range x.Items {
				add(strings.TrimPrefix(it.Text, "It"), "list")
			}
		case *Table:
			for _, r := range x.Rows {
				for _, c := range r {
					for _, t := range c.Tokens {
						add(t, "cell:"+c.Kind)
					}
				}
			}
		}
	}
	return
}

// depthSeqs enumerates every list shape with n items: first depth 0, each next depth in
// 0..prev+1, all depths <= maxDepth.
func depthSeqs(n, maxDepth int) [][]int {
	var out [][]int
	var rec func(cur []int)
	rec = func(cur []int) {
		if len(cur) == n {
			out = append(out, append([]int{}, cur...))
			return
		}
		hi := 0
		if len(cur) > 0 {
			hi = cur[len(cur)-1] + 1
		}
		if hi > maxDepth {
			hi = maxDepth
		}
		for d := 0; d <= hi; d++ {
			rec(append(cur, d))
		}
	}
	rec(nil)
	return out
}

func seqStr(s []int) string {
	var b strings.Builder
	for _, v := range s {
		fmt.Fprint(&b, v)
	}
	return b.String()
}
