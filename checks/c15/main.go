// C15 — Markdown output keeps table, heading and list structure intact.
//
// Bounded-exhaustive enumeration of logical documents (tables r x c <= 3x3 over an 8-letter cell
// alphabet, single merged regions, headings of level 1..9 under every offset -2..+7 and maximum
// 1..6, nested lists to depth 3 with every ordered/unordered pattern, short mixed block sequences)
// rendered to Markdown through every producer of tabula: model.Table.ToMarkdown, the layout
// heading/list writers, the rag chunk collection (the PDF path of ToMarkdownWithOptions), and
// DOCX / ODT / XLSX / PPTX / HTML / EPUB files written by the independent writers of
// verif/internal/gen and read through tabula.Open(f).ToMarkdown / ToMarkdownWithOptions with
// front matter and table of contents on and off. The Markdown is read back with goldmark + GFM
// and compared with the logical document (oracle.go).
package main

import (
	"fmt"
	"os"
	"path/filepath"
	"sort"
	"strings"

	"verif/internal/harness"
)

func main() { harness.Main("C15", "exploration", run) }

type checker struct {
	e    *harness.Env
	w    *work
	nsig map[string]int
	info map[string]int64
}

func run(e *harness.Env) {
	e.Rule = "full product per sub-space and producer (model.Table, layout, rag collection, docx, odt, xlsx, pptx, html, epub): " +
		"(table) grids r x c <= 3x3 over cells {a, a|b, |a|, empty, two lines, `c`, \\, *x*, non-ASCII}: quick = every grid with r*c<=2 and every grid with <= 2 cells other than the plain token, " +
		"thorough = every grid with r*c<=4 and every grid with <= 3 such cells (2x3 and 3x2: <= 4); x HTML wrapping {thead, thead+tfoot, th row, no header, tbody only} for the small grids; x {ToMarkdown(), default options, front matter, TOC, both} for the small grids; " +
		"(span) every single merged rectangle in 2x2, 2x3, 3x2, 3x3 (thorough: x anchor cell kind, and every pair of disjoint rectangles); " +
		"(heading) document shapes {single level 1..9, ascending ladder, descending ladder, two consecutive headings with the same title, two of the same level} x offset -2..+7 x max 1..6 and 0 (unset) x front matter x TOC; " +
		"(hsrc, DOCX and ODT) level 1..9 given by {built-in style id + name + outline level, localized id with canonical name, custom style with outline level only, marker-free style that inherits, direct outline level / bare text:outline-level} x basedOn / parent chains of length 1..3 whose ancestors carry a different level (quick: 2 other levels, thorough: all 8) or are the bare umbrella style named Heading; ODT also without text:outline-level where the nearest style level is 1; " +
		"(rseq) ONE opened reader of docx / odt / xlsx / pptx / htmldoc / epubdoc per sequence, two documents per format: every ordered pair (thorough: triple) of calls from {Markdown(), Document(), MarkdownWithRAGOptions x {default, offset +1, offset +2, max 2, max 1, TOC + front matter}}: the last result must equal the same call on a fresh reader; the fresh Markdown results are judged like every other rendering; " +
		"(list) every depth sequence of 1..4 (thorough 1..6) items to depth 3 x every ordered/unordered pattern per depth (8 patterns where the format can mix kinds, else 2) x options; " +
		"(mix) every sequence of 2..3 (thorough 2..4) blocks over {paragraph, heading, bullet list, numbered list, 2x2 table, 1x1 table with '|'} x 4 option sets. " +
		"One evaluation = one (document, options, clause) with clause in {table, heading #k, list, tokens}; distinct = distinct descriptors; non-trivial = anything but a plain-cell table / unshifted heading <= 6 / flat list under default options"
	e.Assumptions = []string{
		"goldmark v1.4.13 with extension.GFM is a conforming GitHub-flavoured-Markdown parser (tables, ATX headings)",
		"docxw / odtw / xlsxw / pptxw / epubw and the HTML generator of this check write what ECMA-376 / ODF 1.2 / EPUB 3 / HTML prescribe for the logical document (no schema validator is available offline)",
		"a cell's line break may come out as <br> or white space; a merged region shows its value at the top-left grid position and empty cells elsewhere; a worksheet's table is the bounding box of its non-empty cells",
		"YAML front matter and the generated table of contents are removed (by their delimiters) before the body is judged; they are not part of the property",
		"list structure is judged line-syntactically (one line 'indent marker text' per item, source order, marker class = kind, indentation strictly monotone in depth with at least two columns per level); goldmark's nesting verdict is recorded as information only",
	}
	c := &checker{e: e, nsig: map[string]int{}, info: map[string]int64{}}
	base := os.TempDir()
	if cf := os.Getenv("VERIF_CURFILE"); cf != "" {
		base = filepath.Dir(cf)
	} else if st, err := os.Stat("/dev/shm"); err == nil && st.IsDir() {
		base = "/dev/shm"
	}
	dir, err := os.MkdirTemp(base, "c15-")
	if err != nil {
		panic(err)
	}
	defer os.RemoveAll(dir)
	c.w = &work{dir: dir}

	c.tables()
	c.spans()
	c.headings()
	c.headingSources()
	c.renderSequences()
	c.lists()
	c.mixes()

	keys := make([]string, 0, len(c.info))
	for k := range c.info {
		keys = append(keys, k)
	}
	sort.Strings(keys)
	for _, k := range keys {
		e.Add(k, c.info[k])
	}
}

// ---- option sets ---------------------------------------------------------------------------------

func optDesc(o mdOpts) string {
	yn := func(b bool) string {
		if b {
			return "y"
		}
		return "n"
	}
	s := fmt.Sprintf("api=%s fm=%s toc=%s off=%d max=%d", o.API, yn(o.FM), yn(o.TOC), o.Off, o.Max)
	if o.Seps {
		s += " seps=y"
	}
	return s
}

var defOpts = mdOpts{API: "opts", Max: 6}

func optVariants(p *producer, full bool) []mdOpts {
	if !p.options {
		return []mdOpts{{API: "plain", Max: 6}}
	}
	if !full {
		return []mdOpts{defOpts}
	}
	v := []mdOpts{defOpts, {API: "plain", Max: 6}, {API: "opts", Max: 6, FM: true}, {API: "opts", Max: 6, TOC: true}, {API: "opts", Max: 6, FM: true, TOC: true}}
	if p.name == "rag" {
		v = append(v, mdOpts{API: "opts", Max: 6, Seps: true}, mdOpts{API: "opts", Max: 6, Seps: true, FM: true, TOC: true})
	}
	return v
}

// ---- one document -----------------------------------------------------------------------------

type clause struct {
	desc       string
	kind       string // table / heading / list / tokens
	idx        int
	nontrivial bool
	outcome    string
}

// expectDoc: what the producer's source format actually says (XLSX: bounding box of the content).
func expectDoc(p *producer, d *Doc) *Doc {
	if p.name != "xlsx" {
		return d
	}
	x := &Doc{Title: d.Title}
	for _, b := range d.Blocks {
		if t, ok := b.(*Table); ok {
			if et := xlsxExpect(t); et != nil {
				x.Blocks = append(x.Blocks, et)
			}
			continue
		}
		x.Blocks = append(x.Blocks, b)
	}
	return x
}

// evaluate renders d through p with o and reports one evaluation per clause.
func (c *checker) evaluate(p *producer, base string, d *Doc, o mdOpts, nontrivial bool, class string) {
	c.evaluateWith(p, base, d, o, nontrivial, class, func() (string, map[string][]byte, error) { return p.render(c.w, d, o) })
}

// evaluateWith is evaluate with the Markdown obtained by render (another API path to the same producer).
func (c *checker) evaluateWith(p *producer, base string, d *Doc, o mdOpts, nontrivial bool, class string, render func() (string, map[string][]byte, error)) {
	e := c.e
	x := expectDoc(p, d)
	var cl []clause
	ti, hi, li := 0, 0, 0
	for _, b := range x.Blocks {
		switch b := b.(type) {
		case *Table:
			ti++
			var ks []string
			for _, r := range b.Rows {
				for _, c := range r {
					ks = append(ks, c.Kind)
				}
			}
			cl = append(cl, clause{desc: fmt.Sprintf("%s clause=table t=%d%s", base, ti, kindTokens(ks)), kind: "table", idx: ti - 1, outcome: fmt.Sprintf("table:%s:%dx%d", p.name, b.R(), b.C())})
		case Heading:
			hi++
			want := clampLevel(b.Level, o.Off, o.Max)
			oc := "shifted"
			switch {
			case want == b.Level:
				oc = "unchanged"
			case want != b.Level+o.Off && want == 1:
				oc = "floor-1"
			case want != b.Level+o.Off && want == 6:
				oc = "cap-6"
			case want != b.Level+o.Off:
				oc = "cap-max"
			}
			cl = append(cl, clause{desc: fmt.Sprintf("%s clause=heading h=%d hlevel=%d", base, hi, b.Level), kind: "heading", idx: hi - 1, outcome: "heading:" + p.name + ":" + oc,
				nontrivial: o.Off != 0 || o.Max != 6 || b.Level > 6})
		case *List:
			li++
			md := 0
			for _, it := range b.Items {
				if it.Depth > md {
					md = it.Depth
				}
			}
			cl = append(cl, clause{desc: fmt.Sprintf("%s clause=list l=%d", base, li), kind: "list", idx: li - 1, outcome: fmt.Sprintf("list:%s:%s:depth%d", p.name, b.Pattern, md+1), nontrivial: md > 0})
		}
	}
	cl = append(cl, clause{desc: base + " clause=tokens", kind: "tokens", outcome: "tokens:" + p.name + ":" + class})

	only := ""
	if e.Replaying() {
		for _, k := range cl {
			if e.Own(k.desc) {
				only = k.desc
			}
		}
		if only == "" {
			return
		}
	} else if !e.Own(base) {
		return
	}

	e.Begin(base)
	var md string
	var files map[string][]byte
	var err error
	sig, det := harness.Guard(func() { md, files, err = render() })
	var whole *failure
	var v *verdicts
	switch {
	case sig != "":
		whole = &failure{sig, det}
	case err != nil:
		whole = failf("error:markdown", "%v", err)
	default:
		v = judge(x, md, o)
		for k, n := range v.info {
			c.info[k] += n
		}
	}
	if dump := os.Getenv("C15_DUMP"); dump != "" && strings.Contains(base, dump) {
		fmt.Fprintf(os.Stderr, "=== %s\n%s\n", base, md)
	}
	if files == nil {
		files = map[string][]byte{}
	}
	files["output.md"] = []byte(md)
	for _, k := range cl {
		if only != "" && k.desc != only {
			continue
		}
		var f *failure
		if v != nil {
			switch k.kind {
			case "table":
				f = v.tables[k.idx]
			case "heading":
				f = v.headings[k.idx]
			case "list":
				f = v.lists[k.idx]
			case "tokens":
				f = v.tokens
			}
		}
		switch {
		case whole != nil:
			e.Fail(k.desc, whole.sig, whole.detail, files)
		case f != nil:
			c.nsig[f.sig]++
			if c.nsig[f.sig] <= 20 {
				e.Fail(k.desc, f.sig, f.detail+"\n--- Markdown ---\n"+md, files)
			} else {
				e.Fail(k.desc, f.sig, f.detail, nil)
			}
		default:
			e.Pass(k.desc, nontrivial || k.nontrivial, k.outcome)
		}
	}
	e.End()
}

// ---- (table) --------------------------------------------------------------------------------------

// kindVectors enumerates the kind assignments of n cells: all of them when full, else those with
// at most dev cells other than "a".
func kindVectors(n int, full bool, dev int, f func(kinds []string, ndev int)) {
	kinds := make([]string, n)
	var rec func(i, nd int)
	rec = func(i, nd int) {
		if i == n {
			f(kinds, nd)
			return
		}
		for _, k := range cellKinds {
			d := nd
			if k != "a" {
				d++
			}
			if !full && d > dev {
				continue
			}
			kinds[i] = k
			rec(i+1, d)
		}
	}
	rec(0, 0)
}

func kindTokens(kinds []string) string {
	seen := map[string]bool{}
	var out []string
	for _, k := range cellKinds {
		for _, x := range kinds {
			if x == k && k != "a" && !seen[k] {
				seen[k] = true
				out = append(out, " cell="+k)
			}
		}
	}
	return strings.Join(out, "")
}

var htmlModes = []string{"thead", "tfoot", "throw", "plain", "tbody"}

func (c *checker) tables() {
	fullCells, dev := 2, 2
	if c.e.Thorough() {
		fullCells, dev = 4, 3
	}
	for _, p := range producers {
		if !p.tables {
			continue
		}
		for r := 1; r <= 3; r++ {
			for cc := 1; cc <= 3; cc++ {
				n := r * cc
				dv := dev
				if c.e.Thorough() && n == 6 {
					dv = 4
				}
				kindVectors(n, n <= fullCells, dv, func(kinds []string, nd int) {
					small := n <= fullCells || nd <= 1
					modes := []string{"-"}
					if p.htmlModes {
						modes = []string{"thead"}
						if small {
							modes = htmlModes
						}
					}
					for _, mode := range modes {
						for _, o := range optVariants(p, small && (mode == "-" || mode == "thead")) {
							base := fmt.Sprintf("space=table producer=%s r=%d c=%d kinds=%s html=%s %s", p.name, r, cc, strings.Join(kinds, ","), mode, optDesc(o))
							d := &Doc{Title: "Ttl"}
							d.Title += d.token()
							if p.multi {
								d.Blocks = append(d.Blocks, d.para())
							}
							t := d.table(r, cc, kinds)
							if mode != "-" {
								t.HTMLMode = mode
							}
							d.Blocks = append(d.Blocks, t)
							if p.multi {
								d.Blocks = append(d.Blocks, d.para())
							}
							c.evaluate(p, base, d, o, nd > 0 || o != defOpts, "table")
						}
					}
				})
			}
		}
	}
}

// ---- (span) ---------------------------------------------------------------------------------------

type rect struct{ r0, c0, rs, cs int }

func rects(r, c int) []rect {
	var out []rect
	for r0 := 0; r0 < r; r0++ {
		for c0 := 0; c0 < c; c0++ {
			for rs := 1; r0+rs <= r; rs++ {
				for cs := 1; c0+cs <= c; cs++ {
					if rs*cs > 1 {
						out = append(out, rect{r0, c0, rs, cs})
					}
				}
			}
		}
	}
	return out
}

// validHTMLGrid: the HTML table model requires every row and every column to have at least one
// cell anchored in it (rows / columns consisting only of slots covered by spans are an error).
func validHTMLGrid(t *Table) bool {
	for i := 0; i < t.R(); i++ {
		ok := false
		for j := 0; j < t.C(); j++ {
			ok = ok || !t.Rows[i][j].Covered
		}
		if !ok {
			return false
		}
	}
	for j := 0; j < t.C(); j++ {
		ok := false
		for i := 0; i < t.R(); i++ {
			ok = ok || !t.Rows[i][j].Covered
		}
		if !ok {
			return false
		}
	}
	return true
}

func (q rect) String() string { return fmt.Sprintf("%d.%d+%dx%d", q.r0+1, q.c0+1, q.rs, q.cs) }

func disjoint(a, b rect) bool {
	return a.r0+a.rs <= b.r0 || b.r0+b.rs <= a.r0 || a.c0+a.cs <= b.c0 || b.c0+b.cs <= a.c0
}

func (c *checker) spans() {
	for _, p := range producers {
		if !p.spans {
			continue
		}
		for _, g := range [][2]int{{2, 2}, {2, 3}, {3, 2}, {3, 3}} {
			r, cc := g[0], g[1]
			rs := rects(r, cc)
			var combos [][]rect
			for _, a := range rs {
				combos = append(combos, []rect{a})
			}
			if c.e.Thorough() {
				for i, a := range rs {
					for _, b := range rs[i+1:] {
						if disjoint(a, b) {
							combos = append(combos, []rect{a, b})
						}
					}
				}
			}
			for _, combo := range combos {
				anchors := []string{"a"}
				if c.e.Thorough() && len(combo) == 1 {
					anchors = cellKinds
				}
				for _, ak := range anchors {
					if ak == "empty" {
						continue
					}
					modes := []string{"-"}
					if p.htmlModes {
						modes = []string{"thead", "plain"}
					}
					for _, mode := range modes {
						var names []string
						for _, q := range combo {
							names = append(names, q.String())
						}
						base := fmt.Sprintf("space=span producer=%s r=%d c=%d merge=%s anchor=%s html=%s %s", p.name, r, cc, strings.Join(names, "+"), ak, mode, optDesc(defOpts))
						for _, q := range combo {
							if q.cs > 1 {
								base += " hspan=y"
								break
							}
						}
						for _, q := range combo {
							if q.rs > 1 {
								base += " vspan=y"
								break
							}
						}
						if combo[0].r0 == 0 {
							base += " firstrow=y"
						}
						d := &Doc{Title: "Ttl"}
						d.Title += d.token()
						if p.multi {
							d.Blocks = append(d.Blocks, d.para())
						}
						kinds := make([]string, r*cc)
						for i := range kinds {
							kinds[i] = "a"
						}
						kinds[combo[0].r0*cc+combo[0].c0] = ak
						t := d.table(r, cc, kinds)
						for _, q := range combo {
							t.merge(q.r0, q.c0, q.rs, q.cs)
						}
						if p.htmlModes && !validHTMLGrid(t) {
							continue // HTML table model error: a row or column without any anchored cell
						}
						if mode != "-" {
							t.HTMLMode = mode
						}
						d.Blocks = append(d.Blocks, t)
						if p.multi {
							d.Blocks = append(d.Blocks, d.para())
						}
						c.evaluate(p, base, d, defOpts, true, "span")
					}
				}
			}
		}
	}
}

// ---- (heading) ------------------------------------------------------------------------------------

func (c *checker) headings() {
	for _, p := range producers {
		if p.headings == 0 {
			continue
		}
		type shape struct {
			name   string
			levels []int
			same   bool
		}
		var shapes []shape
		for l := 1; l <= p.headings; l++ {
			shapes = append(shapes, shape{name: fmt.Sprintf("single%d", l), levels: []int{l}})
		}
		if p.headings > 1 {
			var up, down []int
			for l := 1; l <= p.headings; l++ {
				up = append(up, l)
				down = append(down, p.headings+1-l)
			}
			shapes = append(shapes, shape{name: "up", levels: up}, shape{name: "down", levels: down},
				shape{name: "sametitle12", levels: []int{1, 2}, same: true}, shape{name: "sametitle22", levels: []int{2, 2}, same: true}, shape{name: "twice2", levels: []int{2, 2}},
				shape{name: "skip13", levels: []int{1, 3, 3, 2}})
		} else {
			shapes = append(shapes, shape{name: "twice1", levels: []int{1, 1}}, shape{name: "sametitle11", levels: []int{1, 1}, same: true})
		}
		var opts []mdOpts
		if !p.options {
			opts = []mdOpts{{API: "plain", Max: 6}}
		} else {
			opts = append(opts, mdOpts{API: "plain", Max: 6})
			for off := -2; off <= 7; off++ {
				for max := 0; max <= 6; max++ { // 0 = MaxHeadingLevel left unset ("default: 6")
					for _, fm := range []bool{false, true} {
						for _, toc := range []bool{false, true} {
							opts = append(opts, mdOpts{API: "opts", FM: fm, TOC: toc, Off: off, Max: max})
						}
					}
				}
			}
			if p.name == "rag" {
				opts = append(opts, mdOpts{API: "opts", Max: 6, Seps: true}, mdOpts{API: "opts", Max: 3, Off: 1, Seps: true, FM: true, TOC: true})
			}
		}
		for _, sh := range shapes {
			for _, o := range opts {
				base := fmt.Sprintf("space=heading producer=%s shape=%s %s", p.name, sh.name, optDesc(o))
				if sh.same {
					base += " sametitle=y"
				}
				d := &Doc{Title: "Ttl"}
				d.Title += d.token()
				var first Heading
				for i, l := range sh.levels {
					h := d.heading(l)
					if sh.same {
						// same visible title: the heading text carries no token of its own
						if i == 0 {
							first = Heading{Level: l, Text: "Same Title"}
						}
						h = Heading{Level: l, Text: first.Text}
					}
					h.Synth = p.name == "pptx"
					d.Blocks = append(d.Blocks, h)
					if p.paras {
						d.Blocks = append(d.Blocks, d.para())
					}
				}
				c.evaluate(p, base, d, o, len(sh.levels) > 1, "heading")
			}
		}
	}
}

// ---- (hsrc) ---------------------------------------------------------------------------------------
// How the source says "heading of level L" (DOCX, ODT): the style's own marker kind x basedOn /
// parent chains of length 1..3 whose ancestors carry a DIFFERENT level or are the bare umbrella
// style "Heading"; marker-free styles that inherit; direct outline level on the paragraph.

func otherLevels(all bool, not ...int) []int {
	skip := map[int]bool{}
	for _, n := range not {
		skip[n] = true
	}
	var out []int
	if all {
		for k := 1; k <= 9; k++ {
			if !skip[k] {
				out = append(out, k)
			}
		}
		return out
	}
	// quick: level 1 (the level the bare "Heading" name would suggest) and the next level
	l := not[0]
	for _, k := range []int{1, l%9 + 1, (l+3)%9 + 1, (l+5)%9 + 1} {
		if !skip[k] && len(out) < 2 {
			skip[k] = true
			out = append(out, k)
		}
	}
	return out
}

func (c *checker) headingSources() {
	thorough := c.e.Thorough()
	optsets := []mdOpts{defOpts, {API: "opts", Off: 1, Max: 4}}
	if thorough {
		optsets = append(optsets, mdOpts{API: "plain", Max: 6}, mdOpts{API: "opts", Off: -1, Max: 0, FM: true, TOC: true})
	}
	for _, p := range producers {
		if p.name != "docx" && p.name != "odt" {
			continue
		}
		markers := []string{"builtin", "localized", "outline"}
		if p.name == "odt" {
			markers = []string{"builtin", "outline"}
		}
		// ancestors(level set to avoid) -> every ancestor definition
		ancestors := func(not ...int) []styleDef {
			var out []styleDef
			for _, k := range otherLevels(thorough, not...) {
				for _, m := range markers {
					out = append(out, styleDef{m, k})
				}
			}
			return append(out, styleDef{Kind: "bare"})
		}
		emit := func(level int, src *headSrc, own string) {
			for _, o := range optsets {
				base := fmt.Sprintf("space=hsrc producer=%s L=%d own=%s src=%s chainlen=%d %s", p.name, level, own, src.String(), len(src.Chain), optDesc(o))
				conflict, bare := false, false
				for i, sd := range src.Chain {
					if i > 0 && sd.Level > 0 && sd.Level != level {
						conflict = true
					}
					if i > 0 && sd.Kind == "bare" {
						bare = true
					}
				}
				if conflict {
					base += " hsrc=other-level-ancestor"
				}
				if bare {
					base += " hsrc=bare-heading-ancestor"
				}
				d := &Doc{Title: "Ttl"}
				d.Title += d.token()
				h := d.heading(level)
				h.Src = src
				d.Blocks = append(d.Blocks, h, d.para())
				c.evaluate(p, base, d, o, true, "hsrc")
			}
		}
		chainsBelow := func(level int, own []styleDef, ownName string, noattr bool) {
			// own alone, + parent, + parent + grandparent
			mk := func(ch []styleDef) *headSrc {
				return &headSrc{Chain: append([]styleDef{}, ch...), NoAttr: noattr}
			}
			if own[len(own)-1].Kind != "none" {
				emit(level, mk(own), ownName)
			}
			for _, par := range ancestors(level) {
				if own[len(own)-1].Kind == "none" && par.Kind == "bare" {
					continue // a marker-free style under the bare umbrella style: no level is defined anywhere
				}
				ch := append(append([]styleDef{}, own...), par)
				emit(level, mk(ch), ownName)
				if par.Kind == "bare" {
					continue // the umbrella style is a root in practice
				}
				for _, gp := range ancestors(level, par.Level) {
					emit(level, mk(append(append([]styleDef{}, ch...), gp)), ownName)
				}
			}
		}
		for level := 1; level <= 9; level++ {
			for _, m := range markers {
				chainsBelow(level, []styleDef{{m, level}}, m, false)
			}
			// marker-free own style: the nearest ancestor's level is the heading's level
			for _, m := range markers {
				own := []styleDef{{Kind: "none"}, {m, level}}
				emit(level, &headSrc{Chain: own}, "inherit")
				for _, gp := range ancestors(level) {
					emit(level, &headSrc{Chain: append(append([]styleDef{}, own...), gp)}, "inherit")
				}
			}
			if p.name == "docx" {
				// direct w:outlineLvl on a paragraph without style / with marker-free styles
				for n := 0; n <= 3; n++ {
					src := &headSrc{Direct: level}
					for i := 0; i < n; i++ {
						src.Chain = append(src.Chain, styleDef{Kind: "none"})
					}
					emit(level, src, "direct")
				}
			} else {
				// text:h without a style: the level is the text:outline-level attribute alone
				emit(level, &headSrc{}, "nostyle")
			}
		}
		if p.name == "odt" {
			// text:h without text:outline-level: ODF's default level 1; only styles whose own /
			// nearest level is 1 as well (both readings of an absent attribute agree there)
			for _, m := range markers {
				chainsBelow(1, []styleDef{{m, 1}}, m+"-noattr", true)
				own := []styleDef{{Kind: "none"}, {m, 1}}
				emit(1, &headSrc{Chain: own, NoAttr: true}, "inherit-noattr")
				for _, gp := range ancestors(1) {
					emit(1, &headSrc{Chain: append(append([]styleDef{}, own...), gp), NoAttr: true}, "inherit-noattr")
				}
			}
		}
	}
}

// ---- (list) ---------------------------------------------------------------------------------------

func (c *checker) lists() {
	maxItems := 4
	if c.e.Thorough() {
		maxItems = 6
	}
	for _, p := range producers {
		if !p.lists {
			continue
		}
		patterns := []string{"bbb", "nnn"}
		if p.mixed {
			patterns = []string{"bbb", "nnn", "bnb", "nbn", "bbn", "bnn", "nbb", "nnb"}
		}
		for n := 1; n <= maxItems; n++ {
			for _, seq := range depthSeqs(n, 2) {
				maxd := 0
				for _, x := range seq {
					if x > maxd {
						maxd = x
					}
				}
				for _, pat := range patterns {
					// patterns that differ only at depths the list does not reach are the same list
					if maxd < 2 && pat[2] != pat[1] {
						continue
					}
					if maxd < 1 && pat[1] != pat[0] {
						continue
					}
					for _, o := range optVariants(p, n <= 3) {
						base := fmt.Sprintf("space=list producer=%s seq=%s pattern=%s %s", p.name, seqStr(seq), pat, optDesc(o))
						mixed := false
						for i := 1; i <= maxd; i++ {
							if pat[i] != pat[0] {
								mixed = true
							}
						}
						if mixed {
							base += " mixed=y"
						}
						if maxd > 0 {
							base += " nested=y"
						}
						d := &Doc{Title: "Ttl"}
						d.Title += d.token()
						if p.paras {
							d.Blocks = append(d.Blocks, d.para())
						}
						d.Blocks = append(d.Blocks, d.list(seq, pat))
						if p.paras {
							d.Blocks = append(d.Blocks, d.para())
						}
						c.evaluate(p, base, d, o, maxd > 0 || mixed || o != defOpts, "list")
					}
				}
			}
		}
	}
}

// ---- (mix) ----------------------------------------------------------------------------------------

var mixLetters = []string{"p", "h", "lb", "ln", "t22", "tp"}

func (c *checker) mixes() {
	optsets := []mdOpts{defOpts, {API: "opts", Max: 6, FM: true, TOC: true}, {API: "opts", Max: 2, Off: 1}, {API: "opts", Max: 6, Off: -1, TOC: true}}
	for _, p := range producers {
		if !p.multi {
			continue
		}
		maxMix := 3
		if c.e.Thorough() {
			maxMix = 4
		}
		for n := 2; n <= maxMix; n++ {
			seq := make([]int, n)
			for {
				names := make([]string, n)
				for i, s := range seq {
					names[i] = mixLetters[s]
				}
				for _, o := range optsets {
					base := fmt.Sprintf("space=mix producer=%s seq=%s %s", p.name, strings.Join(names, ","), optDesc(o))
					d := &Doc{Title: "Ttl"}
					d.Title += d.token()
					for _, nm := range names {
						switch nm {
						case "p":
							d.Blocks = append(d.Blocks, d.para())
						case "h":
							lv := 2
							if p.headings < 2 {
								lv = 1
							}
							h := d.heading(lv)
							h.Synth = p.name == "pptx"
							d.Blocks = append(d.Blocks, h)
						case "lb":
							d.Blocks = append(d.Blocks, d.list([]int{0, 1, 0}, "bbb"))
						case "ln":
							d.Blocks = append(d.Blocks, d.list([]int{0, 0, 1}, "nnn"))
						case "t22":
							d.Blocks = append(d.Blocks, d.table(2, 2, []string{"a", "a", "a", "nl"}))
						case "tp":
							d.Blocks = append(d.Blocks, d.table(1, 1, []string{"pipe"}))
						}
					}
					c.evaluate(p, base, d, o, true, "mix")
				}
				i := n - 1
				for i >= 0 {
					seq[i]++
					if seq[i] < len(mixLetters) {
						break
					}
					seq[i] = 0
					i--
				}
				if i < 0 {
					break
				}
			}
		}
	}
}
