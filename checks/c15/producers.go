package main

import (
	"fmt"
	"os"
	"path/filepath"
	"strings"

	"github.com/tsawler/tabula"
	"github.com/tsawler/tabula/layout"
	"github.com/tsawler/tabula/model"
	"github.com/tsawler/tabula/rag"
	"verif/internal/gen/docxw"
	"verif/internal/gen/epubw"
	"verif/internal/gen/odtw"
	"verif/internal/gen/pptxw"
	"verif/internal/gen/xlsxw"
	"verif/internal/gen/zipw"
)

// A producer turns the logical document into Markdown through one tabula code path.
type producer struct {
	name      string
	tables    bool
	spans     bool
	headings  int  // highest source heading level the format can carry (0: none)
	lists     bool // nested lists
	mixed     bool // kind per depth can differ inside one list
	paras     bool
	options   bool // takes rag.MarkdownOptions
	multi     bool // can carry several blocks in one document
	render    func(w *work, d *Doc, o mdOpts) (md string, files map[string][]byte, err error)
	htmlModes bool
}

type work struct {
	dir string
	// buildOnly: viaFile writes the generated file to this path and returns without reading it
	buildOnly string
}

func ragOpts(o mdOpts) rag.MarkdownOptions {
	m := rag.DefaultMarkdownOptions()
	m.IncludeMetadata = o.FM
	m.IncludeTableOfContents = o.TOC
	m.HeadingLevelOffset = o.Off
	m.MaxHeadingLevel = o.Max
	if o.Seps {
		m.IncludeChunkSeparators = true
		m.IncludePageNumbers = true
		m.IncludeChunkIDs = true
	}
	return m
}

// viaFile writes data to a scratch file with the format's extension and reads it back through
// the public Extractor API.
func (w *work) viaFile(ext string, data []byte, o mdOpts) (string, map[string][]byte, error) {
	path := filepath.Join(w.dir, "case."+ext)
	if w.buildOnly != "" {
		path = w.buildOnly
	}
	if err := os.WriteFile(path, data, 0o644); err != nil {
		panic(err)
	}
	files := map[string][]byte{"input." + ext: data}
	if w.buildOnly != "" {
		return "", files, nil
	}
	var md string
	var err error
	if o.API == "plain" {
		md, _, err = tabula.Open(path).ToMarkdown()
	} else {
		md, _, err = tabula.Open(path).ToMarkdownWithOptions(ragOpts(o))
	}
	return md, files, err
}

func stored(ms []zipw.Member) []byte {
	for i := range ms {
		ms[i].Store = true
	}
	return zipw.Zip(ms)
}

var producers = []*producer{
	{name: "model", tables: true, render: renderModel},
	{name: "layout", headings: 6, lists: true, render: renderLayout},
	{name: "rag", tables: true, headings: 9, lists: true, paras: true, options: true, multi: true, render: renderRag},
	{name: "docx", tables: true, spans: true, headings: 9, lists: true, mixed: true, paras: true, options: true, multi: true, render: renderDocx},
	{name: "odt", tables: true, spans: true, headings: 9, lists: true, mixed: true, paras: true, options: true, multi: true, render: renderOdt},
	{name: "xlsx", tables: true, spans: true, options: true, render: renderXlsx},
	{name: "pptx", tables: true, spans: true, headings: 1, lists: true, mixed: true, paras: true, options: true, multi: true, render: renderPptx},
	{name: "html", tables: true, spans: true, headings: 6, lists: true, mixed: true, paras: true, options: true, multi: true, htmlModes: true, render: renderHTML},
	{name: "epub", tables: true, spans: true, headings: 6, lists: true, mixed: true, paras: true, options: true, multi: true, htmlModes: true, render: renderEpub},
}

// ---- model.Table.ToMarkdown ------------------------------------------------------------------

func modelTable(t *Table) *model.Table {
	mt := model.NewTable(t.R(), t.C())
	for i, r := range t.Rows {
		for j, c := range r {
			mt.Rows[i][j].Text = c.Text()
			mt.Rows[i][j].IsHeader = i == 0
			if !c.Covered {
				mt.Rows[i][j].RowSpan, mt.Rows[i][j].ColSpan = c.RowSpan, c.ColSpan
			}
		}
	}
	return mt
}

func renderModel(w *work, d *Doc, o mdOpts) (string, map[string][]byte, error) {
	var b strings.Builder
	for _, blk := range d.Blocks {
		if t, ok := blk.(*Table); ok {
			b.WriteString(modelTable(t).ToMarkdown())
			b.WriteString("\n")
		}
	}
	return b.String(), nil, nil
}

// ---- layout.Heading / layout.List ToMarkdown (joined the way AnalysisResult.GetMarkdown joins) --

func renderLayout(w *work, d *Doc, o mdOpts) (string, map[string][]byte, error) {
	var b strings.Builder
	for _, blk := range d.Blocks {
		switch x := blk.(type) {
		case Heading:
			h := &layout.Heading{Level: layout.HeadingLevel(x.Level), Text: x.Text}
			b.WriteString(h.ToMarkdown() + "\n\n")
		case *List:
			l := &layout.List{Type: layout.ListTypeBullet}
			if x.Items[0].Ordered {
				l.Type = layout.ListTypeNumbered
			}
			// children tree from the depth sequence
			var stack []*[]layout.ListItem
			stack = append(stack, &l.Items)
			for _, it := range x.Items {
				stack = stack[:it.Depth+1]
				lst := stack[it.Depth]
				lt := layout.ListTypeBullet
				if it.Ordered {
					lt = layout.ListTypeNumbered
				}
				*lst = append(*lst, layout.ListItem{Text: it.Text, Level: it.Depth, ListType: lt, Index: len(*lst)})
				stack = append(stack, &(*lst)[len(*lst)-1].Children)
			}
			b.WriteString(l.ToMarkdown() + "\n\n")
		case Para:
			b.WriteString(x.Text + "\n\n")
		}
	}
	return b.String(), nil, nil
}

// ---- rag: model.Document -> rag.ChunkDocument -> ChunkCollection.ToMarkdownWithOptions ---------
// (the path Extractor.ToMarkdownWithOptions takes for PDF input)

func renderRag(w *work, d *Doc, o mdOpts) (string, map[string][]byte, error) {
	doc := model.NewDocument()
	doc.Metadata.Title = d.Title
	page := model.NewPage(612, 792)
	for _, blk := range d.Blocks {
		switch x := blk.(type) {
		case Heading:
			page.AddElement(&model.Heading{Text: x.Text, Level: x.Level})
		case Para:
			page.AddElement(&model.Paragraph{Text: x.Text})
		case *List:
			ml := &model.List{Ordered: x.Items[0].Ordered}
			for _, it := range x.Items {
				ml.Items = append(ml.Items, model.ListItem{Text: it.Text, Level: it.Depth})
			}
			page.AddElement(ml)
		case *Table:
			page.AddElement(modelTable(x))
		}
	}
	doc.AddPage(page)
	cc := rag.ChunkDocument(doc)
	if o.API == "plain" {
		return cc.ToMarkdown(), nil, nil
	}
	return cc.ToMarkdownWithOptions(ragOpts(o)), nil, nil
}

// ---- DOCX ------------------------------------------------------------------------------------

func numFor(pattern string) (id int, num docxw.Num) {
	// one numbering definition per pattern; id is derived from the pattern
	id = 1
	for i, c := range pattern {
		if c == 'n' {
			id += 1 << uint(i)
		}
	}
	id += 10
	lv := make([]docxw.Level, len(pattern))
	for i, c := range pattern {
		lv[i] = docxw.Level{Fmt: "bullet"}
		if c == 'n' {
			lv[i] = docxw.Level{Fmt: "decimal"}
		}
	}
	return id, docxw.Num{ID: id, Levels: lv}
}

func docxCell(c Cell) docxw.Cell {
	if len(c.Lines) == 0 {
		return docxw.Cell{}
	}
	return docxw.C(c.Lines...)
}

// docxChainStyles writes the basedOn chain of a heading source (one heading source per document:
// the style sheet consists of Normal and the chain). No style is bold or large, so that tabula's
// font-size fallback for documents without heading styles stays out of the picture.
func docxChainStyles(h *headSrc) (styles []docxw.Style, own string) {
	ids := make([]string, len(h.Chain))
	for i, c := range h.Chain {
		switch c.Kind {
		case "builtin":
			ids[i] = fmt.Sprintf("Heading%d", c.Level)
		case "localized":
			ids[i] = fmt.Sprintf("berschrift%d", c.Level)
		case "outline":
			ids[i] = fmt.Sprintf("CustHead%c", 'A'+i)
		case "bare":
			ids[i] = "Heading"
		case "none":
			ids[i] = fmt.Sprintf("PlainText%c", 'A'+i)
		default:
			panic("style kind " + c.Kind)
		}
	}
	for i, c := range h.Chain {
		st := docxw.Style{ID: ids[i], BasedOn: "Normal"}
		if i+1 < len(ids) {
			st.BasedOn = ids[i+1]
		}
		switch c.Kind {
		case "builtin", "localized":
			st.Name, st.Outline = fmt.Sprintf("heading %d", c.Level), c.Level
		case "outline":
			st.Name, st.Outline, st.Custom = fmt.Sprintf("Custom Head %c", 'A'+i), c.Level, true
		case "bare":
			st.Name = "Heading"
		case "none":
			st.Name, st.Custom = fmt.Sprintf("Plain Text %c", 'A'+i), true
		}
		styles = append(styles, st)
	}
	if len(ids) > 0 {
		own = ids[0]
	}
	return
}

// odtChainStyles: the same for ODT (style:parent-style-name chain). A marker-free own style is
// written as an automatic style (P1), the way LibreOffice stores direct formatting.
func odtChainStyles(h *headSrc) (common, auto []odtw.Style, own string) {
	names := make([]string, len(h.Chain))
	for i, c := range h.Chain {
		switch c.Kind {
		case "builtin":
			names[i] = fmt.Sprintf("Heading_20_%d", c.Level)
		case "outline":
			names[i] = fmt.Sprintf("CustHead%c", 'A'+i)
		case "bare":
			names[i] = "Heading"
		case "none":
			names[i] = fmt.Sprintf("Plain%c", 'A'+i)
			if i == 0 {
				names[i] = "P1"
			}
		default:
			panic("style kind " + c.Kind)
		}
	}
	for i, c := range h.Chain {
		st := odtw.Style{Name: names[i], Parent: "Standard", Class: "text"}
		if i+1 < len(names) {
			st.Parent = names[i+1]
		}
		switch c.Kind {
		case "builtin":
			st.Display, st.OutlineLevel = fmt.Sprintf("Heading %d", c.Level), c.Level
		case "outline":
			st.Display, st.OutlineLevel = fmt.Sprintf("Custom Head %c", 'A'+i), c.Level
		}
		if c.Kind == "none" && i == 0 {
			st.Class = ""
			auto = append(auto, st)
		} else {
			common = append(common, st)
		}
	}
	if len(names) > 0 {
		own = names[0]
	}
	return
}

func renderDocx(w *work, d *Doc, o mdOpts) (string, map[string][]byte, error) {
	var body []docxw.Block
	styles := docxw.DefaultStyles()
	for i := 7; i <= 9; i++ {
		styles = append(styles, docxw.Style{ID: fmt.Sprintf("Heading%d", i), Name: fmt.Sprintf("heading %d", i), BasedOn: "Normal", Outline: i, SizeHP: 22})
	}
	var nums []docxw.Num
	seen := map[int]bool{}
	for _, blk := range d.Blocks {
		switch x := blk.(type) {
		case Heading:
			if x.Src != nil {
				st, own := docxChainStyles(x.Src)
				styles = append([]docxw.Style{{ID: "Normal", Name: "Normal", Default: true, SizeHP: 22}, {ID: "ListParagraph", Name: "List Paragraph", BasedOn: "Normal"}}, st...)
				body = append(body, docxw.Para{Style: own, Outline: x.Src.Direct, Content: []docxw.Inline{docxw.R(docxw.T(x.Text))}})
				continue
			}
			body = append(body, docxw.Para{Style: fmt.Sprintf("Heading%d", x.Level), Content: []docxw.Inline{docxw.R(docxw.T(x.Text))}})
		case Para:
			body = append(body, docxw.P(x.Text))
		case *List:
			id, num := numFor(x.Pattern)
			if !seen[id] {
				seen[id] = true
				nums = append(nums, num)
			}
			for _, it := range x.Items {
				body = append(body, docxw.Para{Style: "ListParagraph", NumID: id, ILvl: it.Depth, Content: []docxw.Inline{docxw.R(docxw.T(it.Text))}})
			}
		case *Table:
			t := docxw.Table{Cols: x.C()}
			for i, r := range x.Rows {
				var row docxw.Row
				for j := 0; j < len(r); j++ {
					c := r[j]
					if c.Covered {
						ai, aj := x.anchor(i, j)
						if aj == j && ai < i {
							// first column of a region continued from above: one continuation cell
							a := x.Rows[ai][aj]
							row.Cells = append(row.Cells, docxw.Cell{Span: a.ColSpan, VMerge: docxw.VMergeContinue})
						}
						continue
					}
					dc := docxCell(c)
					dc.Span = c.ColSpan
					if c.RowSpan > 1 {
						dc.VMerge = docxw.VMergeRestart
					}
					row.Cells = append(row.Cells, dc)
				}
				t.Rows = append(t.Rows, row)
			}
			body = append(body, t)
		}
	}
	if nums == nil {
		nums = docxw.DefaultNums()
	}
	ms := docxw.Members(docxw.Doc{Body: body}, docxw.Opts{Styles: styles, Nums: nums, Title: d.Title})
	return w.viaFile("docx", stored(ms), o)
}

// ---- ODT -------------------------------------------------------------------------------------

func odtCell(c Cell) odtw.Cell {
	oc := odtw.Cell{ColSpan: c.ColSpan, RowSpan: c.RowSpan}
	for _, l := range c.Lines {
		oc.Blocks = append(oc.Blocks, odtw.P(l))
	}
	return oc
}

func odtList(items []Item, depth int, style string) (odtw.List, int) {
	l := odtw.List{}
	if depth == 0 {
		l.Style = style
	}
	i := 0
	for i < len(items) && items[i].Depth >= depth {
		if items[i].Depth == depth {
			l.Items = append(l.Items, odtw.Item{Blocks: []odtw.Block{odtw.P(items[i].Text)}})
			i++
			continue
		}
		// deeper: nested list inside the last item
		sub, n := odtList(items[i:], depth+1, style)
		if len(l.Items) == 0 {
			l.Items = append(l.Items, odtw.Item{})
		}
		last := &l.Items[len(l.Items)-1]
		last.Blocks = append(last.Blocks, sub)
		i += n
	}
	return l, i
}

func renderOdt(w *work, d *Doc, o mdOpts) (string, map[string][]byte, error) {
	var body []odtw.Block
	styles := odtw.DefaultStyles()
	var autoStyles []odtw.Style
	var lstyles []odtw.ListStyle
	seen := map[string]bool{}
	for _, blk := range d.Blocks {
		switch x := blk.(type) {
		case Heading:
			if x.Src != nil {
				var own string
				var common []odtw.Style
				common, autoStyles, own = odtChainStyles(x.Src)
				styles = append([]odtw.Style{{Name: "Standard", Class: "text"}, {Name: "Text_20_body", Display: "Text body", Parent: "Standard", Class: "text"}}, common...)
				lv := x.Level
				if x.Src.NoAttr {
					lv = 0
				}
				body = append(body, odtw.Heading{Style: own, Level: lv, Content: []odtw.Inline{odtw.Text(x.Text)}})
				continue
			}
			st := "Heading"
			if x.Level <= 6 {
				st = fmt.Sprintf("Heading_20_%d", x.Level)
			}
			body = append(body, odtw.Heading{Style: st, Level: x.Level, Content: []odtw.Inline{odtw.Text(x.Text)}})
		case Para:
			body = append(body, odtw.P(x.Text))
		case *List:
			name := "LS" + x.Pattern
			if !seen[name] {
				seen[name] = true
				ls := odtw.ListStyle{Name: name}
				for _, c := range x.Pattern {
					ls.Levels = append(ls.Levels, odtw.ListLevel{Number: c == 'n'})
				}
				lstyles = append(lstyles, ls)
			}
			l, _ := odtList(x.Items, 0, name)
			body = append(body, l)
		case *Table:
			t := odtw.Table{Name: "T", Cols: x.C()}
			for _, r := range x.Rows {
				var row odtw.Row
				for _, c := range r {
					if c.Covered {
						row.Cells = append(row.Cells, odtw.Cell{Covered: true})
					} else {
						row.Cells = append(row.Cells, odtCell(c))
					}
				}
				t.Rows = append(t.Rows, row)
			}
			body = append(body, t)
		}
	}
	if lstyles == nil {
		lstyles = odtw.DefaultListStyles()
	}
	ms := odtw.Members(odtw.Doc{Body: body}, odtw.Opts{Styles: styles, AutoStyles: autoStyles, ListStyles: lstyles, Title: d.Title})
	return w.viaFile("odt", stored(ms), o)
}

// ---- XLSX (one sheet per table) --------------------------------------------------------------

func renderXlsx(w *work, d *Doc, o mdOpts) (string, map[string][]byte, error) {
	wb := &xlsxw.Workbook{}
	n := 0
	for _, blk := range d.Blocks {
		x, ok := blk.(*Table)
		if !ok {
			continue
		}
		n++
		sh := xlsxw.Sheet{Name: fmt.Sprintf("Sh%d", n)}
		for i, r := range x.Rows {
			for j, c := range r {
				if c.Covered || len(c.Lines) == 0 {
					continue
				}
				sh.Cells = append(sh.Cells, xlsxw.Cell{Ref: xlsxw.Ref(j, i), Kind: xlsxw.Shared, Value: c.Text()})
				if c.RowSpan > 1 || c.ColSpan > 1 {
					sh.Merges = append(sh.Merges, xlsxw.Ref(j, i)+":"+xlsxw.Ref(j+c.ColSpan-1, i+c.RowSpan-1))
				}
			}
		}
		wb.Sheets = append(wb.Sheets, sh)
	}
	return w.viaFile("xlsx", wb.Bytes(), o)
}

// xlsxExpect: a worksheet is a sparse grid; the table it shows is the bounding box of its
// non-empty cells. Returns nil when the sheet has no content at all.
func xlsxExpect(t *Table) *Table {
	r0, r1, c0, c1 := t.R(), -1, t.C(), -1
	for i, r := range t.Rows {
		for j, c := range r {
			if !c.Covered && len(c.Lines) > 0 {
				if i < r0 {
					r0 = i
				}
				if i > r1 {
					r1 = i
				}
				if j < c0 {
					c0 = j
				}
				if j > c1 {
					c1 = j
				}
			}
		}
	}
	if r1 < 0 {
		return nil
	}
	out := &Table{}
	for i := r0; i <= r1; i++ {
		out.Rows = append(out.Rows, append([]Cell{}, t.Rows[i][c0:c1+1]...))
	}
	return out
}

// ---- PPTX ------------------------------------------------------------------------------------

func pptxTableXML(t *Table, id int) string {
	var b strings.Builder
	fmt.Fprintf(&b, `<p:graphicFrame><p:nvGraphicFramePr><p:cNvPr id="%d" name="Table %d"/><p:cNvGraphicFramePr><a:graphicFrameLocks noGrp="1"/></p:cNvGraphicFramePr><p:nvPr/></p:nvGraphicFramePr>`, id, id)
	b.WriteString(`<p:xfrm><a:off x="0" y="0"/><a:ext cx="100" cy="100"/></p:xfrm><a:graphic><a:graphicData uri="http://schemas.openxmlformats.org/drawingml/2006/table"><a:tbl><a:tblPr firstRow="1"/><a:tblGrid>`)
	for range t.Rows[0] {
		b.WriteString(`<a:gridCol w="1000"/>`)
	}
	b.WriteString(`</a:tblGrid>`)
	for i, r := range t.Rows {
		b.WriteString(`<a:tr h="300">`)
		for j, c := range r {
			attrs := ""
			if c.Covered {
				ai, aj := t.anchor(i, j)
				a := t.Rows[ai][aj]
				// DrawingML keeps a placeholder a:tc for every grid position of a merged region
				if aj < j {
					attrs += ` hMerge="1"`
				}
				if ai < i {
					attrs += ` vMerge="1"`
				}
				if aj == j && a.ColSpan > 1 {
					attrs += fmt.Sprintf(` gridSpan="%d"`, a.ColSpan)
				}
				if ai == i && a.RowSpan > 1 {
					attrs += fmt.Sprintf(` rowSpan="%d"`, a.RowSpan)
				}
			} else {
				if c.ColSpan > 1 {
					attrs += fmt.Sprintf(` gridSpan="%d"`, c.ColSpan)
				}
				if c.RowSpan > 1 {
					attrs += fmt.Sprintf(` rowSpan="%d"`, c.RowSpan)
				}
			}
			fmt.Fprintf(&b, `<a:tc%s><a:txBody><a:bodyPr/><a:lstStyle/>`, attrs)
			if len(c.Lines) == 0 {
				b.WriteString(`<a:p><a:endParaRPr lang="en-US"/></a:p>`)
			}
			for _, l := range c.Lines {
				fmt.Fprintf(&b, `<a:p><a:r><a:rPr lang="en-US"/><a:t>%s</a:t></a:r></a:p>`, pptxw.Esc(l))
			}
			b.WriteString(`</a:txBody><a:tcPr/></a:tc>`)
		}
		b.WriteString(`</a:tr>`)
	}
	b.WriteString(`</a:tbl></a:graphicData></a:graphic></p:graphicFrame>`)
	return b.String()
}

func renderPptx(w *work, d *Doc, o mdOpts) (string, map[string][]byte, error) {
	deck := pptxw.Deck{Title: d.Title}
	cur := pptxw.Slide{}
	used := false
	flush := func() {
		if used {
			deck.Slides = append(deck.Slides, cur)
		}
		cur = pptxw.Slide{}
		used = false
	}
	nt := 0
	for _, blk := range d.Blocks {
		switch x := blk.(type) {
		case Heading:
			flush() // a slide title starts a new slide
			cur.Title = x.Text
			used = true
		case Para:
			cur.Paras = append(cur.Paras, pptxw.Para{Text: x.Text, Bullet: "none"})
			used = true
		case *List:
			for _, it := range x.Items {
				b := "char"
				if it.Ordered {
					b = "num"
				}
				cur.Paras = append(cur.Paras, pptxw.Para{Text: it.Text, Level: it.Depth, Bullet: b})
			}
			used = true
		case *Table:
			nt++
			cur.RawShape += pptxTableXML(x, 100+nt)
			used = true
		}
	}
	flush()
	if len(deck.Slides) == 0 {
		deck.Slides = []pptxw.Slide{{}}
	}
	return w.viaFile("pptx", deck.Bytes(), o)
}

// ---- HTML / EPUB -----------------------------------------------------------------------------

func hesc(s string) string { return epubw.Esc(s) }

func htmlCellInner(c Cell) string {
	var parts []string
	for _, l := range c.Lines {
		parts = append(parts, hesc(l))
	}
	return strings.Join(parts, "<br/>")
}

func htmlRow(t *Table, i int, tag string) string {
	var b strings.Builder
	b.WriteString("<tr>")
	for _, c := range t.Rows[i] {
		if c.Covered {
			continue
		}
		attrs := ""
		if c.ColSpan > 1 {
			attrs += fmt.Sprintf(` colspan="%d"`, c.ColSpan)
		}
		if c.RowSpan > 1 {
			attrs += fmt.Sprintf(` rowspan="%d"`, c.RowSpan)
		}
		fmt.Fprintf(&b, "<%s%s>%s</%s>", tag, attrs, htmlCellInner(c), tag)
	}
	b.WriteString("</tr>")
	return b.String()
}

func htmlTable(t *Table) string {
	var b strings.Builder
	b.WriteString("<table>")
	n := t.R()
	switch t.HTMLMode {
	case "thead", "": // thead (th) + tbody
		b.WriteString("<thead>" + htmlRow(t, 0, "th") + "</thead>")
		if n > 1 {
			b.WriteString("<tbody>")
			for i := 1; i < n; i++ {
				b.WriteString(htmlRow(t, i, "td"))
			}
			b.WriteString("</tbody>")
		}
	case "tfoot": // thead + tbody + tfoot (last row)
		b.WriteString("<thead>" + htmlRow(t, 0, "th") + "</thead>")
		if n > 2 {
			b.WriteString("<tbody>")
			for i := 1; i < n-1; i++ {
				b.WriteString(htmlRow(t, i, "td"))
			}
			b.WriteString("</tbody>")
		}
		if n > 1 {
			b.WriteString("<tfoot>" + htmlRow(t, n-1, "td") + "</tfoot>")
		}
	case "throw": // first row of th cells, no sections
		b.WriteString(htmlRow(t, 0, "th"))
		for i := 1; i < n; i++ {
			b.WriteString(htmlRow(t, i, "td"))
		}
	case "plain": // no header at all, no sections
		for i := 0; i < n; i++ {
			b.WriteString(htmlRow(t, i, "td"))
		}
	case "tbody": // no header, one tbody
		b.WriteString("<tbody>")
		for i := 0; i < n; i++ {
			b.WriteString(htmlRow(t, i, "td"))
		}
		b.WriteString("</tbody>")
	default:
		panic("html mode " + t.HTMLMode)
	}
	b.WriteString("</table>")
	return b.String()
}

func htmlList(items []Item, depth int) (string, int) {
	var b strings.Builder
	tag := "ul"
	if items[0].Ordered {
		tag = "ol"
	}
	b.WriteString("<" + tag + ">")
	i := 0
	open := false
	for i < len(items) && items[i].Depth >= depth {
		if items[i].Depth == depth {
			if open {
				b.WriteString("</li>")
			}
			b.WriteString("<li>" + hesc(items[i].Text))
			open = true
			i++
			continue
		}
		sub, n := htmlList(items[i:], depth+1)
		if !open {
			b.WriteString("<li>")
			open = true
		}
		b.WriteString(sub)
		i += n
	}
	if open {
		b.WriteString("</li>")
	}
	b.WriteString("</" + tag + ">")
	return b.String(), i
}

func htmlBlocks(blocks []Block) string {
	var b strings.Builder
	for _, blk := range blocks {
		switch x := blk.(type) {
		case Heading:
			fmt.Fprintf(&b, "<h%d>%s</h%d>\n", x.Level, hesc(x.Text), x.Level)
		case Para:
			fmt.Fprintf(&b, "<p>%s</p>\n", hesc(x.Text))
		case *List:
			s, _ := htmlList(x.Items, 0)
			b.WriteString(s + "\n")
		case *Table:
			b.WriteString(htmlTable(x) + "\n")
		}
	}
	return b.String()
}

func renderHTML(w *work, d *Doc, o mdOpts) (string, map[string][]byte, error) {
	page := "<!DOCTYPE html>\n<html><head><meta charset=\"utf-8\"/><title>" + hesc(d.Title) + "</title></head>\n<body>\n" + htmlBlocks(d.Blocks) + "</body></html>\n"
	return w.viaFile("html", []byte(page), o)
}

func renderEpub(w *work, d *Doc, o mdOpts) (string, map[string][]byte, error) {
	// two chapters when the document has more than one block (the second chapter starts at the
	// middle block), otherwise one
	bk := epubw.Book{Title: d.Title, Author: "Verif", Language: "en", Identifier: "urn:uuid:verif-c15"}
	if len(d.Blocks) > 1 {
		m := len(d.Blocks) / 2
		bk.Chapters = []epubw.Chapter{{ID: "c1", NavLabel: "One", Body: htmlBlocks(d.Blocks[:m])}, {ID: "c2", NavLabel: "Two", Body: htmlBlocks(d.Blocks[m:])}}
	} else {
		bk.Chapters = []epubw.Chapter{{ID: "c1", NavLabel: "One", Body: htmlBlocks(d.Blocks)}}
	}
	return w.viaFile("epub", bk.Bytes(), o)
}
