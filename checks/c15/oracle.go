package main

import (
	"fmt"
	"regexp"
	"strings"

	"github.com/yuin/goldmark"
	"github.com/yuin/goldmark/ast"
	"github.com/yuin/goldmark/extension"
	east "github.com/yuin/goldmark/extension/ast"
	"github.com/yuin/goldmark/text"
)

// ---- reading the Markdown back (reference side) ------------------------------------------------

var gfm = goldmark.New(goldmark.WithExtensions(extension.GFM))

type mdHeading struct {
	Level int
	Raw   string // raw inline source of the heading
	ATX   bool
}

type mdTable struct {
	Rows [][]string // raw cell sources (trimmed by the parser), header row first
}

type mdItem struct {
	Depth   int // number of enclosing lists - 1
	Ordered bool
	Raw     string // first line of the item
}

type parsed struct {
	Headings []mdHeading
	Tables   []mdTable
	Items    []mdItem
	Paras    []string
}

func firstLine(n ast.Node, src []byte) string {
	if n == nil || n.Type() != ast.TypeBlock || n.Lines() == nil || n.Lines().Len() == 0 {
		return ""
	}
	s := n.Lines().At(0)
	return strings.TrimRight(string(s.Value(src)), "\r\n")
}

var atxPrefix = regexp.MustCompile(`^ {0,3}#{1,6}[ \t]+$`)

func parseMD(body string) *parsed {
	src := []byte(body)
	root := gfm.Parser().Parse(text.NewReader(src))
	p := &parsed{}
	ast.Walk(root, func(n ast.Node, entering bool) (ast.WalkStatus, error) {
		if !entering {
			return ast.WalkContinue, nil
		}
		switch x := n.(type) {
		case *ast.Heading:
			h := mdHeading{Level: x.Level, Raw: firstLine(x, src)}
			if x.Lines() != nil && x.Lines().Len() > 0 {
				seg := x.Lines().At(0)
				ls := strings.LastIndexByte(body[:seg.Start], '\n') + 1
				pre := body[ls:seg.Start]
				h.ATX = atxPrefix.MatchString(pre) && strings.Count(pre, "#") == x.Level
			}
			p.Headings = append(p.Headings, h)
		case *east.Table:
			var t mdTable
			for r := x.FirstChild(); r != nil; r = r.NextSibling() {
				var row []string
				for c := r.FirstChild(); c != nil; c = c.NextSibling() {
					row = append(row, firstLine(c, src))
				}
				t.Rows = append(t.Rows, row)
			}
			p.Tables = append(p.Tables, t)
			return ast.WalkSkipChildren, nil
		case *ast.ListItem:
			depth := -1
			for a := n.Parent(); a != nil; a = a.Parent() {
				if a.Kind() == ast.KindList {
					depth++
				}
			}
			it := mdItem{Depth: depth, Ordered: n.Parent().(*ast.List).IsOrdered()}
			if fc := n.FirstChild(); fc != nil {
				it.Raw = firstLine(fc, src)
			}
			p.Items = append(p.Items, it)
		case *ast.Paragraph:
			for i := 0; i < x.Lines().Len(); i++ {
				s := x.Lines().At(i)
				p.Paras = append(p.Paras, strings.TrimSpace(string(s.Value(src))))
			}
		}
		return ast.WalkContinue, nil
	})
	return p
}

// mdUnescape removes Markdown backslash escapes (a backslash before ASCII punctuation).
func mdUnescape(s string) string {
	var b strings.Builder
	for i := 0; i < len(s); i++ {
		if s[i] == '\\' && i+1 < len(s) && strings.IndexByte("!\"#$%&'()*+,-./:;<=>?@[\\]^_`{|}~", s[i+1]) >= 0 {
			i++
		}
		b.WriteByte(s[i])
	}
	return b.String()
}

var brTag = regexp.MustCompile(`(?i)<br\s*/?>`)

// normCell: a line break inside a cell may be rendered as <br> or as white space (weakest
// reading of "even when cells contain newlines": the cell stays one cell and keeps its words in
// order); runs of white space are not significant in a pipe-table cell.
func normCell(s string) string {
	s = brTag.ReplaceAllString(s, " ")
	return strings.Join(strings.Fields(s), " ")
}

// cellEqual: the raw cell source, read literally or with backslash escapes removed (which always
// includes the GFM rule "\|" -> "|"), equals the source text.
func cellEqual(src, raw string) bool {
	want := normCell(src)
	return normCell(raw) == want || normCell(mdUnescape(raw)) == want
}

// ---- stripping what the options add ------------------------------------------------------------

// stripFrontMatter removes a leading YAML front matter block ("---" ... "---").
func stripFrontMatter(md string) (string, bool) {
	if !strings.HasPrefix(md, "---\n") {
		return md, false
	}
	rest := md[4:]
	if strings.HasPrefix(rest, "---\n") {
		return rest[4:], true
	}
	i := strings.Index(rest, "\n---\n")
	if i < 0 {
		return md, false
	}
	return rest[i+5:], true
}

// stripTOC removes a generated table of contents: the line "## Table of Contents" up to and
// including the next line that consists of "---".
func stripTOC(md string) (string, bool) {
	lines := strings.Split(md, "\n")
	for i, l := range lines {
		if strings.TrimSpace(l) == "## Table of Contents" {
			for j := i + 1; j < len(lines); j++ {
				if strings.TrimSpace(lines[j]) == "---" {
					out := append(append([]string{}, lines[:i]...), lines[j+1:]...)
					return strings.Join(out, "\n"), true
				}
			}
			return md, false
		}
	}
	return md, false
}

// ---- verdicts ----------------------------------------------------------------------------------

type failure struct{ sig, detail string }

func failf(sig, f string, a ...interface{}) *failure { return &failure{sig, fmt.Sprintf(f, a...)} }

type mdOpts struct {
	API  string // "plain" = ToMarkdown(), "opts" = ToMarkdownWithOptions
	FM   bool
	TOC  bool
	Off  int
	Max  int
	Seps bool // rag only: chunk separators + page numbers + chunk ids
}

func clampLevel(level, off, max int) int {
	l := level + off
	hi := 6
	if max >= 1 && max < 6 {
		hi = max
	}
	if l > hi {
		l = hi
	}
	if l < 1 {
		l = 1
	}
	return l
}

type verdicts struct {
	body     string
	tables   []*failure // per source table
	headings []*failure // per source heading
	lists    []*failure // per source list
	tokens   *failure
	info     map[string]int64
}

var listLine = regexp.MustCompile(`^([ \t]*)([-*+]|[0-9]{1,9}[.)])[ \t]+(.*)$`)

func indentWidth(s string) int {
	w := 0
	for _, c := range s {
		if c == '\t' {
			w += 4 - w%4
		} else {
			w++
		}
	}
	return w
}

// judge compares the Markdown md with the logical document.
func judge(d *Doc, md string, o mdOpts) *verdicts {
	v := &verdicts{info: map[string]int64{}}
	body := md
	if o.FM {
		var ok bool
		if body, ok = stripFrontMatter(body); ok {
			v.info["front_matter_seen"]++
		}
	}
	if o.TOC {
		var ok bool
		if body, ok = stripTOC(body); ok {
			v.info["toc_seen"]++
		}
	}
	v.body = body
	p := parseMD(body)
	lines := strings.Split(body, "\n")

	// ---- tables: a source table is matched with the first unclaimed GFM table that carries one
	// of its tokens (a table without tokens: the first unclaimed GFM table without any token)
	allToks, _ := d.bodyTokens()
	claimed := make([]bool, len(p.Tables))
	find := func(t *Table) int {
		var toks []string
		for _, r := range t.Rows {
			for _, c := range r {
				toks = append(toks, c.Tokens...)
			}
		}
		has := func(g mdTable, set []string) bool {
			for _, r := range g.Rows {
				for _, cell := range r {
					for _, tk := range set {
						if strings.Contains(cell, tk) {
							return true
						}
					}
				}
			}
			return false
		}
		for g := range p.Tables {
			if claimed[g] {
				continue
			}
			if (len(toks) > 0 && has(p.Tables[g], toks)) || (len(toks) == 0 && !has(p.Tables[g], allToks)) {
				claimed[g] = true
				return g
			}
		}
		return -1
	}
	ti := 0
	hi := 0 // next candidate heading of the parse
	for _, b := range d.Blocks {
		switch x := b.(type) {
		case *Table:
			v.tables = append(v.tables, judgeTable(x, p, ti, find(x)))
			ti++
		case Heading:
			want := clampLevel(x.Level, o.Off, o.Max)
			var f *failure
			found := -1
			for k := hi; k < len(p.Headings); k++ {
				if strings.TrimSpace(p.Headings[k].Raw) == x.Text || strings.TrimSpace(mdUnescape(p.Headings[k].Raw)) == x.Text {
					found = k
					break
				}
			}
			switch {
			case found < 0:
				f = headingLost(x, want, lines)
			case !p.Headings[found].ATX:
				f = failf("heading-not-atx", "heading %q (source level %d) is read as a heading of level %d but not from an ATX line", x.Text, x.Level, p.Headings[found].Level)
				hi = found + 1
			case p.Headings[found].Level != want:
				got := p.Headings[found].Level
				sig := "heading-level"
				if got == clampLevel(x.Level, 0, 6) {
					sig = "heading-level:options-ignored"
				} else if got == clampLevel(x.Level, o.Off, 6) {
					sig = "heading-level:max-ignored"
				}
				f = failf(sig, "heading %q: source level %d, offset %+d, max %d => expected level %d, got %d", x.Text, x.Level, o.Off, o.Max, want, got)
				hi = found + 1
			default:
				hi = found + 1
			}
			v.headings = append(v.headings, f)
		case *List:
			v.lists = append(v.lists, judgeList(x, lines, p, v.info))
		}
	}
	// ---- body tokens exactly once
	toks, where := d.bodyTokens()
	for i, t := range toks {
		n := strings.Count(body, t)
		if n == 0 {
			v.tokens = failf("token-lost:"+where[i], "body token %q (%s) does not occur in the Markdown body", t, where[i])
			break
		}
		if n > 1 {
			v.tokens = failf("token-duplicated:"+where[i], "body token %q (%s) occurs %d times in the Markdown body", t, where[i], n)
			break
		}
	}
	return v
}

func headingLost(x Heading, want int, lines []string) *failure {
	for _, l := range lines {
		t := strings.TrimSpace(l)
		if t == x.Text {
			return failf("heading-as-text", "heading %q (source level %d, expected ATX level %d) appears as a plain text line", x.Text, x.Level, want)
		}
		if strings.HasPrefix(t, "#######") && strings.HasSuffix(t, x.Text) {
			return failf("heading-over-6", "heading %q (source level %d, expected ATX level %d) is written with more than six '#': %q", x.Text, x.Level, want, t)
		}
	}
	return failf("heading-lost", "heading %q (source level %d, expected ATX level %d) is not read back as a heading", x.Text, x.Level, want)
}

func judgeTable(t *Table, p *parsed, k, gi int) *failure {
	if gi < 0 {
		return failf("table-not-parsed", "source table #%d (%dx%d) is not read back as a GFM table (%d tables found)", k+1, t.R(), t.C(), len(p.Tables))
	}
	g := p.Tables[gi]
	if len(g.Rows) != t.R() {
		return failf("table-shape", "source table #%d has %d rows, GFM table has %d\n%s", k+1, t.R(), len(g.Rows), dumpGrid(g))
	}
	for i, row := range g.Rows {
		if len(row) != t.C() {
			return failf("table-shape", "source table #%d has %d columns, GFM row %d has %d\n%s", k+1, t.C(), i+1, len(row), dumpGrid(g))
		}
	}
	for i, row := range t.Rows {
		for j, c := range row {
			want := c.Text()
			if c.Covered {
				want = ""
			}
			if !cellEqual(want, g.Rows[i][j]) {
				kind := c.Kind
				if t.hasSpan() {
					kind = "span"
				}
				return failf("table-cell:"+kind, "table #%d cell (%d,%d) kind %s: source %q, read back %q\n%s", k+1, i+1, j+1, c.Kind, want, g.Rows[i][j], dumpGrid(g))
			}
		}
	}
	return nil
}

func dumpGrid(g mdTable) string {
	var b strings.Builder
	for _, r := range g.Rows {
		fmt.Fprintf(&b, "  %q\n", r)
	}
	return b.String()
}

// judgeList: the line-syntactic reading. Every item is exactly one line "indent marker text";
// the items' lines appear in source order; marker class = kind; indentation is a strictly
// monotone function of depth (equal depth <=> equal indentation, deeper => at least two more
// columns per level).
func judgeList(l *List, lines []string, p *parsed, info map[string]int64) *failure {
	type hit struct {
		line, indent int
		ordered      bool
	}
	hits := make([]hit, len(l.Items))
	from := 0
	for i, it := range l.Items {
		found := -1
		asText := -1
		for k := 0; k < len(lines); k++ {
			m := listLine.FindStringSubmatch(lines[k])
			if m != nil && (strings.TrimSpace(m[3]) == it.Text || strings.TrimSpace(mdUnescape(m[3])) == it.Text) {
				found = k
				hits[i] = hit{k, indentWidth(m[1]), m[2][0] >= '0' && m[2][0] <= '9'}
				break
			}
			if strings.Contains(lines[k], it.Text) && asText < 0 {
				asText = k
			}
		}
		if found < 0 {
			if asText >= 0 {
				return failf("list-item-not-a-list-line", "item %d %q (depth %d): its text is on line %q, which is not of the form 'indent marker text'", i+1, it.Text, it.Depth, lines[asText])
			}
			return failf("list-item-lost", "item %d %q (depth %d) does not occur", i+1, it.Text, it.Depth)
		}
		if found < from {
			return failf("list-order", "item %d %q is on line %d, before the preceding item (line %d)", i+1, it.Text, found+1, from)
		}
		from = found + 1
	}
	for i, it := range l.Items {
		if hits[i].ordered != it.Ordered {
			return failf("list-kind", "item %d %q (depth %d) is %s in the source but its marker is %q-class: %q", i+1, it.Text, it.Depth, kindName(it.Ordered), kindName(hits[i].ordered), lines[hits[i].line])
		}
	}
	for i := range l.Items {
		for j := range l.Items {
			di, dj := l.Items[i].Depth, l.Items[j].Depth
			if (di == dj && hits[i].indent != hits[j].indent) || (di < dj && hits[i].indent >= hits[j].indent) {
				return failf("list-indent", "items %d (depth %d, indent %d) and %d (depth %d, indent %d): indentation is not a strictly monotone function of depth", i+1, di, hits[i].indent, j+1, dj, hits[j].indent)
			}
			// the narrowest list marker ("- ") is two columns wide: an item indented by less than two
			// columns per level cannot be nested under its parent in any Markdown dialect
			if di < dj && hits[j].indent-hits[i].indent < 2*(dj-di) {
				return failf("list-indent", "items %d (depth %d, indent %d) and %d (depth %d, indent %d): less than two columns of indentation per level", i+1, di, hits[i].indent, j+1, dj, hits[j].indent)
			}
		}
	}
	// information only: does goldmark's block structure agree on depth and kind?
	agree := true
	for _, it := range l.Items {
		ok := false
		for _, g := range p.Items {
			if strings.TrimSpace(g.Raw) == it.Text {
				ok = g.Depth == it.Depth && g.Ordered == it.Ordered
				break
			}
		}
		if !ok {
			agree = false
		}
	}
	if agree {
		info["lists_goldmark_nesting_agrees"]++
	} else {
		info["lists_goldmark_nesting_differs"]++
	}
	return nil
}

func kindName(ordered bool) string {
	if ordered {
		return "ordered"
	}
	return "unordered"
}
