// C04 — Object lookup returns the newest revision, in any access order.
// Every revision history up to a bound is written as an incrementally updated PDF; for each one the
// reader's cache state space is explored breadth-first (explicit-state search on the real reader,
// successor = replay of the shortest path on a fresh reader + one operation) and every lookup in
// every reachable state is compared with a newest-wins map.
package main

import (
	"fmt"
	"os"
	"path/filepath"
	"sort"
	"strings"

	"github.com/tsawler/tabula/core"
	"github.com/tsawler/tabula/reader"
	"github.com/tsawler/tabula/resolver"
	"verif/internal/gen/pdfw"
	"verif/internal/harness"
)

func main() { harness.Main("C04", "model_checking", run) }


type op struct {
	kind string // get | resolve | deep | rdeep | clear
	num  int
}

func (o op) String() string {
	if o.kind == "clear" || o.kind == "deep" || o.kind == "rdeep" {
		return o.kind
	}
	return fmt.Sprintf("%s(%d)", o.kind, o.num)
}

func run(e *harness.Env) {
	e.Rule = "revision histories: per revision and data object one of {untouched, set fresh value, delete}, xref kind per revision {table, stream}, " +
		"object-stream membership per set object in stream revisions, reuse of the previous object-stream number, numbering {data objects above / below catalog+pages}, object 0 {untouched, rewritten} in updates that free; two plain histories are explored around: every object defined once in revision 0, and (configs ending in d) every object rewritten in every revision; quick: n=2 objects, r<=2 full product + n=2,r=3 and n=3,r=2 with <=4 deviations from the define-once history + n=3,r=3 (<=2) and n=2,r=4 (<=1) around the rewrite-all history; " +
		"thorough: n=2,r=3 full product and n=3,r<=2 full product, n=3,r=3 <=3 deviations around both plain histories, n=2,r=4 (<=3) and n=4,r=3 (<=2) around rewrite-all. For every history: BFS over reader cache states, ops {GetObject(k) incl. undefined k, Resolve(ref), " +
		"Reader.ResolveDeep(all refs), resolver.ResolveDeep(all refs), ClearCache}; a state = (set of numbers looked up since the last clear, CacheSize, ObjectStreamCacheSize). " +
		"non-trivial = history with at least one non-default choice"
	e.Assumptions = []string{"internal/gen/pdfw writes well-formed incremental updates (self-validated offsets)", "reference model: map folded oldest->newest; free or absent => error"}
	dir := harness.Scratch()
	defer os.RemoveAll(dir)
	path := filepath.Join(dir, "hist.pdf")

	type cfg struct {
		name  string
		n, r  int
		bound int
		dense bool // plain history = every data object rewritten in every revision (instead of defined once)
	}
	var cfgs []cfg
	if e.Thorough() {
		cfgs = []cfg{{"n2r1", 2, 1, -1, false}, {"n2r2", 2, 2, -1, false}, {"n2r3", 2, 3, -1, false}, {"n3r2", 3, 2, -1, false}, {"n3r3", 3, 3, 3, false},
			{"n3r3d", 3, 3, 3, true}, {"n2r4d", 2, 4, 3, true}, {"n4r3d", 4, 3, 2, true}}
	} else {
		cfgs = []cfg{{"n2r1", 2, 1, -1, false}, {"n2r2", 2, 2, -1, false}, {"n2r3", 2, 3, 4, false}, {"n3r2", 3, 2, 4, false},
			{"n3r3d", 3, 3, 2, true}, {"n2r4d", 2, 4, 1, true}}
	}
	for _, cf := range cfgs {
		cf := cf
		e.Explore("hist="+cf.name, cf.bound, func(c *harness.Ctx) {
			n, r := cf.n, cf.r
			// numbering: "high" = catalog 1, pages 2, data objects from 3; "low" = data objects 1..n (so that
			// sections can begin at object 1 and the lowest numbers are added/replaced/freed), catalog and pages after them
			firstData, catNum, pagesNum := 3, 1, 2
			if c.PickS("numbering", "high", "low") == "low" {
				firstData, catNum, pagesNum = 1, n+1, n+2
			}
			model := map[int]string{} // live objects -> serialized value
			defined := map[int]bool{} // has any entry (live or free)
			var revs []pdfw.Revision
			lenNum := n + 3 // an integer object (value 6) that stream-valued objects name as their /Length
			next := n + 4   // numbers for xref streams / object streams
			undefinedNum := n + 43
			lastObjStm := 0
			inStm := map[int]bool{} // numbers whose newest definition lives in object stream lastObjStm
			for ri := 0; ri < r; ri++ {
				rev := pdfw.Revision{XRef: c.PickS(fmt.Sprintf("x%d", ri), "table", "stream")}
				if ri == 0 {
					rev.Objs = append(rev.Objs,
						pdfw.Obj{Num: catNum, Body: fmt.Sprintf("<< /Type /Catalog /Pages %d 0 R >>", pagesNum)},
						pdfw.Obj{Num: pagesNum, Body: "<< /Type /Pages /Kids [] /Count 0 >>"})
					// the two structural objects are looked up like any other (they live in the oldest revision only)
					rev.Objs = append(rev.Objs, pdfw.Obj{Num: lenNum, Body: "6"})
					model[lenNum] = "6"
					defined[lenNum] = true
					model[catNum] = "<< /Type /Catalog >>"
					model[pagesNum] = "<< /Type /Pages >>"
					defined[catNum], defined[pagesNum] = true, true
				}
				packedAny := false
				touched := map[int]bool{}
				nowPacked := map[int]bool{}
				for k := 0; k < n; k++ {
					num := firstData + k
					// revision 0 defaults to "set" so that the plain history defines everything once
					var act string
					if ri == 0 || cf.dense {
						act = c.PickS(fmt.Sprintf("a%d.%d", ri, num), "set", "none", "del")
					} else {
						act = c.PickS(fmt.Sprintf("a%d.%d", ri, num), "none", "set", "del")
					}
					if act != "none" {
						touched[num] = true
					}
					switch act {
					case "set":
						val := fmt.Sprintf("(v%d-%d)", ri, num)
						if (ri+k)%2 == 1 {
							val = fmt.Sprintf("<< /Rev %d /Num %d /Cat %d 0 R >>", ri, num, catNum)
						}
						o := pdfw.Obj{Num: num, Body: val}
						if (ri+k)%3 == 2 {
							// a stream whose /Length is an indirect reference: loading it re-enters the reader for
							// the length object while the stream object is still being parsed
							data := fmt.Sprintf("S%d-%03d", ri%10, num%1000)
							val = "stream:" + data
							o = pdfw.Obj{Num: num, Stream: &pdfw.Stream{Data: []byte(data), LengthRef: lenNum}}
						}
						if rev.XRef == "stream" && o.Stream == nil {
							if c.PickS(fmt.Sprintf("p%d.%d", ri, num), "plain", "objstm") == "objstm" {
								o.InObjStm = true
								packedAny = true
								nowPacked[num] = true
							}
						}
						rev.Objs = append(rev.Objs, o)
						model[num] = val
						defined[num] = true
					case "del":
						rev.Free = append(rev.Free, num)
						delete(model, num)
						defined[num] = true
					}
				}
				if rev.XRef == "stream" {
					rev.XRefNum = next
					next++
					if packedAny {
						if lastObjStm != 0 && c.PickS(fmt.Sprintf("reuse%d", ri), "fresh", "same-number") == "same-number" {
							// the container is replaced under its old number: a well-formed update carries the
							// still-live members of the old container over into the new one
							rev.ObjStmNum = lastObjStm
							for k := 0; k < n; k++ {
								num := firstData + k
								if inStm[num] && !touched[num] {
									rev.Objs = append(rev.Objs, pdfw.Obj{Num: num, Body: model[num], InObjStm: true})
									nowPacked[num] = true
								}
							}
						} else {
							rev.ObjStmNum = next
							next++
							for k := range inStm {
								_ = k
							}
						}
						if rev.ObjStmNum != lastObjStm {
							// members of the previous container keep pointing at it (it is untouched)
							lastObjStm = rev.ObjStmNum
							inStm = map[int]bool{}
						} else {
							inStm = map[int]bool{}
						}
						for k := range nowPacked {
							inStm[k] = true
						}
						rev.FlateObjStm = ri%2 == 1
					}
				}
				for num := range touched {
					if !nowPacked[num] {
						delete(inStm, num)
					}
				}
				if ri > 0 && len(rev.Free) > 0 {
					// a writer that maintains the free list rewrites object 0 when it frees an object; many do not
					rev.RewriteZero = c.PickS(fmt.Sprintf("zero%d", ri), "untouched", "rewritten") == "rewritten"
				}
				if len(rev.Objs) == 0 && len(rev.Free) == 0 {
					rev.Objs = append(rev.Objs, pdfw.Obj{Num: next, Body: "(pad)"})
					next++
				}
				revs = append(revs, rev)
			}
			if !c.Counted() {
				return
			}
			e.Begin(c.Desc())
			built := pdfw.Build(pdfw.File{Root: catNum, Revs: revs, EOL: "\n"})
			if err := os.WriteFile(path, built.Bytes, 0o644); err != nil {
				panic(err)
			}
			nums := []int{}
			for k := 0; k < n; k++ {
				nums = append(nums, firstData+k)
			}
			nums = append(nums, lenNum, catNum, pagesNum, undefinedNum)
			var sig, det string
			var states, trans int
			psig, pdet := harness.Guard(func() { sig, det, states, trans = explore(path, nums, model) })
			if psig != "" {
				sig, det = psig, pdet
			}
			e.Add("states", int64(states))
			e.Add("transitions", int64(trans))
			e.Add("traces_validated_against_impl", int64(trans))
			e.Max("max_states_per_history", int64(states))
			if sig != "" {
				c.Fail(sig, det, map[string][]byte{"pdf": built.Bytes})
				return
			}
			live := len(model) - 3 // data objects only
			c.Pass(fmt.Sprintf("live=%d/%d states=%d", live, n, states))
		})
	}
}

// explore runs the BFS over reader states for one file.
func explore(path string, nums []int, model map[int]string) (sig, detail string, states, trans int) {
	var ops []op
	for _, k := range nums {
		ops = append(ops, op{"get", k})
	}
	for _, k := range nums {
		ops = append(ops, op{"resolve", k})
	}
	ops = append(ops, op{"deep", 0}, op{"rdeep", 0}, op{"clear", 0})

	type node struct{ path []op }
	seen := map[string]bool{}
	queue := []node{{nil}}
	seen[stateKey(nil, 0, 0)] = true
	states = 1
	for len(queue) > 0 {
		cur := queue[0]
		queue = queue[1:]
		for _, o := range ops {
			r, err := reader.Open(path)
			if err != nil {
				return "open-error", err.Error(), states, trans
			}
			// replay the path; every step was already checked when it was first taken
			var looked []int
			for _, p := range cur.path {
				apply(r, p, nums, &looked)
			}
			res, rerr := apply(r, o, nums, &looked)
			trans++
			if s, d := judge(o, res, rerr, nums, model); s != "" {
				r.Close()
				return s, fmt.Sprintf("after %v: %s -> %s", cur.path, o, d), states, trans
			}
			key := stateKey(looked, r.CacheSize(), r.ObjectStreamCacheSize())
			r.Close()
			if !seen[key] {
				seen[key] = true
				states++
				if len(cur.path) < 8 {
					queue = append(queue, node{append(append([]op{}, cur.path...), o)})
				}
			}
		}
	}
	return "", "", states, trans
}

func stateKey(looked []int, c, oc int) string {
	s := append([]int{}, looked...)
	sort.Ints(s)
	var u []int
	for i, v := range s {
		if i == 0 || v != s[i-1] {
			u = append(u, v)
		}
	}
	return fmt.Sprintf("%v|%d|%d", u, c, oc)
}

func refsOf(nums []int, only map[int]string) core.Array {
	var a core.Array
	for _, k := range nums {
		if only != nil {
			if _, ok := only[k]; !ok {
				continue
			}
		}
		a = append(a, core.IndirectRef{Number: k})
	}
	return a
}

// apply performs one operation on the live reader.
func apply(r *reader.Reader, o op, nums []int, looked *[]int) (core.Object, error) {
	switch o.kind {
	case "get":
		obj, err := r.GetObject(o.num)
		if err == nil {
			*looked = append(*looked, o.num)
		}
		return obj, err
	case "resolve":
		obj, err := r.Resolve(core.IndirectRef{Number: o.num})
		if err == nil {
			*looked = append(*looked, o.num)
		}
		return obj, err
	case "deep":
		// all data refs, live or not
		obj, err := r.ResolveDeep(refsOf(nums, nil))
		if err == nil {
			*looked = append(*looked, nums...)
		}
		return obj, err
	case "rdeep":
		obj, err := resolver.NewResolver(r).ResolveDeep(refsOf(nums, nil))
		if err == nil {
			*looked = append(*looked, nums...)
		}
		return obj, err
	case "clear":
		r.ClearCache()
		*looked = (*looked)[:0]
		return nil, nil
	}
	panic("unknown op")
}

// render gives a canonical text for a parsed value of the small value alphabet used here.
func render(o core.Object) string {
	switch v := o.(type) {
	case *core.Stream:
		return "stream:" + string(v.Data)
	case core.String:
		return "(" + string(v) + ")"
	case core.Dict:
		if t, ok := v.Get("Type").(core.Name); ok {
			return "<< /Type /" + string(t) + " >>"
		}
		return fmt.Sprintf("<< /Rev %v /Num %v /Cat %s >>", v.Get("Rev"), v.Get("Num"), render(v.Get("Cat")))
	case core.IndirectRef:
		return fmt.Sprintf("%d %d R", v.Number, v.Generation)
	case core.Int:
		return fmt.Sprint(int(v))
	case core.Null:
		return "null"
	case nil:
		return "nil"
	}
	return fmt.Sprintf("%T:%v", o, o)
}

func want(k int, model map[int]string) (string, bool) {
	v, ok := model[k]
	return strings.ReplaceAll(v, " 0 R", " 0 R"), ok
}

func judge(o op, res core.Object, err error, nums []int, model map[int]string) (sig, detail string) {
	switch o.kind {
	case "get":
		w, live := want(o.num, model)
		if !live {
			if err == nil {
				return "lookup-of-dead-object-succeeds", fmt.Sprintf("GetObject(%d) = %s, want an error (newest entry free or never defined)", o.num, render(res))
			}
			return "", ""
		}
		if err != nil {
			return "lookup-of-live-object-fails", fmt.Sprintf("GetObject(%d): %v, want %s", o.num, err, w)
		}
		if !sameValue(res, w) {
			return "lookup-returns-wrong-revision", fmt.Sprintf("GetObject(%d) = %s, want %s", o.num, render(res), w)
		}
	case "resolve":
		w, live := want(o.num, model)
		if !live {
			// ISO 32000 allows a dangling reference to read as null; a stale value is never right
			if err == nil {
				if _, isNull := res.(core.Null); !isNull && res != nil {
					return "resolve-of-dead-ref-returns-value", fmt.Sprintf("Resolve(%d 0 R) = %s, want an error or null", o.num, render(res))
				}
			}
			return "", ""
		}
		if err != nil {
			return "resolve-of-live-ref-fails", fmt.Sprintf("Resolve(%d 0 R): %v, want %s", o.num, err, w)
		}
		if !sameValue(res, w) {
			return "resolve-returns-wrong-revision", fmt.Sprintf("Resolve(%d 0 R) = %s, want %s", o.num, render(res), w)
		}
	case "deep", "rdeep":
		anyDead := false
		for _, k := range nums {
			if _, ok := model[k]; !ok {
				anyDead = true
			}
		}
		if err != nil {
			if anyDead {
				return "", ""
			}
			return o.kind + "-fails-on-live-refs", err.Error()
		}
		arr, ok := res.(core.Array)
		if !ok || len(arr) != len(nums) {
			return o.kind + "-shape", fmt.Sprintf("got %s", render(res))
		}
		for i, k := range nums {
			w, live := want(k, model)
			el := arr[i]
			if o.kind == "rdeep" || o.kind == "deep" {
				// the dict values contain a self reference; deep resolution may expand or keep it: compare Rev/Num only
			}
			if !live {
				if _, isNull := el.(core.Null); !isNull && el != nil {
					if _, isRef := el.(core.IndirectRef); !isRef {
						return o.kind + "-dead-ref-returns-value", fmt.Sprintf("element %d (object %d) = %s, want null/error", i, k, render(el))
					}
				}
				continue
			}
			if !sameValue(el, w) {
				return o.kind + "-returns-wrong-revision", fmt.Sprintf("element %d (object %d) = %s, want %s", i, k, render(el), w)
			}
		}
	}
	return "", ""
}

// sameValue compares ignoring how the /Self reference inside dict values was (or was not) expanded.
func sameValue(o core.Object, w string) bool {
	switch v := o.(type) {
	case *core.Stream:
		return "stream:"+string(v.Data) == w
	case core.Int:
		return fmt.Sprint(int(v)) == w
	case core.String:
		return "("+string(v)+")" == w
	case core.Dict:
		if strings.HasPrefix(w, "<< /Type /") {
			t, ok := v.Get("Type").(core.Name)
			return ok && w == "<< /Type /"+string(t)+" >>"
		}
		rev, ok1 := v.Get("Rev").(core.Int)
		num, ok2 := v.Get("Num").(core.Int)
		return ok1 && ok2 && strings.HasPrefix(w, fmt.Sprintf("<< /Rev %d /Num %d ", int(rev), int(num)))
	}
	return false
}
