package main

import (
	"fmt"
	"strings"

	"github.com/tsawler/tabula/rag"
)

// clauses of the property statement, each judged (and reported) separately so that a known
// finding about one clause cannot hide a violation of another
var clauses = []string{"cover", "text", "index", "ids", "total", "pages", "path"}

type verdict struct {
	sig, detail string
}

type judged struct {
	bad     map[string]verdict // clause -> failure
	outcome string
	dump    string
}

// judge compares the chunks with the reference model.
//   - layoutView: the chunker under test is the layout-based rag.Chunker: section headings are not
//     part of Chunk.Text there but are carried as SectionTitle / SectionPath (and the "[title]" prefix of
//     TextWithContext); a section heading counts as covered, at the position of the first chunk
//     whose SectionPath introduces it.
func judge(b *built, chunks []*rag.Chunk, layoutView bool) judged {
	j := judged{bad: map[string]verdict{}}
	n := len(chunks)

	// ---- tokens per chunk ------------------------------------------------------------------
	perChunk := make([][]string, n)
	var observed []string
	var prevPath []string
	var prevChain []int
	var stream []byte // the concatenated chunk texts without white space (for the layout view: with the section headings where they are introduced)
	for i, c := range chunks {
		toks := scanTokens(c.Text)
		perChunk[i] = toks
		if layoutView {
			inText := map[string]bool{}
			for _, t := range toks {
				inText[t] = true
			}
			p := c.Metadata.SectionPath
			// the section instance the chunk's content belongs to (two sections may carry the same heading text)
			var chain []int
			for _, t := range toks {
				if ei, ok := b.tokElem[t]; ok {
					chain = b.elems[ei].chain
					break
				}
			}
			cp := 0
			for cp < len(p) && cp < len(prevPath) && p[cp] == prevPath[cp] &&
				(chain == nil || prevChain == nil || cp >= len(chain) || cp >= len(prevChain) || chain[cp] == prevChain[cp]) {
				cp++
			}
			prevChain = chain
			for _, h := range p[cp:] {
				for _, t := range scanTokens(h) {
					if !inText[t] {
						observed = append(observed, t)
					}
				}
				stream = stripSpace(stream, h)
			}
			prevPath = p
		}
		observed = append(observed, toks...)
		stream = stripSpace(stream, c.Text)
	}

	// ---- cover: every token exactly once, in document order -------------------------------
	if v, ok := b.cover(observed); !ok {
		j.bad["cover"] = v
	}

	// ---- text: every source text whose words are all there (once) appears verbatim, white space aside ----
	{
		count := map[string]int{}
		for _, t := range observed {
			count[t]++
		}
		hay := string(stream)
		for _, u := range b.units {
			whole := true
			for _, t := range u.toks {
				if count[t] != b.expCount[t] {
					whole = false // lost / repeated words are the cover clause's business
					break
				}
			}
			if !whole {
				continue
			}
			want := string(stripSpace(nil, u.text))
			if !strings.Contains(hay, want) {
				around := ""
				if i := strings.Index(hay, u.toks[0]); i >= 0 {
					end := i + len(want) + 24
					if end > len(hay) {
						end = len(hay)
					}
					around = hay[i:end]
				}
				if len(want) > 120 {
					want = want[:120] + "…"
				}
				if len(around) > 160 {
					around = around[:160] + "…"
				}
				j.bad["text"] = verdict{"garbled:" + kindClass[u.k], fmt.Sprintf("the %s text %q does not occur verbatim (white space aside) in the chunk texts; they have %q", kindName[u.k], want, around)}
				break
			}
		}
	}

	// ---- index / ids / total ---------------------------------------------------------------
	for i, c := range chunks {
		if c.Metadata.ChunkIndex != i {
			j.bad["index"] = verdict{"index-not-sequential", fmt.Sprintf("chunk at position %d has ChunkIndex %d (n=%d)", i, c.Metadata.ChunkIndex, n)}
			break
		}
	}
	seen := map[string]int{}
	for i, c := range chunks {
		if p, dup := seen[c.ID]; dup {
			j.bad["ids"] = verdict{"duplicate-id", fmt.Sprintf("chunks %d and %d share ID %q", p, i, c.ID)}
			break
		}
		seen[c.ID] = i
	}
	for i, c := range chunks {
		if c.Metadata.TotalChunks != n {
			j.bad["total"] = verdict{"total-not-n", fmt.Sprintf("chunk %d reports TotalChunks=%d, n=%d", i, c.Metadata.TotalChunks, n)}
			break
		}
	}

	// ---- pages and section path, per chunk -------------------------------------------------
	maxDepth := 0
	occ := map[string]int{} // occurrences of a word seen so far in the chunk texts (the n-th occurrence belongs to the n-th element that has the word)
	for i, c := range chunks {
		toks := perChunk[i]
		if len(c.Metadata.SectionPath) > maxDepth {
			maxDepth = len(c.Metadata.SectionPath)
		}
		var els []int // distinct elements this chunk has content of, in order of first appearance
		inEls := map[int]bool{}
		for _, t := range toks {
			owners, ok := b.tokElems[t]
			if !ok {
				continue
			}
			k := occ[t]
			occ[t]++
			if k >= len(owners) {
				k = len(owners) - 1
			}
			if ei := owners[k]; !inEls[ei] {
				inEls[ei] = true
				els = append(els, ei)
			}
		}
		if len(els) == 0 {
			continue // a chunk without document content: nothing to compare with
		}
		ps, pe := c.Metadata.PageStart, c.Metadata.PageEnd
		if _, done := j.bad["pages"]; !done {
			for _, ei := range els {
				e := b.elems[ei]
				if e.pageNo < ps || e.pageNo > pe {
					j.bad["pages"] = verdict{"pages:content-outside-range", fmt.Sprintf("chunk %d reports pages %d-%d but contains %s content (%s) of page %d", i, ps, pe, kindName[e.k], e.toks[0], e.pageNo)}
					break
				}
			}
		}
		if _, done := j.bad["pages"]; !done {
			// the range must stay on the pages of the enclosing section (weak reading: the
			// innermost section enclosing all of the chunk's content, subsections included)
			lo, hi := b.elems[els[0]].spanLo, b.elems[els[0]].spanHi
			for _, ei := range els[1:] {
				if b.elems[ei].spanLo < lo {
					lo = b.elems[ei].spanLo
				}
				if b.elems[ei].spanHi > hi {
					hi = b.elems[ei].spanHi
				}
			}
			if ps < lo || pe > hi || ps > pe {
				j.bad["pages"] = verdict{"pages:range-outside-section", fmt.Sprintf("chunk %d (%s..) reports pages %d-%d, its section lies on pages %d-%d", i, toks[0], ps, pe, lo, hi)}
			}
		}
		if _, done := j.bad["pages"]; !done {
			// exactly the pages of the elements whose words the chunk holds. Layout view: the chunk's
			// section heading (SectionTitle, "[title]" prefix of TextWithContext) may be counted as part of it.
			cmin, cmax := b.elems[els[0]].pageNo, b.elems[els[0]].pageNo
			for _, ei := range els[1:] {
				if p := b.elems[ei].pageNo; p < cmin {
					cmin = p
				} else if p > cmax {
					cmax = p
				}
			}
			exact := ps == cmin && pe == cmax
			if !exact && layoutView {
				if sh := b.elems[els[0]].sect; sh >= 0 {
					hp := b.elems[sh].pageNo
					lo2, hi2 := cmin, cmax
					if hp < lo2 {
						lo2 = hp
					}
					if hp > hi2 {
						hi2 = hp
					}
					exact = ps == lo2 && pe == hi2
				}
			}
			if !exact {
				j.bad["pages"] = verdict{"pages:range-wider-than-content", fmt.Sprintf("chunk %d (%s..) reports pages %d-%d, the elements whose words it holds lie on pages %d-%d", i, toks[0], ps, pe, cmin, cmax)}
			}
		}
		if _, done := j.bad["path"]; !done {
			got := trimAll(c.Metadata.SectionPath)
			okAll := true
			var want []string
			var wk kind
			for _, ei := range els {
				e := b.elems[ei]
				want, wk = e.path, e.k
				if eqPath(got, e.path) {
					continue
				}
				// a chunk made of a section heading itself may or may not list that heading
				if e.sectHead && len(e.path) > 0 && eqPath(got, e.path[:len(e.path)-1]) {
					continue
				}
				okAll = false
				break
			}
			if !okAll {
				j.bad["path"] = verdict{"path-mismatch", fmt.Sprintf("chunk %d (%s content %s..) has SectionPath %q, enclosing headings are %q", i, kindName[wk], toks[0], got, want)}
			}
		}
	}

	// ---- outcome class + dump --------------------------------------------------------------
	split := "plain"
	for i := range chunks {
		for _, t := range perChunk[i] {
			if ei, ok := b.tokElem[t]; ok && b.elems[ei].k == kLP {
				split = "longpara"
			}
		}
	}
	j.outcome = fmt.Sprintf("chunks=%s depth=%d %s", bucket(n), maxDepth, split)
	var sb strings.Builder
	sb.WriteString(b.dump.String())
	fmt.Fprintf(&sb, "chunks: %d\n", n)
	for i, c := range chunks {
		t := strings.ReplaceAll(c.Text, "\n", "\\n")
		if len(t) > 160 {
			t = t[:70] + " ... " + t[len(t)-70:]
		}
		fmt.Fprintf(&sb, "  [%d] id=%s idx=%d total=%d pages=%d-%d path=%q text=%q\n", i, c.ID, c.Metadata.ChunkIndex, c.Metadata.TotalChunks, c.Metadata.PageStart, c.Metadata.PageEnd, c.Metadata.SectionPath, t)
	}
	j.dump = sb.String()
	return j
}

func bucket(n int) string {
	switch {
	case n <= 3:
		return fmt.Sprint(n)
	case n <= 6:
		return "4-6"
	case n <= 12:
		return "7-12"
	}
	return "13+"
}

func trimAll(p []string) []string {
	out := make([]string, len(p))
	for i, s := range p {
		out[i] = strings.TrimSpace(s)
	}
	return out
}

func eqPath(a, b []string) bool {
	if len(a) != len(b) {
		return false
	}
	for i := range a {
		if a[i] != b[i] {
			return false
		}
	}
	return true
}

// cover decides "every token exactly once and in document order".
func (b *built) cover(observed []string) (verdict, bool) {
	if len(observed) == len(b.expected) {
		same := true
		for i := range observed {
			if observed[i] != b.expected[i] {
				same = false
				break
			}
		}
		if same {
			return verdict{}, true
		}
	}
	count := map[string]int{}
	for _, t := range observed {
		count[t]++
	}
	for _, t := range observed {
		if _, ok := b.tokElem[t]; !ok {
			return verdict{"invented-token", fmt.Sprintf("token %s is not in the document", t)}, false
		}
	}
	var lost []string
	done := map[string]bool{}
	for _, t := range b.expected {
		if count[t] < b.expCount[t] && !done[t] {
			lost = append(lost, t)
			done[t] = true
		}
	}
	if len(lost) > 0 {
		e := b.elems[b.tokElem[lost[0]]]
		return verdict{"lost:" + kindClass[e.k], fmt.Sprintf("%d of %d words missing from the chunk texts; first: %s of the %s on page %d; all: %s", len(lost), len(b.expected), lost[0], kindName[e.k], e.pageNo, abbrev(lost))}, false
	}
	var dup []string
	done = map[string]bool{}
	for _, t := range b.expected {
		if count[t] > b.expCount[t] && !done[t] {
			dup = append(dup, t)
			done[t] = true
		}
	}
	if len(dup) > 0 {
		e := b.elems[b.tokElem[dup[0]]]
		return verdict{"repeated:" + kindClass[e.k], fmt.Sprintf("%d words occur more often than in the document; first: %s of the %s on page %d (%d times); all: %s", len(dup), dup[0], kindName[e.k], e.pageNo, count[dup[0]], abbrev(dup))}, false
	}
	// same multiset, different order: name the first displaced element
	for i := range observed {
		if observed[i] != b.expected[i] {
			e := b.elems[b.tokElem[b.expected[i]]]
			g := b.elems[b.tokElem[observed[i]]]
			return verdict{"out-of-order", fmt.Sprintf("position %d: expected %s (%s, page %d), found %s (%s, page %d)", i, b.expected[i], kindName[e.k], e.pageNo, observed[i], kindName[g.k], g.pageNo)}, false
		}
	}
	return verdict{"out-of-order", "sequence differs"}, false
}

func abbrev(t []string) string {
	if len(t) > 12 {
		return strings.Join(t[:6], " ") + " ... " + strings.Join(t[len(t)-3:], " ")
	}
	return strings.Join(t, " ")
}
