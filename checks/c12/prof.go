package main

import (
	"os"
	"runtime/pprof"
)

func startProf() func() {
	p := os.Getenv("C12_PROF")
	if p == "" {
		return func() {}
	}
	f, _ := os.Create(p)
	pprof.StartCPUProfile(f)
	return func() { pprof.StopCPUProfile(); f.Close() }
}

// failLog (development aid): C12_FAILLOG=<file> appends "signature<TAB>descriptor" of every failing clause.
func failLog(sig, desc string) {
	p := os.Getenv("C12_FAILLOG")
	if p == "" {
		return
	}
	if f, err := os.OpenFile(p, os.O_APPEND|os.O_CREATE|os.O_WRONLY, 0o644); err == nil {
		f.WriteString(sig + "\t" + desc + "\n")
		f.Close()
	}
}
