package main

// Document generator + reference model for C12.
//
// A logical document is a list of pages, each a list of element kinds. Every word of every
// element is a unique token "tNNNNNx", so that "exactly once, in document order" is decidable
// by comparing token sequences. The same logical document is materialised in the two views the
// two chunkers read: Page.Elements (ordered; read by rag.DocumentChunker) and Page.Layout
// (typed lists Headings / Paragraphs / Lists; read by rag.Chunker).

import (
	"fmt"
	"strings"

	"github.com/tsawler/tabula/model"
)

type kind int

const (
	kH1 kind = iota
	kH2
	kH3
	kH4
	kP  // short paragraph: one word without punctuation at even positions of a page, a 3-word sentence at odd ones
	kLP // paragraph several times the maximum chunk size
	kIP // list-intro paragraph (ends with a colon)
	kFL // flat list, 3 items
	kNL // nested list, 5 items, levels 0,1,2,1,0
	kTB // table; 2x2 unless docSpec.tbShape names another entry of tableShapes
	kIA // image with alt text
	kIN // image without alt text
	nKinds
)

var kindName = [...]string{"H1", "H2", "H3", "H4", "P", "LP", "IP", "FL", "NL", "TB", "IA", "IN"}

// class of content a token belongs to (used in failure signatures)
var kindClass = [...]string{"heading", "heading", "heading", "heading", "para", "longpara", "intro", "listitem", "nesteditem", "cell", "alt", "-"}

func (k kind) isHeading() bool { return k <= kH4 }
func (k kind) level() int      { return int(k) + 1 }
func (k kind) isPara() bool    { return k == kP || k == kLP || k == kIP }
func (k kind) isList() bool    { return k == kFL || k == kNL }

// what the layout view (model.PageLayout) can represent
func (k kind) inLayout() bool { return k.isHeading() || k.isPara() || k.isList() }

type elemInfo struct {
	k       kind
	pageIdx int // index into doc.Pages
	pageNo  int // Page.Number
	toks    []string
	text    string // heading text
	// reference model
	path     []string // heading stack at this element; for a section-forming heading it includes the heading itself
	sect     int      // element index of the innermost enclosing section-forming heading (itself for such a heading), -1: preamble
	spanLo   int      // first page number of the enclosing section (subsections included)
	spanHi   int      // last page number of the enclosing section (subsections included)
	sectHead bool     // heading that forms a section under the chosen MinHeadingLevel
	chain    []int    // element indices of the enclosing section headings (same length as path)
}

type built struct {
	doc      *model.Document
	elems    []elemInfo
	expected []string         // all tokens in document order
	tokElem  map[string]int   // token -> (first) element index
	tokElems map[string][]int // token -> every element that has it, in document order (several only for repeated heading texts)
	expCount map[string]int   // token -> number of occurrences in the document
	units    []unit           // every piece of source text a chunker renders as a whole
	dump     strings.Builder
}

// unit is one source text (a heading, a paragraph, one list item, one table cell, one alt text) that must
// appear verbatim (white space aside) in the chunk texts.
type unit struct {
	k    kind
	text string
	toks []string
}

type docSpec struct {
	pages   [][]kind // content pages
	empty   int      // -1 none; else index at which an empty page is inserted (0..len(pages))
	pnumOff int      // Page.Number = index+1+pnumOff
	hrep    string   // "elem": headings are *model.Heading elements; "toc": headings are *model.Paragraph elements matched by Layout.Headings
	layout  bool     // fill Page.Layout (always true for hrep=toc)
	lpToks  int      // number of words in a long paragraph
	tbShape string   // shape of every table element (tableShapes; "" = 2x2)
	deco    string   // characters appended to every word (decorations; "" = none)
	hgroup  []int    // heading identity: heading number j (document order) has the same text as heading number hgroup[j] <= j; nil = all different
	// section-forming headings are those with level <= majorMax (rag.ChunkerConfig.MinHeadingLevel for the
	// layout-based chunker; 6 for the document-integration chunker)
	majorMax int
}

func (s docSpec) String() string {
	var ps []string
	for _, p := range s.pages {
		var ks []string
		for _, k := range p {
			ks = append(ks, kindName[k])
		}
		if len(ks) == 0 {
			ps = append(ps, "-")
		} else {
			ps = append(ps, strings.Join(ks, "."))
		}
	}
	return strings.Join(ps, "|")
}

// tableShape: cells per row (row 0 is the header row of the pipe table), words per cell (the first cell
// has one more), and optionally one empty cell. Every non-empty cell carries unique words; the expected
// order is row-major.
type tableShape struct {
	name  string
	rows  []int
	words int
	empty []int // {row, col} of a cell without text
}

var tableShapes = []tableShape{
	{name: "2x2", rows: []int{2, 2}, words: 1},
	{name: "1x1", rows: []int{1}, words: 1},
	{name: "1x3-header-only", rows: []int{3}, words: 1},
	{name: "3x1", rows: []int{1, 1, 1}, words: 1},
	{name: "2x3", rows: []int{3, 3}, words: 1},
	{name: "3x2", rows: []int{2, 2, 2}, words: 1},
	{name: "ragged-wider-row", rows: []int{2, 3}, words: 1},        // a data row with more cells than the header
	{name: "ragged-merged-header", rows: []int{1, 3, 2}, words: 1}, // header with one spanning cell
	{name: "ragged-narrower-row", rows: []int{3, 1}, words: 1},     // a data row with fewer cells than the header
	{name: "ragged-mixed", rows: []int{2, 3, 1, 2}, words: 1},      // wider, narrower, equal
	{name: "ragged-wider-last", rows: []int{2, 2, 4}, words: 1},    // only the last row is wider
	{name: "empty-data-cell", rows: []int{2, 2}, words: 1, empty: []int{1, 0}},
	{name: "empty-header-cell", rows: []int{2, 2}, words: 1, empty: []int{0, 1}},
	{name: "header-without-cells", rows: []int{0, 2}, words: 1},
	{name: "4x3-two-words", rows: []int{3, 3, 3, 3}, words: 2}, // ~270 characters: larger than the small and tiny maxima
}

// decorations: characters that a formatting / escaping / templating layer between the document and
// the chunk text could interpret. One is appended to every word of a document in sub-space "text".
// ('|' is left out: model.Table.ToMarkdown escapes it on purpose, which is C15's subject; '.', '!', '?' and
// a trailing ':' are left out because they are sentence / list-intro syntax for the chunkers.)
var decorations = []struct{ name, s string }{
	{"percent", "%"}, {"percent-s", "%s"}, {"percent-d", "%d"}, {"percent-percent", "%%"}, {"percent-v-plus", "%+v"},
	{"backslash", "\\"}, {"backslash-n", "\\n"}, {"dquote", "\""}, {"squote", "'"}, {"backquote", "`"},
	{"star", "*"}, {"underscore", "_"}, {"hash", "#"}, {"brackets", "[x]"}, {"angle", "<b>"}, {"amp-entity", "&amp;"},
	{"dollar-1", "$1"}, {"dollar-brace", "${1}"}, {"template", "{{.}}"}, {"tab-escape", "\\t"},
}

type tokGen struct{ n int }

func (g *tokGen) next() string { g.n++; return fmt.Sprintf("t%05dx", g.n) }
func (g *tokGen) words(n int) []string {
	out := make([]string, n)
	for i := range out {
		out[i] = g.next()
	}
	return out
}

func build(s docSpec) *built {
	b := &built{doc: model.NewDocument(), tokElem: map[string]int{}, tokElems: map[string][]int{}, expCount: map[string]int{}}
	var headToks [][]string // words of the headings so far, by heading ordinal
	b.doc.Metadata.Title = "Doc Title"
	g := &tokGen{}
	// dj renders words as text: every word followed by the document's decoration
	dj := func(w []string) string {
		if s.deco == "" {
			return strings.Join(w, " ")
		}
		d := make([]string, len(w))
		for i, x := range w {
			d[i] = x + s.deco
		}
		return strings.Join(d, " ")
	}
	// physical page list
	type phys struct {
		kinds []kind
		empty bool
	}
	var pp []phys
	for i, p := range s.pages {
		if s.empty == i {
			pp = append(pp, phys{empty: true})
		}
		pp = append(pp, phys{kinds: p})
	}
	if s.empty == len(s.pages) {
		pp = append(pp, phys{empty: true})
	}
	for pi, ph := range pp {
		page := model.NewPage(612, 792)
		page.Number = pi + 1 + s.pnumOff
		if s.layout {
			page.Layout = &model.PageLayout{}
		}
		fmt.Fprintf(&b.dump, "page index=%d Number=%d\n", pi, page.Number)
		for ei, k := range ph.kinds {
			bbox := model.BBox{X: 72, Y: float64(700 - 60*ei), Width: 400, Height: 40}
			info := elemInfo{k: k, pageIdx: pi, pageNo: page.Number}
			switch {
			case k.isHeading():
				hj := len(headToks)
				if hj < len(s.hgroup) && s.hgroup[hj] < hj {
					info.toks = headToks[s.hgroup[hj]] // the same heading text again
				} else {
					info.toks = g.words(2)
				}
				headToks = append(headToks, info.toks)
				info.text = dj(info.toks)
				b.units = append(b.units, unit{k, info.text, info.toks})
				if s.hrep == "toc" {
					page.AddElement(&model.Paragraph{Text: info.text, BBox: bbox, FontSize: 18})
				} else {
					page.AddElement(&model.Heading{Text: info.text, Level: k.level(), BBox: bbox, FontSize: 18})
				}
				if page.Layout != nil {
					page.Layout.Headings = append(page.Layout.Headings, model.HeadingInfo{Level: k.level(), Text: info.text, BBox: bbox, FontSize: 18, Confidence: 1})
				}
			case k.isPara():
				var text string
				switch k {
				case kP:
					if ei%2 == 0 {
						// a one-word paragraph without punctuation
						info.toks = g.words(1)
						text = dj(info.toks)
					} else {
						info.toks = g.words(3)
						text = dj(info.toks) + "."
					}
				case kIP:
					info.toks = g.words(2)
					text = dj(info.toks) + ":"
				case kLP:
					info.toks = g.words(s.lpToks)
					var sb strings.Builder
					for i, w := range info.toks {
						if i > 0 {
							sb.WriteByte(' ')
						}
						sb.WriteString(w + s.deco)
						if i%6 == 5 || i == len(info.toks)-1 {
							sb.WriteByte('.')
						}
					}
					text = sb.String()
				}
				b.units = append(b.units, unit{k, text, info.toks})
				page.AddElement(&model.Paragraph{Text: text, BBox: bbox, FontSize: 11})
				if page.Layout != nil {
					page.Layout.Paragraphs = append(page.Layout.Paragraphs, model.ParagraphInfo{Index: len(page.Layout.Paragraphs), Text: text, BBox: bbox, FontSize: 11, LineCount: 1})
				}
			case k.isList():
				var items []model.ListItem
				levels := []int{0, 0, 0}
				if k == kNL {
					levels = []int{0, 1, 2, 1, 0}
				}
				for i, lv := range levels {
					n := 1
					if i == 0 || k == kFL {
						n = 2
					}
					w := g.words(n)
					info.toks = append(info.toks, w...)
					items = append(items, model.ListItem{Text: dj(w), Level: lv, Bullet: "-"})
					b.units = append(b.units, unit{k, dj(w), w})
				}
				page.AddElement(&model.List{Items: items, BBox: bbox})
				if page.Layout != nil {
					page.Layout.Lists = append(page.Layout.Lists, model.ListInfo{Type: model.ListTypeBullet, Items: items, BBox: bbox, Nested: k == kNL})
				}
			case k == kTB:
				sh := tableShapes[0]
				for _, x := range tableShapes {
					if x.name == s.tbShape {
						sh = x
					}
				}
				t := &model.Table{Confidence: 1, BBox: bbox}
				for r, nc := range sh.rows {
					row := make([]model.Cell, nc)
					for c := range row {
						row[c] = model.Cell{RowSpan: 1, ColSpan: 1, IsHeader: r == 0}
						if sh.empty != nil && sh.empty[0] == r && sh.empty[1] == c {
							continue // an empty cell
						}
						n := sh.words
						if r == 0 && c == 0 {
							n++
						}
						w := g.words(n)
						info.toks = append(info.toks, w...)
						row[c].Text = dj(w)
						b.units = append(b.units, unit{k, row[c].Text, w})
					}
					t.Rows = append(t.Rows, row)
				}
				page.AddElement(t)
			case k == kIA:
				info.toks = g.words(2)
				b.units = append(b.units, unit{k, dj(info.toks), info.toks})
				page.AddElement(&model.Image{AltText: dj(info.toks), BBox: bbox, Format: model.ImageFormatPNG})
			case k == kIN:
				page.AddElement(&model.Image{BBox: bbox, Format: model.ImageFormatPNG})
			}
			if len(info.toks) > 12 {
				fmt.Fprintf(&b.dump, "  %s %s .. %s (%d words)\n", kindName[k], info.toks[0], info.toks[len(info.toks)-1], len(info.toks))
			} else {
				fmt.Fprintf(&b.dump, "  %s %s\n", kindName[k], strings.Join(info.toks, " "))
			}
			for _, t := range info.toks {
				if _, seen := b.tokElem[t]; !seen {
					b.tokElem[t] = len(b.elems)
				}
				b.tokElems[t] = append(b.tokElems[t], len(b.elems))
				b.expCount[t]++
				b.expected = append(b.expected, t)
			}
			b.elems = append(b.elems, info)
		}
		if page.Layout != nil {
			page.Layout.Stats = model.LayoutStats{ParagraphCount: len(page.Layout.Paragraphs), HeadingCount: len(page.Layout.Headings), ListCount: len(page.Layout.Lists)}
		}
		// not AddPage: it would overwrite Page.Number
		b.doc.Pages = append(b.doc.Pages, page)
	}
	b.reference(s.majorMax)
	return b
}

// reference computes, for every element, the chain of enclosing headings with the textbook
// heading stack (pop while top.level >= new level, then push) and the page span of the
// innermost enclosing section (subsections included).
func (b *built) reference(majorMax int) {
	type ent struct {
		level, idx int
		text       string
	}
	var stack []ent
	for i := range b.elems {
		e := &b.elems[i]
		if e.k.isHeading() && e.k.level() <= majorMax {
			for len(stack) > 0 && stack[len(stack)-1].level >= e.k.level() {
				stack = stack[:len(stack)-1]
			}
			stack = append(stack, ent{e.k.level(), i, e.text})
			e.sectHead = true
		}
		e.path = make([]string, len(stack))
		e.chain = make([]int, len(stack))
		for j, s := range stack {
			e.path[j] = s.text
			e.chain[j] = s.idx
		}
		e.sect = -1
		if len(stack) > 0 {
			e.sect = stack[len(stack)-1].idx
		}
	}
	// page span of each section: from its heading to the last element before the next
	// section-forming heading of the same or a higher rank; preamble: up to the first section heading
	for i := range b.elems {
		e := &b.elems[i]
		lo, hi := 0, len(b.elems)-1
		if e.sect >= 0 {
			lo = e.sect
			lv := b.elems[e.sect].k.level()
			for j := e.sect + 1; j < len(b.elems); j++ {
				if b.elems[j].sectHead && b.elems[j].k.level() <= lv {
					hi = j - 1
					break
				}
			}
		} else {
			for j := 0; j < len(b.elems); j++ {
				if b.elems[j].sectHead {
					hi = j - 1
					break
				}
			}
		}
		e.spanLo, e.spanHi = b.elems[lo].pageNo, b.elems[hi].pageNo
	}
}

// scanTokens returns the tokens occurring in s, in order, after removing all white space
// ("whitespace aside": a word broken by a split still counts).
func scanTokens(s string) []string {
	buf := stripSpace(nil, s)
	var out []string
	for i := 0; i+7 <= len(buf); {
		if buf[i] == 't' && buf[i+6] == 'x' && digits(buf[i+1:i+6]) {
			out = append(out, string(buf[i:i+7]))
			i += 7
			continue
		}
		i++
	}
	return out
}

func digits(b []byte) bool {
	for _, c := range b {
		if c < '0' || c > '9' {
			return false
		}
	}
	return true
}

// stripSpace appends s without its white space to buf.
func stripSpace(buf []byte, s string) []byte {
	for i := 0; i < len(s); i++ {
		c := s[i]
		if c == ' ' || c == '\n' || c == '\t' || c == '\r' || c == '\f' || c == '\v' {
			continue
		}
		buf = append(buf, c)
	}
	return buf
}
