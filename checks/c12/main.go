// C12 — RAG chunks cover the document once, in order, with true metadata.
//
// Bounded-exhaustive enumeration of model.Document values (element sequences cut into pages, empty
// pages, page numbering, heading representation) x both chunkers (rag.ChunkDocument /
// ChunkDocumentWithConfig and rag.NewChunker[WithConfig]().Chunk) x size configurations and presets,
// judged clause by clause against a token-position oracle and the textbook heading stack.
package main

import (
	"fmt"
	"strconv"
	"strings"

	"github.com/tsawler/tabula/rag"
	"verif/internal/harness"
)

func main() { harness.Main("C12", "exploration", run) }

func run(e *harness.Env) {
	e.Rule = "full product per sub-space. (di) every element sequence of total length <=3 (quick) / <=4 (thorough) over " +
		"{H1..H4, short paragraph (1 word / 3-word sentence), paragraph 3x the configured maximum, list-intro paragraph, flat list, nested list, 2x2 table, image with/without alt} " +
		"x every cut into <=2 pages x {all 18 size configurations and presets on the plain variant; default/small/tiny on the variants " +
		"headings-as-TOC-matched-paragraphs, offset page numbers, empty page first/middle/last} (length 4: 8 configurations on the plain variant, small on 3 variants); " +
		"(di-table) 15 table shapes (1x1, header-only, Nx1, 2x3, 3x2, ragged rows wider/narrower than the header, empty cells, header without cells, 4x3 larger than the small maxima; one unique word set per cell) " +
		"x every context of <=2 preceding and <=1 (thorough <=2) following elements over {H1,P,LP,IA,TB} x page cut before the table x all 18 size configurations; " +
		"(text) 20 decorations (printf verbs, backslash/quotes, markdown/HTML/template/regexp-replacement characters) appended to every word x every element kind alone and under a heading x both chunkers x plain and splitting configurations; " +
		"(pages) every sequence over {H1,H2,P,LP} of length <=4 (thorough <=5) x every cut into 3..4 pages x gap page none/after page 1/after page 2 x both chunkers x plain and splitting configuration; " +
		"(headid) the same heading text several times: every sequence over {H1,H2,P} of length <=4 (thorough <=5) with >=2 headings x every cut into 2..4 pages x gap page x every grouping of the headings into same-text groups x heading elements / TOC-matched paragraphs / layout view; " +
		"(di-nest) every heading-level sequence over H1..H4 of length <=5 (quick) / <=6 (thorough), one body element per heading; " +
		"(layout) the same kind of sequences over what model.PageLayout can hold {H1..H4, paragraphs, lists} cut into <=3 pages x ChunkerConfig variants; " +
		"(layout-nest) every heading-level sequence of length <=4 / <=5 x every subset of headings that have a body paragraph x two page packings. " +
		"distinct = distinct (document, chunker, configuration) descriptors; non-trivial = documents with at least two elements; " +
		"a failing case is reported once per violated clause (descriptor + clause=...)"
	e.Assumptions = []string{
		"document order is the order of Page.Elements over Pages; Page.Layout lists are filled consistently with it (same texts, same relative order, descending Y)",
		"white space is not content: words are compared after removing all white space from the concatenated chunk texts",
		"clause text: a heading / paragraph / list item / table cell / alt text whose words are all present once must occur verbatim (white space aside) in the concatenated chunk texts; '|' is not in the text alphabet (its escaping in table cells is C15's subject)",
		"the layout-based chunker carries section headings in SectionPath/SectionTitle (TextWithContext prefix), not in Chunk.Text; a heading counts as covered where the first chunk naming it in SectionPath appears",
		"page identity is Page.Number",
		"clause pages: [PageStart,PageEnd] must be exactly [min,max] of the pages of the elements whose words the chunk holds; for the layout-based chunker the heading of the chunk's section (SectionTitle / TextWithContext prefix) may be counted in",
		"overlap: neither Chunk() nor ChunkDocument[WithConfig]() applies overlap whatever OverlapSize says; ChunkWithOverlapEnabled (sanctioned repeats) is not part of the coverage check",
	}
	stop := startProf()
	defer stop()
	spaceDI(e)
	spaceDINest(e)
	spaceDITable(e)
	spaceText(e)
	spacePages(e)
	spaceHeadID(e)
	spaceLayout(e)
	spaceLayoutNest(e)
}

// desc builds the canonical descriptor "k=v k=v" (all values used here are free of white space;
// harness.D is avoided because every worker builds every descriptor of the space).
func desc(kv ...interface{}) string {
	var b strings.Builder
	for i := 0; i+1 < len(kv); i += 2 {
		if i > 0 {
			b.WriteByte(' ')
		}
		b.WriteString(kv[i].(string))
		b.WriteByte('=')
		switch v := kv[i+1].(type) {
		case string:
			b.WriteString(v)
		case int:
			b.WriteString(strconv.Itoa(v))
		default:
			b.WriteString(fmt.Sprint(v))
		}
	}
	return b.String()
}

// ---- shared evaluation -----------------------------------------------------------------------------

// owned decides whether this process evaluates the case; in a replay of a failing clause only
// that clause is reported again.
func owned(e *harness.Env, base string) (bool, map[string]bool) {
	if !e.Replaying() {
		return e.Own(base), nil
	}
	if e.Own(base) {
		return true, nil
	}
	only := map[string]bool{}
	for _, c := range clauses {
		if e.Own(base + " clause=" + c) {
			only[c] = true
		}
	}
	return len(only) > 0, only
}

var failSeen = map[string]int{}

func report(e *harness.Env, base string, only map[string]bool, nel int, j judged) {
	nontrivial := nel >= 2
	failed := false
	for _, c := range clauses {
		v, bad := j.bad[c]
		if !bad || (only != nil && !only[c]) {
			continue
		}
		failed = true
		failLog(v.sig, base+" clause="+c)
		// the harness keeps every failing descriptor (known-finding matching); keep the payload of the
		// first cases of each signature only
		failSeen[v.sig]++
		if failSeen[v.sig] > 40 && nel > 2 && !e.Replaying() {
			e.Fail(base+" clause="+c, v.sig, v.detail, nil)
			continue
		}
		short := j.dump
		if len(short) > 600 {
			short = short[:600] + "…"
		}
		e.Fail(base+" clause="+c, v.sig, v.detail+"\n"+short, map[string][]byte{"case.txt": []byte(base + "\n" + v.detail + "\n" + j.dump)})
	}
	if !failed {
		e.Pass(base, nontrivial, j.outcome)
	}
}

func evalCase(e *harness.Env, base string, only map[string]bool, spec docSpec, layoutView bool, chunk func(b *built) ([]*rag.Chunk, error)) {
	e.Begin(base)
	b := build(spec)
	var chunks []*rag.Chunk
	var err error
	sig, det := harness.Guard(func() { chunks, err = chunk(b) })
	if sig != "" {
		e.Fail(base, sig, det+"\n"+b.dump.String(), nil)
		return
	}
	if err != nil {
		e.Fail(base, "error-on-valid-document", err.Error()+"\n"+b.dump.String(), nil)
		return
	}
	nel := 0
	for _, p := range spec.pages {
		nel += len(p)
	}
	report(e, base, only, nel, judge(b, chunks, layoutView))
}

// ---- sequences and cuts -------------------------------------------------------------------------

// forSeqs calls f for every sequence over alphabet of length 1..maxLen (and the empty one if withEmpty).
func forSeqs(alphabet []kind, maxLen int, withEmpty bool, f func(seq []kind)) {
	if withEmpty {
		f(nil)
	}
	var rec func(cur []kind)
	rec = func(cur []kind) {
		if len(cur) > 0 {
			f(cur)
		}
		if len(cur) == maxLen {
			return
		}
		for _, k := range alphabet {
			rec(append(cur, k))
		}
	}
	rec(nil)
}

// cuts returns every way of cutting seq into at most maxPages non-empty pages.
func cuts(seq []kind, maxPages int) [][][]kind {
	var out [][][]kind
	n := len(seq)
	if n == 0 {
		return [][][]kind{{}}
	}
	var rec func(start int, cur [][]kind)
	rec = func(start int, cur [][]kind) {
		// last page takes the rest
		last := append(append([][]kind{}, cur...), seq[start:])
		out = append(out, last)
		if len(cur)+1 >= maxPages {
			return
		}
		for end := start + 1; end < n; end++ {
			rec(end, append(append([][]kind{}, cur...), seq[start:end]))
		}
	}
	rec(0, nil)
	return out
}

type variant struct {
	hrep  string
	off   int
	empty string // none, first, mid, last
}

func (v variant) emptyIdx(npages int) (int, bool) {
	switch v.empty {
	case "first":
		return 0, true
	case "mid":
		if npages < 2 {
			return 0, false // no middle position: same as first/last, skip
		}
		return 1, true
	case "last":
		return npages, true
	}
	return -1, true
}

// derived features of the document structure (descriptor tokens, so that findings can be narrow).
// They are computed from the logical document and the reference heading stack only.
type feats struct {
	skip       bool // some heading's level differs from its depth in the reference stack (document does not start at H1, or a level is skipped)
	pops       bool // some heading closes at least one open section (same or higher rank than the open one)
	nested     bool // some section heading opens inside another section (reference depth >= 2)
	emptyleaf  bool // some section heading has nothing but section headings in its extent (no body content in it or below it)
	minorfirst bool // a heading below MinHeadingLevel occurs before any section-forming heading
	minortail  bool // a heading below MinHeadingLevel is followed by no paragraph/list of its (open) section
	introlist  bool // a list-intro paragraph is immediately followed by a list
	multipage  bool // some section's own content (heading excluded, subsections excluded), or the content before the first section, lies on more than one page
}

func docFeats(pages [][]kind, majorMax int) feats {
	var f feats
	var seq []kind
	for _, p := range pages {
		seq = append(seq, p...)
	}
	var pageOf []int
	for pi, p := range pages {
		for range p {
			pageOf = append(pageOf, pi)
		}
	}
	var stack []int
	sectOf := make([]int, len(seq)) // index of the innermost open section heading, -1 none
	seenMajor := false
	for i, k := range seq {
		if k.isHeading() && k.level() <= majorMax {
			seenMajor = true
			for len(stack) > 0 && seq[stack[len(stack)-1]].level() >= k.level() {
				stack = stack[:len(stack)-1]
				f.pops = true
			}
			stack = append(stack, i)
			if len(stack) != k.level() {
				f.skip = true
			}
			if len(stack) >= 2 {
				f.nested = true
			}
		} else if k.isHeading() && !seenMajor {
			f.minorfirst = true
		}
		sectOf[i] = -1
		if len(stack) > 0 {
			sectOf[i] = stack[len(stack)-1]
		}
		if k == kIP && i+1 < len(seq) && seq[i+1].isList() {
			f.introlist = true
		}
	}
	firstPage := map[int]int{}
	for i, k := range seq {
		if k.isHeading() && k.level() <= majorMax {
			continue
		}
		if fp, ok := firstPage[sectOf[i]]; !ok {
			firstPage[sectOf[i]] = pageOf[i]
		} else if fp != pageOf[i] {
			f.multipage = true
		}
	}
	for i, k := range seq {
		if !k.isHeading() {
			continue
		}
		if k.level() <= majorMax {
			// extent: up to the next section heading of the same or a higher rank
			body := false
			for j := i + 1; j < len(seq); j++ {
				if seq[j].isHeading() && seq[j].level() <= majorMax {
					if seq[j].level() <= k.level() {
						break
					}
					continue
				}
				body = true
				break
			}
			if !body {
				f.emptyleaf = true
			}
		} else if sectOf[i] >= 0 {
			tail := true
			for j := i + 1; j < len(seq) && sectOf[j] == sectOf[i]; j++ {
				if !seq[j].isHeading() {
					tail = false
					break
				}
			}
			if tail {
				f.minortail = true
			}
		}
	}
	return f
}

func yn(b bool) string {
	if b {
		return "y"
	}
	return "n"
}

// ---- document-integration chunker ---------------------------------------------------------------

type diCfg struct {
	name    string
	plain   bool // rag.ChunkDocument(doc)
	cc      rag.ChunkerConfig
	sc      rag.SizeConfig
	lpWords int // words of a "paragraph several times the maximum"
}

func charsCfg(target, min, max int) rag.SizeConfig {
	c := rag.DefaultSizeConfig()
	c.Target.Value, c.Min.Value, c.Max.Value = target, min, max
	return c
}

func unitCfg(unit rag.SizeUnit, target, min, max int) rag.SizeConfig {
	c := rag.DefaultSizeConfig()
	c.Target = rag.SizeLimit{Value: target, Unit: unit, Type: rag.LimitTypeSoft}
	c.Min = rag.SizeLimit{Value: min, Unit: unit, Type: rag.LimitTypeSoft}
	c.Max = rag.SizeLimit{Value: max, Unit: unit, Type: rag.LimitTypeHard}
	return c
}

// a word is 7 characters + separator
func wordsForChars(chars int) int { return 3*chars/8 + 6 }

func diConfigs() []diCfg {
	def := rag.DefaultChunkerConfig()
	ov := rag.DefaultChunkerConfig()
	ov.OverlapSize, ov.OverlapSentences = 50, false
	ro := rag.RAGOptimizedOptions()
	dd := rag.DefaultDocumentChunkOptions()
	noSem := charsCfg(150, 20, 300)
	noSem.SplitAtSemanticBoundaries, noSem.MergeSmallChunks, noSem.AllowExceedForAtomicContent = false, false, false
	return []diCfg{
		{name: "plain", plain: true, lpWords: wordsForChars(2000)},
		{name: "small200", cc: def, sc: charsCfg(100, 20, 200), lpWords: wordsForChars(200)},
		{name: "tiny64", cc: def, sc: charsCfg(40, 8, 64), lpWords: wordsForChars(64)},
		{name: "default-opts", cc: dd.ChunkerConfig, sc: dd.SizeConfig, lpWords: wordsForChars(2000)},
		{name: "tokens100", cc: def, sc: rag.TokenBasedSizeConfig(50, 100), lpWords: wordsForChars(400)},
		{name: "words40", cc: def, sc: unitCfg(rag.SizeUnitWords, 20, 4, 40), lpWords: 3 * 40},
		{name: "sentences3", cc: def, sc: unitCfg(rag.SizeUnitSentences, 2, 1, 3), lpWords: 6 * 3 * 3},
		{name: "semantic1-2", cc: def, sc: rag.SemanticSizeConfig(1, 2), lpWords: wordsForChars(800)},
		{name: "semantic3-5", cc: def, sc: rag.SemanticSizeConfig(3, 5), lpWords: wordsForChars(2000)},
		{name: "nosemantic300", cc: def, sc: noSem, lpWords: wordsForChars(300)},
		{name: "overlap50", cc: ov, sc: charsCfg(100, 20, 200), lpWords: wordsForChars(200)},
		{name: "preset-small", cc: def, sc: rag.SmallChunkConfig(), lpWords: wordsForChars(800)},
		{name: "preset-medium", cc: def, sc: rag.MediumChunkConfig(), lpWords: wordsForChars(2000)},
		{name: "preset-large", cc: def, sc: rag.LargeChunkConfig(), lpWords: wordsForChars(4000)},
		{name: "preset-cohere", cc: def, sc: rag.CohereEmbeddingConfig(), lpWords: wordsForChars(2048)},
		{name: "preset-openai", cc: def, sc: rag.OpenAIEmbeddingConfig(), lpWords: wordsForChars(32000)},
		{name: "preset-claude", cc: def, sc: rag.ClaudeContextConfig(), lpWords: wordsForChars(32000)},
		{name: "rag-optimized", cc: ro.ChunkerConfig, sc: ro.SizeConfig, lpWords: wordsForChars(32000)},
	}
}

// The convenience entry points rag.ChunkDocument / rag.ChunkDocumentWithConfig build a new
// DocumentChunker (and compile its regular expressions) on every call; they are used as such for the
// configurations "plain" and "default-opts". The other configurations go through one
// rag.NewDocumentChunkerWithConfig(...) per configuration and its ChunkDocument method, which is all the
// convenience function does.
var diCache = map[string]*rag.DocumentChunker{}

func (c diCfg) chunk(b *built) ([]*rag.Chunk, error) {
	var col *rag.ChunkCollection
	switch {
	case c.plain:
		col = rag.ChunkDocument(b.doc)
	case c.name == "default-opts":
		col = rag.ChunkDocumentWithConfig(b.doc, c.cc, c.sc)
	default:
		dc := diCache[c.name]
		if dc == nil {
			dc = rag.NewDocumentChunkerWithConfig(c.cc, c.sc)
			diCache[c.name] = dc
		}
		col = dc.ChunkDocument(b.doc)
	}
	if col == nil {
		return nil, fmt.Errorf("nil ChunkCollection")
	}
	return col.Chunks, nil
}

var diVariants = []variant{
	{"elem", 0, "none"},
	{"toc", 0, "none"},
	{"elem", 3, "none"},
	{"elem", 0, "first"},
	{"elem", 0, "mid"},
	{"elem", 0, "last"},
	{"toc", 3, "mid"},
}

// long4 selects the (variant, configuration) pairs that are run on sequences of length 4 (thorough):
// eight size configurations on the plain variant, small200 on three variants.
func long4(vi int, v variant, cfg string) bool {
	if vi == 0 {
		switch cfg {
		case "plain", "small200", "tiny64", "tokens100", "sentences3", "semantic1-2", "nosemantic300", "preset-large":
			return true
		}
		return false
	}
	return cfg == "small200" && (v == variant{"toc", 0, "none"} || v == variant{"elem", 3, "none"} || v == variant{"elem", 0, "mid"})
}

func spaceDI(e *harness.Env) {
	maxLen := 3
	if e.Thorough() {
		maxLen = 4
	}
	e.Note("bound_di", fmt.Sprintf("sequences of total length <=%d over 12 element kinds, <=2 pages + empty page", maxLen))
	var alphabet []kind
	for k := kind(0); k < nKinds; k++ {
		alphabet = append(alphabet, k)
	}
	cfgs := diConfigs()
	forSeqs(alphabet, maxLen, true, func(seq []kind) {
		for _, pages := range cuts(seq, 2) {
			f := docFeats(pages, 6)
			for vi, v := range diVariants {
				ei, ok := v.emptyIdx(len(pages))
				if !ok {
					continue
				}
				for ci, cfg := range cfgs {
					if vi > 0 && ci > 2 {
						break // variants: plain, small200, tiny64 only
					}
					if len(seq) >= 4 && !long4(vi, v, cfg.name) {
						continue
					}
					spec := docSpec{pages: pages, empty: ei, pnumOff: v.off, hrep: v.hrep, layout: v.hrep == "toc", lpToks: cfg.lpWords, majorMax: 6}
					base := desc("space", "di", "ck", "di", "cfg", cfg.name, "hrep", v.hrep, "pnum", v.off+1, "empty", v.empty,
						"skip", yn(f.skip), "pops", yn(f.pops), "doc", spec.String())
					mine, only := owned(e, base)
					if !mine {
						continue
					}
					evalCase(e, base, only, spec, false, cfg.chunk)
				}
			}
		}
	})
}

// every table shape x every context (what precedes and follows the table, on which page) x every size
// configuration: the table is at most as large as the maximum ("plain") or larger than it (tiny64 for all
// shapes but 1x1, small200 for 4x3-two-words: "oversized")
func spaceDITable(e *harness.Env) {
	maxSuffix := 1
	if e.Thorough() {
		maxSuffix = 2
	}
	e.Note("bound_di_table", fmt.Sprintf("%d table shapes x contexts (prefix <=2, suffix <=%d over {H1,P,LP,IA,TB}) x page cut before the table x 18 size configurations", len(tableShapes), maxSuffix))
	ctx := []kind{kH1, kP, kLP, kIA, kTB}
	cfgs := diConfigs()
	var prefixes, suffixes [][]kind
	forSeqs(ctx, 2, true, func(q []kind) { prefixes = append(prefixes, append([]kind{}, q...)) })
	forSeqs(ctx, maxSuffix, true, func(q []kind) { suffixes = append(suffixes, append([]kind{}, q...)) })
	for _, sh := range tableShapes {
		seen := map[string]bool{}
		for _, pre := range prefixes {
			for _, suf := range suffixes {
				seq := append(append(append([]kind{}, pre...), kTB), suf...)
				layouts := [][][]kind{{seq}}
				if len(pre) > 0 {
					layouts = append(layouts, [][]kind{seq[:len(pre)], seq[len(pre):]})
				}
				hasLP := false
				for _, k := range seq {
					hasLP = hasLP || k == kLP
				}
				for li, pages := range layouts {
					f := docFeats(pages, 6)
					key := fmt.Sprint(li, pages)
					if seen[key] {
						continue // the same document was reached with another prefix/suffix split (several tables)
					}
					seen[key] = true
					for _, cfg := range cfgs {
						if hasLP && cfg.lpWords > 10000 {
							continue // 100 kB paragraphs x the three 32000-character presets are covered in space di
						}
						spec := docSpec{pages: pages, empty: -1, hrep: "elem", lpToks: cfg.lpWords, majorMax: 6, tbShape: sh.name}
						base := desc("space", "di-table", "ck", "di", "cfg", cfg.name, "hrep", "elem", "pnum", 1, "empty", "none",
							"skip", yn(f.skip), "pops", yn(f.pops), "tb", sh.name, "cut", li, "doc", spec.String())
						mine, only := owned(e, base)
						if !mine {
							continue
						}
						evalCase(e, base, only, spec, false, cfg.chunk)
					}
				}
			}
		}
	}
}

// nested sections spread over at least three pages: every sequence over {H1,H2,P,LP} of length <=4 (quick) /
// <=5 (thorough) x every cut into 3 or 4 pages (so: a parent with content of its own on an early page and
// subsections on later ones, a subsection that starts on its parent's page and ends later, ...) x a gap
// (empty) page nowhere / after the first / after the second page, both chunkers, plain and splitting configuration.
// For the layout-based chunker only pages of the form H* P* (see canonical) are used.
func spacePages(e *harness.Env) {
	maxLen := 4
	if e.Thorough() {
		maxLen = 5
	}
	e.Note("bound_pages", fmt.Sprintf("sequences of length <=%d over {H1,H2,P,LP} cut into 3..4 pages, gap page none/after p1/after p2", maxLen))
	dcfgs := diConfigs()[:2]
	lcfgs := layConfigs()[:2]
	forSeqs([]kind{kH1, kH2, kP, kLP}, maxLen, false, func(seq []kind) {
		for _, pages := range cuts(seq, 4) {
			if len(pages) < 3 {
				continue
			}
			canon := canonical(pages)
			f := docFeats(pages, 6)
			for _, gap := range []string{"none", "mid", "after2"} {
				gi := map[string]int{"none": -1, "mid": 1, "after2": 2}[gap]
				for _, cfg := range dcfgs {
					spec := docSpec{pages: pages, empty: gi, hrep: "elem", lpToks: cfg.lpWords, majorMax: 6}
					base := desc("space", "pages", "ck", "di", "cfg", cfg.name, "hrep", "elem", "pnum", 1, "empty", gap,
						"skip", yn(f.skip), "pops", yn(f.pops), "doc", spec.String())
					if mine, only := owned(e, base); mine {
						evalCase(e, base, only, spec, false, cfg.chunk)
					}
				}
				if !canon {
					continue
				}
				for _, cfg := range lcfgs {
					layoutCaseGap(e, "pages", pages, gap, gi, cfg)
				}
			}
		}
	})
}

// curHGroup is the heading identity of the documents layoutCase builds (set by spaceHeadID only).
var curHGroup []int

// partitions calls f with every assignment g (g[j] <= j, g[j] = smallest member of j's group) of n items to groups,
// except the one where all items are different.
func partitions(n int, f func(g []int)) {
	g := make([]int, n)
	var rec func(j int, allDiff bool)
	rec = func(j int, allDiff bool) {
		if j == n {
			if !allDiff {
				f(g)
			}
			return
		}
		for r := 0; r <= j; r++ {
			if r < j && g[r] != r {
				continue // r is not the first member of its group
			}
			g[j] = r
			rec(j+1, allDiff && r == j)
		}
	}
	rec(0, true)
}

// heading identity: the same heading text on several pages / several times ("Summary" in every chapter), with the
// same or different levels, for both ways a heading reaches the document chunker (model.Heading elements;
// model.Paragraph elements recognised through Page.Layout.Headings) and for the layout-based chunker:
// every sequence over {H1,H2,P} of length <=4 (thorough <=5) with at least two headings x every cut into 2..4 pages
// x gap page none/after page 1 x every partition of the headings into same-text groups (all-different excluded:
// that is every other sub-space). hrep=toc: two headings with the same text on the same page must have the same level
// (a text-matched heading cannot say which of the two levels it has).
func spaceHeadID(e *harness.Env) {
	maxLen := 4
	if e.Thorough() {
		maxLen = 5
	}
	e.Note("bound_headid", fmt.Sprintf("sequences of length <=%d over {H1,H2,P}, >=2 headings, 2..4 pages, every same-text grouping of the headings", maxLen))
	dcfg := diConfigs()[0]
	lcfg := layConfigs()[0]
	forSeqs([]kind{kH1, kH2, kP}, maxLen, false, func(seq []kind) {
		nh := 0
		for _, k := range seq {
			if k.isHeading() {
				nh++
			}
		}
		if nh < 2 {
			return
		}
		for _, pages := range cuts(seq, 4) {
			if len(pages) < 2 {
				continue
			}
			// page and level of every heading
			var hpage, hlevel []int
			for pi, p := range pages {
				for _, k := range p {
					if k.isHeading() {
						hpage = append(hpage, pi)
						hlevel = append(hlevel, k.level())
					}
				}
			}
			canon := canonical(pages)
			f := docFeats(pages, 6)
			partitions(nh, func(g []int) {
				tocOK, sameLevel, crossPage := true, true, false
				for j := range g {
					if g[j] == j {
						continue
					}
					if hlevel[j] != hlevel[g[j]] {
						sameLevel = false
						if hpage[j] == hpage[g[j]] {
							tocOK = false
						}
					}
					if hpage[j] != hpage[g[j]] {
						crossPage = true
					}
				}
				// tocOK must hold for every pair of a group, not only (j, first)
				for a := range g {
					for c := a + 1; c < len(g); c++ {
						if g[a] == g[c] && hpage[a] == hpage[c] && hlevel[a] != hlevel[c] {
							tocOK = false
						}
					}
				}
				hid := strings.Trim(strings.ReplaceAll(fmt.Sprint(g), " ", "."), "[]")
				hg := append([]int{}, g...)
				for _, gap := range []string{"none", "mid"} {
					gi := map[string]int{"none": -1, "mid": 1}[gap]
					for _, hrep := range []string{"elem", "toc"} {
						if hrep == "toc" && !tocOK {
							continue
						}
						spec := docSpec{pages: pages, empty: gi, hrep: hrep, layout: hrep == "toc", lpToks: dcfg.lpWords, majorMax: 6, hgroup: hg}
						base := desc("space", "headid", "ck", "di", "cfg", dcfg.name, "hrep", hrep, "pnum", 1, "empty", gap,
							"skip", yn(f.skip), "pops", yn(f.pops), "hid", hid, "samelevel", yn(sameLevel), "crosspage", yn(crossPage), "doc", spec.String())
						if mine, only := owned(e, base); mine {
							evalCase(e, base, only, spec, false, dcfg.chunk)
						}
					}
					if canon {
						curHGroup = hg
						layoutCaseAt(e, "headid", pages, variant{"elem", 0, gap}, gi, lcfg, "hid", hid, "samelevel", yn(sameLevel), "crosspage", yn(crossPage))
						curHGroup = nil
					}
				}
			})
		}
	})
}

// textDeco is the decoration of the documents layoutCase builds (set by spaceText only).
var textDeco string

// every element kind x every decoration (characters a formatting / escaping layer could interpret,
// appended to every word of the document) x both chunkers x plain and splitting size configurations
func spaceText(e *harness.Env) {
	e.Note("bound_text", fmt.Sprintf("%d decorations x every element kind (alone, and under a heading) x both chunkers x 4+3 size configurations", len(decorations)))
	dcfgs := diConfigs()
	dsel := []diCfg{dcfgs[0], dcfgs[1], dcfgs[2], dcfgs[4]}
	lcfgs := layConfigs()[:3]
	for _, d := range decorations {
		for k := kind(0); k < nKinds; k++ {
			if k == kIN {
				continue
			}
			for ci, pages := range [][][]kind{{{k}}, {{kH1, k, kP}}} {
				f := docFeats(pages, 6)
				for _, hrep := range []string{"elem", "toc"} {
					for _, cfg := range dsel {
						spec := docSpec{pages: pages, empty: -1, hrep: hrep, layout: hrep == "toc", lpToks: cfg.lpWords, majorMax: 6, deco: d.s}
						base := desc("space", "text", "ck", "di", "cfg", cfg.name, "hrep", hrep, "pnum", 1, "empty", "none",
							"skip", yn(f.skip), "pops", yn(f.pops), "deco", d.name, "ctx", ci, "doc", spec.String())
						mine, only := owned(e, base)
						if !mine {
							continue
						}
						evalCase(e, base, only, spec, false, cfg.chunk)
					}
				}
			}
			if !k.inLayout() {
				continue
			}
			textDeco = d.s
			for _, pages := range [][][]kind{{{k}}, {{kH1, k}}, {{kH1, kP}, {k}}} {
				for _, cfg := range lcfgs {
					layoutCase(e, "text", pages, variant{"elem", 0, "none"}, cfg, "deco", d.name)
				}
			}
			textDeco = ""
		}
	}
}

// every heading-level sequence, one body element after each heading
func spaceDINest(e *harness.Env) {
	maxLen := 5
	if e.Thorough() {
		maxLen = 6
	}
	e.Note("bound_di_nest", fmt.Sprintf("heading sequences of length <=%d over H1..H4", maxLen))
	cfgs := diConfigs()[:2]
	heads := []kind{kH1, kH2, kH3, kH4}
	bodies := []kind{kP, kFL, kTB, kIA}
	forSeqs(heads, maxLen, false, func(hs []kind) {
		for _, body := range bodies {
			var seq []kind
			for _, h := range hs {
				seq = append(seq, h, body)
			}
			layouts := [][][]kind{{seq}}
			if len(hs) >= 2 {
				m := (len(hs) / 2) * 2
				layouts = append(layouts, [][]kind{seq[:m], seq[m:]})
			}
			for li, pages := range layouts {
				f := docFeats(pages, 6)
				for _, hrep := range []string{"elem", "toc"} {
					for _, cfg := range cfgs {
						spec := docSpec{pages: pages, empty: -1, hrep: hrep, layout: hrep == "toc", lpToks: cfg.lpWords, majorMax: 6}
						base := desc("space", "di-nest", "ck", "di", "cfg", cfg.name, "hrep", hrep, "pnum", 1, "empty", "none",
							"skip", yn(f.skip), "pops", yn(f.pops), "cut", li, "doc", spec.String())
						mine, only := owned(e, base)
						if !mine {
							continue
						}
						evalCase(e, base, only, spec, false, cfg.chunk)
					}
				}
			}
		}
	})
}

// ---- layout-based chunker -----------------------------------------------------------------------

type layCfg struct {
	name  string
	plain bool // rag.NewChunker()
	cc    rag.ChunkerConfig
}

func layConfigs() []layCfg {
	mk := func(f func(c *rag.ChunkerConfig)) rag.ChunkerConfig {
		c := rag.DefaultChunkerConfig()
		f(&c)
		return c
	}
	return []layCfg{
		{name: "plain", plain: true, cc: rag.DefaultChunkerConfig()},
		{name: "small200", cc: mk(func(c *rag.ChunkerConfig) { c.TargetChunkSize, c.MaxChunkSize, c.MinChunkSize = 100, 200, 20 })},
		{name: "tiny64", cc: mk(func(c *rag.ChunkerConfig) { c.TargetChunkSize, c.MaxChunkSize, c.MinChunkSize = 40, 64, 8 })},
		{name: "allheadings", cc: mk(func(c *rag.ChunkerConfig) { c.MinHeadingLevel = 6 })},
		{name: "small200-h1only", cc: mk(func(c *rag.ChunkerConfig) {
			c.TargetChunkSize, c.MaxChunkSize, c.MinChunkSize, c.MinHeadingLevel = 100, 200, 20, 1
		})},
		{name: "small200-nolistcoherence", cc: mk(func(c *rag.ChunkerConfig) {
			c.TargetChunkSize, c.MaxChunkSize, c.MinChunkSize, c.PreserveListCoherence = 100, 200, 20, false
		})},
		{name: "small200-nomin-prefix", cc: mk(func(c *rag.ChunkerConfig) {
			c.TargetChunkSize, c.MaxChunkSize, c.MinChunkSize, c.IDPrefix, c.OverlapSize = 100, 200, 0, "doc7", 0
		})},
		{name: "rag-optimized", cc: rag.RAGOptimizedOptions().ChunkerConfig},
	}
}

// "plain" is rag.NewChunker() built anew for every document; the other configurations reuse one
// rag.NewChunkerWithConfig(...) per configuration (the constructor compiles regular expressions).
var layCache = map[string]*rag.Chunker{}

func (c layCfg) chunk(b *built) ([]*rag.Chunk, error) {
	var ch *rag.Chunker
	if c.plain {
		ch = rag.NewChunker()
	} else if ch = layCache[c.name]; ch == nil {
		ch = rag.NewChunkerWithConfig(c.cc)
		layCache[c.name] = ch
	}
	res, err := ch.Chunk(b.doc)
	if err != nil {
		return nil, err
	}
	if res == nil {
		return nil, fmt.Errorf("nil ChunkResult")
	}
	return res.Chunks, nil
}

// canonical: on every page the elements come as headings, then paragraphs, then lists — the only
// arrangement in which the three typed lists of model.PageLayout determine the document order by themselves
func canonical(pages [][]kind) bool {
	for _, p := range pages {
		stage := 0
		for _, k := range p {
			s := 0
			switch {
			case k.isPara():
				s = 1
			case k.isList():
				s = 2
			}
			if s < stage {
				return false
			}
			stage = s
		}
	}
	return true
}

var layVariants = []variant{
	{"elem", 0, "none"},
	{"elem", 3, "none"},
	{"elem", 0, "first"},
	{"elem", 0, "mid"},
	{"elem", 0, "last"},
}

func layoutCaseGap(e *harness.Env, space string, pages [][]kind, gapName string, gapIdx int, cfg layCfg) {
	layoutCaseAt(e, space, pages, variant{"elem", 0, gapName}, gapIdx, cfg)
}

func layoutCase(e *harness.Env, space string, pages [][]kind, v variant, cfg layCfg, extra ...interface{}) {
	ei, ok := v.emptyIdx(len(pages))
	if !ok {
		return
	}
	layoutCaseAt(e, space, pages, v, ei, cfg, extra...)
}

func layoutCaseAt(e *harness.Env, space string, pages [][]kind, v variant, ei int, cfg layCfg, extra ...interface{}) {
	mm := cfg.cc.MinHeadingLevel
	f := docFeats(pages, mm)
	order := "canon"
	if !canonical(pages) {
		order = "interleaved"
	}
	spec := docSpec{pages: pages, empty: ei, pnumOff: v.off, hrep: "elem", layout: true, lpToks: wordsForChars(cfg.cc.MaxChunkSize), majorMax: mm, deco: textDeco, hgroup: curHGroup}
	kv := []interface{}{"space", space, "ck", "layout", "cfg", cfg.name, "pnum", v.off + 1, "empty", v.empty, "order", order,
		"skip", yn(f.skip), "pops", yn(f.pops), "nested", yn(f.nested), "emptyleaf", yn(f.emptyleaf),
		"minorfirst", yn(f.minorfirst), "minortail", yn(f.minortail), "introlist", yn(f.introlist), "multipage", yn(f.multipage)}
	kv = append(kv, extra...)
	kv = append(kv, "doc", spec.String())
	base := desc(kv...)
	mine, only := owned(e, base)
	if !mine {
		return
	}
	evalCase(e, base, only, spec, true, cfg.chunk)
}

func spaceLayout(e *harness.Env) {
	maxLen := 3
	if e.Thorough() {
		maxLen = 4
	}
	e.Note("bound_layout", fmt.Sprintf("sequences of total length <=%d over 9 element kinds, <=3 pages + empty page", maxLen))
	alphabet := []kind{kH1, kH2, kH3, kH4, kP, kLP, kIP, kFL, kNL}
	cfgs := layConfigs()
	forSeqs(alphabet, maxLen, true, func(seq []kind) {
		for _, pages := range cuts(seq, 3) {
			canon := canonical(pages)
			for vi, v := range layVariants {
				if !canon && vi > 0 {
					break // interleaved pages: plain variant, two configurations
				}
				for ci, cfg := range cfgs {
					if (vi > 0 || !canon) && ci > 1 {
						break
					}
					layoutCase(e, "layout", pages, v, cfg)
				}
			}
		}
	})
}

func spaceLayoutNest(e *harness.Env) {
	maxLen := 4
	if e.Thorough() {
		maxLen = 5
	}
	e.Note("bound_layout_nest", fmt.Sprintf("heading sequences of length <=%d over H1..H4 x body subsets", maxLen))
	heads := []kind{kH1, kH2, kH3, kH4}
	cfgs := layConfigs()
	sel := []layCfg{cfgs[0], cfgs[1], cfgs[3]}
	forSeqs(heads, maxLen, false, func(hs []kind) {
		for mask := 0; mask < 1<<len(hs); mask++ {
			densePages := 0
			for _, pack := range []string{"dense", "perheading"} {
				var pages [][]kind
				var cur []kind
				for i, h := range hs {
					if len(cur) > 0 && (pack == "perheading" || !cur[len(cur)-1].isHeading()) {
						pages = append(pages, cur)
						cur = nil
					}
					cur = append(cur, h)
					if mask&(1<<i) != 0 {
						cur = append(cur, kP)
					}
				}
				pages = append(pages, cur)
				if pack == "perheading" && len(pages) == densePages {
					continue // same document as the dense packing
				}
				densePages = len(pages)
				var bodies strings.Builder
				for i := range hs {
					bodies.WriteString(yn(mask&(1<<i) != 0))
				}
				for _, cfg := range sel {
					layoutCase(e, "layout-nest", pages, variant{"elem", 0, "none"}, cfg, "pack", pack, "bodies", bodies.String())
				}
			}
		}
	})
}
