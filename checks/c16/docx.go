package main

import (
	"fmt"

	"verif/internal/gen/docxw"
)

// gen hands out the unique tokens of one document.
type gen struct{ n int }

func (g *gen) tok() string {
	g.n++
	return fmt.Sprintf("Tok%02d", g.n)
}

// docxKind is one letter of the DOCX block alphabet: it produces the writer blocks and, in
// parallel, what a reader has to present for them.
type docxKind struct {
	name  string
	feats []string // descriptor tokens has=<feat>
	mk    func(g *gen, o docxOpt) ([]docxw.Block, []xBlock)
}

// docxOpt selects the optional parts of the package.
type docxOpt struct {
	name           string
	styles, nums   bool
	header, footer bool
}

var docxOpts = []docxOpt{
	{"full", true, true, true, true},
	{"nohf", true, true, false, false},
	{"nostyles", false, true, true, true},
	{"nonumbering", true, false, true, true},
	{"bare", false, false, false, false},
}

func rn(items ...docxw.Item) docxw.Run { return docxw.R(items...) }

func docxPara(name string, feats []string, f func(g *gen) ([]docxw.Inline, []atom)) docxKind {
	return docxKind{name, feats, func(g *gen, o docxOpt) ([]docxw.Block, []xBlock) {
		in, at := f(g)
		return []docxw.Block{docxw.Para{Content: in}}, []xBlock{{kind: kPara, atoms: at}}
	}}
}

func docxHeading(name, feat, style string, outline, level int, needStyles bool) docxKind {
	var feats []string
	if feat != "" {
		feats = []string{feat}
	}
	return docxKind{name, feats, func(g *gen, o docxOpt) ([]docxw.Block, []xBlock) {
		a, b := g.tok(), g.tok()
		p := docxw.Para{Style: style, Outline: outline, Content: []docxw.Inline{rn(docxw.T(a)), rn(docxw.T(" " + b))}}
		return []docxw.Block{p}, []xBlock{{kind: kHeading, level: level, loose: needStyles && !o.styles, feat: feat, atoms: []atom{tk(a), ws("text-space"), tk(b)}}}
	}}
}

func docxItem(name string, numID, lvl int) docxKind {
	return docxKind{name, nil, func(g *gen, o docxOpt) ([]docxw.Block, []xBlock) {
		a := g.tok()
		style := ""
		if o.styles {
			style = "ListParagraph"
		}
		p := docxw.Para{Style: style, NumID: numID, ILvl: lvl, Content: []docxw.Inline{rn(docxw.T(a))}}
		return []docxw.Block{p}, []xBlock{{kind: kItem, level: lvl, list: numID, ordered: docxListOrdered[numID], loose: !o.nums, atoms: atomsOf(a)}}
	}}
}

func cellP(g *gen, n int) (docxw.Cell, [][]atom) {
	var c docxw.Cell
	var ps [][]atom
	for i := 0; i < n; i++ {
		t := g.tok()
		c.Blocks = append(c.Blocks, docxw.P(t))
		ps = append(ps, atomsOf(t))
	}
	return c, ps
}

func docxAlphabet() []docxKind {
	ks := []docxKind{
		docxPara("p1", nil, func(g *gen) ([]docxw.Inline, []atom) {
			a := g.tok()
			return []docxw.Inline{rn(docxw.T(a))}, atomsOf(a)
		}),
		docxPara("p3", nil, func(g *gen) ([]docxw.Inline, []atom) {
			a, b, c := g.tok(), g.tok(), g.tok()
			return []docxw.Inline{rn(docxw.T(a + " ")), docxw.Run{Bold: true, Items: []docxw.Item{docxw.T(b)}}, docxw.Run{Italic: true, Items: []docxw.Item{docxw.T(" " + c)}}},
				[]atom{tk(a), ws("text-space"), tk(b), ws("text-space"), tk(c)}
		}),
		docxPara("ptab", []string{"tab"}, func(g *gen) ([]docxw.Inline, []atom) {
			a, b := g.tok(), g.tok()
			return []docxw.Inline{rn(docxw.T(a)), rn(docxw.TabI(), docxw.T(b))}, []atom{tk(a), ws("tab"), tk(b)}
		}),
		docxPara("pbr", []string{"br"}, func(g *gen) ([]docxw.Inline, []atom) {
			a, b := g.tok(), g.tok()
			return []docxw.Inline{rn(docxw.T(a), docxw.BrI(), docxw.T(b))}, []atom{tk(a), ws("br"), tk(b)}
		}),
		docxPara("psym", []string{"sym"}, func(g *gen) ([]docxw.Inline, []atom) {
			a, b := g.tok(), g.tok()
			return []docxw.Inline{rn(docxw.T(a), docxw.SymI("263A"), docxw.T(b))}, []atom{tk(a), sym("☺", "sym"), tk(b)}
		}),
		docxPara("psymr", nil, func(g *gen) ([]docxw.Inline, []atom) {
			a, b := g.tok(), g.tok()
			return []docxw.Inline{rn(docxw.T(a)), rn(docxw.SymI("2605")), rn(docxw.T(b))}, []atom{tk(a), sym("★", "sym-run"), tk(b)}
		}),
		docxPara("ptabr", nil, func(g *gen) ([]docxw.Inline, []atom) {
			a, b := g.tok(), g.tok()
			return []docxw.Inline{rn(docxw.T(a)), rn(docxw.TabI()), rn(docxw.T(b))}, []atom{tk(a), ws("tab-run"), tk(b)}
		}),
		docxPara("plink", []string{"hyperlink"}, func(g *gen) ([]docxw.Inline, []atom) {
			a, b, c := g.tok(), g.tok(), g.tok()
			return []docxw.Inline{rn(docxw.T(a + " ")), docxw.Hyperlink{Runs: []docxw.Run{rn(docxw.T(b))}}, rn(docxw.T(" " + c))},
				[]atom{tk(a), ws("text-space"), tkf(b, "hyperlink"), ws("text-space"), tk(c)}
		}),
		docxPara("pins", []string{"ins"}, func(g *gen) ([]docxw.Inline, []atom) {
			a, b, c := g.tok(), g.tok(), g.tok()
			return []docxw.Inline{rn(docxw.T(a + " ")), docxw.Ins{Runs: []docxw.Run{rn(docxw.T(b))}}, rn(docxw.T(" " + c))},
				[]atom{tk(a), ws("text-space"), tkf(b, "ins"), ws("text-space"), tk(c)}
		}),
		docxPara("psdt", []string{"sdt-inline"}, func(g *gen) ([]docxw.Inline, []atom) {
			a, b, c := g.tok(), g.tok(), g.tok()
			return []docxw.Inline{rn(docxw.T(a + " ")), docxw.Sdt{Runs: []docxw.Run{rn(docxw.T(b))}}, rn(docxw.T(" " + c))},
				[]atom{tk(a), ws("text-space"), tkf(b, "sdt-inline"), ws("text-space"), tk(c)}
		}),
		docxPara("psmart", []string{"smarttag"}, func(g *gen) ([]docxw.Inline, []atom) {
			a, b := g.tok(), g.tok()
			return []docxw.Inline{rn(docxw.T(a + " ")), docxw.SmartTag{Runs: []docxw.Run{rn(docxw.T(b))}}},
				[]atom{tk(a), ws("text-space"), tkf(b, "smarttag")}
		}),
		docxPara("pbm", nil, func(g *gen) ([]docxw.Inline, []atom) {
			a, b := g.tok(), g.tok()
			return []docxw.Inline{rn(docxw.T(a + " ")), docxw.Bookmark{Name: "bm" + a}, rn(docxw.T(b))}, []atom{tk(a), ws("text-space"), tk(b)}
		}),
		{"pdel", nil, nil}, // filled in buildDocx (needs a ghost token)
		{"pfld", nil, nil}, // filled in buildDocx (needs a ghost token)
		{"empty", nil, func(g *gen, o docxOpt) ([]docxw.Block, []xBlock) {
			return []docxw.Block{docxw.Para{}}, nil
		}},
		docxHeading("h1", "", "Heading1", 0, 1, true),
		docxHeading("h2", "", "Heading2", 0, 2, true),
		docxHeading("hc", "heading-based-on", "MyHead", 0, 2, true),
		docxHeading("ho", "", "", 3, 3, false),
		// style chains that carry heading markers at two different levels: the style's own
		// (nearest) marker is the authored level (ECMA-376 17.7.4.3: the derived style overrides)
		docxHeading("hown", "heading-own-vs-base", "SectionHead", 0, 3, true),  // own outlineLvl 2, based on Heading1
		docxHeading("hup", "heading-own-vs-base", "ChapterHead", 0, 1, true),   // own outlineLvl 0, based on Heading3
		docxHeading("hchain", "heading-own-vs-base", "SubSection", 0, 3, true), // no marker -> SectionHead (3) -> Heading1 (1)
		docxHeading("hloc", "heading-own-vs-base", "berschrift2", 0, 2, true),  // localized id, name "heading 2", outlineLvl 1, based on umbrella style named "Heading"
		// named non-heading style, alone and combined with direct formatting; later blocks that reuse
		// the style must be judged by their own properties only
		{"pst", nil, func(g *gen, o docxOpt) ([]docxw.Block, []xBlock) {
			a := g.tok()
			return []docxw.Block{docxw.Para{Style: "BodyText", Content: []docxw.Inline{rn(docxw.T(a))}}}, []xBlock{{kind: kPara, atoms: atomsOf(a)}}
		}},
		docxHeading("host", "styled-direct-outline", "BodyText", 2, 2, false), // pStyle BodyText + direct outlineLvl 1
		{"plp", nil, func(g *gen, o docxOpt) ([]docxw.Block, []xBlock) {
			a := g.tok() // the list style of l0.. without numbering properties: a plain paragraph
			return []docxw.Block{docxw.Para{Style: "ListParagraph", Content: []docxw.Inline{rn(docxw.T(a))}}}, []xBlock{{kind: kPara, atoms: atomsOf(a)}}
		}},
		{"lbt", []string{"styled-numpr"}, func(g *gen, o docxOpt) ([]docxw.Block, []xBlock) {
			a := g.tok() // numPr on a paragraph that carries the named body style
			p := docxw.Para{Style: "BodyText", NumID: 1, ILvl: 0, Content: []docxw.Inline{rn(docxw.T(a))}}
			return []docxw.Block{p}, []xBlock{{kind: kItem, level: 0, list: 1, ordered: false, loose: !o.nums, feat: "styled-numpr", atoms: atomsOf(a)}}
		}},
		docxItem("l0", 1, 0),
		docxItem("l1", 1, 1),
		docxItem("l2", 1, 2),
		docxItem("n0", 2, 0),
		docxItem("n1", 2, 1),
		docxItem("c0", 3, 0), // lowerLetter list that starts at 3
		docxItem("d0", 4, 0), // second w:num on the decimal definition, with w:lvlOverride/w:startOverride
		{"t11", nil, func(g *gen, o docxOpt) ([]docxw.Block, []xBlock) {
			c, ps := cellP(g, 1)
			t := docxw.Table{Cols: 1, Rows: []docxw.Row{{Cells: []docxw.Cell{c}}}}
			return []docxw.Block{t}, []xBlock{{kind: kTable, tbl: &xTable{1, 1, []xCell{{0, 0, 1, 1, ps}}}}}
		}},
		{"tst", nil, func(g *gen, o docxOpt) ([]docxw.Block, []xBlock) {
			// table with a named table style and a header row
			a, pa := cellP(g, 1)
			b, pb := cellP(g, 1)
			t := docxw.Table{Cols: 1, Style: "TableGrid", Rows: []docxw.Row{{Header: true, Cells: []docxw.Cell{a}}, {Cells: []docxw.Cell{b}}}}
			return []docxw.Block{t}, []xBlock{{kind: kTable, tbl: &xTable{2, 1, []xCell{{0, 0, 1, 1, pa}, {1, 0, 1, 1, pb}}}}}
		}},
		{"t22", []string{"cell-multipara"}, func(g *gen, o docxOpt) ([]docxw.Block, []xBlock) {
			var rows []docxw.Row
			xt := &xTable{rows: 2, cols: 2}
			for r := 0; r < 2; r++ {
				var row docxw.Row
				for c := 0; c < 2; c++ {
					cell, ps := cellP(g, 2)
					row.Cells = append(row.Cells, cell)
					xt.cells = append(xt.cells, xCell{r, c, 1, 1, ps})
				}
				rows = append(rows, row)
			}
			return []docxw.Block{docxw.Table{Cols: 2, Rows: rows}}, []xBlock{{kind: kTable, tbl: xt, feat: "cell-multipara"}}
		}},
		{"tspan", []string{"gridspan"}, func(g *gen, o docxOpt) ([]docxw.Block, []xBlock) {
			// row 1: [A span 2][B]   row 2: [C][D][E]
			a, pa := cellP(g, 1)
			a.Span = 2
			b, pb := cellP(g, 1)
			c, pc := cellP(g, 1)
			d, pd := cellP(g, 1)
			e, pe := cellP(g, 1)
			t := docxw.Table{Cols: 3, Rows: []docxw.Row{{Cells: []docxw.Cell{a, b}}, {Cells: []docxw.Cell{c, d, e}}}}
			xt := &xTable{2, 3, []xCell{{0, 0, 1, 2, pa}, {0, 2, 1, 1, pb}, {1, 0, 1, 1, pc}, {1, 1, 1, 1, pd}, {1, 2, 1, 1, pe}}}
			return []docxw.Block{t}, []xBlock{{kind: kTable, tbl: xt, feat: "gridspan"}}
		}},
		{"tvm", []string{"vmerge"}, func(g *gen, o docxOpt) ([]docxw.Block, []xBlock) {
			// row 1: [A restart][B]   row 2: [continue][C]   row 3: [D][E]
			a, pa := cellP(g, 1)
			a.VMerge = docxw.VMergeRestart
			b, pb := cellP(g, 1)
			cont := docxw.Cell{VMerge: docxw.VMergeContinue}
			c, pc := cellP(g, 1)
			d, pd := cellP(g, 1)
			e, pe := cellP(g, 1)
			t := docxw.Table{Cols: 2, Rows: []docxw.Row{{Cells: []docxw.Cell{a, b}}, {Cells: []docxw.Cell{cont, c}}, {Cells: []docxw.Cell{d, e}}}}
			xt := &xTable{3, 2, []xCell{{0, 0, 2, 1, pa}, {0, 1, 1, 1, pb}, {1, 1, 1, 1, pc}, {2, 0, 1, 1, pd}, {2, 1, 1, 1, pe}}}
			return []docxw.Block{t}, []xBlock{{kind: kTable, tbl: xt, feat: "vmerge"}}
		}},
		{"tvm3", []string{"vmerge"}, func(g *gen, o docxOpt) ([]docxw.Block, []xBlock) {
			// vMerge group of three rows: [A restart][B] / [continue][C] / [continue][D] / [E][F]
			a, pa := cellP(g, 1)
			a.VMerge = docxw.VMergeRestart
			b, pb := cellP(g, 1)
			cont := docxw.Cell{VMerge: docxw.VMergeContinue}
			c, pc := cellP(g, 1)
			d, pd := cellP(g, 1)
			e, pe := cellP(g, 1)
			f, pf := cellP(g, 1)
			t := docxw.Table{Cols: 2, Rows: []docxw.Row{{Cells: []docxw.Cell{a, b}}, {Cells: []docxw.Cell{cont, c}}, {Cells: []docxw.Cell{cont, d}}, {Cells: []docxw.Cell{e, f}}}}
			xt := &xTable{4, 2, []xCell{{0, 0, 3, 1, pa}, {0, 1, 1, 1, pb}, {1, 1, 1, 1, pc}, {2, 1, 1, 1, pd}, {3, 0, 1, 1, pe}, {3, 1, 1, 1, pf}}}
			return []docxw.Block{t}, []xBlock{{kind: kTable, tbl: xt, feat: "vmerge"}}
		}},
		{"tblk", []string{"block-merge"}, func(g *gen, o docxOpt) ([]docxw.Block, []xBlock) {
			// row 1: [A 2x2 block: gridSpan 2 + vMerge restart][B]
			// row 2: [continuation gridSpan 2][C]
			// row 3: [D][E][F]
			a, pa := cellP(g, 1)
			a.Span, a.VMerge = 2, docxw.VMergeRestart
			b, pb := cellP(g, 1)
			cont := docxw.Cell{Span: 2, VMerge: docxw.VMergeContinue}
			c, pc := cellP(g, 1)
			d, pd := cellP(g, 1)
			e, pe := cellP(g, 1)
			f, pf := cellP(g, 1)
			t := docxw.Table{Cols: 3, Rows: []docxw.Row{{Cells: []docxw.Cell{a, b}}, {Cells: []docxw.Cell{cont, c}}, {Cells: []docxw.Cell{d, e, f}}}}
			xt := &xTable{3, 3, []xCell{{0, 0, 2, 2, pa}, {0, 2, 1, 1, pb}, {1, 2, 1, 1, pc}, {2, 0, 1, 1, pd}, {2, 1, 1, 1, pe}, {2, 2, 1, 1, pf}}}
			return []docxw.Block{t}, []xBlock{{kind: kTable, tbl: xt, feat: "block-merge"}}
		}},
		{"tblk4", []string{"block-merge"}, func(g *gen, o docxOpt) ([]docxw.Block, []xBlock) {
			// row 1: [X][A 2x2 block][B]
			// row 2: [Y][continuation gridSpan 2][C]
			// row 3: [D][E][F][G]
			x, px := cellP(g, 1)
			a, pa := cellP(g, 1)
			a.Span, a.VMerge = 2, docxw.VMergeRestart
			b, pb := cellP(g, 1)
			y, py := cellP(g, 1)
			cont := docxw.Cell{Span: 2, VMerge: docxw.VMergeContinue}
			c, pc := cellP(g, 1)
			d, pd := cellP(g, 1)
			e, pe := cellP(g, 1)
			f, pf := cellP(g, 1)
			gg, pg := cellP(g, 1)
			t := docxw.Table{Cols: 4, Rows: []docxw.Row{{Cells: []docxw.Cell{x, a, b}}, {Cells: []docxw.Cell{y, cont, c}}, {Cells: []docxw.Cell{d, e, f, gg}}}}
			xt := &xTable{3, 4, []xCell{{0, 0, 1, 1, px}, {0, 1, 2, 2, pa}, {0, 3, 1, 1, pb}, {1, 0, 1, 1, py}, {1, 3, 1, 1, pc},
				{2, 0, 1, 1, pd}, {2, 1, 1, 1, pe}, {2, 2, 1, 1, pf}, {2, 3, 1, 1, pg}}}
			return []docxw.Block{t}, []xBlock{{kind: kTable, tbl: xt, feat: "block-merge"}}
		}},
		{"ttab", []string{"cell-tab"}, func(g *gen, o docxOpt) ([]docxw.Block, []xBlock) {
			a, b := g.tok(), g.tok()
			cell := docxw.Cell{Blocks: []docxw.Block{docxw.Para{Content: []docxw.Inline{rn(docxw.T(a)), rn(docxw.TabI(), docxw.T(b))}}}}
			t := docxw.Table{Cols: 1, Rows: []docxw.Row{{Cells: []docxw.Cell{cell}}}}
			xt := &xTable{1, 1, []xCell{{0, 0, 1, 1, [][]atom{{tk(a), ws("cell-tab"), tk(b)}}}}}
			return []docxw.Block{t}, []xBlock{{kind: kTable, tbl: xt, feat: "cell-tab"}}
		}},
		{"tlink", []string{"cell-hyperlink"}, func(g *gen, o docxOpt) ([]docxw.Block, []xBlock) {
			a, b := g.tok(), g.tok()
			cell := docxw.Cell{Blocks: []docxw.Block{docxw.Para{Content: []docxw.Inline{rn(docxw.T(a + " ")), docxw.Hyperlink{Runs: []docxw.Run{rn(docxw.T(b))}}}}}}
			t := docxw.Table{Cols: 1, Rows: []docxw.Row{{Cells: []docxw.Cell{cell}}}}
			xt := &xTable{1, 1, []xCell{{0, 0, 1, 1, [][]atom{{tk(a), ws("text-space"), tkf(b, "cell-hyperlink")}}}}}
			return []docxw.Block{t}, []xBlock{{kind: kTable, tbl: xt, feat: "cell-hyperlink"}}
		}},
		{"tnest", []string{"nested-table"}, func(g *gen, o docxOpt) ([]docxw.Block, []xBlock) {
			a, b, c2 := g.tok(), g.tok(), g.tok()
			inner := docxw.Table{Cols: 1, Rows: []docxw.Row{{Cells: []docxw.Cell{docxw.C(b)}}}}
			cell := docxw.Cell{Blocks: []docxw.Block{docxw.P(a), inner}}
			t := docxw.Table{Cols: 2, Rows: []docxw.Row{{Cells: []docxw.Cell{cell, docxw.C(c2)}}}}
			xt := &xTable{1, 2, []xCell{{0, 0, 1, 1, [][]atom{{tk(a)}, {tkf(b, "nested-table")}}}, {0, 1, 1, 1, [][]atom{atomsOf(c2)}}}}
			return []docxw.Block{t}, []xBlock{{kind: kTable, tbl: xt, feat: "nested-table"}}
		}},
		{"bsdt", []string{"sdt-block"}, func(g *gen, o docxOpt) ([]docxw.Block, []xBlock) {
			a := g.tok()
			return []docxw.Block{docxw.SdtBlock{Blocks: []docxw.Block{docxw.P(a)}}}, []xBlock{{kind: kPara, feat: "sdt-block", atoms: []atom{tkf(a, "sdt-block")}}}
		}},
	}
	return ks
}

// docxStyles is DefaultStyles plus the custom heading style "MyHead" (based on Heading2, no own
// outline level: it inherits heading-ness and level 2 from its base, ECMA-376 17.7.4.3).
func docxStyles() []docxw.Style {
	return append(docxw.DefaultStyles(),
		docxw.Style{ID: "MyHead", Name: "Chapter Sub", BasedOn: "Heading2", Custom: true},
		// two heading markers of different levels in one basedOn chain
		docxw.Style{ID: "SectionHead", Name: "Section Head", BasedOn: "Heading1", Custom: true, Outline: 3},
		docxw.Style{ID: "ChapterHead", Name: "Chapter Head", BasedOn: "Heading3", Custom: true, Outline: 1},
		docxw.Style{ID: "SubSection", Name: "Sub Section", BasedOn: "SectionHead", Custom: true},
		// localized Word: ids are translated, names are the built-in primary names; umbrella base style
		docxw.Style{ID: "BodyText", Name: "Body Text", BasedOn: "Normal"},
		docxw.Style{ID: "TableGrid", Name: "Table Grid", Type: "table"},
		docxw.Style{ID: "berschrift", Name: "Heading", BasedOn: "Normal"},
		docxw.Style{ID: "berschrift2", Name: "heading 2", BasedOn: "berschrift", Outline: 2})
}

type docxCase struct {
	doc   docxw.Doc
	opts  docxw.Opts
	x     expect
	shape []string // document-level structural tags (descriptor tokens shape=<tag>)
}

// buildDocx assembles the document for a sequence of alphabet letters.
func buildDocx(alpha []docxKind, seq []int, o docxOpt, layout string) docxCase {
	g := &gen{}
	var c docxCase
	fs := map[string]bool{}
	for _, i := range seq {
		k := alpha[i]
		var bs []docxw.Block
		var xs []xBlock
		if k.name == "pdel" {
			a, d, b := g.tok(), fmt.Sprintf("Del%02d", g.n), g.tok()
			bs = []docxw.Block{docxw.Para{Content: []docxw.Inline{rn(docxw.T(a + " ")), docxw.Del{Runs: []docxw.Run{rn(docxw.T(d))}}, rn(docxw.T(b))}}}
			xs = []xBlock{{kind: kPara, atoms: []atom{tk(a), ws("text-space"), tk(b)}}}
			c.x.ghosts = append(c.x.ghosts, ghost{d, "deleted-text", len(c.x.blocks)})
		} else if k.name == "pfld" {
			// complex field: the field code (w:instrText) is not document text, the field result is
			a, d, b := g.tok(), fmt.Sprintf("Del%02d", g.n), g.tok()
			bs = []docxw.Block{docxw.Para{Content: []docxw.Inline{rn(docxw.T(a + " ")), rn(docxw.Item{Kind: docxw.FldBegin}), rn(docxw.Item{Kind: docxw.Instr, Text: " REF " + d + " "}),
				rn(docxw.Item{Kind: docxw.FldSep}), rn(docxw.T(b)), rn(docxw.Item{Kind: docxw.FldEnd})}}}
			xs = []xBlock{{kind: kPara, atoms: []atom{tk(a), ws("text-space"), tk(b)}}}
			c.x.ghosts = append(c.x.ghosts, ghost{d, "field-code", len(c.x.blocks)})
		} else {
			bs, xs = k.mk(g, o)
		}
		for j := range xs {
			xs[j].letter, xs[j].feats = k.name, k.feats
		}
		c.doc.Body = append(c.doc.Body, bs...)
		c.x.blocks = append(c.x.blocks, xs...)
	}
	if o.styles {
		c.opts.Styles = docxStyles()
	}
	if o.nums {
		c.numbering(layout)
	}
	if o.header {
		c.doc.Header = []docxw.Para{docxw.P("Hdr01 running head")}
		c.x.ghosts = append(c.x.ghosts, ghost{"Hdr01", "header", -1})
	}
	if o.footer {
		c.doc.Footer = []docxw.Para{docxw.P("Ftr01 page")}
		c.x.ghosts = append(c.x.ghosts, ghost{"Ftr01", "footer", -1})
	}
	// structural tag: a body-level table, later another body-level table (or block-level content
	// control), later a paragraph
	st := 0
	for _, b := range c.doc.Body {
		switch b.(type) {
		case docxw.Table, docxw.SdtBlock:
			if st < 2 {
				st++
			}
		case docxw.Para:
			if st == 2 {
				st = 3
			}
		}
	}
	if st == 3 {
		fs["tbl-tbl-p"] = true
	}
	// structural tag: a table with a nested table, later a paragraph, later a body-level table
	st = 0
	for _, b := range c.doc.Body {
		switch t := b.(type) {
		case docxw.Table:
			if st == 2 {
				st = 3
			}
			if st == 0 && hasNestedTable(t) {
				st = 1
			}
		case docxw.Para:
			if st == 1 {
				st = 2
			}
		}
	}
	if st == 3 {
		fs["nested-tbl-p-tbl"] = true
	}
	if firstItemNested(c.x.blocks) {
		fs["first-item-nested"] = true
	}
	c.shape = sortedKeys(fs)
	return c
}

func hasNestedTable(t docxw.Table) bool {
	for _, r := range t.Rows {
		for _, c := range r.Cells {
			for _, b := range c.Blocks {
				if _, ok := b.(docxw.Table); ok {
					return true
				}
			}
		}
	}
	return false
}

// Logical lists of the DOCX alphabet (xBlock.list / Para.NumID before the layout is applied):
// 1 = bullet (3 levels), 2 = decimal (3 levels), 3 = lowerLetter starting at 3,
// 4 = another numbering instance of the decimal definition with a start override.
var docxListOrdered = map[int]bool{1: false, 2: true, 3: true, 4: true}

var docxListLevels = map[int][]docxw.Level{
	1: {{Fmt: "bullet"}, {Fmt: "bullet"}, {Fmt: "bullet"}},
	2: {{Fmt: "decimal"}, {Fmt: "decimal"}, {Fmt: "decimal"}},
	3: {{Fmt: "lowerLetter", Start: 3}, {Fmt: "lowerRoman", Start: 2}, {Fmt: "decimal"}},
}

// docxNumLayouts: how the logical lists are laid out in word/numbering.xml. The reading of the body
// must not depend on it: the number of w:abstractNum definitions, their declaration order, their
// ids and the w:num -> w:abstractNum indirection are all free.
var docxNumLayouts = []string{"id", "rev", "rot", "min"}

// numbering writes the numbering part for the chosen layout and renames the numIds of the body.
func (c *docxCase) numbering(layout string) {
	type def struct{ list, abs int } // logical definition list (1..3) -> abstractNumId
	var abs []def
	numID := map[int]int{}
	var numOrder []int // logical lists in w:num declaration order
	switch layout {
	case "rev": // definitions and instances declared in reverse order, ids from 0
		abs = []def{{3, 0}, {2, 1}, {1, 2}}
		numID = map[int]int{1: 1, 2: 2, 3: 3, 4: 4}
		numOrder = []int{4, 3, 2, 1}
	case "rot": // rotated declaration order, sparse non-monotone ids
		abs = []def{{2, 5}, {1, 0}, {3, 9}}
		numID = map[int]int{1: 7, 2: 2, 3: 5, 4: 3}
		numOrder = []int{3, 1, 4, 2}
	case "min": // only what the body uses, in order of first use (1..3 definitions)
		used := map[int]bool{}
		for _, b := range c.doc.Body {
			if p, ok := b.(docxw.Para); ok && p.NumID > 0 && !used[p.NumID] {
				used[p.NumID] = true
				numOrder = append(numOrder, p.NumID)
				numID[p.NumID] = 10 + p.NumID
			}
		}
		seen := map[int]bool{}
		for _, l := range numOrder {
			d := l
			if d == 4 {
				d = 2
			}
			if !seen[d] {
				seen[d] = true
				abs = append(abs, def{d, len(abs)})
			}
		}
	default: // "id": three definitions in the order bullet, decimal, lowerLetter; numId n -> abstractNum n
		abs = []def{{1, 1}, {2, 2}, {3, 3}}
		numID = map[int]int{1: 1, 2: 2, 3: 3, 4: 4}
		numOrder = []int{1, 2, 3, 4}
	}
	absOf := map[int]int{}
	c.opts.Abstracts = []docxw.Abstract{}
	for _, d := range abs {
		absOf[d.list] = d.abs
		c.opts.Abstracts = append(c.opts.Abstracts, docxw.Abstract{ID: d.abs, Levels: docxListLevels[d.list]})
	}
	c.opts.Nums = []docxw.Num{}
	for _, l := range numOrder {
		n := docxw.Num{ID: numID[l], AbstractID: absOf[l]}
		if l == 4 {
			n.AbstractID = absOf[2]
			n.StartOverride = map[int]int{0: 5}
		}
		c.opts.Nums = append(c.opts.Nums, n)
	}
	for i, b := range c.doc.Body {
		if p, ok := b.(docxw.Para); ok && p.NumID > 0 {
			p.NumID = numID[p.NumID]
			c.doc.Body[i] = p
		}
	}
}
