// C16 — Word-processor documents keep their order and structure.
//
// Bounded-exhaustive enumeration of DOCX and ODT packages written by the independent writers
// verif/internal/gen/docxw and odtw: every sequence of <= N body blocks over a block alphabet
// (plain / multi-run paragraphs, tab / break / symbol runs, hyperlink / tracked change / content
// control wrappers, headings by built-in style, inherited style and outline level, list items on
// three levels of two lists, plain / multi-paragraph / merged-cell tables, ...), with and without
// the optional package parts. Every package is read through tabula.Open(path).Text(),
// .ToMarkdown() and .Document() and each view is compared with the writer's logical document:
// every token exactly once, in source order, with the authored whitespace / symbols between its
// neighbours, blocks separated, element kinds, heading levels, list levels and the table grid as
// authored, header / footer / deleted text absent.
package main

import (
	"bytes"
	"encoding/xml"
	"fmt"
	"io"
	"os"
	"path/filepath"
	"sort"
	"strings"

	"github.com/tsawler/tabula"
	"github.com/tsawler/tabula/docx"
	"github.com/tsawler/tabula/model"
	"github.com/tsawler/tabula/odt"
	"verif/internal/gen/docxw"
	"verif/internal/gen/odtw"
	"verif/internal/gen/zipw"
	"verif/internal/harness"
)

func main() { harness.Main("C16", "exploration", run) }

func sortedKeys(m map[string]bool) []string {
	var ks []string
	for k := range m {
		ks = append(ks, k)
	}
	sort.Strings(ks)
	return ks
}

var views = []string{"text", "md", "doc", "lists"}

type checker struct {
	e    *harness.Env
	dir  string
	nsig map[string]int // failures seen per signature (this worker)
}

func run(e *harness.Env) {
	e.Rule = "documents: (A) every sequence of 1..3 body blocks over the full block alphabet of each format (DOCX 46 letters, ODT 40 letters; listed in docx_alphabet / odt_alphabet), all optional parts present " +
		"(quick: length-3 sequences with at most one letter outside the structural sub-alphabet); " +
		"(B, thorough) every sequence of 4 blocks over the structural sub-alphabet (letters whose effect can cross block boundaries: plain / empty / named-style paragraphs, direct formatting on a styled paragraph, headings, list items, tables, block-level content control) " +
		"and every sequence of 4 blocks with at most 2 letters other than the plain paragraph over the full alphabet; " +
		"(C) for every other combination of optional parts (styles / numbering / header / footer absent) and for ExcludeHeadersAndFooters (with and without header / footer parts): every sequence of <= 2 blocks over the full alphabet (thorough: also 3 blocks over the structural sub-alphabet). " +
		"(D) numbering layout: every sequence of 1..3 (thorough 1..4) letters of the list sub-alphabet additionally with every other layout of word/numbering.xml (1..3 w:abstractNum definitions of differing numFmt / start, declaration order reversed / rotated / minimal, sparse ids, w:num -> w:abstractNum not the identity, a w:num with lvlOverride/startOverride) resp. of the ODT text:list-style definitions (order reversed / rotated / minimal, common vs automatic styles, and style scope: styles.xml automatic styles whose names collide with content.xml automatic styles of a different definition). " +
		"(D2) ODT column declarations: every sequence of 1..2 (thorough 1..3) letters of the table sub-alphabet with each spelling of the table:table-column declarations (one repeated declaration, one per column, repeated+single, single+repeated, repeated+repeated); " +
		"(E) one-reader space (ODT: with each column-declaration spelling): every sequence of 1..2 (thorough 1..3) letters of a table / list sub-alphabet: the merge spans reported by a fresh reader's Tables() and ModelTables() against the authored grid, and for every ordered pair (first, second) of the reader views Text, Markdown, Document, Tables, ModelTables, Lists called on ONE opened docx/odt Reader: the second result equals the same view of a fresh reader. " +
		"Each document of (A)-(D) is read through Text(), ToMarkdown(), Document() and, when it has list items, docx/odt Reader.Lists(); one evaluation = one (document, view, expected block) triple, plus one per (document, view) for the header/footer clause. " +
		"distinct = distinct descriptors; non-trivial = the block is not a plain one-run paragraph or its document contains any other letter"
	e.Assumptions = []string{
		"docxw / odtw write what ECMA-376 / ODF 1.2 prescribe for the logical document (every XML part is checked for well-formedness on every case; no schema validator is available offline)",
		"a style based on a heading style is a heading of the inherited level; text:h/@text:outline-level is the heading level of an ODT heading",
		"Markdown structure is read line-wise (ATX heading, pipe row, list marker + indentation); the GFM-parser reading belongs to C15",
	}
	c := &checker{e: e, nsig: map[string]int{}}
	base := os.TempDir()
	if cf := os.Getenv("VERIF_CURFILE"); cf != "" {
		base = filepath.Dir(cf)
	} else if st, err := os.Stat("/dev/shm"); err == nil && st.IsDir() {
		base = "/dev/shm"
	}
	dir, err := os.MkdirTemp(base, "c16-")
	if err != nil {
		panic(err)
	}
	c.dir = dir
	defer os.RemoveAll(dir)

	c.docx()
	c.odt()
	c.idempotence()
}

// product calls f for every index sequence of exactly length l over k letters, in a fixed order.
func product(k, l int, f func(seq []int)) {
	seq := make([]int, l)
	for {
		f(seq)
		i := l - 1
		for i >= 0 {
			seq[i]++
			if seq[i] < k {
				break
			}
			seq[i] = 0
			i--
		}
		if i < 0 {
			return
		}
	}
}

// plan enumerates the sequences of one (format, parts, mode) combination. names are the letters,
// structural marks the sub-alphabet, first = the all-parts default-mode combination.
func (c *checker) plan(names []string, structural map[string]bool, first bool, f func(seq []int)) {
	k := len(names)
	var sub []int
	for i, n := range names {
		if structural[n] {
			sub = append(sub, i)
		}
	}
	onSub := func(l int, g func(seq []int)) {
		product(len(sub), l, func(s []int) {
			seq := make([]int, l)
			for i, v := range s {
				seq[i] = sub[v]
			}
			g(seq)
		})
	}
	allSub := func(seq []int) bool {
		for _, v := range seq {
			if !structural[names[v]] {
				return false
			}
		}
		return true
	}
	if first {
		for l := 1; l <= 2; l++ {
			product(k, l, f)
		}
		product(k, 3, func(seq []int) {
			// quick: at most one letter outside the structural sub-alphabet (letters with a purely
			// paragraph-local effect are not combined with each other at length 3)
			local := 0
			for _, v := range seq {
				if !structural[names[v]] {
					local++
				}
			}
			if c.e.Thorough() || local <= 1 {
				f(seq)
			}
		})
		if c.e.Thorough() {
			onSub(4, f)
			product(k, 4, func(seq []int) {
				dev := 0
				for _, v := range seq {
					if names[v] != "p1" {
						dev++
					}
				}
				if dev <= 2 && !allSub(seq) {
					f(seq)
				}
			})
		}
		return
	}
	for l := 1; l <= 2; l++ {
		product(k, l, f)
	}
	if c.e.Thorough() {
		onSub(3, f)
	}
}

// planLayouts is plan with the numbering / list-style layout dimension: every sequence of plan runs
// with the first (plain) layout; in the all-parts default-mode combination every sequence of 1..3
// (thorough: 1..4) letters of the list sub-alphabet that contains a list letter additionally runs
// with every other layout.
func (c *checker) planLayouts(names []string, structural, listLetters map[string]bool, layouts []string, first bool, f func(seq []int, layout string)) {
	c.plan(names, structural, first, func(seq []int) { f(seq, layouts[0]) })
	if !first {
		return
	}
	var sub []int
	for i, n := range names {
		if listLetters[n] {
			sub = append(sub, i)
		}
	}
	max := 3
	if c.e.Thorough() {
		max = 4
	}
	for l := 1; l <= max; l++ {
		product(len(sub), l, func(s []int) {
			seq := make([]int, l)
			lists := false
			for i, v := range s {
				seq[i] = sub[v]
				lists = lists || names[sub[v]] != "p1"
			}
			if !lists {
				return
			}
			for _, lay := range layouts[1:] {
				f(seq, lay)
			}
		})
	}
}

// odtColumns is the column-declaration dimension of ODT tables: every sequence of 1..2 (thorough
// 1..3) letters of the table sub-alphabet that contains a table, with every other spelling of the
// table:table-column declarations, read through the three extractor views.
func (c *checker) odtColumns(alpha []odtKind, names []string) {
	var sub []int
	for i, n := range names {
		if odtTableLetters[n] {
			sub = append(sub, i)
		}
	}
	max := 2
	if c.e.Thorough() {
		max = 3
	}
	for l := 1; l <= max; l++ {
		product(len(sub), l, func(s []int) {
			seq := make([]int, l)
			sn := make([]string, l)
			tables := false
			for i, v := range s {
				seq[i], sn[i] = sub[v], names[sub[v]]
				tables = tables || sn[i] != "p1"
			}
			if !tables {
				return
			}
			for _, cols := range odtColLayouts[1:] {
				cs := buildOdt(alpha, seq, odtOpts[0], "id", cols)
				base := "fmt=odt opt=full mode=default num=id cols=" + cols + fmt.Sprintf(" n=%d seq=%s", l, strings.Join(sn, ","))
				for _, f := range cs.shape {
					base += " shape=" + f
				}
				only, ok := c.own(base, &cs.x)
				if !ok {
					continue
				}
				c.evaluate(base, only, "odt", "default", odtw.Members(cs.doc, cs.opts), &cs.x)
			}
		})
	}
}

var odtTableLetters = map[string]bool{"p1": true, "t11": true, "t22": true, "tcs": true, "trs": true, "trs3": true, "tblk": true, "tblk4": true}

var docxListLetters = map[string]bool{"p1": true, "l0": true, "l1": true, "l2": true, "n0": true, "n1": true, "c0": true, "d0": true, "lbt": true}

var odtListLetters = map[string]bool{"p1": true, "lb0": true, "lb012": true, "ln01": true, "lc0": true, "lb11": true, "lsp": true}

var odtListLayouts = []string{"id", "rev", "rot", "min", "auto", "scope"}

var docxStructural = map[string]bool{"pst": true, "host": true, "plp": true, "lbt": true, "p1": true, "empty": true, "h1": true, "hc": true, "ho": true, "l0": true, "l1": true, "l2": true, "n0": true, "n1": true, "c0": true,
	"t11": true, "t22": true, "tvm": true, "tnest": true, "bsdt": true}

var odtStructural = map[string]bool{"hbody": true, "lsp": true, "pp4": true, "p1": true, "empty": true, "h1": true, "hc": true, "lb0": true, "lb012": true, "ln01": true, "lb11": true,
	"t11": true, "t22": true, "trs": true, "tlist": true, "sec": true}

func (c *checker) docx() {
	alpha := docxAlphabet()
	names := make([]string, len(alpha))
	for i, k := range alpha {
		names[i] = k.name
	}
	c.e.Note("docx_alphabet", strings.Join(names, " "))
	for oi, o := range docxOpts {
		for _, mode := range []string{"default", "exclhf"} {
			if mode == "exclhf" && oi > 1 {
				continue // ExcludeHeadersAndFooters: with and without header / footer parts
			}
			c.planLayouts(names, docxStructural, docxListLetters, docxNumLayouts, oi == 0 && mode == "default", func(seq []int, layout string) {
				sn := make([]string, len(seq))
				for i, s := range seq {
					sn[i] = names[s]
				}
				cs := buildDocx(alpha, seq, o, layout)
				base := "fmt=docx opt=" + o.name + " mode=" + mode + " num=" + layout + fmt.Sprintf(" n=%d seq=%s", len(seq), strings.Join(sn, ","))
				for _, f := range cs.shape {
					base += " shape=" + f
				}
				only, ok := c.own(base, &cs.x)
				if !ok {
					return
				}
				c.evaluate(base, only, "docx", mode, docxw.Members(cs.doc, cs.opts), &cs.x)
			})
		}
	}
}

func (c *checker) odt() {
	alpha := odtAlphabet()
	names := make([]string, len(alpha))
	for i, k := range alpha {
		names[i] = k.name
	}
	c.e.Note("odt_alphabet", strings.Join(names, " "))
	for oi, o := range odtOpts {
		for _, mode := range []string{"default", "exclhf"} {
			if mode == "exclhf" && oi > 1 {
				continue
			}
			c.planLayouts(names, odtStructural, odtListLetters, odtListLayouts, oi == 0 && mode == "default", func(seq []int, layout string) {
				sn := make([]string, len(seq))
				for i, s := range seq {
					sn[i] = names[s]
				}
				cs := buildOdt(alpha, seq, o, layout, "rep")
				base := "fmt=odt opt=" + o.name + " mode=" + mode + " num=" + layout + " cols=rep" + fmt.Sprintf(" n=%d seq=%s", len(seq), strings.Join(sn, ","))
				for _, f := range cs.shape {
					base += " shape=" + f
				}
				only, ok := c.own(base, &cs.x)
				if !ok {
					return
				}
				c.evaluate(base, only, "odt", mode, odtw.Members(cs.doc, cs.opts), &cs.x)
			})
		}
	}
	c.odtColumns(alpha, names)
}

// subDesc is the descriptor of one evaluation: document + view + expected block (blk=hf: the
// header / footer clause).
func subDesc(base, view string, x *expect, bi int) string {
	if bi < 0 {
		return base + " view=" + view + " blk=hf"
	}
	b := x.blocks[bi]
	d := fmt.Sprintf("%s view=%s blk=%d letter=%s", base, view, bi+1, b.letter)
	for _, f := range b.feats {
		d += " has=" + f
	}
	return d
}

func hasItems(x *expect) bool {
	for _, b := range x.blocks {
		if b.kind == kItem {
			return true
		}
	}
	return false
}

func hasHF(x *expect) bool {
	for _, g := range x.ghosts {
		if g.blk < 0 {
			return true
		}
	}
	return false
}

// own decides whether this worker evaluates the document with the given descriptor (without
// view / block). Normal runs shard on the document (all its evaluations are made by one worker,
// the package is built and parsed once per view); a replay names one (view, block) evaluation.
func (c *checker) own(base string, x *expect) (only string, ok bool) {
	if !c.e.Replaying() {
		return "", c.e.Own(base)
	}
	for _, v := range views {
		for bi := -1; bi < len(x.blocks); bi++ {
			if d := subDesc(base, v, x, bi); c.e.Own(d) {
				return d, true
			}
		}
	}
	return "", false
}

func wellFormed(ms []zipw.Member) error {
	for _, m := range ms {
		if !strings.HasSuffix(m.Name, ".xml") && !strings.HasSuffix(m.Name, ".rels") {
			continue
		}
		d := xml.NewDecoder(bytes.NewReader(m.Data))
		for {
			_, err := d.Token()
			if err == io.EOF {
				break
			}
			if err != nil {
				return fmt.Errorf("%s: %v", m.Name, err)
			}
		}
	}
	return nil
}

func (c *checker) evaluate(base, only, format, mode string, ms []zipw.Member, x *expect) {
	e := c.e
	if err := wellFormed(ms); err != nil {
		panic("generator produced malformed XML: " + err.Error() + " in " + base)
	}
	for i := range ms {
		ms[i].Store = true // compression is irrelevant here; stored members are valid and faster
	}
	data := zipw.Zip(ms)
	path := filepath.Join(c.dir, "case."+format)
	if err := os.WriteFile(path, data, 0o644); err != nil {
		panic(err)
	}
	files := map[string][]byte{"input." + format: data}
	toks := x.flatten()
	plainDoc := true
	for _, b := range x.blocks {
		if b.letter != "p1" {
			plainDoc = false
		}
	}
	e.Begin(base)
	open := func() *tabula.Extractor {
		ex := tabula.Open(path)
		if mode == "exclhf" {
			ex = ex.ExcludeHeadersAndFooters()
		}
		return ex
	}
	for _, v := range views {
		if only != "" && !strings.Contains(only, " view="+v+" ") {
			continue
		}
		if v == "lists" && (mode != "default" || !hasItems(x)) {
			continue // Reader.Lists() has no extraction options; only documents with list items are read through it
		}
		var vd *verdicts
		var whole *failure // failure of the whole view (error, panic)
		out := ""
		sig, det := harness.Guard(func() {
			switch v {
			case "text":
				s, _, err := open().Text()
				if err != nil {
					whole = failf("error:text", "Text(): %v", err)
					return
				}
				vd, out = checkText(x, toks, s), "Text():\n"+s
			case "md":
				s, _, err := open().ToMarkdown()
				if err != nil {
					whole = failf("error:markdown", "ToMarkdown(): %v", err)
					return
				}
				vd, out = checkMarkdown(x, toks, s), "ToMarkdown():\n"+s
			case "lists":
				var ls []obsList
				if format == "docx" {
					r, err := docx.Open(path)
					if err != nil {
						whole = failf("error:lists", "docx.Open: %v", err)
						return
					}
					for _, l := range r.Lists() {
						ol := obsList{ordered: l.Type == docx.ListTypeOrdered}
						for _, it := range l.Items {
							ol.items = append(ol.items, obsItem{it.Text, it.Level})
						}
						ls = append(ls, ol)
					}
					r.Close()
				} else {
					r, err := odt.Open(path)
					if err != nil {
						whole = failf("error:lists", "odt.Open: %v", err)
						return
					}
					for _, l := range r.Lists() {
						ol := obsList{ordered: l.Type == odt.ListTypeOrdered}
						for _, it := range l.Items {
							ol.items = append(ol.items, obsItem{it.Text, it.Level})
						}
						ls = append(ls, ol)
					}
					r.Close()
				}
				vd, out = checkLists(x, toks, ls), "Lists():\n"+dumpLists(ls)
			case "doc":
				var d *model.Document
				d, _, err := open().Document()
				if err != nil || d == nil {
					whole = failf("error:document", "Document(): %v", err)
					return
				}
				vd, out = checkDoc(x, toks, d), "Document() elements:\n"+dumpDoc(d)
			}
		})
		if sig != "" {
			whole = &failure{sig, det}
		}
		report := func(bi int, f *failure, nontrivial bool, class string) {
			d := subDesc(base, v, x, bi)
			if only != "" && d != only {
				return
			}
			switch {
			case whole != nil:
				e.Fail(d, whole.sig, whole.detail, files)
			case f != nil:
				// full output dump only for the first failures of a signature (report size)
				c.nsig[f.sig]++
				if c.nsig[f.sig] <= 25 {
					e.Fail(d, f.sig, f.detail+"\n"+out, files)
				} else {
					e.Fail(d, f.sig, f.detail, nil)
				}
			default:
				e.Pass(d, nontrivial, class)
			}
		}
		for bi, b := range x.blocks {
			if v == "lists" && (b.kind == kTable || b.loose) {
				continue // Lists() says nothing about tables; loose blocks have no demanded kind
			}
			var f *failure
			if vd != nil {
				f = vd.blk[bi]
			}
			report(bi, f, !plainDoc, outcomeClass(v, b))
		}
		if v != "lists" && (hasHF(x) || len(x.blocks) == 0) {
			var f *failure
			if vd != nil {
				f = vd.hf
			}
			report(-1, f, !plainDoc, v+":header-footer-absent")
		}
	}
	e.End()
}

func dumpDoc(d *model.Document) string {
	var b strings.Builder
	for i, u := range docUnits(d) {
		if u.tbl != nil {
			fmt.Fprintf(&b, "%d table\n%s", i, dumpTable(u.tbl))
			continue
		}
		k := "other"
		if u.kind >= 0 {
			k = kindName[u.kind]
		}
		fmt.Fprintf(&b, "%d %s level=%d %q\n", i, k, u.level, u.text)
	}
	return b.String()
}
