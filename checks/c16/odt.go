package main

import (
	"verif/internal/gen/odtw"
)

type odtOpt struct {
	name           string
	styles         bool // styles.xml part present (named styles, list styles, master page)
	header, footer bool
}

var odtOpts = []odtOpt{
	{"full", true, true, true},
	{"nohf", true, false, false},
	{"nostyles", false, false, false},
}

type odtKind struct {
	name  string
	feats []string
	mk    func(g *gen, o odtOpt) ([]odtw.Block, []xBlock)
}

func odtPara(name string, feats []string, f func(g *gen) ([]odtw.Inline, []atom)) odtKind {
	return odtKind{name, feats, func(g *gen, o odtOpt) ([]odtw.Block, []xBlock) {
		in, at := f(g)
		return []odtw.Block{odtw.Para{Style: "Text_20_body", Content: in}}, []xBlock{{kind: kPara, atoms: at}}
	}}
}

func odtHeading(name, feat, style string, level int, spanMid bool) odtKind {
	var feats []string
	if feat != "" {
		feats = []string{feat}
	}
	attr := level
	if level < 0 { // attribute omitted: ODF default 1
		attr, level = 0, 1
	}
	return odtKind{name, feats, func(g *gen, o odtOpt) ([]odtw.Block, []xBlock) {
		a, b := g.tok(), g.tok()
		if spanMid {
			c := g.tok()
			h := odtw.Heading{Style: style, Level: level, Content: []odtw.Inline{odtw.Text(a + " "), odtw.Span{Style: "T1", Content: []odtw.Inline{odtw.Text(b)}}, odtw.Text(" " + c)}}
			return []odtw.Block{h}, []xBlock{{kind: kHeading, level: level, feat: feat, atoms: []atom{tk(a), ws("text-space"), tkf(b, feat), ws("text-space"), tkf(c, feat)}}}
		}
		h := odtw.Heading{Style: style, Level: attr, Content: []odtw.Inline{odtw.Text(a + " " + b)}}
		return []odtw.Block{h}, []xBlock{{kind: kHeading, level: level, feat: feat, atoms: []atom{tk(a), ws("text-space"), tk(b)}}}
	}}
}

func odtCell(g *gen, n int) (odtw.Cell, [][]atom) {
	var c odtw.Cell
	var ps [][]atom
	for i := 0; i < n; i++ {
		t := g.tok()
		c.Blocks = append(c.Blocks, odtw.P(t))
		ps = append(ps, atomsOf(t))
	}
	return c, ps
}

func item(bs ...odtw.Block) odtw.Item { return odtw.Item{Blocks: bs} }

func odtAlphabet() []odtKind {
	return []odtKind{
		odtPara("p1", nil, func(g *gen) ([]odtw.Inline, []atom) {
			a := g.tok()
			return []odtw.Inline{odtw.Text(a)}, atomsOf(a)
		}),
		odtPara("pspans", nil, func(g *gen) ([]odtw.Inline, []atom) {
			a, b, c := g.tok(), g.tok(), g.tok()
			return []odtw.Inline{odtw.Span{Style: "T1", Content: []odtw.Inline{odtw.Text(a + " ")}}, odtw.Span{Content: []odtw.Inline{odtw.Text(b)}}, odtw.Span{Style: "T1", Content: []odtw.Inline{odtw.Text(" " + c)}}},
				[]atom{tk(a), ws("text-space"), tk(b), ws("text-space"), tk(c)}
		}),
		odtPara("pspan", []string{"span-mixed"}, func(g *gen) ([]odtw.Inline, []atom) {
			a, b, c := g.tok(), g.tok(), g.tok()
			return []odtw.Inline{odtw.Text(a + " "), odtw.Span{Style: "T1", Content: []odtw.Inline{odtw.Text(b)}}, odtw.Text(" " + c)},
				[]atom{tk(a), ws("text-space"), tkf(b, "span-mixed"), ws("text-space"), tkf(c, "span-mixed")}
		}),
		odtPara("pnest", []string{"span-nested"}, func(g *gen) ([]odtw.Inline, []atom) {
			a, b := g.tok(), g.tok()
			return []odtw.Inline{odtw.Span{Style: "T1", Content: []odtw.Inline{odtw.Text(a + " "), odtw.Span{Style: "T2", Content: []odtw.Inline{odtw.Text(b)}}}}},
				[]atom{tk(a), ws("text-space"), tkf(b, "span-nested")}
		}),
		odtPara("ps", []string{"s"}, func(g *gen) ([]odtw.Inline, []atom) {
			a, b := g.tok(), g.tok()
			return []odtw.Inline{odtw.Text(a), odtw.S{}, odtw.Text(b)}, []atom{tk(a), ws("s"), tk(b)}
		}),
		odtPara("ptab", []string{"tab"}, func(g *gen) ([]odtw.Inline, []atom) {
			a, b := g.tok(), g.tok()
			return []odtw.Inline{odtw.Text(a), odtw.Tab{}, odtw.Text(b)}, []atom{tk(a), ws("tab"), tk(b)}
		}),
		odtPara("pbr", []string{"line-break"}, func(g *gen) ([]odtw.Inline, []atom) {
			a, b := g.tok(), g.tok()
			return []odtw.Inline{odtw.Text(a), odtw.LineBreak{}, odtw.Text(b)}, []atom{tk(a), ws("line-break"), tk(b)}
		}),
		odtPara("pa", []string{"a"}, func(g *gen) ([]odtw.Inline, []atom) {
			a, b, c := g.tok(), g.tok(), g.tok()
			return []odtw.Inline{odtw.Text(a + " "), odtw.A{Content: []odtw.Inline{odtw.Text(b)}}, odtw.Text(" " + c)},
				[]atom{tk(a), ws("text-space"), tkf(b, "a"), ws("text-space"), tk(c)}
		}),
		odtPara("pbm", nil, func(g *gen) ([]odtw.Inline, []atom) {
			a, b := g.tok(), g.tok()
			return []odtw.Inline{odtw.Text(a + " "), odtw.Bookmark{Name: "bm" + a}, odtw.Text(b)}, []atom{tk(a), ws("text-space"), tk(b)}
		}),
		{"empty", nil, func(g *gen, o odtOpt) ([]odtw.Block, []xBlock) {
			return []odtw.Block{odtw.Para{Style: "Text_20_body"}}, nil
		}},
		odtHeading("h1", "", "Heading_20_1", 1, false),
		odtHeading("h2", "", "Heading_20_2", 2, false),
		odtHeading("h3", "heading-20-3", "Heading_20_3", 3, false),
		odtHeading("hc", "", "P1", 2, false), // automatic style P1, parent Heading_20_2
		odtHeading("ho", "", "", 3, false),
		odtHeading("hspan", "heading-span-mixed", "Heading_20_1", 1, true),
		// a style shared between blocks of different kinds: every block is judged by its own element
		odtHeading("hbody", "", "Text_20_body", 2, false), // text:h that uses the body paragraph style of p1
		{"lsp", nil, func(g *gen, o odtOpt) ([]odtw.Block, []xBlock) {
			a := g.tok() // list paragraph with the automatic style P4
			l := odtw.List{Style: "L1", Items: []odtw.Item{item(odtw.Para{Style: "P4", Content: []odtw.Inline{odtw.Text(a)}})}}
			return []odtw.Block{l}, []xBlock{{kind: kItem, level: 0, atoms: atomsOf(a)}}
		}},
		{"pp4", nil, func(g *gen, o odtOpt) ([]odtw.Block, []xBlock) {
			a := g.tok() // body paragraph with the same automatic style P4
			return []odtw.Block{odtw.Para{Style: "P4", Content: []odtw.Inline{odtw.Text(a)}}}, []xBlock{{kind: kPara, atoms: atomsOf(a)}}
		}},
		// style parent chains that carry two different default-outline-levels: the heading's own
		// text:outline-level (equal to its own / nearest style's level) is the authored level
		odtHeading("hown", "heading-own-vs-parent", "Sect", 3, false),   // Sect: level 3, parent Heading_20_1
		odtHeading("hup", "heading-own-vs-parent", "Chap", 1, false),    // Chap: level 1, parent Heading_20_3
		odtHeading("hchain", "heading-own-vs-parent", "P3", 3, false),   // automatic P3 -> Sect (3) -> Heading_20_1 (1)
		odtHeading("hupna", "heading-own-vs-parent", "Chap", -1, false), // no text:outline-level: ODF default 1 = the style's own level 1
		{"lb0", nil, func(g *gen, o odtOpt) ([]odtw.Block, []xBlock) {
			a, b := g.tok(), g.tok()
			l := odtw.List{Style: "L1", Items: []odtw.Item{item(odtw.P(a)), item(odtw.P(b))}}
			return []odtw.Block{l}, []xBlock{{kind: kItem, level: 0, atoms: atomsOf(a)}, {kind: kItem, level: 0, atoms: atomsOf(b)}}
		}},
		{"lb012", nil, func(g *gen, o odtOpt) ([]odtw.Block, []xBlock) {
			a, b, c, d := g.tok(), g.tok(), g.tok(), g.tok()
			l := odtw.List{Style: "L1", Items: []odtw.Item{
				item(odtw.P(a), odtw.List{Items: []odtw.Item{item(odtw.P(b), odtw.List{Items: []odtw.Item{item(odtw.P(c))}})}}),
				item(odtw.P(d)),
			}}
			return []odtw.Block{l}, []xBlock{{kind: kItem, level: 0, atoms: atomsOf(a)}, {kind: kItem, level: 1, atoms: atomsOf(b)}, {kind: kItem, level: 2, atoms: atomsOf(c)}, {kind: kItem, level: 0, atoms: atomsOf(d)}}
		}},
		{"ln01", nil, func(g *gen, o odtOpt) ([]odtw.Block, []xBlock) {
			a, b := g.tok(), g.tok()
			l := odtw.List{Style: "L2", Items: []odtw.Item{item(odtw.P(a), odtw.List{Items: []odtw.Item{item(odtw.P(b))}})}}
			return []odtw.Block{l}, []xBlock{{kind: kItem, level: 0, ordered: true, atoms: atomsOf(a)}, {kind: kItem, level: 1, ordered: true, atoms: atomsOf(b)}}
		}},
		{"lc0", nil, func(g *gen, o odtOpt) ([]odtw.Block, []xBlock) {
			a, b := g.tok(), g.tok() // third list style: letters starting at 3
			l := odtw.List{Style: "L3", Items: []odtw.Item{item(odtw.P(a)), item(odtw.P(b))}}
			return []odtw.Block{l}, []xBlock{{kind: kItem, level: 0, ordered: true, atoms: atomsOf(a)}, {kind: kItem, level: 0, ordered: true, atoms: atomsOf(b)}}
		}},
		{"lb11", nil, func(g *gen, o odtOpt) ([]odtw.Block, []xBlock) {
			// the first item carries only a nested list: the list starts at level 1
			a, b, c2 := g.tok(), g.tok(), g.tok()
			l := odtw.List{Style: "L1", Items: []odtw.Item{item(odtw.List{Items: []odtw.Item{item(odtw.P(a)), item(odtw.P(b))}}), item(odtw.P(c2))}}
			return []odtw.Block{l}, []xBlock{{kind: kItem, level: 1, atoms: atomsOf(a)}, {kind: kItem, level: 1, atoms: atomsOf(b)}, {kind: kItem, level: 0, atoms: atomsOf(c2)}}
		}},
		{"l2p", []string{"item-multipara"}, func(g *gen, o odtOpt) ([]odtw.Block, []xBlock) {
			a, b := g.tok(), g.tok()
			l := odtw.List{Style: "L1", Items: []odtw.Item{item(odtw.P(a), odtw.P(b))}}
			return []odtw.Block{l}, []xBlock{{kind: kItem, level: 0, feat: "item-multipara", atoms: []atom{tk(a), ws("item-para-break"), tk(b)}}}
		}},
		{"lspan", []string{"item-span-mixed"}, func(g *gen, o odtOpt) ([]odtw.Block, []xBlock) {
			a, b, c := g.tok(), g.tok(), g.tok()
			p := odtw.Para{Content: []odtw.Inline{odtw.Text(a + " "), odtw.Span{Style: "T1", Content: []odtw.Inline{odtw.Text(b)}}, odtw.Text(" " + c)}}
			l := odtw.List{Style: "L1", Items: []odtw.Item{item(p)}}
			return []odtw.Block{l}, []xBlock{{kind: kItem, level: 0, feat: "item-span-mixed", atoms: []atom{tk(a), ws("text-space"), tkf(b, "item-span-mixed"), ws("text-space"), tkf(c, "item-span-mixed")}}}
		}},
		{"t11", nil, func(g *gen, o odtOpt) ([]odtw.Block, []xBlock) {
			c, ps := odtCell(g, 1)
			t := odtw.Table{Cols: 1, Rows: []odtw.Row{{Cells: []odtw.Cell{c}}}}
			return []odtw.Block{t}, []xBlock{{kind: kTable, tbl: &xTable{1, 1, []xCell{{0, 0, 1, 1, ps}}}}}
		}},
		{"t22", []string{"cell-multipara"}, func(g *gen, o odtOpt) ([]odtw.Block, []xBlock) {
			var rows []odtw.Row
			xt := &xTable{rows: 2, cols: 2}
			for r := 0; r < 2; r++ {
				var row odtw.Row
				for c := 0; c < 2; c++ {
					cell, ps := odtCell(g, 2)
					row.Cells = append(row.Cells, cell)
					xt.cells = append(xt.cells, xCell{r, c, 1, 1, ps})
				}
				rows = append(rows, row)
			}
			return []odtw.Block{odtw.Table{Cols: 2, Rows: rows}}, []xBlock{{kind: kTable, tbl: xt, feat: "cell-multipara"}}
		}},
		{"tcs", []string{"colspan"}, func(g *gen, o odtOpt) ([]odtw.Block, []xBlock) {
			// row 1: [A colspan 2][covered][B]   row 2: [C][D][E]
			a, pa := odtCell(g, 1)
			a.ColSpan = 2
			b, pb := odtCell(g, 1)
			c, pc := odtCell(g, 1)
			d, pd := odtCell(g, 1)
			e, pe := odtCell(g, 1)
			t := odtw.Table{Cols: 3, Rows: []odtw.Row{{Cells: []odtw.Cell{a, {Covered: true}, b}}, {Cells: []odtw.Cell{c, d, e}}}}
			xt := &xTable{2, 3, []xCell{{0, 0, 1, 2, pa}, {0, 2, 1, 1, pb}, {1, 0, 1, 1, pc}, {1, 1, 1, 1, pd}, {1, 2, 1, 1, pe}}}
			return []odtw.Block{t}, []xBlock{{kind: kTable, tbl: xt, feat: "colspan"}}
		}},
		{"trs", []string{"rowspan"}, func(g *gen, o odtOpt) ([]odtw.Block, []xBlock) {
			// row 1: [A rowspan 2][B]   row 2: [covered][C]   row 3: [D][E]
			a, pa := odtCell(g, 1)
			a.RowSpan = 2
			b, pb := odtCell(g, 1)
			c, pc := odtCell(g, 1)
			d, pd := odtCell(g, 1)
			e, pe := odtCell(g, 1)
			t := odtw.Table{Cols: 2, Rows: []odtw.Row{{Cells: []odtw.Cell{a, b}}, {Cells: []odtw.Cell{{Covered: true}, c}}, {Cells: []odtw.Cell{d, e}}}}
			xt := &xTable{3, 2, []xCell{{0, 0, 2, 1, pa}, {0, 1, 1, 1, pb}, {1, 1, 1, 1, pc}, {2, 0, 1, 1, pd}, {2, 1, 1, 1, pe}}}
			return []odtw.Block{t}, []xBlock{{kind: kTable, tbl: xt, feat: "rowspan"}}
		}},
		{"trs3", []string{"rowspan"}, func(g *gen, o odtOpt) ([]odtw.Block, []xBlock) {
			// row span of three rows: [A rowspan 3][B] / [covered][C] / [covered][D] / [E][F]
			a, pa := odtCell(g, 1)
			a.RowSpan = 3
			b, pb := odtCell(g, 1)
			c, pc := odtCell(g, 1)
			d, pd := odtCell(g, 1)
			e, pe := odtCell(g, 1)
			f, pf := odtCell(g, 1)
			cov := odtw.Cell{Covered: true}
			t := odtw.Table{Cols: 2, Rows: []odtw.Row{{Cells: []odtw.Cell{a, b}}, {Cells: []odtw.Cell{cov, c}}, {Cells: []odtw.Cell{cov, d}}, {Cells: []odtw.Cell{e, f}}}}
			xt := &xTable{4, 2, []xCell{{0, 0, 3, 1, pa}, {0, 1, 1, 1, pb}, {1, 1, 1, 1, pc}, {2, 1, 1, 1, pd}, {3, 0, 1, 1, pe}, {3, 1, 1, 1, pf}}}
			return []odtw.Block{t}, []xBlock{{kind: kTable, tbl: xt, feat: "rowspan"}}
		}},
		{"tblk", []string{"block-merge"}, func(g *gen, o odtOpt) ([]odtw.Block, []xBlock) {
			// row 1: [A 2 columns x 2 rows][covered][B]
			// row 2: [covered][covered][C]
			// row 3: [D][E][F]
			a, pa := odtCell(g, 1)
			a.ColSpan, a.RowSpan = 2, 2
			b, pb := odtCell(g, 1)
			c, pc := odtCell(g, 1)
			d, pd := odtCell(g, 1)
			e, pe := odtCell(g, 1)
			f, pf := odtCell(g, 1)
			cov := odtw.Cell{Covered: true}
			t := odtw.Table{Cols: 3, Rows: []odtw.Row{{Cells: []odtw.Cell{a, cov, b}}, {Cells: []odtw.Cell{cov, cov, c}}, {Cells: []odtw.Cell{d, e, f}}}}
			xt := &xTable{3, 3, []xCell{{0, 0, 2, 2, pa}, {0, 2, 1, 1, pb}, {1, 2, 1, 1, pc}, {2, 0, 1, 1, pd}, {2, 1, 1, 1, pe}, {2, 2, 1, 1, pf}}}
			return []odtw.Block{t}, []xBlock{{kind: kTable, tbl: xt, feat: "block-merge"}}
		}},
		{"tblk4", []string{"block-merge"}, func(g *gen, o odtOpt) ([]odtw.Block, []xBlock) {
			// row 1: [X][A 2x2][covered][B]
			// row 2: [Y][covered][covered][C]
			// row 3: [D][E][F][G]
			x, px := odtCell(g, 1)
			a, pa := odtCell(g, 1)
			a.ColSpan, a.RowSpan = 2, 2
			b, pb := odtCell(g, 1)
			y, py := odtCell(g, 1)
			c, pc := odtCell(g, 1)
			d, pd := odtCell(g, 1)
			e, pe := odtCell(g, 1)
			f, pf := odtCell(g, 1)
			gg, pg := odtCell(g, 1)
			cov := odtw.Cell{Covered: true}
			t := odtw.Table{Cols: 4, Rows: []odtw.Row{{Cells: []odtw.Cell{x, a, cov, b}}, {Cells: []odtw.Cell{y, cov, cov, c}}, {Cells: []odtw.Cell{d, e, f, gg}}}}
			xt := &xTable{3, 4, []xCell{{0, 0, 1, 1, px}, {0, 1, 2, 2, pa}, {0, 3, 1, 1, pb}, {1, 0, 1, 1, py}, {1, 3, 1, 1, pc},
				{2, 0, 1, 1, pd}, {2, 1, 1, 1, pe}, {2, 2, 1, 1, pf}, {2, 3, 1, 1, pg}}}
			return []odtw.Block{t}, []xBlock{{kind: kTable, tbl: xt, feat: "block-merge"}}
		}},
		{"tspanc", []string{"cell-span-mixed"}, func(g *gen, o odtOpt) ([]odtw.Block, []xBlock) {
			a, b, c := g.tok(), g.tok(), g.tok()
			p := odtw.Para{Content: []odtw.Inline{odtw.Text(a + " "), odtw.Span{Style: "T1", Content: []odtw.Inline{odtw.Text(b)}}, odtw.Text(" " + c)}}
			t := odtw.Table{Cols: 1, Rows: []odtw.Row{{Cells: []odtw.Cell{{Blocks: []odtw.Block{p}}}}}}
			xt := &xTable{1, 1, []xCell{{0, 0, 1, 1, [][]atom{{tk(a), ws("text-space"), tkf(b, "cell-span-mixed"), ws("text-space"), tkf(c, "cell-span-mixed")}}}}}
			return []odtw.Block{t}, []xBlock{{kind: kTable, tbl: xt, feat: "cell-span-mixed"}}
		}},
		{"tlist", []string{"cell-list"}, func(g *gen, o odtOpt) ([]odtw.Block, []xBlock) {
			a, b := g.tok(), g.tok()
			cell := odtw.Cell{Blocks: []odtw.Block{odtw.P(a), odtw.List{Style: "L1", Items: []odtw.Item{item(odtw.P(b))}}}}
			t := odtw.Table{Cols: 1, Rows: []odtw.Row{{Cells: []odtw.Cell{cell}}}}
			xt := &xTable{1, 1, []xCell{{0, 0, 1, 1, [][]atom{{tk(a)}, {tkf(b, "cell-list")}}}}}
			return []odtw.Block{t}, []xBlock{{kind: kTable, tbl: xt, feat: "cell-list"}}
		}},
		{"sec", nil, func(g *gen, o odtOpt) ([]odtw.Block, []xBlock) {
			a := g.tok()
			return []odtw.Block{odtw.Section{Blocks: []odtw.Block{odtw.P(a)}}}, []xBlock{{kind: kPara, feat: "section", atoms: atomsOf(a)}}
		}},
	}
}

type odtCase struct {
	doc   odtw.Doc
	opts  odtw.Opts
	x     expect
	shape []string
}

// odtColLayouts: how an ODT table declares its columns (table:table-column elements). The grid a
// reader reports must not depend on it. "rep" = one declaration repeated for all columns,
// "each" = one declaration per column, "rep+1" / "1+rep" = a repeated declaration followed /
// preceded by a single one (what LibreOffice writes when the last / first column has another
// width), "rep+rep" = two repeated declarations. (No declaration at all is not valid ODF 1.2.)
var odtColLayouts = []string{"rep", "each", "rep+1", "1+rep", "rep+rep"}

func colDecl(layout string, n int) []int {
	switch {
	case layout == "rep" || n < 2:
		return nil
	case layout == "each":
		d := make([]int, n)
		for i := range d {
			d[i] = 1
		}
		return d
	case layout == "rep+1":
		return []int{n - 1, 1}
	case layout == "1+rep":
		return []int{1, n - 1}
	}
	return []int{(n + 1) / 2, n / 2}
}

func buildOdt(alpha []odtKind, seq []int, o odtOpt, layout, cols string) odtCase {
	g := &gen{}
	var c odtCase
	fs := map[string]bool{}
	for _, i := range seq {
		k := alpha[i]
		bs, xs := k.mk(g, o)
		for j := range xs {
			xs[j].list = len(c.doc.Body) + 1 // one text:list per letter
			xs[j].letter, xs[j].feats = k.name, k.feats
		}
		c.doc.Body = append(c.doc.Body, bs...)
		c.x.blocks = append(c.x.blocks, xs...)
	}
	for i, b := range c.doc.Body {
		if t, ok := b.(odtw.Table); ok {
			t.ColDecl = colDecl(cols, t.Cols)
			c.doc.Body[i] = t
		}
	}
	auto := []odtw.Style{
		{Name: "P1", Parent: "Heading_20_2", Italic: true},
		{Name: "P3", Parent: "Sect", Italic: true},
		{Name: "P4", Parent: "Text_20_body", Italic: true},
		{Name: "T1", Family: "text", Bold: true},
		{Name: "T2", Family: "text", Italic: true},
	}
	c.opts.AutoStyles = auto
	// list styles: L1 bullets, L2 numbers, L3 letters from 3; where and in which order they are
	// declared is the layout dimension (the reading of the body must not depend on it)
	ls := append(odtw.DefaultListStyles(), odtw.ListStyle{Name: "L3", Levels: []odtw.ListLevel{{Number: true, Format: "a", Start: 3}, {Number: true, Format: "i"}}})
	switch layout {
	case "rev":
		ls = []odtw.ListStyle{ls[2], ls[1], ls[0]}
	case "rot":
		ls = []odtw.ListStyle{ls[1], ls[2], ls[0]}
	case "min": // only the styles the body uses, in order of first use
		var used []odtw.ListStyle
		for _, b := range c.doc.Body {
			if l, ok := b.(odtw.List); ok {
				dup := false
				for _, u := range used {
					dup = dup || u.Name == l.Style
				}
				for _, d := range ls {
					if d.Name == l.Style && !dup {
						used = append(used, d)
					}
				}
			}
		}
		ls = used
	}
	if o.styles && layout != "auto" && layout != "scope" {
		c.opts.ListStyles = ls
	} else {
		c.opts.AutoListStyles = ls
	}
	if o.styles && layout == "scope" {
		// style scope: styles.xml has its own automatic styles (for headers / footers) whose NAMES
		// collide with content.xml's automatic styles but whose definitions differ (list kinds
		// inverted, other parents). The body must be read with content.xml's definitions.
		c.opts.StylesAutoListStyles = []odtw.ListStyle{
			{Name: "L1", Levels: []odtw.ListLevel{{Number: true}, {Number: true}, {Number: true}}},
			{Name: "L2", Levels: []odtw.ListLevel{{}, {}, {}}},
			{Name: "L3", Levels: []odtw.ListLevel{{}, {}}},
		}
		c.opts.StylesAutoStyles = []odtw.Style{
			{Name: "P1", Parent: "Heading_20_1", Bold: true},
			{Name: "P3", Parent: "Heading_20_2"},
			{Name: "P4", Parent: "Heading_20_3"},
			{Name: "T1", Family: "text", Italic: true},
		}
	}
	if o.styles {
		c.opts.Styles = append(odtw.DefaultStyles(),
			odtw.Style{Name: "Sect", Display: "Section Head", Parent: "Heading_20_1", Class: "text", OutlineLevel: 3},
			odtw.Style{Name: "Chap", Display: "Chapter Head", Parent: "Heading_20_3", Class: "text", OutlineLevel: 1})
	} else {
		c.opts.NoStylesPart = true
	}
	if o.header {
		c.doc.Header = []odtw.Para{odtw.P("Hdr01 running head")}
		c.x.ghosts = append(c.x.ghosts, ghost{"Hdr01", "header", -1})
	}
	if o.footer {
		c.doc.Footer = []odtw.Para{odtw.P("Ftr01 page")}
		if layout == "scope" { // the footer uses styles.xml's own automatic P1
			c.doc.Footer[0].Style = "P1"
		}
		c.x.ghosts = append(c.x.ghosts, ghost{"Ftr01", "footer", -1})
	}
	if firstItemNested(c.x.blocks) {
		fs["first-item-nested"] = true
	}
	// two lists of different kinds directly after each other
	for i := 1; i < len(c.x.blocks); i++ {
		a, b := c.x.blocks[i-1], c.x.blocks[i]
		if a.kind == kItem && b.kind == kItem && a.list != b.list && a.ordered != b.ordered {
			fs["adjacent-lists-kind-differ"] = true
		}
	}
	c.shape = sortedKeys(fs)
	return c
}
