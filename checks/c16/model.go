package main

// Expectation model and oracle shared by the DOCX and ODT halves of the check.
//
// A generated document is described, independently of the package format, as a list of expected
// blocks (paragraph / heading(level) / list item(level) / table(grid)), each carrying its inline
// atoms in source order: unique tokens, "whitespace must be here" markers (tab, line break,
// text:s, paragraph break inside a cell) and symbol runes. The three views of tabula
// (Text, ToMarkdown, Document) are each reduced to "where is every token" plus a little structure
// and compared with that description.

import (
	"fmt"
	"regexp"
	"strings"
	"unicode"

	"github.com/tsawler/tabula/model"
)

const (
	aTok = iota
	aWS
	aSym
)

type atom struct {
	k    int
	s    string // token text / symbol rune (aSym)
	feat string // feature that put the atom here ("" = plain)
}

func tk(s string) atom        { return atom{k: aTok, s: s} }
func tkf(s, feat string) atom { return atom{k: aTok, s: s, feat: feat} }
func ws(feat string) atom     { return atom{k: aWS, feat: feat} }
func sym(r, feat string) atom { return atom{k: aSym, s: r, feat: feat} }
func atomsOf(ts ...string) []atom {
	var a []atom
	for _, t := range ts {
		a = append(a, tk(t))
	}
	return a
}

const (
	kPara = iota
	kHeading
	kItem
	kTable
)

var kindName = []string{"para", "heading", "item", "table"}

type xCell struct {
	r, c, rs, cs int
	paras        [][]atom
}

type xTable struct {
	rows, cols int
	cells      []xCell // real (non-covered / non-continuation) cells, row-major
}

type xBlock struct {
	kind    int
	level   int  // heading level (1..) / list level (0..)
	loose   bool // kind and level are not demanded (style / numbering part deliberately absent)
	list    int  // list identity of an item (DOCX logical list / ODT list instance)
	ordered bool // the item belongs to a numbered list (else bullet)
	atoms   []atom
	tbl     *xTable
	feat    string // block feature for signatures ("" = plain)

	letter string   // alphabet letter that produced the block
	feats  []string // has= tags of that letter
}

type ghost struct {
	tok, class string
	blk        int // owning block, -1 = header / footer clause
}

type expect struct {
	blocks []xBlock
	ghosts []ghost // tokens that must not appear anywhere (header, footer, deleted text)
}

const (
	sepNone = iota
	sepWS
	sepNL
)

// tokRef is one token in source order with what must lie between it and its predecessor.
type tokRef struct {
	s, feat  string
	blk      int
	cell     int // index into tbl.cells, -1 outside tables
	para     int
	sep      int
	sepFeat  string
	syms     []atom
	sameBlk  bool // predecessor belongs to the same block
	samePara bool // predecessor belongs to the same paragraph (same cell paragraph)
}

func featOr(f, def string) string {
	if f == "" {
		return def
	}
	return f
}

func (x *expect) flatten() []tokRef {
	var out []tokRef
	for bi, b := range x.blocks {
		first := true
		emit := func(atoms []atom, cell, para int, firstSep int, firstFeat string) {
			pendWS, pendFeat := false, ""
			var pendSyms []atom
			firstInPara := true
			for _, a := range atoms {
				switch a.k {
				case aWS:
					pendWS, pendFeat = true, a.feat
				case aSym:
					pendSyms = append(pendSyms, a)
				case aTok:
					t := tokRef{s: a.s, feat: featOr(a.feat, b.feat), blk: bi, cell: cell, para: para}
					switch {
					case len(out) == 0:
						t.sep = sepNone
					case first:
						t.sep = sepNL
					case firstInPara:
						t.sep, t.sepFeat, t.sameBlk = firstSep, firstFeat, true
					default:
						t.sameBlk, t.samePara = true, true
						if pendWS {
							t.sep, t.sepFeat = sepWS, pendFeat
						}
						t.syms = pendSyms
					}
					pendWS, pendSyms = false, nil
					first, firstInPara = false, false
					out = append(out, t)
				}
			}
		}
		if b.kind == kTable {
			lastRow := -1
			for ci, c := range b.tbl.cells {
				for pi, p := range c.paras {
					fs, ff := sepWS, "cell-break"
					if pi > 0 {
						ff = "cell-para-break"
					} else if c.r != lastRow && lastRow >= 0 {
						fs, ff = sepNL, "row-break"
					}
					n := len(out)
					emit(p, ci, pi, fs, ff)
					if len(out) > n {
						lastRow = c.r
					}
				}
			}
		} else {
			emit(b.atoms, -1, 0, sepNone, "")
		}
	}
	return out
}

// firstItemNested: the first list item of the document is below level 0 (a list that starts nested).
func firstItemNested(bs []xBlock) bool {
	for _, b := range bs {
		if b.kind == kItem {
			return b.level > 0 && !b.loose
		}
	}
	return false
}

type failure struct{ sig, detail string }

func failf(sig, format string, a ...interface{}) *failure {
	return &failure{sig, fmt.Sprintf(format, a...)}
}

// verdicts holds the first failure of every expected block (nil = the block is as authored) and
// of the header / footer clause.
type verdicts struct {
	blk []*failure
	hf  *failure
}

func newVerdicts(x *expect) *verdicts { return &verdicts{blk: make([]*failure, len(x.blocks))} }

func (v *verdicts) set(blk int, f *failure) {
	if v.blk[blk] == nil {
		v.blk[blk] = f
	}
}

func (v *verdicts) ghost(g ghost, where string) {
	f := failf("leak:"+g.class, "%s token %s appears in %s", g.class, g.tok, where)
	if g.blk < 0 {
		if v.hf == nil {
			v.hf = f
		}
		return
	}
	v.set(g.blk, f)
}

func hasSpace(s string) bool {
	for _, r := range s {
		if unicode.IsSpace(r) {
			return true
		}
	}
	return false
}

// orderFailure reports that b (later in the source) was found before a.
func orderFailure(x *expect, v *verdicts, a, b tokRef) {
	switch {
	case a.blk == b.blk && a.cell == b.cell && a.para == b.para:
		f := b.feat
		if f == "" {
			f = a.feat
		}
		v.set(b.blk, failf("inline-order:"+featOr(f, "plain"), "%s comes out before %s (same paragraph, block %d)", b.s, a.s, b.blk+1))
	case a.blk == b.blk:
		v.set(b.blk, failf("cell-order:"+featOr(x.blocks[b.blk].feat, "plain"), "%s comes out before %s (same table, block %d)", b.s, a.s, b.blk+1))
	default:
		v.set(b.blk, failf("block-order", "%s (block %d) comes out before %s (block %d)", b.s, b.blk+1, a.s, a.blk+1))
	}
}

// gapFailure checks what lies between a token and its source predecessor when both are in one string.
func gapFailure(b tokRef, gap string, flat bool, cellSep string) *failure {
	for _, sy := range b.syms {
		if !strings.Contains(gap, sy.s) {
			return failf("inline-sym:"+featOr(sy.feat, "plain"), "symbol %q is not between its neighbours (before %s); gap %q", sy.s, b.s, gap)
		}
	}
	switch b.sep {
	case sepWS:
		if !hasSpace(gap) && !(cellSep != "" && strings.Contains(gap, cellSep)) {
			return failf("inline-ws:"+featOr(b.sepFeat, "plain"), "no whitespace where the source has %s (before %s); gap %q", b.sepFeat, b.s, gap)
		}
	case sepNL:
		if flat && !strings.Contains(gap, "\n") {
			return failf("not-separated:"+featOr(b.sepFeat, "block"), "%s is on the same line as the previous block/row; gap %q", b.s, gap)
		}
	}
	return nil
}

// ---- flat views (Text, Markdown): one string ------------------------------------------------

// checkFlat verifies presence, uniqueness, order and separators of all tokens in s and returns
// the byte offset of every token (-1: not usable).
func checkFlat(x *expect, toks []tokRef, s string, cellSep string, v *verdicts) []int {
	pos := make([]int, len(toks))
	for i, t := range toks {
		switch n := strings.Count(s, t.s); {
		case n == 0:
			v.set(t.blk, failf("lost-token:"+featOr(t.feat, "plain"), "token %s (block %d) is missing", t.s, t.blk+1))
			pos[i] = -1
		case n > 1:
			v.set(t.blk, failf("dup-token:"+featOr(t.feat, "plain"), "token %s (block %d) occurs %d times", t.s, t.blk+1, n))
			pos[i] = -1
		default:
			pos[i] = strings.Index(s, t.s)
		}
	}
	for _, g := range x.ghosts {
		if strings.Contains(s, g.tok) {
			v.ghost(g, "the body output")
		}
	}
	prev := -1
	for i := range toks {
		if pos[i] < 0 {
			continue
		}
		if prev >= 0 {
			a, b := toks[prev], toks[i]
			if pos[i] < pos[prev] {
				orderFailure(x, v, a, b)
			} else if prev == i-1 {
				if f := gapFailure(b, s[pos[prev]+len(a.s):pos[i]], true, cellSep); f != nil {
					v.set(b.blk, f)
				}
			}
		}
		prev = i
	}
	return pos
}

var reLabel = regexp.MustCompile(`^[0-9A-Za-z]+[.)]$`)

func checkText(x *expect, toks []tokRef, s string) *verdicts {
	v := newVerdicts(x)
	pos := checkFlat(x, toks, s, "", v)
	// list kind: a numbered item is introduced by a number / letter label, a bullet item is not
	first := firstLocated(toks, func(i int) bool { return pos[i] >= 0 })
	for bi, b := range x.blocks {
		ti, ok := first[bi]
		if b.kind != kItem || b.loose || !ok || v.blk[bi] != nil {
			continue
		}
		ls := strings.LastIndex(s[:pos[ti]], "\n") + 1
		prefix := strings.TrimSpace(s[ls:pos[ti]])
		if reLabel.MatchString(prefix) != b.ordered {
			v.set(bi, failf("text-list-kind:"+featOr(b.feat, "plain"), "block %d: %s list item is introduced by %q", bi+1, kindOfList(b.ordered), prefix))
		}
	}
	return v
}

func kindOfList(ordered bool) string {
	if ordered {
		return "numbered"
	}
	return "bullet"
}

var (
	reHeading = regexp.MustCompile(`^(#{1,6}) +\S`)
	reItem    = regexp.MustCompile(`^( *)([-*+]|\d+[.)]) +\S`)
	reSepCell = regexp.MustCompile(`^:?-+:?$`)
)

// splitRow splits a GFM table row at unescaped pipes (leading / trailing pipe removed).
func splitRow(l string) []string {
	l = strings.TrimSpace(l)
	l = strings.TrimPrefix(l, "|")
	var cells []string
	var cur strings.Builder
	for i := 0; i < len(l); i++ {
		switch {
		case l[i] == '\\' && i+1 < len(l):
			cur.WriteByte(l[i])
			cur.WriteByte(l[i+1])
			i++
		case l[i] == '|':
			cells = append(cells, strings.TrimSpace(cur.String()))
			cur.Reset()
		default:
			cur.WriteByte(l[i])
		}
	}
	if strings.TrimSpace(cur.String()) != "" {
		cells = append(cells, strings.TrimSpace(cur.String()))
	}
	return cells
}

// firstLocated maps every block to the index of its first usable token.
func firstLocated(toks []tokRef, ok func(i int) bool) map[int]int {
	m := map[int]int{}
	for i, t := range toks {
		if _, seen := m[t.blk]; !seen && ok(i) {
			m[t.blk] = i
		}
	}
	return m
}

func checkMarkdown(x *expect, toks []tokRef, md string) *verdicts {
	v := newVerdicts(x)
	pos := checkFlat(x, toks, md, "|", v)
	lines := strings.Split(md, "\n")
	lineOf := func(off int) int { return strings.Count(md[:off], "\n") }
	firstTok := firstLocated(toks, func(i int) bool { return pos[i] >= 0 })
	// blank line between consecutive paragraph / heading blocks (otherwise Markdown merges them)
	for i := 1; i < len(toks); i++ {
		a, b := toks[i-1], toks[i]
		if a.blk == b.blk || pos[i-1] < 0 || pos[i] < 0 || pos[i] < pos[i-1] {
			continue
		}
		pb, cb := x.blocks[a.blk], x.blocks[b.blk]
		if (pb.kind == kPara || pb.kind == kHeading) && (cb.kind == kPara || cb.kind == kHeading) && !pb.loose && !cb.loose {
			gap := md[pos[i-1]+len(a.s) : pos[i]]
			if !strings.Contains(strings.ReplaceAll(gap, " ", ""), "\n\n") {
				v.set(b.blk, failf("md-blocks-merged", "no blank line between block %d and block %d; gap %q", a.blk+1, b.blk+1, gap))
			}
		}
	}
	type itemObs struct{ blk, indent int }
	var run []itemObs
	checkRun := func() {
		// Weakest reading of "list nesting as authored" for line-wise Markdown: an item is
		// indented more than its parent (the nearest preceding item of a lower level) and exactly
		// like its previous sibling (same level, no shallower item in between). An item without a
		// parent (a list that starts below level 0) has no representable nesting: nothing is demanded.
		for j := range run {
			lj, dj := x.blocks[run[j].blk].level, run[j].indent
			for i := j - 1; i >= 0; i-- {
				li, di := x.blocks[run[i].blk].level, run[i].indent
				if li > lj {
					continue
				}
				if (li < lj && di >= dj) || (li == lj && di != dj) {
					v.set(run[j].blk, failf("md-list-nesting:"+featOr(x.blocks[run[j].blk].feat, "plain"),
						"list items of blocks %d (level %d, indent %d) and %d (level %d, indent %d) are not indented according to their levels",
						run[i].blk+1, li, di, run[j].blk+1, lj, dj))
				}
				break
			}
		}
		run = run[:0]
	}
	for bi, b := range x.blocks {
		if b.kind != kItem || (len(run) > 0 && x.blocks[run[len(run)-1].blk].list != b.list) {
			checkRun()
		}
		ti, ok := firstTok[bi]
		if !ok || v.blk[bi] != nil {
			continue
		}
		ln := lineOf(pos[ti])
		line := lines[ln]
		obs := "para"
		switch {
		case reHeading.MatchString(line):
			obs = "heading"
		case strings.HasPrefix(strings.TrimSpace(line), "|"):
			obs = "table"
		case reItem.MatchString(line):
			obs = "item"
		}
		if b.loose && b.kind != kTable && obs != "table" {
			continue
		}
		bf := featOr(b.feat, "plain")
		if obs != kindName[b.kind] {
			v.set(bi, failf(fmt.Sprintf("md-kind:%s-as-%s:%s", kindName[b.kind], obs, bf), "block %d (%s) is rendered as %s: %q", bi+1, kindName[b.kind], obs, line))
			continue
		}
		switch b.kind {
		case kHeading:
			n := len(reHeading.FindStringSubmatch(line)[1])
			want := b.level
			if want > 6 {
				want = 6
			}
			if n != want {
				v.set(bi, failf("md-heading-level:"+bf, "block %d: heading level %d rendered with %d '#': %q", bi+1, b.level, n, line))
			}
		case kItem:
			sm := reItem.FindStringSubmatch(line)
			if numbered := sm[2][0] >= '0' && sm[2][0] <= '9'; numbered != b.ordered {
				v.set(bi, failf("md-list-kind:"+bf, "block %d: %s list item is rendered with the marker %q: %q", bi+1, kindOfList(b.ordered), sm[2], line))
			}
			run = append(run, itemObs{bi, len(sm[1])})
		case kTable:
			// the table region: contiguous '|' lines around the first token's line
			lo, hi := ln, ln
			for lo > 0 && strings.HasPrefix(strings.TrimSpace(lines[lo-1]), "|") {
				lo--
			}
			for hi+1 < len(lines) && strings.HasPrefix(strings.TrimSpace(lines[hi+1]), "|") {
				hi++
			}
			region := strings.Join(lines[lo:hi+1], "\n")
			var rows [][]string
			for l := lo; l <= hi; l++ {
				cells := splitRow(lines[l])
				isSep := len(cells) > 0
				for _, c := range cells {
					if !reSepCell.MatchString(c) {
						isSep = false
					}
				}
				if isSep && l == lo+1 {
					continue
				}
				rows = append(rows, cells)
			}
			if len(rows) != b.tbl.rows {
				v.set(bi, failf("md-table-rows:"+bf, "block %d: table has %d rows in Markdown, %d in the source:\n%s", bi+1, len(rows), b.tbl.rows, region))
				continue
			}
			for r, cells := range rows {
				if len(cells) != b.tbl.cols {
					v.set(bi, failf("md-table-cols:"+bf, "block %d: row %d has %d cells in Markdown, the grid has %d columns:\n%s", bi+1, r+1, len(cells), b.tbl.cols, region))
				}
			}
			if v.blk[bi] != nil {
				continue
			}
			for _, c := range b.tbl.cells {
				for _, p := range c.paras {
					for _, a := range p {
						if a.k == aTok && !strings.Contains(rows[c.r][c.c], a.s) {
							v.set(bi, failf("md-table-grid:"+bf, "block %d: token %s is authored in row %d column %d but is elsewhere in the Markdown table:\n%s", bi+1, a.s, c.r+1, c.c+1, region))
						}
					}
				}
			}
		}
	}
	checkRun()
	return v
}

// ---- document model view ----------------------------------------------------------------------

type unit struct {
	kind    int
	level   int
	text    string
	tbl     *model.Table
	ordered bool // items: model.List.Ordered of the containing list
}

type dloc struct{ unit, r, c, off int }

func (a dloc) less(b dloc) bool {
	if a.unit != b.unit {
		return a.unit < b.unit
	}
	if a.r != b.r {
		return a.r < b.r
	}
	if a.c != b.c {
		return a.c < b.c
	}
	return a.off < b.off
}

func docUnits(doc *model.Document) []unit {
	var us []unit
	for _, pg := range doc.Pages {
		for _, el := range pg.Elements {
			switch e := el.(type) {
			case *model.Paragraph:
				us = append(us, unit{kind: kPara, text: e.Text})
			case *model.Heading:
				us = append(us, unit{kind: kHeading, level: e.Level, text: e.Text})
			case *model.List:
				for _, it := range e.Items {
					us = append(us, unit{kind: kItem, level: it.Level, text: it.Text, ordered: e.Ordered})
				}
			case *model.Table:
				us = append(us, unit{kind: kTable, tbl: e})
			default:
				if te, ok := el.(model.TextElement); ok {
					us = append(us, unit{kind: -1, text: te.GetText()})
				}
			}
		}
	}
	return us
}

func locate(us []unit, tok string) (n int, first dloc) {
	for ui, u := range us {
		if u.tbl != nil {
			for r, row := range u.tbl.Rows {
				for c, cell := range row {
					if k := strings.Count(cell.Text, tok); k > 0 {
						if n == 0 {
							first = dloc{ui, r, c, strings.Index(cell.Text, tok)}
						}
						n += k
					}
				}
			}
			continue
		}
		if k := strings.Count(u.text, tok); k > 0 {
			if n == 0 {
				first = dloc{ui, 0, 0, strings.Index(u.text, tok)}
			}
			n += k
		}
	}
	return
}

func unitText(us []unit, l dloc) string {
	if us[l.unit].tbl != nil {
		return us[l.unit].tbl.Rows[l.r][l.c].Text
	}
	return us[l.unit].text
}

func checkDoc(x *expect, toks []tokRef, doc *model.Document) *verdicts {
	v := newVerdicts(x)
	us := docUnits(doc)
	loc := make([]dloc, len(toks))
	found := make([]bool, len(toks))
	for i, t := range toks {
		n, l := locate(us, t.s)
		switch {
		case n == 0:
			v.set(t.blk, failf("lost-token:"+featOr(t.feat, "plain"), "token %s (block %d) is missing from the document model", t.s, t.blk+1))
		case n > 1:
			v.set(t.blk, failf("dup-token:"+featOr(t.feat, "plain"), "token %s (block %d) occurs %d times in the document model", t.s, t.blk+1, n))
		default:
			loc[i], found[i] = l, true
		}
	}
	for _, g := range x.ghosts {
		if n, _ := locate(us, g.tok); n > 0 {
			v.ghost(g, "the document model")
		}
	}
	prev := -1
	for i := range toks {
		if !found[i] {
			continue
		}
		if prev >= 0 {
			a, b := toks[prev], toks[i]
			sameContainer := loc[i].unit == loc[prev].unit && loc[i].r == loc[prev].r && loc[i].c == loc[prev].c
			switch {
			case loc[i].less(loc[prev]):
				orderFailure(x, v, a, b)
			case a.blk == b.blk && a.cell == b.cell:
				// same paragraph, or two paragraphs of one cell: one container
				if !sameContainer {
					v.set(b.blk, failf("doc-split:"+featOr(b.feat, "plain"), "%s and %s belong to one %s (block %d) but are in different elements/cells", a.s, b.s, kindName[x.blocks[b.blk].kind], b.blk+1))
				} else if prev == i-1 {
					txt := unitText(us, loc[i])
					if f := gapFailure(b, txt[loc[prev].off+len(a.s):loc[i].off], false, ""); f != nil {
						v.set(b.blk, f)
					}
				}
			case a.blk == b.blk:
				// different cells of one table: positions are checked against the grid below
				if loc[i].unit != loc[prev].unit {
					v.set(b.blk, failf("doc-split:"+featOr(x.blocks[b.blk].feat, "plain"), "%s and %s belong to one table (block %d) but are in different elements", a.s, b.s, b.blk+1))
				}
			default:
				if loc[i].unit == loc[prev].unit {
					v.set(b.blk, failf("doc-blocks-merged", "%s (block %d) and %s (block %d) are in the same element", a.s, a.blk+1, b.s, b.blk+1))
				}
			}
		}
		prev = i
	}
	firstTok := firstLocated(toks, func(i int) bool { return found[i] })
	for bi, b := range x.blocks {
		ti, ok := firstTok[bi]
		if !ok || v.blk[bi] != nil {
			continue
		}
		u := us[loc[ti].unit]
		bf := featOr(b.feat, "plain")
		if b.loose && b.kind != kTable && u.kind != kTable {
			continue
		}
		if u.kind != b.kind {
			obs := "other"
			if u.kind >= 0 {
				obs = kindName[u.kind]
			}
			v.set(bi, failf(fmt.Sprintf("doc-kind:%s-as-%s:%s", kindName[b.kind], obs, bf), "block %d (%s) is a %s element in the document model", bi+1, kindName[b.kind], obs))
			continue
		}
		switch b.kind {
		case kHeading:
			if u.level != b.level {
				v.set(bi, failf("doc-heading-level:"+bf, "block %d: heading level %d in the source, %d in the document model", bi+1, b.level, u.level))
			}
		case kItem:
			if u.level != b.level {
				v.set(bi, failf("doc-list-level:"+bf, "block %d: list level %d in the source, %d in the document model", bi+1, b.level, u.level))
			}
			if u.ordered != b.ordered {
				v.set(bi, failf("doc-list-kind:"+bf, "block %d: %s list item is in a model.List with Ordered=%v", bi+1, kindOfList(b.ordered), u.ordered))
			}
		case kTable:
			t := u.tbl
			if len(t.Rows) != b.tbl.rows {
				v.set(bi, failf("doc-table-dims:"+bf, "block %d: %d rows in the source, %d in the model:\n%s", bi+1, b.tbl.rows, len(t.Rows), dumpTable(t)))
				continue
			}
			for r, row := range t.Rows {
				if len(row) != b.tbl.cols {
					v.set(bi, failf("doc-table-dims:"+bf, "block %d: row %d has %d cells in the model, the grid has %d columns:\n%s", bi+1, r+1, len(row), b.tbl.cols, dumpTable(t)))
				}
			}
			if v.blk[bi] != nil {
				continue
			}
			for i, tr := range toks {
				if tr.blk != bi || !found[i] {
					continue
				}
				c := b.tbl.cells[tr.cell]
				if loc[i].r != c.r || loc[i].c != c.c {
					v.set(bi, failf("doc-table-grid:"+bf, "block %d: token %s is authored in row %d column %d, the model has it in row %d column %d:\n%s", bi+1, tr.s, c.r+1, c.c+1, loc[i].r+1, loc[i].c+1, dumpTable(t)))
				}
			}
			for _, c := range b.tbl.cells {
				mc := t.Rows[c.r][c.c]
				n1 := func(v int) int {
					if v < 1 {
						return 1
					}
					return v
				}
				if n1(mc.ColSpan) != n1(c.cs) || n1(mc.RowSpan) != n1(c.rs) {
					v.set(bi, failf("doc-table-span:"+bf, "block %d: cell row %d column %d spans %dx%d (rows x cols) in the source, %dx%d in the model:\n%s", bi+1, c.r+1, c.c+1, n1(c.rs), n1(c.cs), n1(mc.RowSpan), n1(mc.ColSpan), dumpTable(t)))
				}
			}
		}
	}
	return v
}

// ---- reader Lists() view ----------------------------------------------------------------------

type obsItem struct {
	text  string
	level int
}

type obsList struct {
	ordered bool
	items   []obsItem
}

// checkLists compares docx/odt Reader.Lists() with the authored list items: every item once, in
// order, with its level and list kind; paragraphs and headings are not list items.
func checkLists(x *expect, toks []tokRef, ls []obsList) *verdicts {
	v := newVerdicts(x)
	type lloc struct{ l, i, off int }
	loc := make([]lloc, len(toks))
	found := make([]bool, len(toks))
	for ti, t := range toks {
		n := 0
		for li, l := range ls {
			for ii, it := range l.items {
				if k := strings.Count(it.text, t.s); k > 0 {
					if n == 0 {
						loc[ti] = lloc{li, ii, strings.Index(it.text, t.s)}
					}
					n += k
				}
			}
		}
		b := x.blocks[t.blk]
		switch {
		case b.kind == kTable || b.loose:
		case b.kind != kItem:
			if n > 0 {
				v.set(t.blk, failf(fmt.Sprintf("lists-kind:%s-as-item:%s", kindName[b.kind], featOr(b.feat, "plain")), "block %d (%s): token %s is reported as a list item by Lists()", t.blk+1, kindName[b.kind], t.s))
			}
		case n == 0:
			v.set(t.blk, failf("lost-token:"+featOr(t.feat, "plain"), "token %s (block %d) is missing from Lists()", t.s, t.blk+1))
		case n > 1:
			v.set(t.blk, failf("dup-token:"+featOr(t.feat, "plain"), "token %s (block %d) occurs %d times in Lists()", t.s, t.blk+1, n))
		default:
			found[ti] = true
		}
	}
	prev := -1
	for i := range toks {
		if !found[i] {
			continue
		}
		if prev >= 0 {
			a, b := loc[prev], loc[i]
			if b.l < a.l || (b.l == a.l && (b.i < a.i || (b.i == a.i && b.off < a.off))) {
				orderFailure(x, v, toks[prev], toks[i])
			} else if toks[prev].blk == toks[i].blk && (a.l != b.l || a.i != b.i) {
				v.set(toks[i].blk, failf("lists-split:"+featOr(toks[i].feat, "plain"), "%s and %s belong to one list item (block %d) but are in different items", toks[prev].s, toks[i].s, toks[i].blk+1))
			} else if toks[prev].blk != toks[i].blk && a.l == b.l && a.i == b.i {
				v.set(toks[i].blk, failf("lists-items-merged", "%s (block %d) and %s (block %d) are in the same list item", toks[prev].s, toks[prev].blk+1, toks[i].s, toks[i].blk+1))
			} else if prev == i-1 && toks[prev].blk == toks[i].blk {
				txt := ls[b.l].items[b.i].text
				if f := gapFailure(toks[i], txt[a.off+len(toks[prev].s):b.off], false, ""); f != nil {
					v.set(toks[i].blk, f)
				}
			}
		}
		prev = i
	}
	first := firstLocated(toks, func(i int) bool { return found[i] })
	for bi, b := range x.blocks {
		ti, ok := first[bi]
		if !ok || v.blk[bi] != nil {
			continue
		}
		bf := featOr(b.feat, "plain")
		l := ls[loc[ti].l]
		if it := l.items[loc[ti].i]; it.level != b.level {
			v.set(bi, failf("lists-level:"+bf, "block %d: list level %d in the source, %d in Lists()", bi+1, b.level, it.level))
		}
		if l.ordered != b.ordered {
			v.set(bi, failf("lists-kind:"+bf, "block %d: %s list item is in a list of Lists() with ordered=%v", bi+1, kindOfList(b.ordered), l.ordered))
		}
	}
	return v
}

func dumpLists(ls []obsList) string {
	var b strings.Builder
	for i, l := range ls {
		fmt.Fprintf(&b, "list %d ordered=%v\n", i, l.ordered)
		for _, it := range l.items {
			fmt.Fprintf(&b, "  level=%d %q\n", it.level, it.text)
		}
	}
	return b.String()
}

func dumpTable(t *model.Table) string {
	var b strings.Builder
	for _, row := range t.Rows {
		for _, c := range row {
			fmt.Fprintf(&b, "[%q r%d c%d] ", c.Text, c.RowSpan, c.ColSpan)
		}
		b.WriteString("\n")
	}
	return b.String()
}

// outcomeClass names the class of a passing block evaluation (vacuity statistics).
func outcomeClass(view string, b xBlock) string {
	s := view + ":" + kindName[b.kind]
	if b.kind == kHeading || b.kind == kItem {
		s += fmt.Sprintf("%d", b.level)
	}
	if b.kind == kTable {
		s += fmt.Sprintf("%dx%d", b.tbl.rows, b.tbl.cols)
	}
	if b.loose {
		s += ":loose"
	}
	return s
}
