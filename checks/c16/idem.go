package main

// One-reader space of C16: what a view reports must depend on the document only, not on which
// views were asked of the same opened reader before; and the merge structure (row / column spans)
// reported by Tables() and ModelTables() must be the authored one.

import (
	"fmt"
	"os"
	"path/filepath"
	"strings"

	"github.com/tsawler/tabula/docx"
	"github.com/tsawler/tabula/model"
	"github.com/tsawler/tabula/odt"
	"verif/internal/gen/docxw"
	"verif/internal/gen/odtw"
	"verif/internal/gen/zipw"
	"verif/internal/harness"
)

var readerViews = []string{"text", "md", "doc", "tables", "mtables", "lists"}

var idemDocx = []string{"p1", "h1", "l0", "l1", "n0", "t22", "tspan", "tvm", "tvm3", "tblk"}
var idemOdt = []string{"p1", "h1", "lb012", "ln01", "t22", "tcs", "trs", "trs3", "tblk"}

// gridCell is one reported cell of a table, reduced to what the property talks about.
type gridCell struct {
	r, c, rs, cs int
	covered      bool
	text         string
}

type rdr struct {
	docx *docx.Reader
	odt  *odt.Reader
}

func openRdr(format, path string) (*rdr, error) {
	if format == "docx" {
		r, err := docx.Open(path)
		return &rdr{docx: r}, err
	}
	r, err := odt.Open(path)
	return &rdr{odt: r}, err
}

func (r *rdr) close() {
	if r.docx != nil {
		r.docx.Close()
	}
	if r.odt != nil {
		r.odt.Close()
	}
}

func n1(v int) int {
	if v < 1 {
		return 1
	}
	return v
}

// parsedTables reads Tables() into grid cells (grid column = running sum of the column spans).
func (r *rdr) parsedTables() [][]gridCell {
	var out [][]gridCell
	if r.docx != nil {
		for _, t := range r.docx.Tables() {
			var cells []gridCell
			for ri, row := range t.Rows {
				col := 0
				for _, c := range row.Cells {
					cells = append(cells, gridCell{ri, col, n1(c.RowSpan), n1(c.ColSpan), c.IsMergedContinuation, c.Text})
					col += n1(c.ColSpan)
				}
			}
			out = append(out, cells)
		}
		return out
	}
	for _, t := range r.odt.Tables() {
		var cells []gridCell
		for ri, row := range t.Rows {
			col := 0
			for _, c := range row.Cells {
				cells = append(cells, gridCell{ri, col, n1(c.RowSpan), n1(c.ColSpan), c.IsCovered, c.Text})
				col += n1(c.ColSpan)
			}
		}
		out = append(out, cells)
	}
	return out
}

// declaredCols is len(ColWidths) of every parsed table (the column declarations as read).
func (r *rdr) declaredCols() []int {
	var out []int
	if r.docx != nil {
		for _, t := range r.docx.Tables() {
			out = append(out, len(t.ColWidths))
		}
		return out
	}
	for _, t := range r.odt.Tables() {
		out = append(out, len(t.ColWidths))
	}
	return out
}

func (r *rdr) modelTables() []*model.Table {
	if r.docx != nil {
		return r.docx.ModelTables()
	}
	return r.odt.ModelTables()
}

func modelGrid(ts []*model.Table) [][]gridCell {
	var out [][]gridCell
	for _, t := range ts {
		var cells []gridCell
		for ri, row := range t.Rows {
			for ci, c := range row {
				cells = append(cells, gridCell{ri, ci, n1(c.RowSpan), n1(c.ColSpan), false, c.Text})
			}
		}
		out = append(out, cells)
	}
	return out
}

func dumpGrid(ts [][]gridCell) string {
	var b strings.Builder
	for i, t := range ts {
		fmt.Fprintf(&b, "table %d\n", i)
		for _, c := range t {
			fmt.Fprintf(&b, "  r%d c%d span %dx%d covered=%v %q\n", c.r, c.c, c.rs, c.cs, c.covered, c.text)
		}
	}
	return b.String()
}

// render calls one view on the reader and renders the result canonically.
func (r *rdr) render(view string) (string, error) {
	switch view {
	case "text":
		if r.docx != nil {
			return r.docx.Text()
		}
		return r.odt.Text()
	case "md":
		if r.docx != nil {
			return r.docx.Markdown()
		}
		return r.odt.Markdown()
	case "doc":
		var d *model.Document
		var err error
		if r.docx != nil {
			d, err = r.docx.Document()
		} else {
			d, err = r.odt.Document()
		}
		if err != nil || d == nil {
			return "", fmt.Errorf("Document(): %v", err)
		}
		var b strings.Builder
		for _, pg := range d.Pages {
			for _, el := range pg.Elements {
				switch e := el.(type) {
				case *model.Paragraph:
					fmt.Fprintf(&b, "para %q\n", e.Text)
				case *model.Heading:
					fmt.Fprintf(&b, "heading %d %q\n", e.Level, e.Text)
				case *model.List:
					fmt.Fprintf(&b, "list ordered=%v\n", e.Ordered)
					for _, it := range e.Items {
						fmt.Fprintf(&b, "  item level=%d bullet=%q %q\n", it.Level, it.Bullet, it.Text)
					}
				case *model.Table:
					b.WriteString(dumpGrid(modelGrid([]*model.Table{e})))
				}
			}
		}
		return b.String(), nil
	case "tables":
		return dumpGrid(r.parsedTables()), nil
	case "mtables":
		return dumpGrid(modelGrid(r.modelTables())), nil
	case "lists":
		var b strings.Builder
		if r.docx != nil {
			for _, l := range r.docx.Lists() {
				fmt.Fprintf(&b, "list type=%d num=%s start=%d\n", l.Type, l.NumID, l.StartAt)
				for _, it := range l.Items {
					fmt.Fprintf(&b, "  item level=%d bullet=%q %q\n", it.Level, it.Bullet, it.Text)
				}
			}
		} else {
			for _, l := range r.odt.Lists() {
				fmt.Fprintf(&b, "list type=%d style=%s start=%d\n", l.Type, l.StyleName, l.StartAt)
				for _, it := range l.Items {
					fmt.Fprintf(&b, "  item level=%d bullet=%q %q\n", it.Level, it.Bullet, it.Text)
				}
			}
		}
		return b.String(), nil
	}
	return "", fmt.Errorf("unknown view %s", view)
}

// spanFailure compares the reported cells of the k-th table with the authored grid.
func spanFailure(x *expect, tables [][]gridCell, decl []int) *failure {
	k := 0
	for bi, b := range x.blocks {
		if b.kind != kTable {
			continue
		}
		bf := featOr(b.feat, "plain")
		if k >= len(tables) {
			return failf("tables-missing:"+bf, "block %d: table %d is not reported (%d tables)", bi+1, k+1, len(tables))
		}
		// exactly the authored rows and columns: no surplus (empty) rows / columns, none missing
		rows, width := 0, map[int]int{}
		for _, g := range tables[k] {
			if g.r+1 > rows {
				rows = g.r + 1
			}
			if g.c+g.cs > width[g.r] {
				width[g.r] = g.c + g.cs
			}
		}
		if rows != b.tbl.rows {
			return failf("tables-dims:"+bf, "block %d: %d rows in the source, %d reported:\n%s", bi+1, b.tbl.rows, rows, dumpGrid(tables[k:k+1]))
		}
		for r := 0; r < rows; r++ {
			if width[r] != b.tbl.cols {
				return failf("tables-dims:"+bf, "block %d: row %d covers %d columns, the authored grid has %d:\n%s", bi+1, r+1, width[r], b.tbl.cols, dumpGrid(tables[k:k+1]))
			}
		}
		if decl != nil && decl[k] != b.tbl.cols {
			return failf("tables-dims:"+bf, "block %d: %d columns declared according to Tables().ColWidths, the authored grid has %d", bi+1, decl[k], b.tbl.cols)
		}
		for _, c := range b.tbl.cells {
			var got *gridCell
			for i := range tables[k] {
				if g := &tables[k][i]; g.r == c.r && g.c == c.c {
					got = g
				}
			}
			switch {
			case got == nil:
				return failf("tables-grid:"+bf, "block %d: no cell at row %d column %d:\n%s", bi+1, c.r+1, c.c+1, dumpGrid(tables[k:k+1]))
			case got.rs != n1(c.rs) || got.cs != n1(c.cs):
				return failf("tables-span:"+bf, "block %d: cell row %d column %d spans %dx%d (rows x cols) in the source, %dx%d reported:\n%s", bi+1, c.r+1, c.c+1, n1(c.rs), n1(c.cs), got.rs, got.cs, dumpGrid(tables[k:k+1]))
			}
			for _, p := range c.paras {
				for _, a := range p {
					if a.k == aTok && !strings.Contains(got.text, a.s) {
						return failf("tables-grid:"+bf, "block %d: token %s is authored in row %d column %d, reported cell text %q:\n%s", bi+1, a.s, c.r+1, c.c+1, got.text, dumpGrid(tables[k:k+1]))
					}
				}
			}
		}
		k++
	}
	return nil
}

func (c *checker) idempotence() {
	type fmtSpec struct {
		name    string
		letters []string
		layouts []string
		build   func(seq []int, layout string) ([]zipw.Member, *expect)
	}
	da, oa := docxAlphabet(), odtAlphabet()
	index := func(names []string, all []string) []int {
		idx := make([]int, len(names))
		for i, n := range names {
			idx[i] = -1
			for j, a := range all {
				if a == n {
					idx[i] = j
				}
			}
			if idx[i] < 0 {
				panic("unknown letter " + n)
			}
		}
		return idx
	}
	dn := make([]string, len(da))
	for i, k := range da {
		dn[i] = k.name
	}
	on := make([]string, len(oa))
	for i, k := range oa {
		on[i] = k.name
	}
	di, oi := index(idemDocx, dn), index(idemOdt, on)
	specs := []fmtSpec{
		{"docx", idemDocx, []string{"-"}, func(seq []int, layout string) ([]zipw.Member, *expect) {
			full := make([]int, len(seq))
			for i, s := range seq {
				full[i] = di[s]
			}
			cs := buildDocx(da, full, docxOpts[0], "id")
			return docxw.Members(cs.doc, cs.opts), &cs.x
		}},
		{"odt", idemOdt, odtColLayouts, func(seq []int, layout string) ([]zipw.Member, *expect) {
			full := make([]int, len(seq))
			for i, s := range seq {
				full[i] = oi[s]
			}
			cs := buildOdt(oa, full, odtOpts[0], "id", layout)
			return odtw.Members(cs.doc, cs.opts), &cs.x
		}},
	}
	max := 2
	if c.e.Thorough() {
		max = 3
	}
	e := c.e
	for _, sp := range specs {
		for l := 1; l <= max; l++ {
			product(len(sp.letters), l, func(seq []int) {
				for _, layout := range sp.layouts {
					sn := make([]string, len(seq))
					hasTable := false
					for i, s := range seq {
						sn[i] = sp.letters[s]
						hasTable = hasTable || strings.HasPrefix(sn[i], "t")
					}
					if layout != sp.layouts[0] && !hasTable {
						continue
					}
					stem := fmt.Sprintf("space=onereader fmt=%s cols=%s n=%d seq=%s", sp.name, layout, len(seq), strings.Join(sn, ","))
					// lazily built per document
					var path string
					var x *expect
					var files map[string][]byte
					fresh := map[string]string{}
					prepare := func() {
						if path != "" {
							return
						}
						ms, xx := sp.build(seq, layout)
						x = xx
						for i := range ms {
							ms[i].Store = true
						}
						data := zipw.Zip(ms)
						path = filepath.Join(c.dir, "one."+sp.name)
						if err := os.WriteFile(path, data, 0o644); err != nil {
							panic(err)
						}
						files = map[string][]byte{"input." + sp.name: data}
					}
					freshView := func(v string) (string, error) {
						if s, ok := fresh[v]; ok {
							return s, nil
						}
						r, err := openRdr(sp.name, path)
						if err != nil {
							return "", err
						}
						defer r.close()
						s, err := r.render(v)
						if err == nil {
							fresh[v] = s
						}
						return s, err
					}
					// (1) merge structure reported by a fresh reader
					for _, v := range []string{"tables", "mtables"} {
						desc := stem + " check=spans view=" + v
						if !e.Own(desc) {
							continue
						}
						prepare()
						e.Begin(desc)
						var f *failure
						sig, det := harness.Guard(func() {
							r, err := openRdr(sp.name, path)
							if err != nil {
								f = failf("error:open", "%v", err)
								return
							}
							defer r.close()
							if v == "tables" {
								f = spanFailure(x, r.parsedTables(), r.declaredCols())
							} else {
								f = spanFailure(x, modelGrid(r.modelTables()), nil)
							}
						})
						switch {
						case sig != "":
							e.Fail(desc, sig, det, files)
						case f != nil:
							e.Fail(desc, f.sig, f.detail, files)
						default:
							e.Pass(desc, true, "onereader:spans-"+v)
						}
					}
					// (2) every ordered pair of views on one reader
					for _, v1 := range readerViews {
						for _, v2 := range readerViews {
							desc := stem + " check=pair first=" + v1 + " second=" + v2
							if !e.Own(desc) {
								continue
							}
							prepare()
							e.Begin(desc)
							var f *failure
							sig, det := harness.Guard(func() {
								want, err := freshView(v2)
								if err != nil {
									f = failf("error:"+v2, "%v", err)
									return
								}
								r, err := openRdr(sp.name, path)
								if err != nil {
									f = failf("error:open", "%v", err)
									return
								}
								defer r.close()
								if _, err := r.render(v1); err != nil {
									f = failf("error:"+v1, "%v", err)
									return
								}
								got, err := r.render(v2)
								if err != nil {
									f = failf("error:"+v2, "%v", err)
									return
								}
								if got != want {
									f = failf("stateful:"+v2+"-after-"+v1, "%s on a reader that already served %s differs from %s on a fresh reader\n--- fresh:\n%s\n--- after %s:\n%s", v2, v1, v2, want, v1, got)
								}
							})
							switch {
							case sig != "":
								e.Fail(desc, sig, det, files)
							case f != nil:
								e.Fail(desc, f.sig, f.detail, files)
							default:
								e.Pass(desc, true, "onereader:pair-stable")
							}
						}
					}
					e.End()
				}
			})
		}
	}
}
