// C05 — Stream decoding exactly inverts every supported encoding.
// Exhaustive enumeration of (data, predictor geometry, per-row PNG tags, filter chain,
// DecodeParms form, ASCII spelling) against the harness' own encoders.
package main

import (
	"bytes"
	"compress/zlib"
	"fmt"
	"strings"

	"github.com/tsawler/tabula/core"
	"verif/internal/harness"
)

var alpha = []byte{0x00, 0x01, 0x7F, 0x80, 0xFF}

func main() { harness.Main("C05", "exploration", run) }

func run(e *harness.Env) {
	e.Rule = "full product per sub-space: (A) predictor x colors x columns x rows x independent PNG row tags x data pattern, " +
		"(A2) every 2x2/2x1 image over a 5-value alphabet x every tag pair, (B) every byte string of length<=3 over {00,01,7F,80,FF} x single filter x spelling, " +
		"(C) every filter chain of length<=3 over {Fl,Fl+PNG,Fl+TIFF,AHx,A85} x name form x DecodeParms form x data incl. 4095/4096/4097/65536-byte patterns, " +
		"(D) undecodable inputs (bad characters, base-85 overflow, truncated/bit-flipped zlib, PNG tag>4, ragged length): error or original. " +
		"Every case: Decode on one stream object, the encoded bytes must be unaltered afterwards, and a second Decode of the same object must give the same bytes; the same object given other contents (a fixed probe) decodes those, and the case's contents again when they are put back. " +
		"distinct = distinct case descriptors; non-trivial = anything but the unfiltered identity"
	e.Assumptions = []string{"compress/zlib is a conforming Flate encoder", "harness PNG/TIFF/hex/base-85 encoders follow ISO 32000-1 7.4 and the PNG specification"}
	predictors(e)
	small2x2(e)
	shortStrings(e)
	chains(e)
	undecodable(e)
}

// ---- encoders (reference side) ---------------------------------------------------------

func zl(b []byte) []byte {
	var buf bytes.Buffer
	w := zlib.NewWriter(&buf)
	w.Write(b)
	w.Close()
	return buf.Bytes()
}

func paeth(a, b, c byte) byte {
	p := int(a) + int(b) - int(c)
	pa, pb, pc := p-int(a), p-int(b), p-int(c)
	if pa < 0 {
		pa = -pa
	}
	if pb < 0 {
		pb = -pb
	}
	if pc < 0 {
		pc = -pc
	}
	switch {
	case pa <= pb && pa <= pc:
		return a
	case pb <= pc:
		return b
	}
	return c
}

// pngEncode applies the PNG filter tags[row] to every row of raw (rowLen bytes per row, bpp bytes per pixel).
func pngEncode(raw []byte, rowLen, bpp int, tags []int) []byte {
	rows := len(raw) / rowLen
	out := make([]byte, 0, len(raw)+rows)
	for r := 0; r < rows; r++ {
		cur := raw[r*rowLen : (r+1)*rowLen]
		var prev []byte
		if r > 0 {
			prev = raw[(r-1)*rowLen : r*rowLen]
		}
		out = append(out, byte(tags[r]))
		for i := 0; i < rowLen; i++ {
			var a, b, c byte
			if i >= bpp {
				a = cur[i-bpp]
			}
			if prev != nil {
				b = prev[i]
				if i >= bpp {
					c = prev[i-bpp]
				}
			}
			var p byte
			switch tags[r] {
			case 1:
				p = a
			case 2:
				p = b
			case 3:
				p = byte((int(a) + int(b)) / 2)
			case 4:
				p = paeth(a, b, c)
			}
			out = append(out, cur[i]-p)
		}
	}
	return out
}

func tiffEncode(raw []byte, rowLen, colors int) []byte {
	out := make([]byte, len(raw))
	for r := 0; r*rowLen < len(raw); r++ {
		for i := 0; i < rowLen; i++ {
			idx := r*rowLen + i
			if i < colors {
				out[idx] = raw[idx]
			} else {
				out[idx] = raw[idx] - raw[idx-colors]
			}
		}
	}
	return out
}

type hexStyle struct {
	upper bool
	ws    int  // whitespace after every ws characters (0: none)
	eod   bool // '>' terminator
	odd   bool // drop a final '0' nibble (allowed: odd count means trailing 0)
}

var wsBytes = []byte{' ', '\n', '\r', '\t', '\f', 0}

func hexEncode(b []byte, st hexStyle) []byte {
	const lo, up = "0123456789abcdef", "0123456789ABCDEF"
	d := lo
	if st.upper {
		d = up
	}
	var s []byte
	for _, x := range b {
		s = append(s, d[x>>4], d[x&15])
	}
	if st.odd && st.eod && len(b) > 0 && b[len(b)-1]&15 == 0 {
		s = s[:len(s)-1]
	}
	var out []byte
	for i, c := range s {
		if st.ws > 0 && i > 0 && i%st.ws == 0 {
			out = append(out, wsBytes[(i/st.ws)%len(wsBytes)])
		}
		out = append(out, c)
	}
	if st.eod {
		if st.ws > 0 {
			out = append(out, ' ')
		}
		out = append(out, '>')
	}
	return out
}

type a85Style struct {
	z   bool // use 'z' for all-zero groups
	ws  int
	eod bool
}

func a85Encode(b []byte, st a85Style) []byte {
	var s []byte
	for i := 0; i < len(b); i += 4 {
		n := len(b) - i
		if n > 4 {
			n = 4
		}
		var g [4]byte
		copy(g[:], b[i:i+n])
		v := uint32(g[0])<<24 | uint32(g[1])<<16 | uint32(g[2])<<8 | uint32(g[3])
		if n == 4 && v == 0 && st.z {
			s = append(s, 'z')
			continue
		}
		var d [5]byte
		for k := 4; k >= 0; k-- {
			d[k] = byte(v%85) + '!'
			v /= 85
		}
		s = append(s, d[:n+1]...)
	}
	var out []byte
	for i, c := range s {
		if st.ws > 0 && i > 0 && i%st.ws == 0 {
			out = append(out, wsBytes[(i/st.ws)%len(wsBytes)])
		}
		out = append(out, c)
	}
	if st.eod {
		out = append(out, '~', '>')
	}
	return out
}

// ---- data patterns ------------------------------------------------------------------------

func pattern(name string, n, period int) []byte {
	b := make([]byte, n)
	for i := range b {
		switch name {
		case "zero":
		case "ff":
			b[i] = 0xFF
		case "ramp":
			b[i] = byte(i)
		case "p2":
			b[i] = []byte{0x10, 0xF0}[i%2]
		case "pbpp1":
			b[i] = byte(37 * (i % period))
		case "edge":
			b[i] = alpha[(i*7+i/5)%5]
		case "desc":
			b[i] = byte(255 - 3*i)
		}
	}
	return b
}

var patNames = []string{"zero", "ff", "ramp", "p2", "pbpp1", "edge", "desc"}

func check(e *harness.Env, desc string, nontrivial bool, s *core.Stream, want []byte, outcome string) {
	var got []byte
	var err error
	e.Begin(desc)
	enc := append([]byte(nil), s.Data...)
	sig, det := harness.Guard(func() { got, err = s.Decode() })
	if sig != "" {
		e.Fail(desc, sig, det, map[string][]byte{"stream.bin": enc})
		return
	}
	if err != nil {
		e.Fail(desc, "error-on-valid-encoding", fmt.Sprintf("Decode: %v\ndict: %s", err, s.Dict.String()), map[string][]byte{"stream.bin": enc})
		return
	}
	if !bytes.Equal(got, want) {
		e.Fail(desc, "wrong-bytes", fmt.Sprintf("dict: %s\nwant %d bytes % x\ngot  %d bytes % x", s.Dict.String(), len(want), head(want), len(got), head(got)), map[string][]byte{"stream.bin": enc})
		return
	}
	if s2, d2 := again(s, enc, got); s2 != "" {
		e.Fail(desc, s2, d2, map[string][]byte{"stream.bin": enc})
		return
	}
	e.Pass(desc, nontrivial, outcome)
}

// again decides the part of "decoding inverts the encoding" that concerns the stream object itself:
// decoding does not alter the encoded bytes it was given, and decoding the same stream object once more
// gives the same bytes (a reader decodes a cached stream object as often as it is asked for).
func again(s *core.Stream, enc, first []byte) (sig, detail string) {
	if !bytes.Equal(s.Data, enc) {
		return "decode-alters-encoded-data", fmt.Sprintf("dict: %s\nencoded before % x\nencoded after  % x", s.Dict.String(), head(enc), head(s.Data))
	}
	keep := append([]byte(nil), first...)
	var got []byte
	var err error
	if psig, pdet := harness.Guard(func() { got, err = s.Decode() }); psig != "" {
		return psig, pdet
	}
	if err != nil {
		return "second-decode-fails", fmt.Sprintf("dict: %s\nsecond Decode of the same stream: %v", s.Dict.String(), err)
	}
	if !bytes.Equal(got, keep) {
		return "second-decode-differs", fmt.Sprintf("dict: %s\nfirst  % x\nsecond % x", s.Dict.String(), head(keep), head(got))
	}
	if !bytes.Equal(first, keep) {
		return "first-result-altered-by-second-decode", fmt.Sprintf("dict: %s\nbefore % x\nafter  % x", s.Dict.String(), head(keep), head(first))
	}
	// Stream is a plain struct with exported fields: the same object given other contents must decode the
	// contents it has now (a fixed hex-encoded probe), and the case's contents again once they are put back.
	dict, data := s.Dict, s.Data
	s.Dict, s.Data = core.Dict{"Filter": core.Name("ASCIIHexDecode")}, []byte("50 52 4F 42 45>")
	if psig, pdet := harness.Guard(func() { got, err = s.Decode() }); psig != "" {
		return psig, pdet
	}
	if err != nil || string(got) != "PROBE" {
		return "decode-ignores-new-contents-of-stream-object", fmt.Sprintf("after decoding %s the same Stream object was given /ASCIIHexDecode <50 52 4F 42 45>: Decode = % x, %v; want \"PROBE\"", dict.String(), head(got), err)
	}
	s.Dict, s.Data = dict, data
	if psig, pdet := harness.Guard(func() { got, err = s.Decode() }); psig != "" {
		return psig, pdet
	}
	if err != nil || !bytes.Equal(got, keep) {
		return "decode-ignores-new-contents-of-stream-object", fmt.Sprintf("dict: %s\nafter the probe contents the original contents were put back: Decode = % x, %v; want % x", dict.String(), head(got), err, head(keep))
	}
	return "", ""
}

func head(b []byte) []byte {
	if len(b) > 48 {
		return b[:48]
	}
	return b
}

// ---- (A) predictors ----------------------------------------------------------------------------

func predictors(e *harness.Env) {
	cols := []int{1, 2, 3, 4, 5}
	maxRows := 2
	if e.Thorough() {
		cols = []int{1, 2, 3, 4, 5, 7, 8, 63, 64}
		maxRows = 3
	}
	for _, pred := range []int{1, 2, 10, 11, 12, 13, 14, 15} {
		for colors := 1; colors <= 4; colors++ {
			for _, c := range cols {
				for rows := 1; rows <= maxRows; rows++ {
					rowLen := c * colors
					ntags := 1
					if pred >= 10 {
						for i := 0; i < rows; i++ {
							ntags *= 5
						}
					}
					for tv := 0; tv < ntags; tv++ {
						tags := make([]int, rows)
						x := tv
						for i := range tags {
							tags[i] = x % 5
							x /= 5
						}
						for _, pn := range patNames {
							desc := harness.D("space", "pred", "predictor", pred, "colors", colors, "columns", c, "rows", rows, "tags", fmt.Sprint(tags), "data", pn)
							if !e.Own(desc) {
								continue
							}
							raw := pattern(pn, rows*rowLen, colors+1)
							var enc []byte
							switch {
							case pred == 1:
								enc = raw
							case pred == 2:
								enc = tiffEncode(raw, rowLen, colors)
							default:
								enc = pngEncode(raw, rowLen, colors, tags)
							}
							parms := core.Dict{"Predictor": core.Int(pred), "Colors": core.Int(colors), "Columns": core.Int(c)}
							if (tv+rows)%2 == 0 {
								parms["BitsPerComponent"] = core.Int(8)
							}
							s := &core.Stream{Dict: core.Dict{"Filter": core.Name("FlateDecode"), "DecodeParms": parms}, Data: zl(enc)}
							check(e, desc, true, s, raw, fmt.Sprintf("pred%d", pred))
						}
					}
				}
			}
		}
	}
}

// ---- (A2) every tiny image ---------------------------------------------------------------------

func small2x2(e *harness.Env) {
	for _, geo := range [][3]int{{2, 1, 2}, {1, 2, 2}, {2, 2, 1}, {1, 1, 2}} { // columns, colors, rows
		c, colors, rows := geo[0], geo[1], geo[2]
		n := c * colors * rows
		total := 1
		for i := 0; i < n; i++ {
			total *= 5
		}
		ntags := 1
		for i := 0; i < rows; i++ {
			ntags *= 5
		}
		for dv := 0; dv < total; dv++ {
			raw := make([]byte, n)
			x := dv
			for i := range raw {
				raw[i] = alpha[x%5]
				x /= 5
			}
			for tv := 0; tv < ntags; tv++ {
				tags := make([]int, rows)
				y := tv
				for i := range tags {
					tags[i] = y % 5
					y /= 5
				}
				desc := harness.D("space", "img", "columns", c, "colors", colors, "rows", rows, "data", fmt.Sprintf("%x", raw), "tags", fmt.Sprint(tags))
				if !e.Own(desc) {
					continue
				}
				enc := pngEncode(raw, c*colors, colors, tags)
				s := &core.Stream{Dict: core.Dict{"Filter": core.Name("Fl"), "DecodeParms": core.Dict{"Predictor": core.Int(15), "Colors": core.Int(colors), "Columns": core.Int(c)}}, Data: zl(enc)}
				check(e, desc, true, s, raw, "img")
			}
		}
	}
}

// ---- (B) short strings through single filters --------------------------------------------------

func shortStrings(e *harness.Env) {
	var datas [][]byte
	datas = append(datas, []byte{})
	for l := 1; l <= 3; l++ {
		total := 1
		for i := 0; i < l; i++ {
			total *= 5
		}
		for v := 0; v < total; v++ {
			b := make([]byte, l)
			x := v
			for i := range b {
				b[i] = alpha[x%5]
				x /= 5
			}
			datas = append(datas, b)
		}
	}
	// also lengths 4..9 so that base-85 groups/partial groups of every size and 'z' occur
	for l := 4; l <= 9; l++ {
		datas = append(datas, pattern("zero", l, 1), pattern("ff", l, 1), pattern("edge", l, 1), pattern("ramp", l, 1))
	}
	for _, d := range datas {
		ds := fmt.Sprintf("%x", d)
		// none
		if desc := harness.D("space", "str", "filter", "none", "data", ds); e.Own(desc) {
			check(e, desc, false, &core.Stream{Dict: core.Dict{}, Data: d}, d, "none")
		}
		for _, nm := range []string{"FlateDecode", "Fl"} {
			if desc := harness.D("space", "str", "filter", nm, "data", ds); e.Own(desc) {
				check(e, desc, true, &core.Stream{Dict: core.Dict{"Filter": core.Name(nm)}, Data: zl(d)}, d, "flate")
			}
		}
		for _, up := range []bool{false, true} {
			for _, ws := range []int{0, 1, 3} {
				for _, eod := range []bool{true, false} {
					for _, odd := range []bool{false, true} {
						if odd && !eod {
							continue
						}
						st := hexStyle{up, ws, eod, odd}
						for _, nm := range []string{"ASCIIHexDecode", "AHx"} {
							desc := harness.D("space", "str", "filter", nm, "data", ds, "upper", up, "ws", ws, "eod", eod, "odd", odd)
							if !e.Own(desc) {
								continue
							}
							enc := hexEncode(d, st)
							s := &core.Stream{Dict: core.Dict{"Filter": core.Name(nm)}, Data: enc}
							if !eod {
								lenient(e, desc, s, d, "hex-noeod")
							} else {
								check(e, desc, true, s, d, "hex")
							}
						}
					}
				}
			}
		}
		for _, z := range []bool{true, false} {
			for _, ws := range []int{0, 1, 4} {
				for _, eod := range []bool{true, false} {
					st := a85Style{z, ws, eod}
					for _, nm := range []string{"ASCII85Decode", "A85"} {
						desc := harness.D("space", "str", "filter", nm, "data", ds, "z", z, "ws", ws, "eod", eod)
						if !e.Own(desc) {
							continue
						}
						s := &core.Stream{Dict: core.Dict{"Filter": core.Name(nm)}, Data: a85Encode(d, st)}
						if !eod {
							lenient(e, desc, s, d, "a85-noeod")
						} else {
							check(e, desc, true, s, d, "a85")
						}
					}
				}
			}
		}
	}
}

// lenient: input a strict decoder may refuse — error or the original, never other bytes.
func lenient(e *harness.Env, desc string, s *core.Stream, want []byte, outcome string) {
	var got []byte
	var err error
	e.Begin(desc)
	enc := append([]byte(nil), s.Data...)
	sig, det := harness.Guard(func() { got, err = s.Decode() })
	if sig != "" {
		e.Fail(desc, sig, det, map[string][]byte{"stream.bin": enc})
		return
	}
	if !bytes.Equal(s.Data, enc) {
		e.Fail(desc, "decode-alters-encoded-data", fmt.Sprintf("dict: %s\nencoded before % x\nencoded after  % x", s.Dict.String(), head(enc), head(s.Data)), map[string][]byte{"stream.bin": enc})
		return
	}
	if err != nil {
		e.Pass(desc, true, outcome+":error")
		return
	}
	if bytes.Equal(got, want) {
		e.Pass(desc, true, outcome+":original")
		return
	}
	e.Fail(desc, "wrong-bytes-on-undecodable", fmt.Sprintf("dict: %s\ninput % x\nwant error or %d bytes % x\ngot  %d bytes % x", s.Dict.String(), head(s.Data), len(want), head(want), len(got), head(got)), map[string][]byte{"stream.bin": s.Data})
}

// ---- (C) chains --------------------------------------------------------------------------------

type elem struct {
	kind string // Fl, FlPNG, FlTIFF, AHx, A85
}

func chains(e *harness.Env) {
	kinds := []string{"Fl", "FlPNG", "FlTIFF", "AHx", "A85"}
	type dat struct {
		name string
		b    []byte
	}
	datas := []dat{{"empty", nil}, {"a", []byte("a")}, {"edge12", pattern("edge", 12, 1)}, {"zero8", pattern("zero", 8, 1)}, {"ramp4096", pattern("ramp", 4096, 1)}}
	if e.Thorough() {
		datas = append(datas, dat{"edge4095", pattern("edge", 4095, 1)}, dat{"p2_4097", pattern("p2", 4097, 1)}, dat{"desc65536", pattern("desc", 65536, 1)}, dat{"zero65536", pattern("zero", 65536, 1)}, dat{"ff4096", pattern("ff", 4096, 1)})
	}
	var seqs [][]string
	var rec func(cur []string, l int)
	rec = func(cur []string, l int) {
		if len(cur) > 0 {
			seqs = append(seqs, append([]string{}, cur...))
		}
		if len(cur) == l {
			return
		}
		for _, k := range kinds {
			rec(append(cur, k), l)
		}
	}
	rec(nil, 3)
	for _, seq := range seqs {
		hasParms := false
		for _, k := range seq {
			if k == "FlPNG" || k == "FlTIFF" {
				hasParms = true
			}
		}
		for _, abbr := range []string{"full", "abbr", "mixed"} {
			// DecodeParms forms valid for this chain
			forms := []string{"array"}
			if !hasParms {
				forms = append(forms, "absent", "null", "array-nulls")
			}
			if len(seq) == 1 {
				forms = append(forms, "name+dict", "array1+dict")
				if !hasParms {
					forms = append(forms, "name+absent", "name+null")
				}
			}
			for _, form := range forms {
				for _, d := range datas {
					desc := harness.D("space", "chain", "chain", strings.Join(seq, ">"), "names", abbr, "parms", form, "data", d.name)
					if !e.Own(desc) {
						continue
					}
					// the predictor geometry needs len(data) to be a multiple of the row: pad logical data
					raw := d.b
					if hasParms {
						if r := len(raw) % 4; r != 0 || len(raw) == 0 {
							raw = append(append([]byte{}, raw...), make([]byte, 4-r)...)
						}
					}
					// encode: the decoder applies filters first to last, so encode last to first
					enc := raw
					parmsArr := make(core.Array, len(seq))
					names := make(core.Array, len(seq))
					for i := len(seq) - 1; i >= 0; i-- {
						var nm string
						switch seq[i] {
						case "Fl":
							nm = "FlateDecode"
							enc = zl(enc)
							parmsArr[i] = core.Null{}
						case "FlPNG":
							nm = "FlateDecode"
							rows := len(enc) / 4
							tags := make([]int, rows)
							for r := range tags {
								tags[r] = (r + i) % 5
							}
							if len(enc)%4 != 0 {
								// inner data is not a multiple of the row (it is an encoded form): use Columns=len
								parmsArr[i] = core.Dict{"Predictor": core.Int(12), "Columns": core.Int(len(enc))}
								enc = zl(pngEncode(enc, len(enc), 1, []int{2}))
							} else {
								parmsArr[i] = core.Dict{"Predictor": core.Int(12), "Columns": core.Int(2), "Colors": core.Int(2)}
								enc = zl(pngEncode(enc, 4, 2, tags))
							}
						case "FlTIFF":
							nm = "FlateDecode"
							if len(enc)%4 != 0 {
								parmsArr[i] = core.Dict{"Predictor": core.Int(2), "Columns": core.Int(len(enc))}
								enc = zl(tiffEncode(enc, len(enc), 1))
							} else {
								parmsArr[i] = core.Dict{"Predictor": core.Int(2), "Columns": core.Int(2), "Colors": core.Int(2)}
								enc = zl(tiffEncode(enc, 4, 2))
							}
						case "AHx":
							nm = "ASCIIHexDecode"
							enc = hexEncode(enc, hexStyle{upper: i%2 == 0, ws: 64, eod: true})
							parmsArr[i] = core.Null{}
						case "A85":
							nm = "ASCII85Decode"
							enc = a85Encode(enc, a85Style{z: true, ws: 75, eod: true})
							parmsArr[i] = core.Null{}
						}
						if abbr == "abbr" || (abbr == "mixed" && i%2 == 1) {
							nm = map[string]string{"FlateDecode": "Fl", "ASCIIHexDecode": "AHx", "ASCII85Decode": "A85"}[nm]
						}
						names[i] = core.Name(nm)
					}
					if len(enc) == 0 && len(raw) > 0 {
						panic("encoder bug")
					}
					dict := core.Dict{}
					switch form {
					case "array":
						dict["Filter"] = names
						dict["DecodeParms"] = parmsArr
					case "array-nulls":
						dict["Filter"] = names
						dict["DecodeParms"] = parmsArr // all Null here because !hasParms
					case "absent":
						dict["Filter"] = names
					case "null":
						dict["Filter"] = names
						dict["DecodeParms"] = core.Null{}
					case "name+dict":
						dict["Filter"] = names[0]
						if p, ok := parmsArr[0].(core.Dict); ok {
							dict["DecodeParms"] = p
						} else {
							dict["DecodeParms"] = core.Dict{"Predictor": core.Int(1)}
						}
					case "array1+dict":
						dict["Filter"] = names
						if p, ok := parmsArr[0].(core.Dict); ok {
							dict["DecodeParms"] = p
						} else {
							dict["DecodeParms"] = core.Dict{"Predictor": core.Int(1), "Columns": core.Int(7)}
						}
					case "name+absent":
						dict["Filter"] = names[0]
					case "name+null":
						dict["Filter"] = names[0]
						dict["DecodeParms"] = core.Null{}
					}
					check(e, desc, true, &core.Stream{Dict: dict, Data: enc}, raw, fmt.Sprintf("chain%d", len(seq)))
				}
			}
		}
	}
}

// ---- (D) undecodable --------------------------------------------------------------------------

func undecodable(e *harness.Env) {
	orig := pattern("edge", 8, 1)
	// ASCIIHex: a non-hex, non-white, non-EOD byte at every position
	hx := hexEncode(orig, hexStyle{eod: true})
	for pos := 0; pos < len(hx)-1; pos++ {
		for _, bad := range []byte{'G', 'g', '<', '~', 'z', 0x80} {
			desc := harness.D("space", "bad", "filter", "AHx", "pos", pos, "byte", fmt.Sprintf("%02x", bad))
			if !e.Own(desc) {
				continue
			}
			b := append([]byte{}, hx...)
			b[pos] = bad
			lenient(e, desc, &core.Stream{Dict: core.Dict{"Filter": core.Name("AHx")}, Data: b}, orig, "bad-hex")
		}
	}
	// ASCII85: byte outside '!'..'u' (and not z / ~>) at every position
	a := a85Encode(orig, a85Style{eod: true})
	for pos := 0; pos < len(a)-2; pos++ {
		for _, bad := range []byte{'v', '{', '}', 0x7F, 0x80, 0xFF} {
			desc := harness.D("space", "bad", "filter", "A85", "pos", pos, "byte", fmt.Sprintf("%02x", bad))
			if !e.Own(desc) {
				continue
			}
			b := append([]byte{}, a...)
			b[pos] = bad
			lenient(e, desc, &core.Stream{Dict: core.Dict{"Filter": core.Name("A85")}, Data: b}, orig, "bad-a85")
		}
	}
	// base-85 groups above 2^32-1: no byte string encodes to them
	for _, g := range []string{"s8W-\"", "s8W-#", "s8W.!", "s8X!!", "s9!!!", "t!!!!", "uuuuu", "s8W-\"~>", "!!!!!uuuuu~>"} {
		for _, nm := range []string{"A85", "ASCII85Decode"} {
			desc := harness.D("space", "bad", "filter", nm, "group", g)
			if !e.Own(desc) {
				continue
			}
			e.Begin(desc)
			s := &core.Stream{Dict: core.Dict{"Filter": core.Name(nm)}, Data: []byte(g)}
			var got []byte
			var err error
			sig, det := harness.Guard(func() { got, err = s.Decode() })
			switch {
			case sig != "":
				e.Fail(desc, sig, det, nil)
			case err != nil:
				e.Pass(desc, true, "a85-overflow:error")
			default:
				e.Fail(desc, "a85-overflow-wraps", fmt.Sprintf("group %q exceeds 2^32-1 and has no preimage; Decode returned % x without error", g, got), map[string][]byte{"stream.bin": []byte(g)})
			}
		}
	}
	// 'z' inside a group is not allowed
	for _, g := range []string{"!!z!!!~>", "ab z~>"} {
		desc := harness.D("space", "bad", "filter", "A85", "zinside", g)
		if e.Own(desc) {
			lenient(e, desc, &core.Stream{Dict: core.Dict{"Filter": core.Name("A85")}, Data: []byte(g)}, nil, "a85-z-inside")
		}
	}
	// zlib: every truncation and every single-bit flip of a short body
	for _, dn := range []string{"edge", "ramp"} {
		raw := pattern(dn, 40, 1)
		z := zl(raw)
		for cut := 0; cut < len(z); cut++ {
			desc := harness.D("space", "bad", "filter", "Fl", "data", dn, "truncate", cut)
			if e.Own(desc) {
				lenient(e, desc, &core.Stream{Dict: core.Dict{"Filter": core.Name("Fl")}, Data: z[:cut]}, raw, "zlib-trunc")
			}
		}
		for pos := 0; pos < len(z); pos++ {
			for bit := 0; bit < 8; bit++ {
				desc := harness.D("space", "bad", "filter", "Fl", "data", dn, "flip", fmt.Sprintf("%d.%d", pos, bit))
				if !e.Own(desc) {
					continue
				}
				b := append([]byte{}, z...)
				b[pos] ^= 1 << bit
				lenient(e, desc, &core.Stream{Dict: core.Dict{"Filter": core.Name("Fl")}, Data: b}, raw, "zlib-flip")
			}
		}
	}
	// PNG: tag byte > 4, and a length that is not a multiple of the row size
	raw := pattern("edge", 12, 1)
	for tag := 5; tag < 256; tag++ {
		for row := 0; row < 3; row++ {
			desc := harness.D("space", "bad", "filter", "Fl+PNG", "tag", tag, "row", row)
			if !e.Own(desc) {
				continue
			}
			enc := pngEncode(raw, 4, 1, []int{0, 1, 2})
			enc[row*5] = byte(tag)
			s := &core.Stream{Dict: core.Dict{"Filter": core.Name("Fl"), "DecodeParms": core.Dict{"Predictor": core.Int(12), "Columns": core.Int(4)}}, Data: zl(enc)}
			lenient(e, desc, s, raw, "png-bad-tag")
		}
	}
	for extra := 1; extra < 5; extra++ {
		for _, pred := range []int{2, 12} {
			desc := harness.D("space", "bad", "filter", "Fl+pred", "predictor", pred, "ragged", extra)
			if !e.Own(desc) {
				continue
			}
			var enc []byte
			if pred == 2 {
				enc = tiffEncode(raw, 4, 1)
				enc = append(enc, make([]byte, extra%4)...)
				if extra%4 == 0 {
					enc = enc[:len(enc)-1]
				}
			} else {
				enc = pngEncode(raw, 4, 1, []int{0, 1, 2})
				enc = append(enc, make([]byte, extra)...)
				if extra%5 == 0 {
					enc = enc[:len(enc)-1]
				}
			}
			s := &core.Stream{Dict: core.Dict{"Filter": core.Name("Fl"), "DecodeParms": core.Dict{"Predictor": core.Int(pred), "Columns": core.Int(4)}}, Data: zl(enc)}
			lenient(e, desc, s, raw, "ragged")
		}
	}
}
