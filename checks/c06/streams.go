package main

// Space "stream": stream objects through ParseIndirectObject with a direct /Length. ISO 32000-1 7.3.8.1: the keyword
// stream is followed by CR LF or LF (not CR alone); exactly /Length bytes are the data whatever they are; an
// end-of-line marker before endstream is recommended, not required, and is not part of the data.
// first byte x last byte of the data over {LF, CR, CR LF, SP, NUL, '%', 'e', ordinary} x middle {empty, text} x
// EOL after stream {LF, CRLF} x before endstream {nothing, LF, CR, CRLF} x whitespace {sp, min}; plus one-element and empty data.

import (
	"bytes"
	"fmt"

	"github.com/tsawler/tabula/core"
	"verif/internal/harness"
)

var streamEdge = []struct{ name, b string }{
	{"LF", "\n"}, {"CR", "\r"}, {"CRLF", "\r\n"}, {"SP", " "}, {"NUL", "\x00"}, {"pct", "%"}, {"e", "e"}, {"x", "x"},
}

func streamSpace(e *harness.Env) {
	type body struct {
		id   string
		data string
	}
	bodies := []body{{"empty", ""}}
	for _, a := range streamEdge {
		bodies = append(bodies, body{"only-" + a.name, a.b})
		for _, z := range streamEdge {
			bodies = append(bodies, body{a.name + "--" + z.name, a.b + z.b}, body{a.name + "-mid-" + z.name, a.b + "BT (endstream) Tj\nendobj" + z.b})
		}
	}
	e.Note("stream_space", fmt.Sprintf("%d stream bodies (first x last byte over LF,CR,CRLF,SP,NUL,%%,e,x; empty / text middle; single element; empty) x EOL after stream {LF,CRLF} x before endstream {none,LF,CR,CRLF} x ws{sp,min} x dict {Length only, Length last}", len(bodies)))
	eols := []struct{ name, b string }{{"LF", "\n"}, {"CRLF", "\r\n"}}
	tails := []struct{ name, b string }{{"none", ""}, {"LF", "\n"}, {"CR", "\r"}, {"CRLF", "\r\n"}}
	for _, bd := range bodies {
		for _, e1 := range eols {
			for _, e2 := range tails {
				for _, ws := range []string{"sp", "min"} {
					for _, dk := range []string{"len", "k-len"} {
						desc := fmt.Sprintf("space=stream body=%s eol=%s tail=%s ws=%s dict=%s parser=coreind", bd.id, e1.name, e2.name, ws, dk)
						if !e.Own(desc) {
							continue
						}
						dict := nDict([][]byte{[]byte("Length")}, nInt(fmt.Sprint(len(bd.data))))
						if dk == "k-len" {
							dict = nDict([][]byte{kK, []byte("Length")}, nName([]byte("Fl"), ""), nInt(fmt.Sprint(len(bd.data))))
						}
						w := &writer{p: policy{ws, "off", "LF", "lit", "raw"}}
						w.reg("1", 0)
						w.reg("0", 0)
						w.reg("obj", 0)
						w.obj(dict, 0)
						w.toks = append(w.toks, tok{b: []byte("stream" + e1.b + bd.data + e2.b + "endstream"), sReg: true, eReg: true})
						w.reg("endobj", 0)
						data := w.render()
						files := map[string][]byte{"input.bin": data}
						e.Begin(desc)
						var io1 *core.IndirectObject
						var err error
						sig, det := harness.Guard(func() { io1, err = core.NewParser(bytes.NewReader(data)).ParseIndirectObject() })
						if sig != "" {
							e.Fail(desc, sig, det+"\ninput: "+q(data), files)
							continue
						}
						if err != nil {
							e.Fail(desc, "coreind-error:"+errClass(err), fmt.Sprintf("ParseIndirectObject: %v\ninput: %s", err, q(data)), files)
							continue
						}
						st, ok := io1.Object.(*core.Stream)
						if !ok || io1.Ref.Number != 1 || io1.Ref.Generation != 0 {
							e.Fail(desc, "coreind-wrong-value", fmt.Sprintf("want stream object 1 0, got %+v\ninput: %s", io1, q(data)), files)
							continue
						}
						if string(st.Data) != bd.data {
							e.Fail(desc, "stream-wrong-data", fmt.Sprintf("want %q\ngot  %q\ninput: %s", bd.data, st.Data, q(data)), files)
							continue
						}
						if r := eq(dict, st.Dict, "$dict"); r != "" {
							e.Fail(desc, "coreind-wrong-value", r+"\ninput: "+q(data), files)
							continue
						}
						e.Pass(desc, true, "core:stream")
					}
				}
			}
		}
	}
}
