package main

// Space "hex": hexadecimal-string spellings enumerated directly. ISO 32000-1 7.3.4.3: white-space characters inside
// <...> are ignored wherever they stand; an odd number of digits means a final 0.
// digit count {0..5} x white space placed at every gap (before the first digit, between any two digits incl. inside
// a pair, after the last digit): one gap x (each of the six white bytes + every ordered pair of two different bytes),
// two gaps x (byte a, byte b) for all 36 byte pairs, and all gaps at once (six rotations of the white-byte cycle).

import (
	"fmt"

	"verif/internal/harness"
)

const hexDigits = "4AF07C"

var hexWhite = []struct {
	b    byte
	code byte
}{{' ', 's'}, {'\t', 't'}, {'\n', 'n'}, {'\r', 'r'}, {'\f', 'l'}, {0, 'z'}}

// hexLeaf builds the leaf for n digits with the white bytes gaps[i] (indices into hexWhite) put into gap i (0..n).
func hexLeaf(n int, gaps [][]int) *node {
	raw := []byte{'<'}
	id := []byte("hx<")
	for g := 0; g <= n; g++ {
		for _, wi := range gaps[g] {
			raw = append(raw, hexWhite[wi].b)
			id = append(id, hexWhite[wi].code)
		}
		if g < n {
			raw = append(raw, hexDigits[g])
			id = append(id, hexDigits[g])
		}
	}
	raw = append(raw, '>')
	id = append(id, '>')
	val := func(c byte) byte {
		if c >= 'A' {
			return c - 'A' + 10
		}
		return c - '0'
	}
	var want []byte
	for i := 0; i < n; i += 2 {
		b := val(hexDigits[i]) << 4
		if i+1 < n {
			b |= val(hexDigits[i+1])
		}
		want = append(want, b)
	}
	return &node{k: kStr, s: want, raw: raw, id: string(id)}
}

func hexLeaves() []*node {
	var out []*node
	for n := 0; n <= 5; n++ {
		empty := func() [][]int { return make([][]int, n+1) }
		out = append(out, hexLeaf(n, empty()))
		for g := 0; g <= n; g++ { // one gap
			for a := 0; a < 6; a++ {
				gs := empty()
				gs[g] = []int{a}
				out = append(out, hexLeaf(n, gs))
				for b := 0; b < 6; b++ {
					if b != a {
						gs := empty()
						gs[g] = []int{a, b}
						out = append(out, hexLeaf(n, gs))
					}
				}
			}
		}
		for g1 := 0; g1 <= n; g1++ { // two gaps
			for g2 := g1 + 1; g2 <= n; g2++ {
				for a := 0; a < 6; a++ {
					for b := 0; b < 6; b++ {
						gs := empty()
						gs[g1], gs[g2] = []int{a}, []int{b}
						out = append(out, hexLeaf(n, gs))
					}
				}
			}
		}
		if n >= 2 { // every gap at once
			for rot := 0; rot < 6; rot++ {
				gs := empty()
				for g := range gs {
					gs[g] = []int{(g + rot) % 6}
				}
				out = append(out, hexLeaf(n, gs))
			}
		}
	}
	return out
}

func hexSpace(e *harness.Env) {
	leaves := hexLeaves()
	e.Note("hex_space", fmt.Sprintf("%d hexadecimal-string spellings: digits %q[:n], n=0..5, white space in one gap (6 bytes + 30 ordered pairs), two gaps (36 byte pairs), all gaps (6 rotations)", len(leaves), hexDigits))
	quickCtx := map[string]bool{"top": true, "arrR": true, "arr2": true, "dictV": true, "nestD": true}
	wss, follows := []string{"min", "sp"}, []string{"none"}
	if e.Thorough() {
		wss, follows = []string{"min", "sp", "mix"}, []string{"none", "int"}
	}
	for _, lf := range leaves {
		for _, cx := range contexts {
			if cx.only != 255 || (!e.Thorough() && !quickCtx[cx.name]) {
				continue
			}
			t := cx.build(lf)
			f := treeStats(t)
			for _, fo := range follows {
				var fn *node
				if fo != "none" {
					fn = followers[fo]
				}
				for _, ws := range wss {
					p := policy{ws, "off", "LF", "lit", "raw"}
					pd := "space=hex leaf=" + lf.id + " ctx=" + cx.name + " follow=" + fo + " " + featDesc(f) + " ws=" + ws + " cmt=off eol=LF str=rawhex name=raw"
					if d := pd + " parser=core"; e.Own(d) {
						runCore(e, d, true, t, fn, p, "core:hex")
					}
					if d := pd + " parser=cs"; e.Own(d) {
						runCS(e, d, t, fn, p, "cs:hex")
					}
				}
			}
		}
	}
}
