package main

import (
	"bytes"
	"fmt"
	"io"

	"github.com/tsawler/tabula/contentstream"
	"github.com/tsawler/tabula/core"
	"verif/internal/harness"
)

// reporter is what a case runner needs; *harness.Env is one, ctxReporter adapts an explorer context.
type reporter interface {
	Begin(desc string)
	Fail(desc, sig, detail string, files map[string][]byte)
	Pass(desc string, nontrivial bool, outcome string)
}

type ctxReporter struct {
	c *harness.Ctx
	e *harness.Env
}

func (r ctxReporter) Begin(desc string) { r.e.Begin(desc) }
func (r ctxReporter) Fail(desc, sig, detail string, files map[string][]byte) {
	r.c.Fail(sig, detail, files)
}
func (r ctxReporter) Pass(desc string, nontrivial bool, outcome string) { r.c.Pass(outcome) }

// ---- space "quirk": operand spellings whose meaning the check does not fix (mostly not legal PDF). The only
// demand is the second sentence of the statement: an operand that BOTH parsers accept has one value.
// Top level only: a lexer error inside a container is property C02's business.

var quirks = []string{
	"(\\q)", "(\\8)", "(\\777)", "(\\400)", "(\\1234)", "(\\08)", "(a\rb)", "(a\r\nb)", "(\\\r\n)", "(\\18)", "(\\)", "(()", "(\\\n\n)",
	"<4 1>", "<4G>", "<>", "< >", "<4>", "<414>", "<4 1 4 >", "<41", "<zz>", "<4\x001>",
	"/A#G0", "/A#4", "/A#", "/#00", "/A#20#", "/A#2", "/#", "/##", "/A#4g", "/A#4G", "/\x80#",
	"9223372036854775808", "-9223372036854775809", "+", "-", ".", "-.", "+-1", "--1", "-+1", "1-2", "1e5", "0x10", "16#FF", "-0.0", "000", ".0", "0.",
	"+0", "-0", "1.", "1..", "1.5.5", "..5", "1,5", "++1", "1+", "1.-", "4.-5", "-.-", "99999999999999999999", "0.99999999999999999999999",
	"-00.0100", "+.0", "2147483648", "-2147483649",
	"True", "TRUE", "nul", "nulll", "truefalse", "true1", "null0", "t", "R", "[", "]", "<<", ">>", ">", ")", "{", "}",
}

func quirkSpace(e *harness.Env) {
	for _, text := range quirks {
		for _, tail := range []string{"", " ", "\n"} {
			desc := harness.D("space", "quirk", "text", fmt.Sprintf("%x", text), "tail", fmt.Sprintf("%x", tail))
			if !e.Own(desc) {
				continue
			}
			e.Begin(desc)
			var co core.Object
			var coOK bool
			var ops []contentstream.Operation
			var cerr error
			sig, det := harness.Guard(func() {
				ps := core.NewParser(bytes.NewReader([]byte(text + tail)))
				o, err := ps.ParseObject()
				if err == nil {
					if _, err2 := ps.ParseObject(); err2 == io.EOF { // exactly one object
						co, coOK = o, true
					}
				}
				csReset()
				ops, cerr = contentstream.NewParser([]byte(text + tail + " DP")).Parse()
			})
			if sig != "" {
				e.Fail(desc, sig, det+"\ninput: "+q([]byte(text)), nil)
				continue
			}
			csOK := cerr == nil && len(ops) == 1 && ops[0].Operator == "DP" && len(ops[0].Operands) == 1 && ops[0].Operands[0] != nil
			switch {
			case coOK && csOK:
				if !sameObj(co, ops[0].Operands[0]) {
					e.Fail(desc, "parsers-disagree", fmt.Sprintf("input %s\ncore: %T %q\ncontentstream: %T %q", q([]byte(text)), co, co.String(), ops[0].Operands[0], ops[0].Operands[0].String()), map[string][]byte{"operand.bin": []byte(text + tail)})
					continue
				}
				e.Pass(desc, true, "quirk:both-accept-equal")
			case coOK:
				e.Pass(desc, true, "quirk:core-only")
			case csOK:
				e.Pass(desc, true, "quirk:cs-only")
			default:
				e.Pass(desc, true, "quirk:neither")
			}
		}
	}
}
