package main

// The independent serializer: (tree | operator program) + spelling policy -> bytes.
// Everything emitted is legal per ISO 32000-1 7.2 (lexical conventions) and 7.3 (objects):
//   * white space = 00 09 0A 0C 0D 20; a comment runs from '%' to the next CR or LF and counts as white space;
//   * a token made of regular characters must be separated from a following regular character; delimiters
//     ( ) < > [ ] { } / % need no separation;
//   * literal strings: balanced parentheses may stay raw, unbalanced ones and '\' are escaped, a raw end-of-line
//     (CR, LF or CRLF) reads as one LF, "\" + end-of-line is ignored, \ddd takes 1-3 octal digits;
//   * hexadecimal strings: white space ignored, an odd final digit is followed by an implied 0;
//   * names: any byte except NUL; white space, delimiters and '#' only as #XX;
//   * numbers: optional sign, digits, optional '.', no exponent.

import (
	"fmt"
)

type policy struct {
	ws   string // min | sp | nl | mix
	cmt  string // off | sep (between tokens, not inside "n g R") | all
	eol  string // LF | CR | CRLF
	str  string // lit | esc | oct3 | octs | hexU | hexL | hexodd | hexws | cont | raweol
	name string // raw | esc | escl
}

func (p policy) desc() string {
	return fmt.Sprintf("ws=%s cmt=%s eol=%s str=%s name=%s", p.ws, p.cmt, p.eol, p.str, p.name)
}

var (
	wsOpts   = []string{"sp", "min", "nl", "mix"}
	cmtOpts  = []string{"off", "sep", "all"}
	eolOpts  = []string{"LF", "CR", "CRLF"}
	strOpts  = []string{"lit", "esc", "oct3", "octs", "hexU", "hexL", "hexodd", "hexws", "cont", "raweol"}
	nameOpts = []string{"raw", "esc", "escl"}
)

func (p policy) eolBytes() []byte {
	switch p.eol {
	case "CR":
		return []byte{'\r'}
	case "CRLF":
		return []byte{'\r', '\n'}
	}
	return []byte{'\n'}
}

func isWhite(b byte) bool {
	return b == 0 || b == 9 || b == 10 || b == 12 || b == 13 || b == 32
}

func isDelim(b byte) bool {
	switch b {
	case '(', ')', '<', '>', '[', ']', '{', '}', '/', '%':
		return true
	}
	return false
}

// features of a tree that decide which spelling dimensions are relevant and which known defects can be hit;
// they are functions of the tree alone (computed before rendering) and become descriptor tokens.
type feats struct {
	str, name, ref, lf bool // tree contains such leaves / a string containing LF
	oddable            bool // some string ends in a byte whose low nibble is 0 (an odd-length hex spelling exists)
	kwTop              bool // null/true/false as a top-level operand
	kwIn               bool // null/true/false inside a container
}

type tok struct {
	b          []byte
	sReg, eReg bool // starts / ends with a regular character (needs separation from a regular neighbour)
	inRef      bool // the gap before this token lies inside "n g R"
	kw         bool
	depth      int
}

type writer struct {
	p    policy
	toks []tok
	f    feats
	ctr  int
	// comment runs (space "runs"): gap index -> number of consecutive comments put into that gap
	// (gap i lies before token i, gap len(toks) after the last token); runAll applies to every gap.
	runs   map[int]int
	runAll int
}

var hexU, hexL = "0123456789ABCDEF", "0123456789abcdef"

func (w *writer) reg(s string, depth int) {
	w.toks = append(w.toks, tok{b: []byte(s), sReg: true, eReg: true, depth: depth})
}

func (w *writer) delim(s string, depth int) {
	w.toks = append(w.toks, tok{b: []byte(s), depth: depth})
}

func (w *writer) name(b []byte, depth int) {
	out := []byte{'/'}
	for _, c := range b {
		esc := w.p.name != "raw" || isWhite(c) || isDelim(c) || c == '#'
		if !esc {
			out = append(out, c)
			continue
		}
		d := hexU
		if w.p.name == "escl" {
			d = hexL
		}
		out = append(out, '#', d[c>>4], d[c&15])
	}
	// a name ends at the next white-space or delimiter, so even "/" needs separation from a regular character
	w.toks = append(w.toks, tok{b: out, sReg: false, eReg: true, depth: depth})
}

var whites = []byte{' ', 0, '\t', '\n', '\f', '\r'}

func (w *writer) str(s []byte, depth int) {
	p := w.p
	var out []byte
	switch p.str {
	case "hexU", "hexL", "hexodd", "hexws":
		d := hexU
		if p.str == "hexL" {
			d = hexL
		}
		var dig []byte
		for _, c := range s {
			dig = append(dig, d[c>>4], d[c&15])
		}
		if p.str == "hexodd" && len(s) > 0 && s[len(s)-1]&15 == 0 {
			dig = dig[:len(dig)-1]
		}
		out = append(out, '<')
		for i, c := range dig {
			if p.str == "hexws" { // white space is ignored anywhere: runs of 0, 1 or 2 white bytes before each digit
				for k := 0; k < (i+w.ctr)%3; k++ {
					out = append(out, whites[(i+k+w.ctr)%len(whites)])
				}
			}
			out = append(out, c)
		}
		if p.str == "hexws" {
			for k := 0; k < (len(dig)+w.ctr)%3; k++ {
				out = append(out, whites[(len(dig)+k+w.ctr)%len(whites)])
			}
		}
		out = append(out, '>')
		w.ctr++
	default:
		// which parentheses are balanced (may stay raw in "lit"-like policies)
		bal := make([]bool, len(s))
		var stack []int
		for i, c := range s {
			if c == '(' {
				stack = append(stack, i)
			} else if c == ')' && len(stack) > 0 {
				bal[i], bal[stack[len(stack)-1]] = true, true
				stack = stack[:len(stack)-1]
			}
		}
		oct := func(c byte, next byte, hasNext bool, short bool) []byte {
			if short && !(hasNext && next >= '0' && next <= '9') {
				switch {
				case c < 8:
					return []byte{'\\', '0' + c}
				case c < 64:
					return []byte{'\\', '0' + c>>3, '0' + c&7}
				}
			}
			return []byte{'\\', '0' + c>>6, '0' + (c>>3)&7, '0' + c&7}
		}
		out = append(out, '(')
		for i, c := range s {
			var next byte
			hasNext := i+1 < len(s)
			if hasNext {
				next = s[i+1]
			}
			if p.str == "cont" {
				out = append(out, '\\')
				out = append(out, p.eolBytes()...)
			}
			switch p.str {
			case "oct3":
				out = append(out, oct(c, 0, false, false)...)
				continue
			case "octs":
				// printable bytes stay raw so that a short octal escape can be followed by a digit-free or digit neighbour
				if c >= 0x20 && c < 0x7f && c != '(' && c != ')' && c != '\\' {
					out = append(out, c)
				} else {
					out = append(out, oct(c, next, hasNext, true)...)
				}
				continue
			}
			named := p.str == "esc"
			switch {
			case c == '\\':
				out = append(out, '\\', '\\')
			case c == '(' || c == ')':
				if named || !bal[i] {
					out = append(out, '\\')
				}
				out = append(out, c)
			case c == '\r':
				out = append(out, '\\', 'r') // a raw CR would read back as LF
			case c == '\n':
				switch {
				case named || p.str == "cont": // after "\"+CR a raw LF would be swallowed as part of the line end
					out = append(out, '\\', 'n')
				case p.str == "raweol":
					out = append(out, p.eolBytes()...)
				default:
					out = append(out, c)
				}
			case named && c == '\t':
				out = append(out, '\\', 't')
			case named && c == '\b':
				out = append(out, '\\', 'b')
			case named && c == '\f':
				out = append(out, '\\', 'f')
			default:
				out = append(out, c)
			}
		}
		if p.str == "cont" {
			out = append(out, '\\')
			out = append(out, p.eolBytes()...)
		}
		out = append(out, ')')
	}
	w.toks = append(w.toks, tok{b: out, depth: depth})
}

func (w *writer) obj(n *node, depth int) {
	switch n.k {
	case kNull, kBool:
		w.reg(n.id, depth)
		w.toks[len(w.toks)-1].kw = true
		if depth == 0 {
			w.f.kwTop = true
		} else {
			w.f.kwIn = true
		}
	case kInt, kReal:
		w.reg(n.num, depth)
	case kStr:
		w.f.str = true
		for _, c := range n.s {
			if c == '\n' {
				w.f.lf = true
			}
		}
		if len(n.s) > 0 && n.s[len(n.s)-1]&15 == 0 {
			w.f.oddable = true
		}
		if n.raw != nil { // a fixed spelling (space "hex")
			w.toks = append(w.toks, tok{b: n.raw, depth: depth})
		} else {
			w.str(n.s, depth)
		}
	case kName:
		w.f.name = true
		w.name(n.s, depth)
	case kRef:
		w.f.ref = true
		w.reg(fmt.Sprint(n.n), depth)
		w.reg(fmt.Sprint(n.g), depth)
		w.toks[len(w.toks)-1].inRef = true
		w.reg("R", depth)
		w.toks[len(w.toks)-1].inRef = true
	case kArr:
		w.delim("[", depth)
		for _, c := range n.kids {
			w.obj(c, depth+1)
		}
		w.delim("]", depth)
	case kDict:
		w.delim("<<", depth)
		for i, c := range n.kids {
			w.f.name = true
			w.name(n.keys[i], depth+1)
			w.obj(c, depth+1)
		}
		w.delim(">>", depth)
	}
}

var cmtTexts = []string{"c", "", " a comment (", ")", ">>", "]", " 1 0 R", "%%EOF", "\\", "/N <", "[ (", "true", "\t\x00\f", "\xe9"}

// render joins the tokens with the gaps the policy asks for. lead/trail: also before the first / after the last token.
func (w *writer) render() []byte {
	p := w.p
	var out []byte
	gi := 0
	runMode := w.runs != nil || w.runAll > 0
	gap := func(idx int, required, inRef bool) {
		gi++
		var ws []byte
		switch p.ws {
		case "min":
			if required {
				ws = []byte{' '}
			}
		case "sp":
			ws = []byte{' '}
		case "nl":
			ws = p.eolBytes()
		case "mix":
			ws = []byte{whites[gi%len(whites)]}
			if gi%3 == 0 {
				ws = append(ws, whites[(gi/3)%len(whites)])
			}
		}
		if runMode {
			r := w.runAll
			if v, ok := w.runs[idx]; ok {
				r = v
			}
			if r == 0 {
				out = append(out, ws...)
				return
			}
			if p.ws != "min" {
				out = append(out, ws...)
			}
			for k := 0; k < r; k++ { // each comment ends with its end-of-line marker; the next one follows directly or after the policy's white space
				out = append(out, '%')
				out = append(out, cmtTexts[(gi+k)%len(cmtTexts)]...)
				out = append(out, p.eolBytes()...)
				if p.ws != "min" && k%2 == 1 {
					out = append(out, ws...)
				}
			}
			return
		}
		if p.cmt == "all" || (p.cmt == "sep" && !inRef) {
			if p.ws != "min" {
				out = append(out, ws...)
			}
			out = append(out, '%')
			out = append(out, cmtTexts[gi%len(cmtTexts)]...)
			out = append(out, p.eolBytes()...)
			if p.ws == "mix" {
				out = append(out, ws...)
			}
			return
		}
		out = append(out, ws...)
	}
	for i, t := range w.toks {
		if i == 0 {
			if p.ws != "min" || runMode {
				gap(0, false, false)
			}
		} else {
			gap(i, w.toks[i-1].eReg && t.sReg, t.inRef)
		}
		out = append(out, t.b...)
	}
	if p.ws != "min" || runMode {
		gap(len(w.toks), false, false)
	}
	return out
}
