package main

// Numbers with many significant digits. A float64 value v is written with a spelling that identifies v
// (its shortest round-trip spelling, or v's decimal expansion rounded to 18 / 19 significant digits), so parsing it
// back must give v bit for bit; other leaves pin the nearest-double decision on the 17th and later digits.
// The expected value of every leaf is the correctly rounded big.Rat conversion of the digits as written (nReal);
// for the spellings derived from a float64 the construction additionally asserts that this equals v.

import (
	"fmt"
	"math"
	"strconv"
	"strings"
)

const (
	lcgMul  = 6364136223846793005
	lcgAdd  = 1442695040888963407
	lcgSeed = 0x2545F4914F6CDD1D
	lcgN    = 160
)

// exactReal builds a real leaf that must read back bit for bit.
func exactReal(text string) *node {
	n := nReal(text)
	n.exact = true
	n.id = "r" + text
	return n
}

// fromFloat spells v ('f' format, prec -1 = shortest round trip) and checks the spelling against the independent reference.
func fromFloat(v float64, prec int, form int) *node {
	text := strconv.FormatFloat(v, 'f', prec, 64)
	if !strings.Contains(text, ".") {
		text += ".0"
	}
	switch form % 4 {
	case 1: // drop the optional leading zero: ".5", "-.5"
		if strings.HasPrefix(text, "0.") {
			text = text[1:]
		} else if strings.HasPrefix(text, "-0.") {
			text = "-" + text[2:]
		}
	case 2: // explicit plus sign
		if v >= 0 {
			text = "+" + text
		}
	case 3: // redundant zeros on both sides
		if v >= 0 {
			text = "00" + text + "00"
		}
	}
	n := exactReal(text)
	if n.r != v {
		panic(fmt.Sprintf("C06: spelling %s of %v is not a round-trip spelling (reference reads %v)", text, v, n.r))
	}
	return n
}

// longNumberLeaves is a fixed list: hand-picked boundary cases plus an LCG table (constants above, recorded in the evidence).
func longNumberLeaves() []*node {
	var out []*node
	seen := map[string]bool{}
	add := func(n *node) {
		if !seen[n.id] {
			seen[n.id] = true
			out = append(out, n)
		}
	}
	// integers at the 2^31, 2^53, 10^18 and 2^63 boundaries (the basic alphabet has 2^31-1, -2^31, 2^32, 2^63-1, -2^63)
	for _, t := range []string{"2147483646", "2147483648", "-2147483649", "9007199254740991", "9007199254740992", "9007199254740993",
		"-9007199254740993", "99999999999999999", "999999999999999999", "-999999999999999999", "1000000000000000000",
		"9223372036854775806", "-9223372036854775807", "+9223372036854775807", "000000000000000000017"} {
		add(nInt(t))
	}
	// decimal digit strings whose integer reading lies just below / at / above 2^53, at several scales and with 15..19 digits
	for _, m := range []string{"900719925474099", "9007199254740991", "9007199254740992", "9007199254740993", "9007199254740994",
		"9007199254740995", "90071992547409929", "90071992547409931", "900719925474099267", "900719925474099301", "9007199254740992999",
		"1234567890123456", "12345678901234567", "123456789012345678", "1234567890123456789", "23133300483951646", "99999999999999999", "999999999999999999"} {
		for _, point := range []int{0, 1, 3, len(m) - 1, len(m)} {
			var t string
			switch {
			case point == 0:
				t = "." + m
			case point >= len(m):
				t = m + "."
			default:
				t = m[:point] + "." + m[point:]
			}
			add(exactReal(t))
			add(exactReal("-" + t))
		}
		add(exactReal("+" + m[:3] + "." + m[3:]))
		add(exactReal("0.000000000000" + m)) // a long run of zeros after the point
	}
	// the nearest double is decided by the 17th and later digits: 1+2^-52 = 1.0000000000000002220446..., midpoint 1.00000000000000011102230246251565404236316680908203125
	for _, t := range []string{"1.0000000000000001", "1.00000000000000011", "1.000000000000000111", "1.0000000000000001110223024625156540423631668090820312",
		"1.00000000000000011102230246251565404236316680908203125", "1.00000000000000011102230246251565404236316680908203126", "1.00000000000000012", "1.0000000000000002", "1.0000000000000003",
		"0.30000000000000004", "0.1", "0.3", "0.7", "2.675", "1.005", "8.41", "0.29", "9007199254740993.0", "9007199254740993.00000001", "9007199254740992.99999999",
		"4503599627370496.5", "4503599627370497.5", "0.000001", "0.0000001", "179769313486231570000000000000000000000.0", "0.000000000000000000000000000000000000000000001"} {
		add(exactReal(t))
	}
	// float64 values written with their shortest round-trip spelling and with 18 / 19 significant digits
	hand := []float64{231.33300483951646, 0.1 + 0.2, math.Pi, math.E * 100, 1 / 3.0, 2 / 3.0 * 1000, math.Nextafter(1, 2), math.Nextafter(1, 0),
		math.Nextafter(1000, 0), math.Nextafter(0.001, 1), 72.0 / 25.4, 595.27559055118115, 841.8897637795276, 0.017453292519943295, 9007199254740992.0 / 1024, 5e-324 * (1 << 20), 123456.78901234567}
	for i, v := range hand {
		add(fromFloat(v, -1, 0))
		add(fromFloat(-v, -1, i))
	}
	x := uint64(lcgSeed)
	for i := 0; i < lcgN; i++ {
		x = x*lcgMul + lcgAdd
		m := x>>11 | 1<<52 // 53-bit mantissa
		e := -52 + (i%8)*4 - 12
		v := math.Ldexp(float64(m), e) // 2^-12 .. 2^17
		if i%3 == 2 {
			v = -v
		}
		add(fromFloat(v, -1, i/8))
		if i%16 == 5 || i%16 == 10 { // the same value with 18 and 19 significant digits
			intDigits := len(strconv.FormatFloat(math.Abs(math.Trunc(v)), 'f', 0, 64))
			if math.Abs(v) < 1 {
				intDigits = 0
			}
			for _, sig := range []int{18, 19} {
				if prec := sig - intDigits; prec > 0 && math.Abs(v) >= 0.1 {
					add(fromFloat(v, prec, 0))
				}
			}
		}
	}
	return out
}

func lcgNote() string {
	return fmt.Sprintf("x0=%#x, x=x*%d+%d mod 2^64, mantissa=x>>11|2^52, value=mantissa*2^(-64+4*(i mod 8)), negative for i mod 3 = 2, i<%d", uint64(lcgSeed), uint64(lcgMul), uint64(lcgAdd), lcgN)
}
