package main

// Space "rep": one unit repeated N times in one stream / one array / one parser, N crossing every limit constant
// of the two parsers (maxNestingDepth = 256 in core/parser.go and contentstream/parser.go; bufio's 4096-byte buffer
// is crossed by the byte length) - state that accumulates across operands must not change the result.
// Space "runs": runs of 0..3 consecutive comments in every single token gap (and in all gaps at once) of the
// multi-token constructs: n g R, n g obj ... endobj, dict key/value, array elements, the stream keyword.

import (
	"bytes"
	"fmt"
	"io"

	"github.com/tsawler/tabula/contentstream"
	"github.com/tsawler/tabula/core"
	"verif/internal/harness"
)

var repNs = []int{257, 300, 1000}

var repUnits = []struct {
	name string
	mk   func(i int) *node
	ref  bool
}{
	{"dict", func(i int) *node { return nDict([][]byte{[]byte("MCID")}, nInt(fmt.Sprint(i))) }, false},
	{"dict-in-array", func(i int) *node { return nArr(nDict([][]byte{kK}, nInt(fmt.Sprint(i)))) }, false},
	{"dict-in-dict", func(i int) *node {
		return nDict([][]byte{kK}, nDict([][]byte{kL, []byte("A")}, nInt(fmt.Sprint(i)), nArr()))
	}, false},
	{"array", func(i int) *node { return nArr(nInt(fmt.Sprint(i)), nReal("-.5")) }, false},
	{"array-in-array", func(i int) *node { return nArr(nArr(nArr(nInt(fmt.Sprint(i))))) }, false},
	{"empty-containers", func(i int) *node { return []*node{nArr(), nDict(nil)}[i%2] }, false},
	{"string", func(i int) *node { return nStr([]byte(fmt.Sprintf("s(%d)\\", i)), fmt.Sprintf("s%d", i)) }, false},
	{"hexstring", func(i int) *node {
		n := nStr([]byte{byte(i), byte(i >> 8), 0xF0}, fmt.Sprintf("h%d", i))
		n.raw = []byte(fmt.Sprintf("<%02X %02xF>", byte(i), byte(i>>8)))
		return n
	}, false},
	{"name", func(i int) *node { return nName([]byte(fmt.Sprintf("N %d", i)), "") }, false},
	{"int", func(i int) *node { return nInt(fmt.Sprint(i)) }, false},
	{"real", func(i int) *node { return nReal(fmt.Sprintf("%d.%d", i, i)) }, false},
	{"keyword", func(i int) *node { return []*node{nNull(), nBool(true), nBool(false)}[i%3] }, false},
	{"ref", func(i int) *node { return nRef(int64(i+1), int64(i%3)) }, true},
	{"int-then-ref", func(i int) *node { return []*node{nInt(fmt.Sprint(i)), nRef(int64(i+1), 0)}[i%2] }, true},
}

func repSpace(e *harness.Env) {
	pols := []policy{{"min", "off", "LF", "lit", "raw"}, {"sp", "off", "LF", "lit", "raw"}, {"nl", "off", "CRLF", "lit", "raw"},
		{"min", "sep", "LF", "lit", "raw"}, {"sp", "sep", "CR", "lit", "raw"}, {"mix", "all", "CRLF", "lit", "raw"}}
	e.Note("rep_space", fmt.Sprintf("%d unit kinds x N in %v x forms {array, dict values, sequence of top-level objects | one operation each, one array operand} x %d policies", len(repUnits), repNs, len(pols)))
	for _, u := range repUnits {
		for _, n := range repNs {
			units := make([]*node, n)
			keys := make([][]byte, n)
			for i := range units {
				units[i] = u.mk(i)
				keys[i] = []byte(fmt.Sprintf("K%d", i))
			}
			arr := nArr(units...)
			arr.id = fmt.Sprintf("[%sx%d]", u.name, n)
			dct := nDict(keys, units...)
			dct.id = fmt.Sprintf("<%sx%d>", u.name, n)
			for _, p := range pols {
				if p.cmt == "all" && !u.ref {
					continue
				}
				base := fmt.Sprintf("space=rep unit=%s n=%d kwtop=n kwin=%s hasref=%s %s", u.name, n, b2s(u.name == "keyword"), b2s(u.ref), p.desc())
				if d := base + " form=array parser=core"; e.Own(d) {
					runCore(e, d, true, arr, followers["int"], p, "core:rep")
				}
				if d := base + " form=dict parser=core"; e.Own(d) {
					runCore(e, d, true, dct, followers["int"], p, "core:rep")
				}
				if d := base + " form=seq parser=core"; e.Own(d) {
					runCoreSeq(e, d, units, p)
				}
				if u.ref {
					continue
				}
				if d := base + " form=array parser=cs"; e.Own(d) {
					runCS(e, d, arr, followers["int"], p, "cs:rep")
				}
				if d := base + " form=dict parser=cs"; e.Own(d) {
					runCS(e, d, dct, followers["int"], p, "cs:rep")
				}
				if d := base + " form=seq parser=cs"; e.Own(d) {
					runCSSeq(e, d, units, p)
				}
			}
		}
	}
}

// runCoreSeq: one parser, N top-level objects one after the other, then io.EOF.
func runCoreSeq(e reporter, desc string, units []*node, p policy) {
	w := &writer{p: p}
	for _, u := range units {
		w.obj(u, 0)
	}
	data := w.render()
	files := map[string][]byte{"input.bin": data}
	e.Begin(desc)
	var failSig, failDet string
	sig, det := harness.Guard(func() {
		ps := core.NewParser(bytes.NewReader(data))
		for i, u := range units {
			o, err := ps.ParseObject()
			if err != nil {
				failSig, failDet = "core-error:"+errClass(err), fmt.Sprintf("object %d of %d: %v", i, len(units), err)
				return
			}
			if r := eq(u, o, fmt.Sprintf("$%d", i)); r != "" {
				failSig, failDet = "core-wrong-value", r
				return
			}
		}
		if o, err := ps.ParseObject(); err != io.EOF {
			failSig, failDet = "core-no-eof", fmt.Sprintf("after %d objects ParseObject returned %v, %v", len(units), o, err)
		}
	})
	if sig != "" {
		failSig, failDet = sig, det
	}
	if failSig != "" {
		e.Fail(desc, failSig, failDet+"\ninput (head): "+q(data), files)
		return
	}
	e.Pass(desc, true, "core:rep-seq")
}

// runCSSeq: N operations "/P <unit> BDC" in one content stream.
func runCSSeq(e reporter, desc string, units []*node, p policy) {
	w := &writer{p: p}
	want := make([]wantOp, len(units))
	tag := nName([]byte("P"), "")
	for i, u := range units {
		w.obj(tag, 0)
		w.obj(u, 0)
		w.reg("BDC", 0)
		want[i] = wantOp{"BDC", []*node{tag, u}}
	}
	data := w.render()
	files := map[string][]byte{"content.bin": data}
	e.Begin(desc)
	var got []contentstream.Operation
	var err error
	sig, det := harness.Guard(func() {
		csReset()
		got, err = contentstream.NewParser(data).Parse()
	})
	if sig != "" {
		e.Fail(desc, sig, det+"\ninput (head): "+q(data), files)
		return
	}
	if err != nil {
		e.Fail(desc, "cs-error:"+errClass(err), fmt.Sprintf("Parse: %v\ninput (head): %s", err, q(data)), files)
		return
	}
	if sg, d := cmpOps(want, got); sg != "" {
		e.Fail(desc, sg, d+"\ninput (head): "+q(data), files)
		return
	}
	e.Pass(desc, true, "cs:rep-seq")
}

// ---- space "runs" -------------------------------------------------------------------------------------------------

type construct struct {
	name string
	t    *node
	mode string // obj: ParseObject + content stream; ind: "1 0 obj <t> endobj" through ParseIndirectObject; stream: a stream object
}

func runConstructs() []construct {
	k, l := kK, kL
	return []construct{
		{"ref", nRef(3, 0), "obj"},
		{"int-ref", nArr(nInt("5"), nRef(3, 0), nInt("6")), "obj"},
		{"two-refs", nArr(nRef(1, 0), nRef(2, 0)), "obj"},
		{"dict-ref", nDict([][]byte{k, l}, nRef(3, 0), nRef(4, 1)), "obj"},
		{"dict-kv", nDict([][]byte{k, l, []byte("M")}, nStr([]byte("v"), ""), nName([]byte("N"), ""), nInt("7")), "obj"},
		{"array-elems", nArr(nInt("1"), nName([]byte("N"), ""), nStr([]byte("s"), ""), nBool(true), nReal("-.5"), nNull()), "obj"},
		{"nested", nDict([][]byte{k}, nArr(nDict([][]byte{l}, nArr(nInt("1"), nInt("2"))), nInt("3"))), "obj"},
		{"hex-in-dict", nDict([][]byte{k}, func() *node { n := nStr([]byte{0x4A, 0xF0}, "hx"); n.raw = []byte("<4AF>"); return n }()), "obj"},
		{"ind-int", nInt("42"), "ind"},
		{"ind-ref", nRef(3, 0), "ind"},
		{"ind-dict", nDict([][]byte{k, l}, nRef(3, 0), nArr(nInt("1"), nRef(4, 0))), "ind"},
		{"ind-stream", nDict([][]byte{[]byte("Length"), k}, nInt("5"), nRef(3, 0)), "stream"},
	}
}

var streamPayload = []byte("a%b\rc")

func runsSpace(e *harness.Env) {
	e.Note("runs_space", "comment runs of length 0..3 in each single token gap and in all gaps at once x EOL{LF,CR,CRLF} x ws{min,sp}; constructs: "+fmt.Sprint(len(runConstructs())))
	for _, c := range runConstructs() {
		// token count decides the number of gaps
		w0 := &writer{p: policy{"sp", "off", "LF", "lit", "raw"}}
		buildConstruct(w0, c)
		gaps := len(w0.toks) + 1
		f := treeStats(c.t)
		for g := -1; g < gaps; g++ { // -1: every gap
			for r := 0; r <= 3; r++ {
				if r == 0 && g != -1 {
					continue // run length 0 is the same bytes for every gap
				}
				for _, eol := range eolOpts {
					if r == 0 && eol != "LF" {
						continue
					}
					for _, ws := range []string{"min", "sp"} {
						p := policy{ws, "off", eol, "lit", "raw"}
						gs := fmt.Sprint(g)
						if g < 0 {
							gs = "all"
						}
						base := fmt.Sprintf("space=runs c=%s gap=%s run=%d hasref=%s ws=%s eol=%s", c.name, gs, r, b2s(f.ref), ws, eol)
						mk := func() *writer {
							w := &writer{p: p, runs: map[int]int{}}
							if g < 0 {
								w.runAll = r
							} else {
								w.runs[g] = r
							}
							return w
						}
						switch c.mode {
						case "obj":
							if d := base + " parser=core"; e.Own(d) {
								runRunsCore(e, d, c, mk())
							}
							if !f.ref {
								if d := base + " parser=cs"; e.Own(d) {
									runRunsCS(e, d, c, mk())
								}
							}
						default:
							if d := base + " parser=coreind"; e.Own(d) {
								runRunsInd(e, d, c, mk())
							}
						}
					}
				}
			}
		}
	}
}

func buildConstruct(w *writer, c construct) {
	switch c.mode {
	case "obj":
		w.obj(c.t, 0)
	case "ind", "stream":
		w.reg("1", 0)
		w.reg("0", 0)
		w.reg("obj", 0)
		w.obj(c.t, 0)
		if c.mode == "stream" {
			// "stream" EOL data EOL "endstream" is one unit: nothing but the end-of-line marker may follow the keyword
			b := append([]byte("stream\r\n"), streamPayload...)
			b = append(b, "\nendstream"...)
			w.toks = append(w.toks, tok{b: b, sReg: true, eReg: true})
		}
		w.reg("endobj", 0)
	}
}

func runRunsCore(e reporter, desc string, c construct, w *writer) {
	buildConstruct(w, c)
	w.obj(followers["int"], 0)
	data := w.render()
	files := map[string][]byte{"input.bin": data}
	e.Begin(desc)
	var o, o2 core.Object
	var err, err2, err3 error
	sig, det := harness.Guard(func() {
		ps := core.NewParser(bytes.NewReader(data))
		if o, err = ps.ParseObject(); err == nil {
			if o2, err2 = ps.ParseObject(); err2 == nil {
				_, err3 = ps.ParseObject()
			}
		}
	})
	switch {
	case sig != "":
		e.Fail(desc, sig, det+"\ninput: "+q(data), files)
	case err != nil:
		e.Fail(desc, "core-error:"+errClass(err), fmt.Sprintf("ParseObject: %v\ninput: %s", err, q(data)), files)
	case eq(c.t, o, "$") != "":
		e.Fail(desc, "core-wrong-value", eq(c.t, o, "$")+"\ninput: "+q(data), files)
	case err2 != nil || eq(followers["int"], o2, "$next") != "":
		e.Fail(desc, "core-follower-lost", fmt.Sprintf("second ParseObject: %v %v\ninput: %s", o2, err2, q(data)), files)
	case err3 != io.EOF:
		e.Fail(desc, "core-no-eof", fmt.Sprintf("third ParseObject: %v, want io.EOF\ninput: %s", err3, q(data)), files)
	default:
		e.Pass(desc, true, "core:runs")
	}
}

func runRunsCS(e reporter, desc string, c construct, w *writer) {
	tag := nName([]byte("P"), "")
	w.obj(tag, 0)
	buildConstruct(w, c)
	w.reg("BDC", 0)
	w.obj(nStr([]byte("a"), ""), 0)
	w.reg("Tj", 0)
	w.reg("EMC", 0)
	data := w.render()
	files := map[string][]byte{"content.bin": data}
	want := []wantOp{{"BDC", []*node{tag, c.t}}, {"Tj", []*node{nStr([]byte("a"), "")}}, {"EMC", nil}}
	e.Begin(desc)
	var got []contentstream.Operation
	var err error
	sig, det := harness.Guard(func() {
		csReset()
		got, err = contentstream.NewParser(data).Parse()
	})
	if sig != "" {
		e.Fail(desc, sig, det+"\ninput: "+q(data), files)
		return
	}
	if err != nil {
		e.Fail(desc, "cs-error:"+errClass(err), fmt.Sprintf("Parse: %v\ninput: %s", err, q(data)), files)
		return
	}
	if sg, d := cmpOps(want, got); sg != "" {
		e.Fail(desc, sg, d+"\ninput: "+q(data), files)
		return
	}
	e.Pass(desc, true, "cs:runs")
}

type nullResolver struct{}

func (nullResolver) ResolveReference(core.IndirectRef) (core.Object, error) {
	return nil, fmt.Errorf("no resolver in this check")
}

func runRunsInd(e reporter, desc string, c construct, w *writer) {
	buildConstruct(w, c)
	data := w.render()
	files := map[string][]byte{"input.bin": data}
	e.Begin(desc)
	var io1 *core.IndirectObject
	var err error
	sig, det := harness.Guard(func() {
		io1, err = core.NewParser(bytes.NewReader(data)).ParseIndirectObject()
	})
	if sig != "" {
		e.Fail(desc, sig, det+"\ninput: "+q(data), files)
		return
	}
	if err != nil {
		e.Fail(desc, "coreind-error:"+errClass(err), fmt.Sprintf("ParseIndirectObject: %v\ninput: %s", err, q(data)), files)
		return
	}
	if io1 == nil || io1.Ref.Number != 1 || io1.Ref.Generation != 0 {
		e.Fail(desc, "coreind-wrong-header", fmt.Sprintf("got %+v\ninput: %s", io1, q(data)), files)
		return
	}
	obj := io1.Object
	if c.mode == "stream" {
		st, ok := obj.(*core.Stream)
		if !ok {
			e.Fail(desc, "coreind-wrong-value", fmt.Sprintf("want a stream, got %T\ninput: %s", obj, q(data)), files)
			return
		}
		if !bytes.Equal(st.Data, streamPayload) {
			e.Fail(desc, "coreind-wrong-value", fmt.Sprintf("stream data want %q, got %q\ninput: %s", streamPayload, st.Data, q(data)), files)
			return
		}
		obj = st.Dict
	}
	if r := eq(c.t, obj, "$"); r != "" {
		e.Fail(desc, "coreind-wrong-value", r+"\ninput: "+q(data), files)
		return
	}
	e.Pass(desc, true, "core:runs-indirect")
}
