package main

// Reference side of C06: the object-tree model (independent of tabula's core types), the
// leaf alphabets and the structural comparison of a model tree with a parsed core.Object.

import (
	"encoding/hex"
	"fmt"
	"math"
	"math/big"
	"strings"

	"github.com/tsawler/tabula/core"
)

type kind uint8

const (
	kNull kind = iota
	kBool
	kInt
	kReal
	kStr
	kName
	kRef
	kArr
	kDict
)

type node struct {
	k     kind
	b     bool
	num   string  // the digits as written (ints and reals)
	i     int64   // value of an int
	r     float64 // value of a real
	s     []byte  // string / name bytes
	n, g  int64   // reference
	kids  []*node
	keys  [][]byte // dict keys (kids are the values, in writing order)
	id    string   // compact, space-free label used in descriptors
	raw   []byte   // string leaf with a fixed spelling (bypasses the string policy)
	exact bool     // real leaf that must read back bit for bit (spelling identifies one float64)
}

func nNull() *node { return &node{k: kNull, id: "null"} }
func nBool(b bool) *node {
	if b {
		return &node{k: kBool, b: true, id: "true"}
	}
	return &node{k: kBool, id: "false"}
}

// decimal parses sign/digits/fraction by hand (no strconv: the reference must not share code with tabula).
func decimal(text string) (neg bool, ip, fp string, hasDot bool) {
	t := text
	if strings.HasPrefix(t, "-") {
		neg, t = true, t[1:]
	} else if strings.HasPrefix(t, "+") {
		t = t[1:]
	}
	if i := strings.IndexByte(t, '.'); i >= 0 {
		return neg, t[:i], t[i+1:], true
	}
	return neg, t, "", false
}

func nInt(text string) *node {
	neg, ip, _, dot := decimal(text)
	if dot || ip == "" {
		panic("bad int leaf " + text)
	}
	v := new(big.Int)
	for _, c := range ip {
		v.Mul(v, big.NewInt(10))
		v.Add(v, big.NewInt(int64(c-'0')))
	}
	if neg {
		v.Neg(v)
	}
	if !v.IsInt64() {
		panic("int leaf out of range " + text)
	}
	return &node{k: kInt, num: text, i: v.Int64(), id: "i" + text}
}

func nReal(text string) *node {
	neg, ip, fp, dot := decimal(text)
	if !dot || ip+fp == "" {
		panic("bad real leaf " + text)
	}
	num := new(big.Int)
	for _, c := range ip + fp {
		num.Mul(num, big.NewInt(10))
		num.Add(num, big.NewInt(int64(c-'0')))
	}
	den := new(big.Int).Exp(big.NewInt(10), big.NewInt(int64(len(fp))), nil)
	f, _ := new(big.Rat).SetFrac(num, den).Float64()
	if neg {
		f = -f
	}
	id := "r" + text
	if len(id) > 24 {
		id = fmt.Sprintf("r%s..%d", text[:12], len(text))
	}
	return &node{k: kReal, num: text, r: f, id: id}
}

func bytesID(prefix string, b []byte, label string) string {
	if label != "" {
		return prefix + ":" + label
	}
	if len(b) == 0 {
		return prefix + "-"
	}
	if len(b) > 16 {
		return fmt.Sprintf("%slen%d.%x", prefix, len(b), b[:4])
	}
	return prefix + hex.EncodeToString(b)
}

func nStr(b []byte, label string) *node  { return &node{k: kStr, s: b, id: bytesID("s", b, label)} }
func nName(b []byte, label string) *node { return &node{k: kName, s: b, id: bytesID("n", b, label)} }
func nRef(n, g int64) *node              { return &node{k: kRef, n: n, g: g, id: fmt.Sprintf("R%d.%d", n, g)} }

func nArr(kids ...*node) *node {
	ids := make([]string, len(kids))
	for i, k := range kids {
		ids[i] = k.id
	}
	return &node{k: kArr, kids: kids, id: "[" + strings.Join(ids, ",") + "]"}
}

func nDict(keys [][]byte, kids ...*node) *node {
	ids := make([]string, len(kids))
	for i, k := range kids {
		ids[i] = bytesID("", keys[i], "") + "=" + k.id
	}
	return &node{k: kDict, keys: keys, kids: kids, id: "<" + strings.Join(ids, ",") + ">"}
}

// walk visits every node of the tree (keys of dicts are reported through fkey).
func (n *node) walk(f func(*node), fkey func([]byte)) {
	f(n)
	for i, c := range n.kids {
		if n.k == kDict && fkey != nil {
			fkey(n.keys[i])
		}
		c.walk(f, fkey)
	}
}

func (n *node) depth() int {
	d := 0
	for _, c := range n.kids {
		if x := c.depth(); x > d {
			d = x
		}
	}
	return d + 1
}

// realClose is the "float tolerance" of the statement: single-precision relative accuracy.
func realClose(want, got float64) bool {
	if math.IsNaN(got) || math.IsInf(got, 0) {
		return false
	}
	d := math.Abs(want - got)
	return d <= 1e-6*math.Abs(want)
}

// eq compares the written tree with the parsed object; "" means equal, otherwise a path + reason.
func eq(n *node, o core.Object, path string) string {
	if o == nil {
		return path + ": got nil object, want " + n.id
	}
	bad := func() string { return fmt.Sprintf("%s: want %s, got %T %q", path, n.id, o, clip(o.String())) }
	switch n.k {
	case kNull:
		if _, ok := o.(core.Null); !ok {
			return bad()
		}
	case kBool:
		if v, ok := o.(core.Bool); !ok || bool(v) != n.b {
			return bad()
		}
	case kInt:
		if v, ok := o.(core.Int); !ok || int64(v) != n.i {
			return bad()
		}
	case kReal:
		if v, ok := o.(core.Real); !ok || !realClose(n.r, float64(v)) || (n.exact && float64(v) != n.r) {
			return bad()
		}
	case kStr:
		if v, ok := o.(core.String); !ok || string(v) != string(n.s) {
			if ok {
				return fmt.Sprintf("%s: string want % x, got % x", path, clipb(n.s), clipb([]byte(v)))
			}
			return bad()
		}
	case kName:
		if v, ok := o.(core.Name); !ok || string(v) != string(n.s) {
			if ok {
				return fmt.Sprintf("%s: name want % x, got % x", path, clipb(n.s), clipb([]byte(v)))
			}
			return bad()
		}
	case kRef:
		if v, ok := o.(core.IndirectRef); !ok || int64(v.Number) != n.n || int64(v.Generation) != n.g {
			return bad()
		}
	case kArr:
		v, ok := o.(core.Array)
		if !ok {
			return bad()
		}
		if len(v) != len(n.kids) {
			return fmt.Sprintf("%s: array length want %d, got %d (%s)", path, len(n.kids), len(v), clip(v.String()))
		}
		for i, c := range n.kids {
			if r := eq(c, v[i], fmt.Sprintf("%s[%d]", path, i)); r != "" {
				return r
			}
		}
	case kDict:
		v, ok := o.(core.Dict)
		if !ok {
			return bad()
		}
		if len(v) != len(n.kids) {
			return fmt.Sprintf("%s: dict size want %d, got %d (%s)", path, len(n.kids), len(v), clip(v.String()))
		}
		for i, c := range n.kids {
			val, ok := v[string(n.keys[i])]
			if !ok {
				return fmt.Sprintf("%s: key % x missing (%s)", path, n.keys[i], clip(v.String()))
			}
			if r := eq(c, val, fmt.Sprintf("%s/%x", path, n.keys[i])); r != "" {
				return r
			}
		}
	}
	return ""
}

// sameObj is structural equality of two parsed objects (cross-parser comparison; everything exact).
func sameObj(a, b core.Object) bool {
	switch x := a.(type) {
	case core.Null:
		_, ok := b.(core.Null)
		return ok
	case core.Bool:
		y, ok := b.(core.Bool)
		return ok && x == y
	case core.Int:
		y, ok := b.(core.Int)
		return ok && x == y
	case core.Real:
		y, ok := b.(core.Real)
		return ok && x == y // both read the same digits: one correctly rounded value
	case core.String:
		y, ok := b.(core.String)
		return ok && x == y
	case core.Name:
		y, ok := b.(core.Name)
		return ok && x == y
	case core.IndirectRef:
		y, ok := b.(core.IndirectRef)
		return ok && x == y
	case core.Array:
		y, ok := b.(core.Array)
		if !ok || len(x) != len(y) {
			return false
		}
		for i := range x {
			if !sameObj(x[i], y[i]) {
				return false
			}
		}
		return true
	case core.Dict:
		y, ok := b.(core.Dict)
		if !ok || len(x) != len(y) {
			return false
		}
		for k, v := range x {
			w, ok := y[k]
			if !ok || !sameObj(v, w) {
				return false
			}
		}
		return true
	}
	return false
}

func clip(s string) string {
	if len(s) > 120 {
		return s[:120] + "…"
	}
	return s
}

func clipb(b []byte) []byte {
	if len(b) > 48 {
		return b[:48]
	}
	return b
}

// ---- leaf alphabets ------------------------------------------------------------------------------

func seq(from, to int) []byte {
	var b []byte
	for i := from; i <= to; i++ {
		b = append(b, byte(i))
	}
	return b
}

var intTexts = []string{"0", "-1", "+17", "17", "007", "-0", "2147483647", "-2147483648", "4294967296",
	"9223372036854775807", "-9223372036854775808"}

// reals: no exponent form exists in PDF. The two long ones are the largest / smallest-normal single precision values.
var realTexts = []string{"0.5", "-.5", ".5", "+.5", "4.", "-4.", "0.0", "-0.001", "123456.789", "00.50", "-32768.0",
	"0.000001", "1000000.0", "99999999999999999999.5",
	"340282346638528859811704183484516925440.0",
	"0.000000000000000000000000000000000000011754943508222875"}

type bl struct {
	b     string
	label string
}

var strLeaves = []bl{
	{"", ""}, {"a", ""}, {"(", ""}, {")", ""}, {"()", ""}, {")(", ""}, {"(()", ""}, {"a(b)c", ""}, {"((a)(b))", ""},
	{"\\", ""}, {"(\\)", ""}, {"\\(", ""}, {")\\", ""}, {"\\n", ""},
	{"\r", ""}, {"\n", ""}, {"\r\n", ""}, {"\n\r", ""}, {"a\nb", ""}, {"\n\n", ""},
	{"\x00", ""}, {"\x80", ""}, {"\xff", ""}, {"\\053", ""}, {"+", ""}, {"\x001", ""}, {"\x058", ""}, {"\x07" + "7", ""},
	{"\t\b\f", ""}, {"%", ""}, {"a%b\nc", ""}, {"<>", ""}, {"[/]", ""}, {"a b", ""}, {"\x7f", ""},
	{"\xfe\xff\x00A", ""}, {"\x10", ""}, {"\xa0\x50", ""}, {" ", ""}, {"Hello, World", "hello"},
	{string(seq(0, 255)), "all256"},
}

var nameLeaves = []bl{
	{"A", ""}, {"", ""}, {"A B", ""}, {"#", ""}, {"A#", ""}, {"#41", ""}, {"(", ""}, {")", ""}, {"<", ""}, {">", ""},
	{"[", ""}, {"]", ""}, {"{", ""}, {"}", ""}, {"/", ""}, {"%", ""}, {"\x80", ""}, {"\xff", ""}, {"\t", ""}, {"\n", ""},
	{"\r", ""}, {"\x0c", ""}, {"\x01", ""}, {"\x7f", ""}, {"Name1", ""}, {"A.B-C_D", ""}, {"1", ""}, {"true", ""}, {"R", ""},
	{"F1+Sub", ""}, {"\xe4\xf6", ""}, {string(seq(1, 255)), "all255"},
}

var refLeaves = [][2]int64{{1, 0}, {17, 5}, {2147483647, 65535}, {0, 65535}, {12, 0}}

func allLeaves() []*node {
	ls := []*node{nNull(), nBool(true), nBool(false)}
	for _, t := range intTexts {
		ls = append(ls, nInt(t))
	}
	for _, t := range realTexts {
		ls = append(ls, nReal(t))
	}
	for _, s := range strLeaves {
		ls = append(ls, nStr([]byte(s.b), s.label))
	}
	for _, s := range nameLeaves {
		ls = append(ls, nName([]byte(s.b), s.label))
	}
	for _, r := range refLeaves {
		ls = append(ls, nRef(r[0], r[1]))
	}
	return ls
}

// treeLeaves is the reduced alphabet used to build whole trees (one or two representatives per type,
// chosen so that every spelling policy has something to act on).
func treeLeaves(small bool) []*node {
	if small {
		return []*node{nNull(), nInt("17"), nReal("-.5"), nStr([]byte("a(\\)\r\n\x80"), ""), nName([]byte("A #/"), ""), nRef(1, 0)}
	}
	return []*node{nNull(), nBool(true), nBool(false), nInt("17"), nInt("-1"), nReal("-.5"), nReal("4."),
		nStr([]byte("a(\\)\r\n\x80"), ""), nStr([]byte(")\x00"+"1\xf0"), ""), nStr(nil, ""),
		nName([]byte("A #/"), ""), nName([]byte("B"), ""), nRef(1, 0)}
}

// enumTrees returns every tree of depth <= d whose containers have at most 2 members.
func enumTrees(leaves []*node, d int) []*node {
	if d <= 1 {
		return leaves
	}
	sub := enumTrees(leaves, d-1)
	out := append([]*node{}, leaves...)
	k1, k2 := []byte("K"), []byte("P Q")
	out = append(out, nArr(), nDict(nil))
	for _, a := range sub {
		out = append(out, nArr(a), nDict([][]byte{k1}, a))
	}
	for _, a := range sub {
		for _, b := range sub {
			out = append(out, nArr(a, b), nDict([][]byte{k1, k2}, a, b))
		}
	}
	// containers of depth-(d-1) members also contain the leaves again; drop what enumTrees(d-1) already had
	// is not needed: arrays/dicts built here from leaves are rebuilt, identical ids are removed below.
	seen := map[string]bool{}
	uniq := out[:0]
	for _, t := range out {
		if !seen[t.id] {
			seen[t.id] = true
			uniq = append(uniq, t)
		}
	}
	return uniq
}
