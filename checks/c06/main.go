// C06 — PDF object syntax has one meaning for both parsers.
//
// An independent serializer (writer.go) turns an object tree / operator program plus a spelling policy
// into bytes; core.NewParser(..).ParseObject() and contentstream.NewParser(..).Parse() must give the
// tree / program back. Every case is one (tree-or-program, policy, parser) triple; the enumeration is a
// plain nested product (spaces leaf, tree, prog, quirk) or a deviation-bounded DFS (space deep).
package main

import (
	"bytes"
	"fmt"
	"io"
	"os"
	"regexp"
	"strings"
	"syscall"

	"github.com/tsawler/tabula/contentstream"
	"github.com/tsawler/tabula/core"
	"verif/internal/harness"
)

func main() { harness.Main("C06", "exploration", run) }

func run(e *harness.Env) {
	// memory backstop: a runaway parser loop must kill this worker (attributed to the case), not the machine
	syscall.Setrlimit(syscall.RLIMIT_AS, &syscall.Rlimit{Cur: 6 << 30, Max: 6 << 30})
	e.Track = true
	e.Rule = "case = (object tree or operator program, spelling policy, parser in {core.Parser.ParseObject, contentstream.Parser.Parse}); references only with the document parser. " +
		"Spaces (each a full nested product unless said otherwise): leaf = every leaf of the full alphabet (3 keywords, 11 ints incl. the 2^31 and 2^63 limits and signed/zero-padded forms, " +
		"16 exponent-free reals incl. the single-precision extremes, plus the long-number list (coverage key long_numbers: boundary integers at 2^31/2^53/10^18/2^63, digit strings around 2^53 at 5 point positions, " +
		"17th-digit rounding cases, and shortest / 18- / 19-digit spellings of float64 values from a fixed LCG table, which must read back bit for bit; quick: in 5 of the contexts), 41 byte strings, 32 names, 5 references) x " + fmt.Sprint(len(contexts)) + " contexts (top level, array/dict positions, nested, dict key) x follower {none,int,name,string} " +
		"(quick: followers only at top level) x policy; tree = every tree of depth<=2 with <=2 members per container over 13 leaves x follower {none,int} x policy, thorough adds every tree of depth 3 over 6 leaves x policy; " +
		"deep = depth-4 skeleton with 3 leaf slots over the full alphabet, all choice vectors with <=2 (quick) / <=3 (thorough) deviations from the plain case; " +
		"prog = every operator program of length<=2 over the 70 operators of Annex A without BI/ID/EI x 3 operand variants x policy, thorough adds every program of length 3 x 1 rotating variant x 3 whitespace/comment policies x {lit,hexodd}; " +
		"hex = hexadecimal-string spellings enumerated directly (coverage key hex_space: 0..5 digits x white space at one gap / two gaps / every gap incl. inside a pair and before '>', all six white bytes and all pairs of two) x contexts (quick 5, thorough 13) x whitespace policy, both parsers; " +
		"rep = 14 unit kinds (dict, dict in array, dict in dict, arrays, strings, hex strings, names, numbers, keywords, references) repeated N in {257,300,1000} times (crossing the parsers' 256 nesting limit and the 4096-byte buffer) as one array, as the values of one dict and as a sequence of top-level objects / operations in one stream x 6 policies incl. a comment after every token; " +
		"runs = 12 multi-token constructs (n g R, n g obj .. endobj via ParseIndirectObject, dict key/value, array elements, stream keyword) x runs of 1..3 consecutive comments in each single token gap and in every gap at once x EOL x ws{min,sp}; " +
		"stream = stream objects through ParseIndirectObject with direct /Length: first x last data byte over {LF,CR,CRLF,SP,NUL,%,e,ordinary} x middle x EOL after stream {LF,CRLF} x before endstream {none,LF,CR,CRLF} x ws x dict shape, data must be exactly the /Length bytes; " +
		"big = 6 long structures (1500-member array over all leaves, 400-key dict, 9000-byte string + 119-byte name, 3000 one-digit ints ending in references, nesting depth 40) x policy; " +
		fmt.Sprintf("quirk = %d mostly illegal operand spellings x 3 tails, differential only (both parsers accept => equal value). ", len(quirks)) +
		"Policy = whitespace{sp,min,nl,mix of all six white bytes} x comments{off,sep,all=also inside n g R} x EOL{LF,CR,CRLF} x " +
		"strings{lit,esc,oct3,octs,hexU,hexL,hexodd,hexws,cont,raweol} x names{raw,esc,escl}; a dimension that cannot change the bytes of a case is pinned to its default; comments are combined with strings{lit,hexU} x names{raw,esc} only. " +
		"distinct = distinct descriptors; non-trivial = anything but a leaf at top level in the default policy"
	e.Assumptions = []string{
		"the check's serializer emits only syntax that ISO 32000-1 7.2/7.3 declares legal, with the meaning the check expects",
		"math/big decimal conversion is correct (expected values of number leaves)",
		"short hand-written reals are compared with relative tolerance 1e-6 (single precision); long-number reals, the cross-parser comparison and everything else exactly",
	}
	only := os.Getenv("C06_ONLY") // development switch: run a single space
	for _, sp := range []struct {
		name string
		f    func(*harness.Env)
	}{{"leaf", leafSpace}, {"tree", treeSpace}, {"prog", progSpace}, {"hex", hexSpace}, {"rep", repSpace}, {"runs", runsSpace}, {"stream", streamSpace}, {"deep", deepSpace}, {"big", bigSpace}, {"quirk", quirkSpace}} {
		if only == "" || only == sp.name {
			sp.f(e)
		}
	}
}

// ---- running one case ------------------------------------------------------------------------------

var reNum = regexp.MustCompile(`[0-9]+`)

// errClass turns an error text into a short stable class (no positions / values).
func errClass(err error) string {
	s := err.Error()
	// keep the innermost error of a wrapped chain ("error parsing array element: ...")
	for {
		i := strings.Index(s, ": ")
		if i < 0 || !(strings.HasPrefix(s, "error parsing ") || strings.HasPrefix(s, "at position ")) {
			break
		}
		s = s[i+2:]
	}
	if i := strings.LastIndex(s, ": "); i >= 0 && i+2 < len(s) && len(s)-i < 8 {
		s = s[:i] // drop a trailing ": <char>"
	}
	if i := strings.Index(s, ", got "); i >= 0 {
		s = s[:i] // what was found instead is varying data
	}
	s = reNum.ReplaceAllString(s, "N")
	s = strings.NewReplacer("at position N: ", "", " at position N", "", "'", "", "\"", "").Replace(s)
	if len(s) > 60 {
		s = s[:60]
	}
	return strings.ReplaceAll(strings.TrimSpace(s), " ", "-")
}

func treeStats(t *node) feats {
	var f feats
	t.walk(func(n *node) {
		switch n.k {
		case kNull, kBool:
			if n == t {
				f.kwTop = true
			} else {
				f.kwIn = true
			}
		case kStr:
			f.str = true
			if bytes.IndexByte(n.s, '\n') >= 0 {
				f.lf = true
			}
			if len(n.s) > 0 && n.s[len(n.s)-1]&15 == 0 {
				f.oddable = true
			}
		case kName:
			f.name = true
		case kRef:
			f.ref = true
		case kDict:
			if len(n.kids) > 0 {
				f.name = true
			}
		}
	}, nil)
	return f
}

// relevant reports whether policy p is the canonical representative for a case with features f
// (dimensions that cannot influence the bytes are pinned to their default value).
func relevant(p policy, f feats) bool {
	if !f.str && p.str != "lit" {
		return false
	}
	if !f.name && p.name != "raw" {
		return false
	}
	if p.str == "hexodd" && !f.oddable {
		return false
	}
	if p.str == "raweol" && (!f.lf || p.eol == "LF") {
		return false
	}
	if p.cmt == "all" && !f.ref {
		return false
	}
	// comments sit between tokens: they meet a string / name only at its delimiters, so they are combined
	// with one literal and one hex spelling and with raw / escaped names, not with every internal spelling
	if p.cmt != "off" && ((p.str != "lit" && p.str != "hexU") || p.name == "escl") {
		return false
	}
	if p.eol != "LF" && !(p.ws == "nl" || p.cmt != "off" || (f.str && (p.str == "cont" || p.str == "raweol"))) {
		return false
	}
	return true
}

func allPolicies(f feats, wss, cmts, eols, strs, names []string) []policy {
	var out []policy
	for _, ws := range wss {
		for _, cm := range cmts {
			for _, eol := range eols {
				for _, st := range strs {
					for _, nm := range names {
						p := policy{ws, cm, eol, st, nm}
						if relevant(p, f) {
							out = append(out, p)
						}
					}
				}
			}
		}
	}
	return out
}

func b2s(b bool) string {
	if b {
		return "y"
	}
	return "n"
}

func featDesc(f feats) string {
	return "kwtop=" + b2s(f.kwTop) + " kwin=" + b2s(f.kwIn) + " hasref=" + b2s(f.ref)
}

var followers = map[string]*node{"int": nInt("7"), "name": nName([]byte("E"), ""), "str": nStr([]byte("z"), "")}

func serialize(t *node, follow *node, p policy, op string) []byte {
	w := &writer{p: p}
	w.obj(t, 0)
	if follow != nil {
		w.obj(follow, 0)
	}
	if op != "" {
		w.reg(op, 0)
	}
	return w.render()
}

// runCore: ParseObject must return the tree, then the follower (if any), then io.EOF.
func runCore(e reporter, desc string, nontrivial bool, t, follow *node, p policy, outcome string) {
	data := serialize(t, follow, p, "")
	files := map[string][]byte{"input.bin": data}
	e.Begin(desc)
	var objs []core.Object
	var errs []error
	sig, det := harness.Guard(func() {
		ps := core.NewParser(bytes.NewReader(data))
		for i := 0; i < 3; i++ {
			o, err := ps.ParseObject()
			objs, errs = append(objs, o), append(errs, err)
			if err != nil {
				break
			}
		}
	})
	if sig != "" {
		e.Fail(desc, sig, det+"\ninput: "+q(data), files)
		return
	}
	if errs[0] != nil {
		e.Fail(desc, "core-error:"+errClass(errs[0]), fmt.Sprintf("ParseObject: %v\ninput: %s", errs[0], q(data)), files)
		return
	}
	if r := eq(t, objs[0], "$"); r != "" {
		e.Fail(desc, "core-wrong-value", r+"\ninput: "+q(data), files)
		return
	}
	k := 1
	if follow != nil {
		if len(errs) < 2 || errs[1] != nil {
			e.Fail(desc, "core-follower-lost", fmt.Sprintf("second ParseObject: %v\ninput: %s", errs[len(errs)-1], q(data)), files)
			return
		}
		if r := eq(follow, objs[1], "$next"); r != "" {
			e.Fail(desc, "core-follower-wrong", r+"\ninput: "+q(data), files)
			return
		}
		k = 2
	}
	if len(errs) <= k || errs[k] != io.EOF {
		var got interface{} = errs[len(errs)-1]
		if len(errs) > k && errs[k] == nil {
			got = objs[k]
		}
		e.Fail(desc, "core-no-eof", fmt.Sprintf("after the last object ParseObject returned %v, want io.EOF\ninput: %s", got, q(data)), files)
		return
	}
	e.Pass(desc, nontrivial, outcome)
}

type wantOp struct {
	op       string
	operands []*node
}

func csReset() {
	// contentstream keeps its operand stack in a package-level variable (property C03); an operator clears it.
	contentstream.NewParser([]byte("n")).Parse()
}

func cmpOps(want []wantOp, got []contentstream.Operation) (sig, detail string) {
	if len(got) != len(want) {
		return "cs-grouping", fmt.Sprintf("want %d operations, got %d: %s", len(want), len(got), opsString(got))
	}
	for i, w := range want {
		g := got[i]
		if g.Operator != w.op {
			return "cs-grouping", fmt.Sprintf("operation %d: want operator %q, got %q: %s", i, w.op, g.Operator, opsString(got))
		}
		if len(g.Operands) != len(w.operands) {
			return "cs-grouping", fmt.Sprintf("operation %d (%s): want %d operands, got %d: %s", i, w.op, len(w.operands), len(g.Operands), opsString(got))
		}
		for j, o := range w.operands {
			if r := eq(o, g.Operands[j], fmt.Sprintf("op%d(%s).%d", i, w.op, j)); r != "" {
				return "cs-wrong-value", r
			}
		}
	}
	return "", ""
}

func opsString(ops []contentstream.Operation) string {
	var b strings.Builder
	for i, o := range ops {
		if i > 0 {
			b.WriteString(" | ")
		}
		for _, x := range o.Operands {
			if x == nil {
				b.WriteString("<nil> ")
				continue
			}
			fmt.Fprintf(&b, "%T(%s) ", x, clip(x.String()))
		}
		b.WriteString(o.Operator)
	}
	return clip(b.String()) + clip("")
}

// runCS: "<tree> [follower] DP" must parse into one operation with those operands; where the document
// parser accepts the same operand bytes the two values must also agree.
func runCS(e reporter, desc string, t, follow *node, p policy, outcome string) {
	data := serialize(t, follow, p, "DP")
	files := map[string][]byte{"content.bin": data}
	want := wantOp{op: "DP", operands: []*node{t}}
	if follow != nil {
		want.operands = append(want.operands, follow)
	}
	e.Begin(desc)
	var ops []contentstream.Operation
	var err error
	sig, det := harness.Guard(func() {
		csReset()
		ops, err = contentstream.NewParser(data).Parse()
	})
	if sig != "" {
		e.Fail(desc, sig, det+"\ninput: "+q(data), files)
		return
	}
	if err != nil {
		e.Fail(desc, "cs-error:"+errClass(err), fmt.Sprintf("Parse: %v\ninput: %s", err, q(data)), files)
		return
	}
	if sg, d := cmpOps([]wantOp{want}, ops); sg != "" {
		e.Fail(desc, sg, d+"\ninput: "+q(data), files)
		return
	}
	// cross-parser: the document parser on the operand bytes alone
	var co core.Object
	var cerr error
	odata := serialize(t, nil, p, "")
	harness.Guard(func() { co, cerr = core.NewParser(bytes.NewReader(odata)).ParseObject() })
	if cerr == nil && co != nil && !sameObj(co, ops[0].Operands[0]) {
		e.Fail(desc, "parsers-disagree", fmt.Sprintf("core: %T %s\ncontentstream: %T %s\ninput: %s", co, clip(co.String()), ops[0].Operands[0], clip(ops[0].Operands[0].String()), q(data)), files)
		return
	}
	e.Pass(desc, true, outcome)
}

func q(b []byte) string {
	s := fmt.Sprintf("%q", b)
	if len(s) > 700 {
		s = s[:700] + "…"
	}
	return s
}

// ---- space "leaf": every leaf x context x follower x policy ----------------------------------------------

type context struct {
	name  string
	build func(x *node) *node
	only  kind // 255: any leaf kind
}

var kK, kL = []byte("K"), []byte("L")

func seven() *node { return nInt("7") }

var contexts = []context{
	{"top", func(x *node) *node { return x }, 255},
	{"arr1", func(x *node) *node { return nArr(x) }, 255},
	{"arrL", func(x *node) *node { return nArr(seven(), x) }, 255},
	{"arrLL", func(x *node) *node { return nArr(seven(), nInt("8"), x) }, 255},
	{"arrR", func(x *node) *node { return nArr(x, seven()) }, 255},
	{"arr2", func(x *node) *node { return nArr(x, x) }, 255},
	{"dictV", func(x *node) *node { return nDict([][]byte{kK}, x) }, 255},
	{"dictV2", func(x *node) *node { return nDict([][]byte{kK, kL}, x, seven()) }, 255},
	{"dictVV", func(x *node) *node { return nDict([][]byte{kK, kL}, x, x) }, 255},
	{"nestA", func(x *node) *node { return nArr(nArr(x)) }, 255},
	{"nestD", func(x *node) *node { return nDict([][]byte{kK}, nDict([][]byte{kK}, x)) }, 255},
	{"arrD", func(x *node) *node { return nArr(nDict([][]byte{kK}, x), x) }, 255},
	{"dictA", func(x *node) *node { return nDict([][]byte{kK}, nArr(x, x)) }, 255},
	{"dictK", func(x *node) *node { return nDict([][]byte{x.s}, seven()) }, kName},
	{"dictKK", func(x *node) *node { return nDict([][]byte{x.s, append([]byte("Z"), x.s...)}, x, x) }, kName},
}

func leafSpace(e *harness.Env) {
	long := longNumberLeaves()
	leaves := allLeaves()
	nBasic := len(leaves)
	have := map[string]bool{}
	for _, l := range leaves {
		have[l.id] = true
	}
	for _, l := range long {
		if !have[l.id] {
			leaves = append(leaves, l)
		}
	}
	quickCtx := map[string]bool{"top": true, "arrR": true, "arr2": true, "dictV": true, "nestD": true}
	e.Note("long_numbers", fmt.Sprintf("%d leaves with 15-19+ significant digits / boundary integers; LCG table: %s", len(leaves)-nBasic, lcgNote()))
	follows := []string{"none", "int", "name", "str"}
	for li, lf := range leaves {
		for _, cx := range contexts {
			if cx.only != 255 && cx.only != lf.k {
				continue
			}
			if li >= nBasic && !e.Thorough() && !quickCtx[cx.name] {
				continue // quick: the long-number leaves in 5 of the contexts
			}
			t := cx.build(lf)
			f := treeStats(t)
			for _, fo := range follows {
				if fo != "none" && cx.name != "top" && !e.Thorough() {
					continue // quick: followers only behind a top-level leaf
				}
				ff := f
				var fn *node
				if fo != "none" {
					fn = followers[fo]
					ff.str = ff.str || fo == "str"
					ff.name = ff.name || fo == "name"
				}
				pols := allPolicies(ff, wsOpts, cmtOpts, eolOpts, strOpts, nameOpts)
				base := "space=leaf leaf=" + harnessClean(lf.id) + " ctx=" + cx.name + " follow=" + fo + " " + featDesc(f)
				for _, p := range pols {
					pd := base + " " + p.desc()
					nontrivial := !(cx.name == "top" && fo == "none" && p == policy{"sp", "off", "LF", "lit", "raw"})
					if d := pd + " parser=core"; e.Own(d) {
						runCore(e, d, nontrivial, t, fn, p, "core:"+kindName(lf.k))
					}
					if f.ref {
						continue // indirect references are not permitted in content streams
					}
					if d := pd + " parser=cs"; e.Own(d) {
						runCS(e, d, t, fn, p, "cs:"+kindName(lf.k))
					}
				}
			}
		}
	}
}

func kindName(k kind) string {
	return [...]string{"null", "bool", "int", "real", "string", "name", "ref", "array", "dict"}[k]
}

func harnessClean(s string) string {
	return strings.NewReplacer(" ", "_", "\n", "\\n", "\r", "\\r", "\t", "\\t").Replace(s)
}

// ---- space "tree": all small trees x policy ---------------------------------------------------------------------

func treeSpace(e *harness.Env) {
	// every tree of depth <= 2 over the 13-leaf alphabet; thorough adds every tree of depth exactly 3 over 6 leaves
	trees := enumTrees(treeLeaves(false), 2)
	n2 := len(trees)
	if e.Thorough() {
		for _, t := range enumTrees(treeLeaves(true), 3) {
			if t.depth() == 3 {
				trees = append(trees, t)
			}
		}
	}
	e.Note("tree_space", fmt.Sprintf("%d trees of depth<=2 over 13 leaves, %d trees of depth 3 over 6 leaves", n2, len(trees)-n2))
	for ti, t := range trees {
		f := treeStats(t)
		pols := allPolicies(f, wsOpts, cmtOpts, eolOpts, strOpts, nameOpts)
		base := "space=tree t=" + harnessClean(t.id) + " " + featDesc(f)
		follows := []string{"none", "int"}
		if ti >= n2 {
			follows = follows[:1]
		}
		for _, fo := range follows {
			var fn *node
			if fo != "none" {
				fn = followers[fo]
			}
			for _, p := range pols {
				pd := base + " follow=" + fo + " " + p.desc()
				if d := pd + " parser=core"; e.Own(d) {
					runCore(e, d, true, t, fn, p, "core:tree-d"+fmt.Sprint(t.depth()))
				}
				if f.ref {
					continue
				}
				if d := pd + " parser=cs"; e.Own(d) {
					runCS(e, d, t, fn, p, "cs:tree-d"+fmt.Sprint(t.depth()))
				}
			}
		}
	}
}

// ---- space "prog": operator programs -------------------------------------------------------------------------

// The operator table of ISO 32000-1 Annex A without the inline-image operators BI/ID/EI (their payload is not
// object syntax). Operand templates: n number, s string, N name, a TJ array, d dash array, x name-or-dict property list.
var opTable = []struct{ op, args string }{
	{"b", ""}, {"B", ""}, {"b*", ""}, {"B*", ""}, {"BDC", "Nx"}, {"BMC", "N"}, {"BT", ""}, {"BX", ""},
	{"c", "nnnnnn"}, {"cm", "nnnnnn"}, {"CS", "N"}, {"cs", "N"}, {"d", "dn"}, {"d0", "nn"}, {"d1", "nnnnnn"},
	{"Do", "N"}, {"DP", "Nx"}, {"EMC", ""}, {"ET", ""}, {"EX", ""}, {"f", ""}, {"F", ""}, {"f*", ""},
	{"G", "n"}, {"g", "n"}, {"gs", "N"}, {"h", ""}, {"i", "n"}, {"j", "n"}, {"J", "n"}, {"K", "nnnn"}, {"k", "nnnn"},
	{"l", "nn"}, {"m", "nn"}, {"M", "n"}, {"MP", "N"}, {"n", ""}, {"q", ""}, {"Q", ""}, {"re", "nnnn"},
	{"RG", "nnn"}, {"rg", "nnn"}, {"ri", "N"}, {"s", ""}, {"S", ""}, {"SC", "nnn"}, {"sc", "n"}, {"SCN", "nnnN"},
	{"scn", "N"}, {"sh", "N"}, {"T*", ""}, {"Tc", "n"}, {"Td", "nn"}, {"TD", "nn"}, {"Tf", "Nn"}, {"Tj", "s"},
	{"TJ", "a"}, {"TL", "n"}, {"Tm", "nnnnnn"}, {"Tr", "n"}, {"Ts", "n"}, {"Tw", "n"}, {"Tz", "n"}, {"v", "nnnn"},
	{"w", "n"}, {"W", ""}, {"W*", ""}, {"y", "nnnn"}, {"'", "s"}, {"\"", "nns"},
}

var (
	poolInt  = []string{"0", "1", "-1", "17", "+5", "612", "007", "-32768"}
	poolReal = []string{".5", "-.5", "4.", "0.0", "-0.001", "123456.789", "+1.0", "00.25"}
	poolStr  = []string{"a", "Hello (World)", ")(", "\\", "\r\n", "\x00\x10", "", "a\nb%c"}
	poolName = []string{"F1", "A B", "Im#1", "P(1)", "\xe4", "Span"}
)

// operandSets: variant 0 = ints, variant 1 = reals, variant 2 = alternating; strings / names cycle through their pools.
func buildProgram(ops []int, variant int) (toks func(w *writer), want []wantOp, f feats) {
	ctr := 0
	num := func() *node {
		ctr++
		if variant == 1 || (variant == 2 && ctr%2 == 0) {
			return nReal(poolReal[ctr%len(poolReal)])
		}
		return nInt(poolInt[ctr%len(poolInt)])
	}
	str := func() *node { ctr++; return nStr([]byte(poolStr[(ctr+variant)%len(poolStr)]), "") }
	name := func() *node { ctr++; return nName([]byte(poolName[(ctr+variant)%len(poolName)]), "") }
	for _, oi := range ops {
		o := opTable[oi]
		var operands []*node
		for _, a := range o.args {
			switch a {
			case 'n':
				operands = append(operands, num())
			case 's':
				operands = append(operands, str())
			case 'N':
				operands = append(operands, name())
			case 'a':
				operands = append(operands, nArr(str(), num(), str()))
			case 'd':
				if variant == 0 {
					operands = append(operands, nArr())
				} else {
					operands = append(operands, nArr(num(), num()))
				}
			case 'x':
				switch variant {
				case 0:
					operands = append(operands, name())
				case 1:
					operands = append(operands, nDict([][]byte{[]byte("MCID")}, num()))
				default:
					operands = append(operands, nDict([][]byte{[]byte("MCID"), []byte("ActualText"), []byte("Hid")}, nInt("3"), str(), nBool(true)))
				}
			}
		}
		want = append(want, wantOp{o.op, operands})
	}
	for _, wo := range want {
		for _, o := range wo.operands {
			g := treeStats(o)
			f.str, f.name, f.lf, f.oddable, f.kwIn = f.str || g.str, f.name || g.name, f.lf || g.lf, f.oddable || g.oddable, f.kwIn || g.kwIn || g.kwTop
		}
	}
	toks = func(w *writer) {
		for _, wo := range want {
			for _, o := range wo.operands {
				w.obj(o, 0)
			}
			w.reg(wo.op, 0)
		}
	}
	return
}

func progSpace(e *harness.Env) {
	maxLen := 2
	if e.Thorough() {
		maxLen = 3
	}
	n := len(opTable)
	strs := []string{"lit", "hexodd", "octs", "cont"}
	names := []string{"raw", "esc"}
	cmts := []string{"off", "sep"}
	var progs int64
	for l := 1; l <= maxLen; l++ {
		total := 1
		for i := 0; i < l; i++ {
			total *= n
		}
		for v := 0; v < total; v++ {
			ops := make([]int, l)
			x := v
			var lbl []string
			quote, digit := false, false
			for i := l - 1; i >= 0; i-- {
				ops[i] = x % n
				x /= n
			}
			for _, oi := range ops {
				o := opTable[oi].op
				lbl = append(lbl, o)
				quote = quote || strings.ContainsAny(o, "'\"")
				digit = digit || strings.ContainsAny(o, "0123456789")
			}
			progs++
			for variant := 0; variant < 3; variant++ {
				if l == 3 && variant != (v+v/n+v/(n*n))%3 {
					continue // length 3: one operand variant per program (rotating), all three at lengths 1-2
				}
				_, _, f := buildProgram(ops, variant)
				wss := wsOpts
				base := fmt.Sprintf("space=prog ops=%s variant=%d opquote=%s opdigit=%s kwtop=n kwin=%s", strings.Join(lbl, ","), variant, b2s(quote), b2s(digit), b2s(f.kwIn))
				for _, p := range allPolicies(f, wss, cmts, eolOpts, strs, names) {
					if l == 3 && !((p.ws == "min" && p.cmt == "off") || (p.ws == "mix" && p.cmt == "off") || (p.ws == "sp" && p.cmt == "sep" && p.eol == "CR")) {
						continue // length 3: three whitespace/comment policies
					}
					if l == 3 && ((p.str != "lit" && p.str != "hexodd") || p.name != "raw") {
						continue
					}
					d := base + " " + p.desc() + " parser=cs"
					if !e.Own(d) {
						continue
					}
					runProg(e, d, ops, variant, p)
				}
			}
		}
	}
	e.Note("prog_space", fmt.Sprintf("%d operator programs of length<=%d over %d operators", progs, maxLen, n))
}

func runProg(e reporter, desc string, ops []int, variant int, p policy) {
	toks, want, _ := buildProgram(ops, variant)
	w := &writer{p: p}
	toks(w)
	data := w.render()
	files := map[string][]byte{"content.bin": data}
	e.Begin(desc)
	var got []contentstream.Operation
	var err error
	sig, det := harness.Guard(func() {
		csReset()
		got, err = contentstream.NewParser(data).Parse()
	})
	if sig != "" {
		e.Fail(desc, sig, det+"\ninput: "+q(data), files)
		return
	}
	if err != nil {
		e.Fail(desc, "cs-error:"+errClass(err), fmt.Sprintf("Parse: %v\ninput: %s", err, q(data)), files)
		return
	}
	if sg, d := cmpOps(want, got); sg != "" {
		e.Fail(desc, sg, d+"\ninput: "+q(data), files)
		return
	}
	e.Pass(desc, true, fmt.Sprintf("cs:prog-len%d", len(ops)))
}

// ---- space "deep": depth-4 skeleton, deviation-bounded ------------------------------------------------------------

func deepSpace(e *harness.Env) {
	bound := 2
	if e.Thorough() {
		bound = 3
	}
	leaves := append([]*node{nInt("7")}, allLeaves()...)
	leaves = append(leaves, exactReal("231.33300483951646"), exactReal("-.9007199254740993"), exactReal("+900719925474099.3"), nInt("9007199254740993"), nInt("-999999999999999999"))
	ids := make([]string, len(leaves))
	for i, l := range leaves {
		ids[i] = l.id
	}
	k1, k2 := []byte("K"), []byte("P Q")
	wrap := func(kind string, a, b *node) *node {
		if kind == "arr" {
			return nArr(a, b)
		}
		return nDict([][]byte{k1, k2}, a, b)
	}
	e.Explore("space=deep", bound, func(c *harness.Ctx) {
		parser := []string{"core", "cs"}[c.ChooseW("pz", 2, 0)]
		c1 := c.PickS("c1", "arr", "dict")
		c2 := c.PickS("c2", "arr", "dict")
		c3 := c.PickS("c3", "dict", "arr")
		l1 := harness.Pick(c, "l1", ids, leaves)
		l2 := harness.Pick(c, "l2", ids, leaves)
		l3 := harness.Pick(c, "l3", ids, leaves)
		p := policy{}
		p.ws = c.PickS("ws", wsOpts...)
		p.cmt = c.PickS("cmt", cmtOpts...)
		p.eol = c.PickS("eol", eolOpts...)
		p.str = c.PickS("str", strOpts...)
		p.name = c.PickS("name", nameOpts...)
		fo := c.PickS("follow", "none", "int")
		var inner *node
		if c3 == "arr" {
			inner = nArr(l1)
		} else {
			inner = nDict([][]byte{k1}, l1)
		}
		t := wrap(c1, wrap(c2, inner, l2), l3)
		f := treeStats(t)
		if !relevant(p, f) || (parser == "cs" && f.ref) || !c.Counted() {
			return // pinned dimension (identical bytes to another case) / references do not occur in content streams
		}
		c.Tag("parser", parser)
		c.Tag("kwtop", "n")
		c.Tag("kwin", b2s(f.kwIn))
		c.Tag("hasref", b2s(f.ref))
		var fn *node
		if fo == "int" {
			fn = followers["int"]
		}
		desc := c.Desc()
		if parser == "core" {
			runCore(ctxReporter{c, e}, desc, true, t, fn, p, "core:deep")
		} else {
			runCS(ctxReporter{c, e}, desc, t, fn, p, "cs:deep")
		}
	})
}

// ---- space "big": long tokens and long containers (bufio refills inside tokens, lookahead across buffer edges) ------

func bigTrees() []*node {
	leaves := allLeaves()
	var many, noref []*node
	for i := 0; i < 1500; i++ {
		l := leaves[(i*7+i/len(leaves))%len(leaves)]
		if len(l.s) > 64 {
			l = nInt(fmt.Sprint(i))
		}
		many = append(many, l)
		if l.k != kRef {
			noref = append(noref, l)
		}
	}
	var keys [][]byte
	var vals []*node
	for i := 0; i < 400; i++ {
		keys = append(keys, []byte(fmt.Sprintf("Key %d#", i)))
		vals = append(vals, noref[i])
	}
	long := make([]byte, 9000)
	for i := range long {
		long[i] = byte(i*7 + i/256)
	}
	ints := make([]*node, 3000)
	for i := range ints {
		ints[i] = nInt(fmt.Sprint(i % 10))
	}
	ints[2997], ints[2998], ints[2999] = nRef(1, 0), nInt("5"), nRef(2, 0)
	nest := nInt("1")
	for i := 0; i < 40; i++ {
		if i%2 == 0 {
			nest = nArr(nest)
		} else {
			nest = nDict([][]byte{kK}, nest)
		}
	}
	mk := func(t *node, id string) *node { t.id = id; return t }
	return []*node{
		mk(nArr(many...), "arr1500-all-leaves"),
		mk(nArr(noref...), "arr-all-leaves-noref"),
		mk(nDict(keys, vals...), "dict400"),
		mk(nArr(nStr(long, "long9000"), nName(long[1:120], "long119")), "long-string-and-name"),
		mk(nArr(ints...), "arr3000-digits-and-refs"),
		mk(nest, "nest40"),
	}
}

func bigSpace(e *harness.Env) {
	for _, t := range bigTrees() {
		f := treeStats(t)
		base := "space=big t=" + t.id + " " + featDesc(f)
		for _, p := range allPolicies(f, wsOpts, cmtOpts, eolOpts, []string{"lit", "esc", "octs", "hexU", "hexodd", "hexws", "cont"}, []string{"raw", "esc"}) {
			pd := base + " follow=int " + p.desc()
			if d := pd + " parser=core"; e.Own(d) {
				runCore(e, d, true, t, followers["int"], p, "core:big")
			}
			if f.ref {
				continue
			}
			if d := pd + " parser=cs"; e.Own(d) {
				runCS(e, d, t, followers["int"], p, "cs:big")
			}
		}
	}
}
