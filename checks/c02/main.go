//go:build verif

// C02 — No input can crash, hang or exhaust the process.
//
// Bounded-exhaustive fault enumeration: every site of a fixed fault catalogue on a set of small
// valid generated documents (9 PDF layouts, DOCX, ODT, XLSX, PPTX, EPUB2, EPUB3, HTML) x the public
// entry points. Built against an instrumented copy of tabula (build.sh / cmd/instr -budgets): a
// step counter at every function entry and loop head, a call-depth counter and a guard on every
// non-constant make()/Repeat size turn "hangs", "runaway recursion" and "attacker-sized
// allocation" into deterministic, replayable verdicts (no wall-clock oracle).
package main

import (
	"bufio"
	"bytes"
	"fmt"
	"os"
	"path/filepath"
	"runtime"
	"runtime/debug"
	"sort"
	"strconv"
	"strings"
	"syscall"
	"time"

	"github.com/tsawler/tabula"
	"github.com/tsawler/tabula/contentstream"
	"github.com/tsawler/tabula/core"
	"github.com/tsawler/tabula/docx"
	"github.com/tsawler/tabula/epubdoc"
	"github.com/tsawler/tabula/font"
	"github.com/tsawler/tabula/format"
	"github.com/tsawler/tabula/htmldoc"
	"github.com/tsawler/tabula/odt"
	"github.com/tsawler/tabula/pptx"
	"github.com/tsawler/tabula/rag"
	"github.com/tsawler/tabula/reader"
	"github.com/tsawler/tabula/text"
	"github.com/tsawler/tabula/verifrt"
	"github.com/tsawler/tabula/xlsx"
	"verif/internal/harness"
)

func main() { harness.Main("C02", "fault_enumeration", run) }

// ---- entry points -------------------------------------------------------------------------

type frag struct {
	role string // object | objbody | content | cmap | flate | xref | objstm | fontfile
	data []byte
	hint string // text of the stream dictionary (for DecodeParms)
}

type caseCtx struct {
	path  string
	data  []byte
	frags []frag
}

type entry struct {
	name    string
	pdfOnly bool
	raw     string // "" extractor entry; otherwise the frag role class it needs ("file" = whole bytes)
	run     func(c *caseCtx) error
}

func ext(name string, pdfOnly bool, f func(x *tabula.Extractor) error) entry {
	return entry{name: name, pdfOnly: pdfOnly, run: func(c *caseCtx) error {
		x := tabula.Open(c.path)
		defer x.Close()
		return f(x)
	}}
}

var (
	eText     = ext("Text", false, func(x *tabula.Extractor) error { _, _, err := x.Text(); return err })
	eMarkdown = ext("ToMarkdown", false, func(x *tabula.Extractor) error { _, _, err := x.ToMarkdown(); return err })
	eMDOpts   = ext("ToMarkdownWithOptions", false, func(x *tabula.Extractor) error {
		o := rag.DefaultMarkdownOptions()
		o.IncludeMetadata, o.IncludeTableOfContents, o.IncludePageNumbers, o.IncludeChunkIDs = true, true, true, true
		_, _, err := x.ToMarkdownWithOptions(o)
		return err
	})
	eChunks    = ext("Chunks", false, func(x *tabula.Extractor) error { _, _, err := x.Chunks(); return err })
	eChunksCfg = ext("ChunksWithConfig", false, func(x *tabula.Extractor) error {
		c := rag.DefaultChunkerConfig()
		c.TargetChunkSize, c.MaxChunkSize, c.MinChunkSize = 40, 80, 10
		_, _, err := x.ChunksWithConfig(c, rag.DefaultSizeConfig())
		return err
	})
	eDocument  = ext("Document", false, func(x *tabula.Extractor) error { _, _, err := x.Document(); return err })
	ePageCount = ext("PageCount", false, func(x *tabula.Extractor) error { _, err := x.PageCount(); return err })
	eTextHF    = ext("ExcludeHeadersAndFooters.Text", false, func(x *tabula.Extractor) error {
		_, _, err := x.ExcludeHeadersAndFooters().Text()
		return err
	})
	eTextJoin   = ext("JoinParagraphs.Text", false, func(x *tabula.Extractor) error { _, _, err := x.JoinParagraphs().Text(); return err })
	eTextCol    = ext("ByColumn.Text", true, func(x *tabula.Extractor) error { _, _, err := x.ByColumn().Text(); return err })
	eTextLayout = ext("PreserveLayout.Text", true, func(x *tabula.Extractor) error { _, _, err := x.PreserveLayout().Text(); return err })
	eTextPage1  = ext("Pages(1).Text", false, func(x *tabula.Extractor) error { _, _, err := x.Pages(1).Text(); return err })

	pdfOnlyEntries = []entry{
		ext("Fragments", true, func(x *tabula.Extractor) error { _, _, err := x.Fragments(); return err }),
		ext("Analyze", true, func(x *tabula.Extractor) error { _, err := x.Analyze(); return err }),
		ext("Lines", true, func(x *tabula.Extractor) error { _, err := x.Lines(); return err }),
		ext("Paragraphs", true, func(x *tabula.Extractor) error { _, err := x.Paragraphs(); return err }),
		ext("ReadingOrder", true, func(x *tabula.Extractor) error { _, err := x.ReadingOrder(); return err }),
		ext("Headings", true, func(x *tabula.Extractor) error { _, err := x.Headings(); return err }),
		ext("Lists", true, func(x *tabula.Extractor) error { _, err := x.Lists(); return err }),
		ext("Blocks", true, func(x *tabula.Extractor) error { _, err := x.Blocks(); return err }),
		ext("Elements", true, func(x *tabula.Extractor) error { _, err := x.Elements(); return err }),
		ext("IsCharacterLevel", true, func(x *tabula.Extractor) error { _, err := x.IsCharacterLevel(); return err }),
		ext("IsMultiColumn", true, func(x *tabula.Extractor) error { _, err := x.IsMultiColumn(); return err }),
		ext("ExcludeHeadersAndFooters.Lines", true, func(x *tabula.Extractor) error { _, err := x.ExcludeHeadersAndFooters().Lines(); return err }),
		eTextCol, eTextLayout,
	}
	docEntries = []entry{eText, eMarkdown, eMDOpts, eChunks, eChunksCfg, eDocument, ePageCount, eTextHF, eTextJoin, eTextPage1}
)

// apiEntry drives the public API of the format's own reader package directly (one Open, every
// exported accessor), the part of the public surface that tabula.Extractor does not reach.
var apiEntry = entry{name: "reader.API", run: func(c *caseCtx) error {
	switch filepath.Ext(c.path) {
	case ".pdf":
		r, err := reader.Open(c.path)
		if err != nil {
			return err
		}
		defer r.Close()
		r.Version()
		r.NumObjects()
		r.FileSize()
		r.GetInfo()
		r.GetCatalog()
		var nums []int
		for n := range r.XRefTable().Entries {
			nums = append(nums, n)
		}
		sort.Ints(nums)
		for i, n := range nums {
			if i >= 64 {
				break
			}
			r.GetObject(n)
		}
		n, _ := r.PageCount()
		for i := 0; i < n && i < 8; i++ {
			p, err := r.GetPage(i)
			if err != nil {
				break
			}
			p.MediaBox()
			p.CropBox()
			p.Rotate()
			p.Resources()
			p.Contents()
			p.Width()
			p.Height()
			r.ExtractText(p)
			r.ExtractPageImages(p)
		}
		_, err = r.ResolveDeep(r.Trailer())
		r.ClearCache()
		_, _, err2 := tabula.FromReader(r).Text()
		return firstErr(err, err2)
	case ".docx":
		r, err := docx.Open(c.path)
		if err != nil {
			return err
		}
		defer r.Close()
		_, err = r.Markdown()
		r.Metadata()
		r.Tables()
		r.ModelTables()
		r.HasHeaders()
		r.HasFooters()
		r.HeaderTexts()
		r.FooterTexts()
		r.Lists()
		r.ModelLists()
		_, err2 := r.TextWithOptions(docx.ExtractOptions{ExcludeHeaders: true, ExcludeFooters: true})
		return firstErr(err, err2)
	case ".odt":
		r, err := odt.Open(c.path)
		if err != nil {
			return err
		}
		defer r.Close()
		_, err = r.Markdown()
		r.Metadata()
		r.Tables()
		r.ModelTables()
		r.Lists()
		r.HasHeaders()
		r.HasFooters()
		r.HeaderTexts()
		r.FooterTexts()
		_, err2 := r.TextWithOptions(odt.ExtractOptions{ExcludeHeaders: true, ExcludeFooters: true})
		return firstErr(err, err2)
	case ".xlsx":
		r, err := xlsx.Open(c.path)
		if err != nil {
			return err
		}
		defer r.Close()
		for i := -1; i <= r.SheetCount(); i++ {
			r.Sheet(i)
		}
		for _, n := range r.SheetNames() {
			r.SheetByName(n)
		}
		r.Metadata()
		r.Tables()
		_, err = r.Markdown()
		return err
	case ".pptx":
		r, err := pptx.Open(c.path)
		if err != nil {
			return err
		}
		defer r.Close()
		for i := -1; i <= r.SlideCount(); i++ {
			r.Slide(i)
		}
		r.Metadata()
		_, err = r.Markdown()
		return err
	case ".epub":
		r, err := epubdoc.Open(c.path)
		if err != nil {
			return err
		}
		defer r.Close()
		r.TableOfContents()
		r.Metadata()
		r.ChapterCount()
		r.Chapters()
		_, err = r.Markdown()
		if r2, err2 := epubdoc.OpenReader(bytes.NewReader(c.data), int64(len(c.data))); err2 == nil {
			r2.TableOfContents()
			r2.Text()
			r2.Close()
		}
		return err
	case ".html":
		r, err := htmldoc.Open(c.path)
		if err != nil {
			return err
		}
		defer r.Close()
		r.Metadata()
		_, err = r.Markdown()
		_, err2 := r.DocumentWithOptions(htmldoc.ExtractOptions{ExcludeHeaders: true, ExcludeFooters: true})
		return firstErr(err, err2)
	}
	return nil
}}

func firstErr(errs ...error) error {
	for _, e := range errs {
		if e != nil {
			return e
		}
	}
	return nil
}

var (
	rawObject = entry{name: "raw.ParseObject", raw: "object", run: func(c *caseCtx) error {
		var last error
		for _, f := range c.frags {
			switch f.role {
			case "object":
				_, err := core.NewParser(bytes.NewReader(f.data)).ParseIndirectObject()
				last = firstErr(last, err)
			case "objbody":
				p := core.NewParser(bytes.NewReader(f.data))
				for i := 0; i <= len(f.data); i++ {
					if _, err := p.ParseObject(); err != nil {
						last = firstErr(last, err)
						break
					}
				}
			}
		}
		return last
	}}
	rawXRef = entry{name: "raw.XRef", raw: "file", run: func(c *caseCtx) error {
		_, err1 := core.NewXRefParser(bytes.NewReader(c.data)).ParseXRefFromEOF()
		_, err2 := core.NewXRefParser(bytes.NewReader(c.data)).ParseAllXRefs()
		return firstErr(err1, err2)
	}}
	rawContent = entry{name: "raw.Content", raw: "content", run: func(c *caseCtx) error {
		var last error
		for _, f := range c.frags {
			if f.role == "content" {
				_, err1 := contentstream.NewParser(f.data).Parse()
				_, err2 := text.NewExtractor().ExtractFromBytes(f.data)
				last = firstErr(last, err1, err2)
			}
		}
		return last
	}}
	rawCMap = entry{name: "raw.CMap", raw: "cmap", run: func(c *caseCtx) error {
		var last error
		for _, f := range c.frags {
			if f.role == "cmap" {
				_, err := font.ParseToUnicodeCMap(&core.Stream{Dict: core.Dict{}, Data: f.data})
				last = firstErr(last, err)
			}
		}
		return last
	}}
	rawDecode = entry{name: "raw.Decode", raw: "flate", run: func(c *caseCtx) error {
		var last error
		for _, f := range c.frags {
			if f.role == "flate" || f.role == "xref" || f.role == "objstm" {
				d := core.Dict{"Filter": core.Name("FlateDecode")}
				if strings.Contains(f.hint, "/Predictor 12") {
					d["DecodeParms"] = core.Dict{"Predictor": core.Int(12), "Columns": core.Int(8)}
				}
				s := &core.Stream{Dict: d, Data: f.data}
				_, err := s.Decode()
				last = firstErr(last, err)
				if f.role == "objstm" {
					d["Type"], d["N"], d["First"] = core.Name("ObjStm"), core.Int(3), core.Int(20)
					if ost, err := core.NewObjectStream(s); err == nil {
						for i := 0; i < 4; i++ {
							_, _, err := ost.GetObjectByIndex(i)
							last = firstErr(last, err)
						}
					}
				}
			}
		}
		return last
	}}
	rawDetect = entry{name: "raw.Detect", raw: "file", run: func(c *caseCtx) error {
		_, err := format.DetectFromReader(bytes.NewReader(c.data), int64(len(c.data)))
		return err
	}}
	htmlEntries = []entry{
		{name: "FromHTMLString.Text", raw: "file", run: func(c *caseCtx) error { _, _, err := tabula.FromHTMLString(string(c.data)).Text(); return err }},
		{name: "FromHTMLString.ToMarkdown", raw: "file", run: func(c *caseCtx) error {
			_, _, err := tabula.FromHTMLString(string(c.data)).ToMarkdown()
			return err
		}},
		{name: "FromHTMLReader.Document", raw: "file", run: func(c *caseCtx) error {
			_, _, err := tabula.FromHTMLReader(bytes.NewReader(c.data)).Document()
			return err
		}},
		{name: "FromHTMLReader.Chunks", raw: "file", run: func(c *caseCtx) error {
			_, _, err := tabula.FromHTMLReader(bytes.NewReader(c.data)).Chunks()
			return err
		}},
	}
)

// ---- runner ---------------------------------------------------------------------------------

type runner struct {
	e        *harness.Env
	dir      string
	tick     int64
	dep      int
	maxTicks int64
	maxDepth int
	stop     bool
	phase    int
	sites    map[string]int
}

const allocMax = 64 << 20

// countOnly (development aid, C02_COUNT=1): count the descriptors per base instead of running them.
var countOnly = os.Getenv("C02_COUNT") != ""

func normSite(s string) string {
	// "pkg.Func@file:line:loop" -> "pkg.Func:loop" (line numbers shift when the tree is edited)
	fn, rest, ok := strings.Cut(s, "@")
	if !ok {
		return s
	}
	suffix := ""
	if i := strings.LastIndex(rest, ":"); i >= 0 {
		tail := rest[i:]
		if tail == ":loop" || tail == ":make" || tail == ":repeat" {
			suffix = tail
		}
	}
	return fn + suffix
}

// tabulaStack returns the tabula functions on the current goroutine's stack, innermost first, in
// the instrumenter's site-name form ("core.Parser.parseArray", "tabula.Extractor.Text").
func tabulaStack() []string {
	pcs := make([]uintptr, 16384)
	n := runtime.Callers(0, pcs)
	fr := runtime.CallersFrames(pcs[:n])
	var out []string
	for {
		f, more := fr.Next()
		fn := f.Function
		if strings.HasPrefix(fn, "github.com/tsawler/tabula") && !strings.HasPrefix(fn, "github.com/tsawler/tabula/verifrt.") {
			fn = strings.TrimPrefix(fn, "github.com/tsawler/tabula")
			if strings.HasPrefix(fn, "/") {
				fn = fn[1:]
				if i := strings.LastIndex(fn, "/"); i >= 0 { // internal/filters.X -> filters.X
					fn = fn[i+1:]
				}
			} else {
				fn = "tabula" + fn
			}
			fn = strings.NewReplacer("(*", "", ")", "").Replace(fn)
			if i := strings.Index(fn, ".func"); i > 0 { // closures belong to their function
				fn = fn[:i]
			}
			out = append(out, fn)
		}
		if !more {
			break
		}
	}
	return out
}

// hotLoop: a loop head that was passed this often counts as "hot". No loop of tabula comes near it
// on the valid bases outside the byte-level scanners, which are innermost frames.
const hotLoop = 256

// loopingFunction attributes a blown step budget: the OUTERMOST function on the stack that owns a
// hot loop head. The innermost frame at the moment the counter runs out is
// arbitrary, and the most-ticked site is usually a leaf helper; the function whose loop does not
// terminate is on the stack at every moment. Falls back to the hottest loop head of all.
func loopingFunction(stack []string) string {
	hot := map[string]bool{}
	best, bi := int64(-1), -1
	for i, v := range verifrt.SiteTicks {
		name := verifrt.SiteNames[i]
		if !strings.HasSuffix(name, ":loop") {
			continue
		}
		if v >= hotLoop {
			hot[normSite(name)] = true
		}
		if v > best {
			best, bi = v, i
		}
	}
	for i := len(stack) - 1; i >= 0; i-- {
		if hot[stack[i]+":loop"] {
			return stack[i] + ":loop"
		}
	}
	if bi >= 0 {
		return normSite(verifrt.SiteNames[bi])
	}
	return normSite(verifrt.HottestSite())
}

// recursingFunction attributes a blown depth budget: the function that occurs most often on the
// stack (ties: the outermost one).
func recursingFunction(stack []string) string {
	cnt := map[string]int{}
	for _, f := range stack {
		cnt[f]++
	}
	best := ""
	for i := len(stack) - 1; i >= 0; i-- {
		if best == "" || cnt[stack[i]] > cnt[best] {
			best = stack[i]
		}
	}
	return best
}

func head(s []string, n int) []string {
	if len(s) > n {
		return s[:n]
	}
	return s
}

func firstTabulaFrame(st string) string {
	sc := bufio.NewScanner(strings.NewReader(st))
	sc.Buffer(make([]byte, 1<<20), 1<<20)
	for sc.Scan() {
		l := sc.Text()
		if strings.HasPrefix(l, "github.com/tsawler/tabula") && !strings.HasPrefix(l, "github.com/tsawler/tabula/verifrt.") {
			l = strings.TrimPrefix(l, "github.com/tsawler/tabula")
			l = strings.TrimPrefix(l, "/")
			if i := strings.LastIndex(l, "("); i > 0 {
				l = l[:i]
			}
			return l
		}
	}
	return "unknown"
}

// call runs one entry point under fresh budgets. sig == "" means it returned (value or error).
func (r *runner) call(f func() error) (sig, detail string, err error) {
	verifrt.ResetBudgets()
	verifrt.TickBudget, verifrt.DepthMax, verifrt.AllocMax = r.tick, r.dep, allocMax
	defer func() {
		if p := recover(); p != nil {
			if b, ok := p.(verifrt.Budget); ok {
				stack := tabulaStack()
				switch b.Kind {
				case "steps":
					sig = "steps@" + loopingFunction(stack)
					detail = fmt.Sprintf("step budget %d exceeded; most-ticked site %s; stack (innermost first): %s", r.tick, b.Site, strings.Join(head(stack, 40), " < "))
				case "depth":
					sig = "depth@" + recursingFunction(stack)
					detail = fmt.Sprintf("call depth %d exceeded at %s; stack (innermost first): %s", r.dep, b.Site, strings.Join(head(stack, 40), " < "))
				default:
					sig = b.Kind + "@" + normSite(b.Site)
					detail = fmt.Sprintf("%s budget exceeded at %s (depth limit %d, single allocation limit %d bytes)", b.Kind, b.Site, r.dep, int64(allocMax))
				}
			} else {
				st := string(debug.Stack())
				sig = "panic@" + firstTabulaFrame(st)
				detail = fmt.Sprintf("%v\n%s", p, st)
			}
			verifrt.TickBudget, verifrt.DepthMax = 1<<62, 1<<30
		}
	}()
	err = f()
	return
}

// doc is a base under zero, one or two edits; built lazily for the cases this worker owns.
type doc struct {
	b     *base
	eds   []edit
	built bool
	ok    bool
	ctx   caseCtx
}

type baseInfo struct {
	b     *base
	spans []span // pdf raw spans
	parts []part // raw is parts[0]
	za    *zipAsm
}

func (r *runner) build(bi *baseInfo, d *doc) {
	if d.built {
		return
	}
	d.built, d.ok = true, true
	b := bi.b
	var rawEds, partEds []edit
	for _, ed := range d.eds {
		if ed.part == 0 {
			rawEds = append(rawEds, ed)
		} else {
			partEds = append(partEds, ed)
		}
	}
	data := b.data
	if len(partEds) > 0 {
		switch b.kind {
		case "pdf":
			data, d.ok = buildPDF(b, bi.parts, partEds)
			for _, ed := range partEds {
				if ed.op != "" {
					continue
				}
				p := bi.parts[ed.part]
				var same []edit
				for _, e2 := range partEds {
					if e2.part == ed.part && e2.op == "" {
						same = append(same, e2)
					}
				}
				t := applySpanEdits(p.text, same)
				if p.kind == "body" {
					d.ctx.frags = append(d.ctx.frags, frag{role: "objbody", data: t})
				} else if isTextual(p.text) {
					role := "content"
					if bytes.Contains(p.text, []byte("begincmap")) {
						role = "cmap"
					}
					d.ctx.frags = append(d.ctx.frags, frag{role: role, data: t})
				}
			}
		case "zip":
			data = buildZip(b, bi.za, bi.parts, partEds)
		}
	}
	if len(rawEds) > 0 {
		if b.kind == "pdf" {
			seen := map[int]bool{}
			for _, ed := range rawEds {
				if ed.s >= len(b.data) {
					continue
				}
				sp := spanOf(bi.spans, ed.s)
				if seen[sp.s] || (ed.s <= sp.s && ed.e >= sp.e) {
					continue
				}
				seen[sp.s] = true
				if sp.kind == "object" || (sp.kind == "section" && sp.role == "xref") {
					d.ctx.frags = append(d.ctx.frags, frag{role: "object", data: clipApply(b.data, sp.s, sp.e, rawEds)})
				}
				if sp.de > sp.ds && ed.e > sp.ds && ed.s < sp.de {
					d.ctx.frags = append(d.ctx.frags, frag{role: sp.role, data: clipApply(b.data, sp.ds, sp.de, rawEds), hint: string(b.data[sp.s:sp.ds])})
				}
			}
		}
		data = applySpanEdits(data, rawEds)
	}
	d.ctx.data = data
	if d.ok {
		d.ctx.path = filepath.Join(r.dir, "case"+b.ext)
		if err := os.WriteFile(d.ctx.path, data, 0o644); err != nil {
			panic(err)
		}
	}
}

// clipApply applies the parts of the edits that fall into [lo,hi) to text[lo:hi].
func clipApply(text []byte, lo, hi int, eds []edit) []byte {
	var cl []edit
	for _, ed := range eds {
		if ed.e < lo || ed.s >= hi || (ed.e == lo && ed.s < lo) {
			continue
		}
		s, e := ed.s, ed.e
		repl := ed.repl
		if s < lo {
			s, repl = lo, nil
		}
		if e > hi {
			e = hi
		}
		cl = append(cl, edit{s: s - lo, e: e - lo, repl: repl})
	}
	return applySpanEdits(text[lo:hi], cl)
}

// rolesTouched decides, from the edits alone, which raw parsers apply (so that the set of
// descriptors is known without building the file).
func rolesTouched(bi *baseInfo, eds []edit) map[string]bool {
	t := map[string]bool{}
	for _, ed := range eds {
		if ed.op != "" {
			continue
		}
		if ed.part != 0 {
			p := bi.parts[ed.part]
			switch p.kind {
			case "body":
				t["object"] = true
			case "data":
				if bytes.Contains(p.text, []byte("begincmap")) {
					t["cmap"] = true
				} else if isTextual(p.text) {
					t["content"] = true
				}
			}
			continue
		}
		if bi.b.kind != "pdf" || ed.s >= len(bi.b.data) {
			continue
		}
		sp := spanOf(bi.spans, ed.s)
		if ed.s <= sp.s && ed.e >= sp.e {
			continue
		}
		if sp.kind == "object" || (sp.kind == "section" && sp.role == "xref") {
			t["object"] = true
		}
		if sp.de > sp.ds && ed.e > sp.ds && ed.s < sp.de {
			switch sp.role {
			case "content", "cmap":
				t[sp.role] = true
			case "flate", "xref", "objstm":
				t["flate"] = true
			}
		}
	}
	return t
}

func (r *runner) entriesFor(bi *baseInfo, eds []edit, level string) []entry {
	var out []entry
	b := bi.b
	th := r.e.Thorough()
	switch {
	case b.kind == "pdf" && level == "full":
		out = append(out, docEntries...)
		out = append(out, pdfOnlyEntries...)
	case level == "full":
		out = append(out, docEntries...)
	case level == "reduced" && th:
		out = append(out, eText, eMarkdown, eChunks, ePageCount)
	case level == "pair" && th:
		out = append(out, eText, eChunks, ePageCount)
	// quick tier. PDF: Chunks() is a strict prefix of ToMarkdown()'s execution; other formats: every
	// entry point re-parses the whole container first (the dominant cost and the code under byte-level
	// faults), so byte substitutions run Text only; numeric and delimiter faults run the full list.
	case b.kind == "pdf" && level == "reduced":
		out = append(out, eText, eMarkdown, ePageCount)
	case b.kind == "pdf" && level == "pair":
		out = append(out, eText, ePageCount)
	case level == "reduced":
		out = append(out, eText)
	case level == "pair":
		out = append(out, eText)
	case level == "mid":
		out = append(out, eText, eMarkdown, eChunks, apiEntry)
	case level == "pairnum": // two numeric attributes of one XML/HTML element: the three output paths
		out = append(out, eText, eMarkdown, eChunks)
	}
	if b.kind == "html" {
		if level == "full" {
			out = append(out, htmlEntries...)
		} else {
			out = append(out, htmlEntries[0])
		}
	}
	if b.kind == "pdf" {
		t := rolesTouched(bi, eds)
		if t["object"] {
			out = append(out, rawObject)
		}
		if t["content"] {
			out = append(out, rawContent)
		}
		if t["cmap"] {
			out = append(out, rawCMap)
		}
		if t["flate"] {
			out = append(out, rawDecode)
		}
		out = append(out, rawXRef)
	}
	if level == "full" {
		out = append(out, rawDetect, apiEntry)
	}
	return out
}

func descOf(b *base, bi *baseInfo, eds []edit, entryName string) string {
	var parts, classes, sites, vals []string
	for _, ed := range eds {
		parts = append(parts, bi.parts[ed.part].name)
		c := ed.class
		if ed.op != "" {
			c = ed.op
		}
		classes = append(classes, c)
		sites = append(sites, strconv.Itoa(ed.s))
		v := ed.val
		if v == "" {
			v = "-"
		}
		vals = append(vals, v)
	}
	if len(eds) == 0 {
		return harness.D("base", b.name, "part", "-", "fault", "none", "site", "-", "val", "-", "entry", entryName)
	}
	if len(parts) == 2 && parts[0] == parts[1] {
		parts = parts[:1]
	}
	return harness.D("base", b.name, "part", strings.Join(parts, "+"), "fault", strings.Join(classes, "+"),
		"site", strings.Join(sites, "+"), "val", strings.Join(vals, "+"), "entry", entryName)
}

// exec runs the entry points of one faulted document (those this worker owns).
func (r *runner) exec(bi *baseInfo, eds []edit, entries []entry) {
	e := r.e
	d := &doc{b: bi.b, eds: eds}
	if countOnly {
		k := "count_" + bi.b.name + "_singles"
		if len(eds) == 2 {
			k = "count_" + bi.b.name + "_pairs"
		}
		e.Add(k, int64(len(entries)))
		cls := "none"
		if len(eds) > 0 {
			cls = strings.SplitN(eds[0].class, ":", 2)[0]
			if eds[0].op != "" {
				cls = eds[0].op
			}
		}
		if len(eds) == 2 {
			cls += "+" + strings.SplitN(eds[1].class, ":", 2)[0]
		}
		e.Add("cls_"+bi.b.kind+"_"+cls, int64(len(entries)))
		return
	}
	for _, ent := range entries {
		desc := descOf(bi.b, bi, eds, ent.name)
		if !e.Own(desc) {
			continue
		}
		r.build(bi, d)
		if !d.ok {
			e.Pass(desc, true, "unbuildable")
			continue
		}
		e.Begin(desc)
		ent := ent
		sig, detail, err := r.call(func() error { return ent.run(&d.ctx) })
		if sig != "" {
			e.Fail(desc, sig, detail, map[string][]byte{"input" + bi.b.ext: d.ctx.data})
			continue
		}
		if verifrt.Ticks > r.maxTicks {
			r.maxTicks = verifrt.Ticks
		}
		if verifrt.MaxDepthSeen > r.maxDepth {
			r.maxDepth = verifrt.MaxDepthSeen
		}
		out := bi.b.kind + ":value"
		if err != nil {
			out = bi.b.kind + ":error"
		}
		if ent.raw != "" {
			out = "raw-" + out
		}
		e.Pass(desc, len(eds) > 0, out)
	}
}

func info(b *base) *baseInfo {
	bi := &baseInfo{b: b}
	bi.parts = []part{{name: "raw", kind: "raw", text: b.data}}
	switch b.kind {
	case "pdf":
		bi.spans = pdfSpans(b)
		bi.parts = append(bi.parts, pdfParts(b)...)
	case "zip":
		bi.za = newZipAsm(b.members)
		if !bytes.Equal(assembleZip(bi.za.entries), assembleZip(newZipAsm(b.members).entries)) {
			panic("zip assembler not deterministic")
		}
		bi.parts = append(bi.parts, zipParts(b)...)
		// compressed-data parts (class 6 inside a structurally valid container)
		for i, en := range bi.za.entries {
			if en.method == 8 {
				bi.parts = append(bi.parts, part{name: fmt.Sprintf("c%d:%s", i, en.name), kind: "cdata", text: en.comp, idx: i})
			}
		}
	}
	return bi
}

func (r *runner) measure(bis []*baseInfo) {
	// budgets: >= 200x (ticks) / 50x (depth) of what any valid base document needs
	r.tick, r.dep = 1<<62, 1<<30
	var maxT int64
	var maxD int
	for _, bi := range bis {
		d := &doc{b: bi.b}
		r.build(bi, d)
		ents := r.entriesFor(bi, nil, "full")
		if bi.b.kind != "pdf" {
			ents = append(ents, pdfOnlyEntries...)
		}
		for _, ent := range ents {
			ent := ent
			ok := false
			func() {
				defer func() { recover() }()
				verifrt.ResetBudgets()
				// finite even here: an entry point that does not terminate on a VALID base (found:
				// Reader.ResolveDeep on any page tree) must not kill the worker during calibration;
				// it is reported as an ordinary case by enumerate()
				verifrt.TickBudget, verifrt.DepthMax, verifrt.AllocMax = 50_000_000, 10_000, 1<<30
				err := ent.run(&d.ctx)
				ok = true
				if err != nil && ent.name == "Text" {
					fmt.Fprintf(os.Stderr, "base %s is not a valid document: Text() = %v\n", bi.b.name, err)
					os.Exit(2)
				}
			}()
			if !ok {
				continue
			}
			if verifrt.Ticks > maxT {
				maxT = verifrt.Ticks
			}
			if verifrt.MaxDepthSeen > maxD {
				maxD = verifrt.MaxDepthSeen
			}
		}
	}
	r.tick = 3_000_000
	if 200*maxT > r.tick {
		r.tick = 200 * maxT
	}
	r.dep = 2000
	if 50*maxD > r.dep {
		r.dep = 50 * maxD
	}
	r.e.Max("base_ticks_max", maxT)
	r.e.Max("base_depth_max", int64(maxD))
	r.e.Note("budgets", fmt.Sprintf("steps=%d (max(3e6, 200 x %d measured on the valid bases)) depth=%d (max(2000, 50 x %d)) single_allocation=%d bytes; RLIMIT_AS=6GiB per worker", r.tick, maxT, r.dep, maxD, int64(allocMax)))
}

func run(e *harness.Env) {
	e.Track = true
	// backstop only: the slowest passing case needs ~30 ms (333k steps); 60 s is three orders of
	// magnitude above that. It is what catches work hidden in the runtime (quadratic string
	// concatenation, map growth) that the step counter does not see.
	e.CaseDeadline = 60 * time.Second
	// address-space backstop before any faulted input is touched
	lim := syscall.Rlimit{Cur: 6 << 30, Max: 6 << 30}
	if err := syscall.Setrlimit(syscall.RLIMIT_AS, &lim); err != nil {
		fmt.Fprintln(os.Stderr, "setrlimit:", err)
		os.Exit(2)
	}
	debug.SetMaxStack(512 << 20)
	// the live heap of a worker is a few MB: collect less often, but stay far below the address-space limit
	debug.SetGCPercent(2000)
	debug.SetMemoryLimit(1 << 30)
	e.Rule = ruleText(e.Thorough())
	e.Assumptions = []string{
		"the budget instrumentation (cmd/instr -budgets) preserves behaviour: the instrumented tree passes tabula's own test suite",
		"a step counts one function entry or loop iteration inside tabula; loops inside the standard library are covered only by the 300 s per-case backstop and the 6 GiB address-space limit",
		"internal/gen writers emit valid base documents (every base extracts without error before faults are applied)",
	}
	t0 := time.Now()
	dir := harness.Scratch()
	defer os.RemoveAll(dir)
	r := &runner{e: e, dir: dir, sites: map[string]int{}}
	bases := allBases()
	var bis []*baseInfo
	for i := range bases {
		bis = append(bis, info(&bases[i]))
	}
	r.measure(bis)
	e.Note("field_inventory", checkInventory(bis))
	only := os.Getenv("C02_BASE") // development aid: restrict to some bases
	sel := func(bi *baseInfo) bool {
		return only == "" || strings.Contains(","+only+",", ","+bi.b.name+",")
	}
	for _, bi := range bis {
		if sel(bi) {
			r.enumerate(bi, 1)
		}
	}
	if e.Thorough() {
		e.SetBudget(11*time.Minute - time.Since(t0))
		for _, bi := range bis {
			if sel(bi) {
				r.enumerate(bi, 2)
			}
		}
	}
	e.Note("structural_sites", fmt.Sprintf("raw=%d pdf-object-layer=%d zip-member-layer=%d (fault sites of classes 2-6, each run through the full entry list)", r.sites["raw"], r.sites["obj"], r.sites["member"]))
	e.Max("case_ticks_max", r.maxTicks)
	e.Max("case_depth_max", int64(r.maxDepth))
	os.RemoveAll(dir)
}
