#!/bin/bash
# Builds the C02 check against an instrumented copy of tabula's current working tree: cmd/instr adds
# verifrt.Tick (function entries + loop heads, per-site counters), an Enter/Leave depth counter and guards on
# non-constant make()/Repeat sizes; `go build -overlay` compiles them. /repo itself is untouched.
set -eu
out="$1"
cd "$(dirname "$0")/../.."
export GOFLAGS=-mod=mod GOPROXY=off GOSUMDB=off GOTOOLCHAIN=local CGO_ENABLED=0
repo="${VERIF_REPO:-/repo}"
tag=$(echo "$repo" | md5sum | cut -c1-8)
ov="$PWD/.build/c02/overlay-$tag"
mkdir -p .build/bin .build/c02
(cd cmd/instr && go build -o ../../.build/bin/instr .)
.build/bin/instr -repo "$repo" -out "$ov" -budgets
go build ${VERIF_MODFLAG:-} -tags verif -overlay "$ov/overlay.json" -o "$out" ./checks/c02
cp "$ov/report.json" "$out.instr.json"
