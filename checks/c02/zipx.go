//go:build verif

package main

import (
	"bytes"
	"compress/flate"
	"encoding/binary"
	"fmt"
	"hash/crc32"

	"verif/internal/gen/zipw"
)

// A minimal ZIP assembler (APPNOTE 4.3): members are re-zipped validly after a member-level fault
// without paying for the recompression of the untouched members.

type zipEntry struct {
	name   string
	method uint16
	crc    uint32
	usize  uint32
	comp   []byte
}

type zipAsm struct{ entries []zipEntry }

func deflate(b []byte) []byte {
	var buf bytes.Buffer
	w, _ := flate.NewWriter(&buf, flate.DefaultCompression)
	w.Write(b)
	w.Close()
	return buf.Bytes()
}

func makeEntry(name string, data []byte, store bool) zipEntry {
	e := zipEntry{name: name, crc: crc32.ChecksumIEEE(data), usize: uint32(len(data))}
	if store {
		e.method, e.comp = 0, data
	} else {
		e.method, e.comp = 8, deflate(data)
	}
	return e
}

func newZipAsm(members []zipw.Member) *zipAsm {
	za := &zipAsm{}
	for _, m := range members {
		za.entries = append(za.entries, makeEntry(m.Name, m.Data, m.Store))
	}
	return za
}

func assembleZip(ents []zipEntry) []byte {
	var out bytes.Buffer
	le16 := func(b *bytes.Buffer, v uint16) { binary.Write(b, binary.LittleEndian, v) }
	le32 := func(b *bytes.Buffer, v uint32) { binary.Write(b, binary.LittleEndian, v) }
	offs := make([]uint32, len(ents))
	for i, e := range ents {
		offs[i] = uint32(out.Len())
		le32(&out, 0x04034b50)
		le16(&out, 20)
		le16(&out, 0)
		le16(&out, e.method)
		le16(&out, 0)
		le16(&out, 0x21)
		le32(&out, e.crc)
		le32(&out, uint32(len(e.comp)))
		le32(&out, e.usize)
		le16(&out, uint16(len(e.name)))
		le16(&out, 0)
		out.WriteString(e.name)
		out.Write(e.comp)
	}
	cdStart := out.Len()
	for i, e := range ents {
		le32(&out, 0x02014b50)
		le16(&out, 20)
		le16(&out, 20)
		le16(&out, 0)
		le16(&out, e.method)
		le16(&out, 0)
		le16(&out, 0x21)
		le32(&out, e.crc)
		le32(&out, uint32(len(e.comp)))
		le32(&out, e.usize)
		le16(&out, uint16(len(e.name)))
		le16(&out, 0)
		le16(&out, 0)
		le16(&out, 0)
		le16(&out, 0)
		le32(&out, 0)
		le32(&out, offs[i])
		out.WriteString(e.name)
	}
	cdSize := out.Len() - cdStart
	le32(&out, 0x06054b50)
	le16(&out, 0)
	le16(&out, 0)
	le16(&out, uint16(len(ents)))
	le16(&out, uint16(len(ents)))
	le32(&out, uint32(cdSize))
	le32(&out, uint32(cdStart))
	le16(&out, 0)
	return out.Bytes()
}

// zipField is a binary numeric field of the raw container.
type zipField struct {
	off, width int
	name       string
	group      string
}

type zipData struct {
	s, e   int
	member string
	method uint16
}

// scanZip walks the raw bytes of a ZIP written by archive/zip (local headers possibly followed by
// data descriptors, central directory, end record) and lists every numeric field and every
// compressed-data range.
func scanZip(b []byte) (fields []zipField, datas []zipData, err error) {
	eocd := bytes.LastIndex(b, []byte{0x50, 0x4b, 0x05, 0x06})
	if eocd < 0 {
		return nil, nil, fmt.Errorf("no end record")
	}
	u16 := func(o int) int { return int(binary.LittleEndian.Uint16(b[o:])) }
	u32 := func(o int) int { return int(binary.LittleEndian.Uint32(b[o:])) }
	n := u16(eocd + 10)
	cd := u32(eocd + 16)
	g := "eocd"
	for _, f := range []struct {
		o, w int
		n    string
	}{{4, 2, "disk"}, {6, 2, "cddisk"}, {8, 2, "ndisk"}, {10, 2, "ntotal"}, {12, 4, "cdsize"}, {16, 4, "cdoff"}, {20, 2, "commentlen"}} {
		fields = append(fields, zipField{eocd + f.o, f.w, f.n, g})
	}
	p := cd
	for i := 0; i < n; i++ {
		if u32(p) != 0x02014b50 {
			return nil, nil, fmt.Errorf("bad central header")
		}
		nl, xl, cl := u16(p+28), u16(p+30), u16(p+32)
		name := string(b[p+46 : p+46+nl])
		g := "cd:" + name
		for _, f := range []struct {
			o, w int
			n    string
		}{{4, 2, "vermade"}, {6, 2, "verneed"}, {8, 2, "flags"}, {10, 2, "method"}, {16, 4, "crc"}, {20, 4, "csize"}, {24, 4, "usize"},
			{28, 2, "namelen"}, {30, 2, "extralen"}, {32, 2, "commentlen"}, {34, 2, "diskstart"}, {42, 4, "lhoff"}} {
			fields = append(fields, zipField{p + f.o, f.w, f.n, g})
		}
		lh := u32(p + 42)
		csize := u32(p + 20)
		method := uint16(u16(p + 10))
		if u32(lh) != 0x04034b50 {
			return nil, nil, fmt.Errorf("bad local header")
		}
		lnl, lxl := u16(lh+26), u16(lh+28)
		g2 := "lh:" + name
		for _, f := range []struct {
			o, w int
			n    string
		}{{4, 2, "verneed"}, {6, 2, "flags"}, {8, 2, "method"}, {14, 4, "crc"}, {18, 4, "csize"}, {22, 4, "usize"}, {26, 2, "namelen"}, {28, 2, "extralen"}} {
			fields = append(fields, zipField{lh + f.o, f.w, f.n, g2})
		}
		ds := lh + 30 + lnl + lxl
		datas = append(datas, zipData{ds, ds + csize, name, method})
		p += 46 + nl + xl + cl
	}
	return fields, datas, nil
}
