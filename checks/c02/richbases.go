//go:build verif

package main

import (
	"bytes"
	"fmt"
	"sort"
	"strings"

	"verif/internal/gen/docxw"
	"verif/internal/gen/epubw"
	"verif/internal/gen/odtw"
	"verif/internal/gen/pdfw"
	"verif/internal/gen/pptxw"
	"verif/internal/gen/xlsxw"
	"verif/internal/gen/zipw"
)

// The "rich" bases exist because a numeric-field or retargeting fault can only reach code whose
// field EXISTS in some base: every number or reference that a reader parses and then uses as a
// loop bound, allocation size, index or recursion driver occurs here once, with a small valid
// value. They get the structural classes (1 at token boundaries, 2-6) and the same-group doubles;
// the byte-level classes (every-offset truncation, byte substitution) stay on the plain bases.
//
// fieldInventory is the list "field -> base that carries it"; it is checked at start-up (the text
// must occur in that base) and written to the evidence, so that gaps are visible.
type fieldUse struct {
	field string // what the reader parses
	base  string
	text  string // literal text that must occur in the base (a part of it)
}

var fieldInventory = []fieldUse{
	// PDF: file structure
	{"/Prev chain over 3 sections (xref tables)", "pdf-rev3", "/Prev "},
	{"/Prev chain over 3 sections (xref streams)", "pdf-rev3x", "/Prev "},
	{"startxref / xref entry offsets / trailer /Size", "pdf-classic", "startxref"},
	{"xref stream /Size /W /Index, binary entries", "pdf-xscont", "/W [1 4 2]"},
	{"object stream /N /First, header number-offset pairs", "pdf-xscont", "/First "},
	{"stream /Length (direct)", "pdf-classic", "/Length "},
	{"stream /Length (indirect)", "pdf-indlen", " 0 R >>\nstream"},
	{"/DecodeParms /Predictor /Columns", "pdf-png", "/Columns 8"},
	{"/DecodeParms /Colors /BitsPerComponent", "pdf-rich", "/Colors 1 /BitsPerComponent 8"},
	// PDF: page tree
	{"/Count, /Kids (page tree depth 3), /Parent", "pdf-rich", "/Type /Pages /Parent"},
	{"/MediaBox", "pdf-classic", "/MediaBox [0 0 612 792]"},
	{"/CropBox, /Rotate", "pdf-rich", "/Rotate 90"},
	{"/Contents array, indirect /Resources", "pdf-indlen", "/Resources "},
	{"document /Info", "pdf-rich", "/Info "},
	// PDF: fonts
	{"simple font /FirstChar /LastChar /Widths", "pdf-rich", "/FirstChar 32 /LastChar 34 /Widths"},
	{"/Encoding /Differences", "pdf-rich", "/Differences [65 /A /B 128 /Euro]"},
	{"/FontDescriptor numbers, /FontFile2 /Length1, TrueType tables", "pdf-ttf", "/Length1 "},
	{"binary: sfnt offset table numTables; table directory records (checksum, offset, length)", "pdf-ttf", "bin:rec:cmap/offset"},
	{"binary: head.unitsPerEm, hhea.numberOfHMetrics, hmtx advanceWidth/lsb", "pdf-ttf", "bin:hhea/numberOfHMetrics"},
	{"binary: cmap header numTables, encoding records (platformID, encodingID, subtable offset), format-4 header (length, segCountX2) and endCode/startCode arrays", "pdf-ttf", "bin:cmapsub0/segCountX2"},
	{"binary: xref stream entries (type, offset / objstm number, generation / index)", "pdf-xscont", "xref-data"},
	{"binary: ZIP local / central / end records (sizes, offsets, counts, name lengths)", "docx", "bin:zip"},
	{"binary NOT parsed by tabula (nothing to reach): CFF / Type1 font programs, PNG / JPEG / CCITT image data (returned undecoded or by parameters only)", "pdf-xobj", "/Subtype /Image"},
	{"Type0: /DescendantFonts, CIDFont /DW /W (both forms), /CIDToGIDMap", "pdf-rich", "/W [1 [500 600] 10 12 700]"},
	{"ToUnicode: codespacerange, bfchar count + entries", "pdf-cid", "beginbfchar"},
	{"ToUnicode: bfrange count, range form and array form", "pdf-rich", "beginbfrange"},
	{"CMap codespacerange low/high with 1-, 2- and 4-byte codes (hex operands = numeric sites)", "pdf-rich", "<FFFFFF00> <FFFFFFFE>"},
	{"CMap bfchar src/dst: 1-, 2-, 4-byte source, multi-unit destination", "pdf-rich", "<FFFFFF01> <00660069>"},
	{"CMap bfrange lo/hi/dst: 4-byte codes with a multi-unit (surrogate pair) destination, 1-byte range", "pdf-rich", "<FFFFFFF0> <FFFFFFF8> <D83DDE00>"},
	{"CMap cidrange lo/hi/cid (tabula has no parser for it: carried so that one would be reached)", "pdf-rich", "begincidrange"},
	// PDF: content
	{"Tf size, Td/TD/Tm/cm operands, T*, ' and \"", "pdf-rich", " TD"},
	{"Tz Tc Tw TL Ts Tr", "pdf-rich", "100 Tz 0.5 Tc 1 Tw 14 TL 2 Ts 0 Tr"},
	{"TJ array numbers", "pdf-rich", "-120"},
	{"marked-content property dictionary, TJ with hex string", "pdf-classic", "/MCID 0"},
	{"Form XObject /BBox /Matrix, nested form, a form used before the nested one", "pdf-rich", "/Fm3 Do"},
	{"Form XObject whose content tabula cannot parse (inline image BI/ID/EI)", "pdf-rich", "BI /W 2"},
	{"Image XObject /Width /Height /BitsPerComponent", "pdf-xobj", "/Subtype /Image /Width 2 /Height 2"},
	// DOCX
	{"w:ilvl, w:numId", "docx-rich", `<w:ilvl w:val="1"/>`},
	{"w:abstractNumId, w:lvl w:ilvl, w:start", "docx-rich", `<w:start w:val="3"/>`},
	{"w:numFmt upperRoman / lowerRoman / lowerLetter / upperLetter / decimal / bullet", "docx-rich", `w:val="upperRoman"`},
	{"w:gridSpan", "docx-rich", `<w:gridSpan w:val="2"/>`},
	{"w:vMerge restart / continue", "docx-rich", `<w:vMerge w:val="restart"/>`},
	{"w:outlineLvl (paragraph and style), w:sz", "docx-rich", `<w:outlineLvl w:val=`},
	{"header / footer parts through relationships", "docx-rich", "word/header1.xml"},
	// ODT
	{"table:number-columns-spanned / -rows-spanned, covered cells", "odt-rich", `table:number-columns-spanned="2"`},
	{"table:number-columns-repeated", "odt-rich", `table:number-columns-repeated="3"`},
	{"text:outline-level, style:default-outline-level", "odt-rich", `text:outline-level="2"`},
	{"text:start-value, text:level of list level styles", "odt-rich", `text:start-value="3"`},
	{"text:s text:c", "odt-rich", `<text:s text:c="3"/>`},
	{"nested lists", "odt-rich", "odt nested item"},
	// XLSX
	{"row r, cell r, dimension ref", "xlsx-rich", `<dimension ref="A1:C3"/>`},
	{"mergeCell ref ranges, mergeCells count", "xlsx-rich", `<mergeCell ref="A1:B2"/>`},
	{"shared-string index <v>, sst count / uniqueCount", "xlsx-rich", "uniqueCount="},
	{"cell style index s, cellXfs numFmtId / fontId / fillId / borderId", "xlsx-rich", ` s="1"`},
	{"sheetId, r:id of sheets", "xlsx-rich", `sheetId="2"`},
	// PPTX
	{"a:pPr lvl, a:buAutoNum startAt", "pptx-rich", `startAt="3"`},
	{"a:tc gridSpan / rowSpan / hMerge / vMerge", "pptx-rich", `gridSpan="2"`},
	{"p:sldId id, r:id; sldSz cx cy; a:off / a:ext; a:gridCol w; a:tr h; a:rPr sz", "pptx-rich", `<p:sldId id=`},
	// HTML / EPUB
	{"td rowspan AND colspan on the same cell", "html-rich", `rowspan="2" colspan="2"`},
	{"ol start, li value", "html-rich", `<ol start="3">`},
	{"heading levels h1-h6", "html-rich", "<h6>"},
	{"nesting depth (div > section > article > ul > li > ul)", "html-rich", "<article>"},
	{"numeric character references", "html-rich", "&#65;"},
	{"EPUB chapter table with rowspan AND colspan, ol start", "epub-rich", `rowspan="2" colspan="2"`},
	{"NCX playOrder, spine idref / manifest id", "epub2", "playOrder="},
}

func richPDFFile() pdfw.File {
	cmap := strings.Join([]string{
		"/CIDInit /ProcSet findresource begin", "12 dict begin", "begincmap",
		"/CIDSystemInfo << /Registry (Adobe) /Ordering (UCS) /Supplement 0 >> def",
		"/CMapName /Adobe-Identity-UCS def", "/CMapType 2 def",
		"3 begincodespacerange", "<00> <7F>", "<8000> <FFFF>", "<FFFFFF00> <FFFFFFFE>", "endcodespacerange",
		"3 beginbfchar", "<0001> <0041>", "<21> <0021>", "<FFFFFF01> <00660069>", "endbfchar",
		"4 beginbfrange", "<0002> <0004> <0042>", "<0010> <0011> [<0050> <0051>]", "<22> <24> <0022>", "<FFFFFFF0> <FFFFFFF8> <D83DDE00>", "endbfrange",
		"1 begincidrange", "<8000> <80FF> 256", "endcidrange",
		"endcmap", "CMapName currentdict /CMap defineresource pop", "end", "end", ""}, "\n")
	content := strings.Join([]string{"q", "1 0 0 1 0 0 cm", "BT", "/F1 12 Tf", "100 Tz 0.5 Tc 1 Tw 14 TL 2 Ts 0 Tr", "72 700 Td", "(A) Tj", "T*", "(B) '",
		"1 2 (C) \"", "[ (D) -120 (E) 30 ] TJ", "1 0 0 1 72 600 Tm", "/F2 10 Tf", "<00010002> Tj", "0 -14 TD", "<0010> Tj", "ET", "/Fm1 Do", "Q", ""}, "\n")
	fm1 := "/Fm3 Do\nBT /F1 9 Tf 5 5 Td (outer) Tj ET\nq 0.5 0 0 0.5 0 0 cm /Fm2 Do Q\n"
	fm2 := "BT /F1 8 Tf 1 1 Td (inner) Tj ET\n"
	fm3 := "q BI /W 2 /H 1 /BPC 8 /CS /G ID )> EI Q\n" // an inline image: valid PDF, not parseable by tabula's content parser
	objs := []pdfw.Obj{
		{Num: 1, Body: "<< /Type /Font /Subtype /Type1 /BaseFont /Helvetica /FirstChar 32 /LastChar 34 /Widths [278 278 355] /Encoding << /Type /Encoding /BaseEncoding /WinAnsiEncoding /Differences [65 /A /B 128 /Euro] >> >>"},
		{Num: 2, Body: "<< /Type /Font /Subtype /Type0 /BaseFont /VerifCID /Encoding /Identity-H /DescendantFonts [3 0 R] /ToUnicode 4 0 R >>"},
		{Num: 3, Body: "<< /Type /Font /Subtype /CIDFontType2 /BaseFont /VerifCID /CIDSystemInfo << /Registry (Adobe) /Ordering (Identity) /Supplement 0 >> /DW 1000 /W [1 [500 600] 10 12 700] /CIDToGIDMap /Identity >>"},
		{Num: 4, Stream: &pdfw.Stream{Data: []byte(cmap)}},
		{Num: 5, Stream: &pdfw.Stream{Data: []byte(content)}},
		{Num: 6, Stream: &pdfw.Stream{Dict: "/Type /XObject /Subtype /Form /BBox [0 0 200 200] /Matrix [1 0 0 1 5 5] /Resources << /Font << /F1 1 0 R >> /XObject << /Fm3 8 0 R /Fm2 7 0 R >> >>", Data: []byte(fm1)}},
		{Num: 7, Stream: &pdfw.Stream{Dict: "/Type /XObject /Subtype /Form /BBox [0 0 100 100] /Matrix [2 0 0 2 0 0] /Resources << /Font << /F1 1 0 R >> >> /Filter /FlateDecode /DecodeParms << /Predictor 12 /Columns 8 /Colors 1 /BitsPerComponent 8 >>", Data: pdfw.Zlib(pngUpRows([]byte(fm2), 8))}},
		{Num: 8, Stream: &pdfw.Stream{Dict: "/Type /XObject /Subtype /Form /BBox [0 0 10 10]", Data: []byte(fm3)}},
		{Num: 9, Body: "<< /Type /Page /Parent 10 0 R /MediaBox [0 0 612 792] /CropBox [10 10 600 780] /Rotate 90 /Resources << /Font << /F1 1 0 R /F2 2 0 R >> /XObject << /Fm1 6 0 R >> >> /Contents [5 0 R] >>"},
		{Num: 10, Body: "<< /Type /Pages /Parent 11 0 R /Kids [9 0 R] /Count 1 >>"},
		{Num: 11, Body: "<< /Type /Pages /Parent 12 0 R /Kids [10 0 R] /Count 1 >>"},
		{Num: 12, Body: "<< /Type /Pages /Kids [11 0 R] /Count 1 >>"},
		{Num: 13, Body: "<< /Type /Catalog /Pages 12 0 R >>"},
		{Num: 14, Body: "<< /Title (Rich) /Author (Verif) /CreationDate (D:20200102030405Z) >>"},
	}
	return pdfw.File{Root: 13, Info: 14, Revs: []pdfw.Revision{{Objs: objs, XRef: "table"}}}
}

// pngUpRows applies PNG predictor "Up" (tag 2) with rows of cols bytes (blank padded).
func pngUpRows(b []byte, cols int) []byte {
	b = append([]byte(nil), b...)
	for len(b)%cols != 0 {
		b = append(b, ' ')
	}
	var out []byte
	for r := 0; r*cols < len(b); r++ {
		out = append(out, 2)
		for i := 0; i < cols; i++ {
			v := b[r*cols+i]
			if r > 0 {
				v -= b[(r-1)*cols+i]
			}
			out = append(out, v)
		}
	}
	return out
}

// inject replaces old by new exactly once in the named member (writer features the generators do not have).
func inject(ms []zipw.Member, name, old, new string) {
	for i := range ms {
		if ms[i].Name == name {
			if bytes.Count(ms[i].Data, []byte(old)) < 1 {
				panic(fmt.Sprintf("inject: %q not found in %s", old, name))
			}
			ms[i].Data = bytes.Replace(ms[i].Data, []byte(old), []byte(new), 1)
			return
		}
	}
	panic("inject: no member " + name)
}

func docxRichMembers() []zipw.Member {
	li := func(num, lvl int, s string) docxw.Para {
		return docxw.Para{NumID: num, ILvl: lvl, Content: []docxw.Inline{docxw.R(docxw.T(s))}}
	}
	doc := docxw.Doc{
		Header: []docxw.Para{docxw.P("docx header")},
		Footer: []docxw.Para{docxw.P("docx footer")},
		Body: []docxw.Block{
			docxw.Para{Style: "Heading1", Content: []docxw.Inline{docxw.R(docxw.T("Rich Title"))}},
			docxw.Para{Outline: 2, Content: []docxw.Inline{docxw.R(docxw.T("outline two"))}},
			li(2, 0, "roman upper"), li(2, 1, "roman lower"), li(2, 2, "letter lower"), li(2, 3, "letter upper"), li(2, 4, "decimal"),
			li(1, 0, "bullet"),
			docxw.Table{Cols: 3, Rows: []docxw.Row{
				{Header: true, Cells: []docxw.Cell{{Span: 2, Blocks: []docxw.Block{docxw.P("wide")}}, {VMerge: docxw.VMergeRestart, Blocks: []docxw.Block{docxw.P("tall")}}}},
				{Cells: []docxw.Cell{docxw.C("a"), docxw.C("b"), {VMerge: docxw.VMergeContinue}}},
			}},
		}}
	nums := []docxw.Num{
		{ID: 1, Levels: []docxw.Level{{Fmt: "bullet"}}},
		{ID: 2, Levels: []docxw.Level{{Fmt: "upperRoman", Start: 3}, {Fmt: "lowerRoman", Start: 2}, {Fmt: "lowerLetter", Start: 2}, {Fmt: "upperLetter"}, {Fmt: "decimal", Start: 5}}},
	}
	st := docxw.DefaultStyles()[:3]
	return docxw.Members(doc, docxw.Opts{Styles: st, Nums: nums})
}

func odtRichMembers() []zipw.Member {
	doc := odtw.Doc{
		Header: []odtw.Para{odtw.P("odt header")},
		Body: []odtw.Block{
			odtw.Heading{Style: "Heading_20_2", Level: 2, Content: []odtw.Inline{odtw.Text("Rich"), odtw.S{N: 3}, odtw.Text("Title")}},
			odtw.List{Style: "L2", Items: []odtw.Item{{Blocks: []odtw.Block{odtw.P("odt numbered item"),
				odtw.List{Items: []odtw.Item{{Blocks: []odtw.Block{odtw.P("odt nested item")}}}}}}}},
			odtw.Table{Name: "T1", Cols: 3, Rows: []odtw.Row{
				{Cells: []odtw.Cell{{ColSpan: 2, RowSpan: 2, Blocks: []odtw.Block{odtw.P("big")}}, {Covered: true}, odtw.C("c")}},
				{Cells: []odtw.Cell{{Covered: true}, {Covered: true}, odtw.C("f")}},
			}},
		}}
	st := odtw.DefaultStyles()
	if len(st) > 4 {
		st = st[:4]
	}
	ls := []odtw.ListStyle{{Name: "L2", Levels: []odtw.ListLevel{{Number: true, Format: "1"}, {Number: true, Format: "a"}}}}
	ms := odtw.Members(doc, odtw.Opts{Styles: st, ListStyles: ls})
	inject(ms, "styles.xml", `<text:list-level-style-number text:level="1"`, `<text:list-level-style-number text:level="1" text:start-value="3"`)
	return ms
}

func xlsxRichMembers() []zipw.Member {
	wb := xlsxw.Workbook{Sheets: []xlsxw.Sheet{
		{Name: "Rich", Merges: []string{"A1:B2"}, Cells: []xlsxw.Cell{
			{Ref: "A1", Kind: xlsxw.Shared, Value: "merged"}, {Ref: "C1", Kind: xlsxw.SharedRich, Value: "rich"},
			{Ref: "C2", Kind: xlsxw.Blank}, {Ref: "A3", Kind: xlsxw.InlineRich, Value: "inl"}, {Ref: "B3", Kind: xlsxw.Error, Value: "#DIV/0!"},
			{Ref: "C3", Kind: xlsxw.Number, Value: "3", ExplicitT: true}}},
		{Name: "Two", Cells: []xlsxw.Cell{{Ref: "A1", Kind: xlsxw.Shared, Value: "merged"}}},
	}}
	return wb.Members()
}

func pptxRichMembers() []zipw.Member {
	d := pptxw.Deck{Title: "Pptx Rich", Slides: []pptxw.Slide{
		{Title: "Rich Slide", Paras: []pptxw.Para{{Text: "numbered", Level: 1, Bullet: "num"}, {Text: "deeper", Level: 2, Bullet: "char"}},
			Table: [][]string{{"p1", "p2", "p3"}, {"p4", "p5", "p6"}}},
	}}
	ms := d.Members()
	name := "ppt/slides/slide1.xml"
	for _, m := range ms {
		if m.Name == name {
			s := string(m.Data)
			if i := strings.Index(s, "<a:buAutoNum "); i >= 0 {
				inject(ms, name, "<a:buAutoNum ", `<a:buAutoNum startAt="3" `)
			} else {
				panic("pptx-rich: no a:buAutoNum")
			}
			// first table cell spans two columns and two rows; its neighbours are merged away
			if n := strings.Count(s, "<a:tc>"); n < 6 {
				panic(fmt.Sprintf("pptx-rich: %d table cells", n))
			}
		}
	}
	inject(ms, name, "<a:tc>", `<a:tc gridSpan="2" rowSpan="2">`)
	inject(ms, name, "<a:tc>", `<a:tc hMerge="1">`)
	return ms
}

func htmlRichBytes() []byte {
	return []byte(`<!DOCTYPE html>
<html lang="en"><head><meta charset="utf-8"><title>Html Rich</title></head>
<body><div><section><article><h1>One</h1><h2>Two</h2><h3>Three</h3><h4>Four</h4><h5>Five</h5><h6>Six</h6>
<ol start="3"><li value="7">o one<ul><li>u nested<ol><li>deep &#65;&#x42;</li></ol></li></ul></li><li>o two</li></ol>
<table><caption>cap</caption><tr><th rowspan="2" colspan="2">big</th><th>h3</th></tr><tr><td>c3</td></tr><tr><td>a</td><td colspan="2">bc</td></tr></table>
<p>text <a href="#x">link</a> <img src="i.png" width="10" height="20" alt="img"> end</p></article></section></div></body></html>
`)
}

func epubRichMembers() []zipw.Member {
	b := epubw.Book{Version: 3, Title: "Epub Rich", Author: "Verif", Language: "en", Identifier: "urn:uuid:verif-rich",
		Chapters: []epubw.Chapter{
			{ID: "c1", Title: "Chapter One", Body: `<h2>sub</h2><ol start="3"><li>e one</li></ol><table><tr><th rowspan="2" colspan="2">big</th><th>h3</th></tr><tr><td>c3</td></tr></table>`},
		}}
	return b.Members()
}

func richBases() []base {
	mk := func(b base) base { b.rich = true; return b }
	return []base{
		mk(pdfBase("pdf-rich", richPDFFile())),
		mk(pdfBase("pdf-rev3", pdfw.Plan(twoPageDoc(), pdfw.Layout{Revisions: 3, Depth: 3}))),
		mk(pdfBase("pdf-rev3x", pdfw.Plan(twoPageDoc(), pdfw.Layout{Revisions: 3, XRef: "stream"}))),
		mk(zipBase("docx-rich", ".docx", docxRichMembers())),
		mk(zipBase("odt-rich", ".odt", odtRichMembers())),
		mk(zipBase("xlsx-rich", ".xlsx", xlsxRichMembers())),
		mk(zipBase("pptx-rich", ".pptx", pptxRichMembers())),
		mk(zipBase("epub-rich", ".epub", epubRichMembers())),
		mk(base{name: "html-rich", ext: ".html", kind: "html", data: htmlRichBytes()}),
	}
}

// checkInventory verifies that every inventory text occurs in its base (file bytes, pdfw object
// bodies / decoded streams, ZIP member names and contents) and renders the inventory for evidence.
func checkInventory(bis []*baseInfo) string {
	byName := map[string]*baseInfo{}
	for _, bi := range bis {
		byName[bi.b.name] = bi
	}
	var lines []string
	for _, f := range fieldInventory {
		bi := byName[f.base]
		if bi == nil {
			panic("inventory: unknown base " + f.base)
		}
		found := bytes.Contains(bi.b.data, []byte(f.text))
		if strings.HasPrefix(f.text, "bin:") { // a binary field: it must be among the enumerated field sites
			found = f.text == "bin:zip" && bi.b.kind == "zip"
			for _, p := range bi.parts {
				for _, bf := range sfntFields(p.text) {
					if "bin:"+bf.group+"/"+bf.name == f.text {
						found = true
					}
				}
			}
		}
		for _, p := range bi.parts {
			if bytes.Contains(p.text, []byte(f.text)) || strings.Contains(p.name, f.text) {
				found = true
			}
		}
		if !found {
			panic(fmt.Sprintf("inventory: %q does not occur in base %s (field %s)", f.text, f.base, f.field))
		}
		lines = append(lines, f.field+" -> "+f.base)
	}
	sort.Strings(lines)
	return strings.Join(lines, "; ")
}
