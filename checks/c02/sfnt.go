//go:build verif

package main

import (
	"encoding/binary"
	"fmt"
)

// binField is a big-endian integer field inside binary stream data that tabula parses.
type binField struct {
	off, width int
	name       string
	group      string // one directory record / one table header = one group (same-group doubles)
}

// sfntFields walks a TrueType/OpenType program (the only binary structure tabula reads out of
// stream data: font/truetype.go parseTrueTypeTables, parseHeadTable, parseHmtxTable,
// parseCmapTable, parseCmapFormat4) and lists every integer the code reads: the offset table,
// every table directory record, head.unitsPerEm, hhea.numberOfHMetrics, the hmtx metrics, the cmap
// header, its encoding records and the format-4 subtable header with its endCode/startCode arrays.
// Returns nil if b is not an sfnt.
func sfntFields(b []byte) []binField {
	if len(b) < 12 || !(binary.BigEndian.Uint32(b) == 0x00010000 || string(b[:4]) == "OTTO" || string(b[:4]) == "true") {
		return nil
	}
	var fs []binField
	add := func(off, w int, name, group string) {
		if off >= 0 && off+w <= len(b) {
			fs = append(fs, binField{off, w, name, group})
		}
	}
	add(0, 4, "sfntVersion", "offsettable")
	add(4, 2, "numTables", "offsettable")
	add(6, 2, "searchRange", "offsettable")
	add(8, 2, "entrySelector", "offsettable")
	add(10, 2, "rangeShift", "offsettable")
	n := int(binary.BigEndian.Uint16(b[4:]))
	tabs := map[string][2]int{}
	for i := 0; i < n && 12+16*i+16 <= len(b); i++ {
		r := 12 + 16*i
		tag := string(b[r : r+4])
		g := "rec:" + tag
		add(r+4, 4, "checksum", g)
		add(r+8, 4, "offset", g)
		add(r+12, 4, "length", g)
		tabs[tag] = [2]int{int(binary.BigEndian.Uint32(b[r+8:])), int(binary.BigEndian.Uint32(b[r+12:]))}
	}
	if t, ok := tabs["head"]; ok {
		add(t[0]+18, 2, "unitsPerEm", "head")
	}
	if t, ok := tabs["hhea"]; ok {
		add(t[0]+34, 2, "numberOfHMetrics", "hhea")
	}
	if t, ok := tabs["hmtx"]; ok {
		for i := 0; i*4+4 <= t[1]; i++ {
			add(t[0]+4*i, 2, fmt.Sprintf("advanceWidth%d", i), "hmtx")
			add(t[0]+4*i+2, 2, fmt.Sprintf("lsb%d", i), "hmtx")
		}
	}
	if t, ok := tabs["cmap"]; ok && t[0]+4 <= len(b) {
		c := t[0]
		add(c, 2, "cmapVersion", "cmap")
		add(c+2, 2, "cmapNumTables", "cmap")
		nt := int(binary.BigEndian.Uint16(b[c+2:]))
		for i := 0; i < nt && c+4+8*i+8 <= len(b); i++ {
			e := c + 4 + 8*i
			g := fmt.Sprintf("cmaprec%d", i)
			add(e, 2, "platformID", g)
			add(e+2, 2, "encodingID", g)
			add(e+4, 4, "subtableOffset", g)
			s := c + int(binary.BigEndian.Uint32(b[e+4:]))
			if s+14 <= len(b) && binary.BigEndian.Uint16(b[s:]) == 4 {
				g2 := fmt.Sprintf("cmapsub%d", i)
				for k, nm := range []string{"format", "length", "language", "segCountX2", "searchRange", "entrySelector", "rangeShift"} {
					add(s+2*k, 2, nm, g2)
				}
				seg := int(binary.BigEndian.Uint16(b[s+6:])) / 2
				for k := 0; k < seg; k++ {
					add(s+14+2*k, 2, fmt.Sprintf("endCode%d", k), g2)
					add(s+14+2*seg+2+2*k, 2, fmt.Sprintf("startCode%d", k), g2)
				}
			}
		}
	}
	return fs
}

// binEdits: class 2 on the big-endian integer fields of a binary structure.
func binEdits(pi int, text []byte, fields []binField, prefix string) []edit {
	var out []edit
	for _, f := range fields {
		var vals []uint32
		if f.width == 2 {
			vals = []uint32{0, 1, 0x7FFF, 0x8000, 0xFFF0, 0xFFFF}
		} else {
			vals = []uint32{0, 1, 0x7FFFFFFF, 0x80000000, 0xFFFFFFF0, 0xFFFFFFFF}
		}
		for _, v := range vals {
			repl := make([]byte, f.width)
			if f.width == 2 {
				binary.BigEndian.PutUint16(repl, uint16(v))
			} else {
				binary.BigEndian.PutUint32(repl, v)
			}
			if string(repl) == string(text[f.off:f.off+f.width]) {
				continue
			}
			out = append(out, edit{part: pi, s: f.off, e: f.off + f.width, repl: repl, class: "numbin:" + f.name,
				val: fmt.Sprintf("0x%X", v), group: prefix + "|" + f.group})
		}
	}
	return out
}
